import PlumVerif.Generated.Consts
import PlumVerif.Generated.Params
import PlumVerif.Model.Basic
/-
C05 (second half) — parameter blocks.

Model of `helpers/parameter.py` (`unpack_parameter`, `check_parameter`) and of the three
parameter-block decoders (`structures/ecomax_parameters.py`, `mixer_parameters.py`,
`thermostat_parameters.py`) as they are in /repo now (after fix D5).

The WIRE LAYOUT is written once, as encoders over abstract message records
(`encodeEcomax`, `encodeMixer`, `encodeThermo`) — this is the specification.  The decoders
work on remainders (`message[offset:]` is `msg.drop offset`) and return the decoded value
together with the unconsumed remainder, or the class of the Python exception raised.
Python's lenient slicing (`data[a:b]` on short input) is `take`/`drop`; raising indexing
(`message[i]`, `THERMOSTAT_PARAMETERS[i]`) is `Err.index`.
-/
namespace PlumVerif.P2

/-- the Python exception classes these decoders can raise -/
inductive Err
  | index     -- IndexError
  | unbound   -- UnboundLocalError (thermostat parameters without an owning device)
  | struct    -- struct.error
  | value     -- ValueError (incl. UnicodeDecodeError)
deriving Repr, DecidableEq

/-- (value, min, max) -/
abbrev Triple := Nat × Nat × Nat
/-- one parameter slot of a block: `none` is an undefined hole (all bytes 0xFF) -/
abbrev Slot := Option Triple
abbrev Params := List (Nat × Triple)
abbrev Blocks := List (Nat × Params)

def undef : Byte := Gen.byteUndefined.toUInt8

/-- `unpack_parameter(data, offset, size)` on the remainder `r = data[offset:]`:
`check_parameter` is `any(x != 0xFF for x in data[offset:offset+3*size])`; the three fields are
little-endian `size`-byte integers (`int.from_bytes` of possibly short slices). -/
def unpackParam (size : Nat) (r : List Byte) : Option Triple :=
  if (r.take (3 * size)).all (· == undef) then none
  else some (decodeLE (r.take size), decodeLE ((r.drop size).take size),
             decodeLE ((r.drop (2 * size)).take size))

/-- `for index in range(idx, idx+n)`: look the width up (`sizeOf index`, raising IndexError
where the description table ends), unpack, advance by `3 * size`; holes are skipped. -/
def decodeRun (sizeOf : Nat → Option Nat) : Nat → Nat → List Byte → Except Err (Params × List Byte)
  | 0, _, r => .ok ([], r)
  | n + 1, idx, r =>
    match sizeOf idx with
    | none => .error .index
    | some sz =>
      match decodeRun sizeOf n (idx + 1) (r.drop (3 * sz)) with
      | .error e => .error e
      | .ok (ps, r') =>
        .ok ((match unpackParam sz r with | some t => (idx, t) :: ps | none => ps), r')

/-- `for index in range(devices)`: one run per sub-device, all over the same index range,
the offset threaded through; a sub-device without any defined parameter is not listed. -/
def decodeBlocks (sizeOf : Nat → Option Nat) (start n : Nat) :
    Nat → Nat → List Byte → Except Err (Blocks × List Byte)
  | 0, _, r => .ok ([], r)
  | k + 1, t, r =>
    match decodeRun sizeOf n start r with
    | .error e => .error e
    | .ok (ps, r1) =>
      match decodeBlocks sizeOf start n k (t + 1) r1 with
      | .error e => .error e
      | .ok (bs, r2) => .ok ((if ps.isEmpty then bs else (t, ps) :: bs), r2)

/-! ### wire layout (specification): slots, runs -/

def encSlot (size : Nat) : Slot → List Byte
  | none => List.replicate (3 * size) undef
  | some (v, mn, mx) => encodeLE v size ++ encodeLE mn size ++ encodeLE mx size

/-- a defined slot fits its width and is not the hole pattern -/
def wfSlot (size : Nat) : Slot → Bool
  | none => true
  | some (v, mn, mx) =>
    decide (v < 256 ^ size) && decide (mn < 256 ^ size) && decide (mx < 256 ^ size)
      && (encSlot size (some (v, mn, mx))).any (· != undef)

/-- slots of a run, slot `k` having the width of index `idx + k` -/
def encRun (sizeOf : Nat → Option Nat) : Nat → List Slot → List Byte
  | _, [] => []
  | idx, s :: ss => encSlot ((sizeOf idx).getD 1) s ++ encRun sizeOf (idx + 1) ss

def wfRun (sizeOf : Nat → Option Nat) : Nat → List Slot → Bool
  | _, [] => true
  | idx, s :: ss =>
    (match sizeOf idx with | some sz => wfSlot sz s | none => false) && wfRun sizeOf (idx + 1) ss

/-- the value a run stands for: the defined slots with their indexes -/
def valRun : Nat → List Slot → Params
  | _, [] => []
  | idx, none :: ss => valRun (idx + 1) ss
  | idx, some t :: ss => (idx, t) :: valRun (idx + 1) ss

def valBlocks (start : Nat) : Nat → List (List Slot) → Blocks
  | _, [] => []
  | t, b :: bs =>
    if (valRun start b).isEmpty then valBlocks start (t + 1) bs
    else (t, valRun start b) :: valBlocks start (t + 1) bs

def one : Nat → Option Nat := fun _ => some 1

/-! ### ecoMAX parameters: `[b0, start, count] ++ count × triple` -/

structure EcomaxMsg where
  b0 : Byte
  start : Byte
  slots : List Slot
deriving Repr

def encodeEcomax (m : EcomaxMsg) : List Byte :=
  [m.b0, m.start, m.slots.length.toUInt8] ++ encRun one m.start.toNat m.slots

def wfEcomax (m : EcomaxMsg) : Bool := decide (m.slots.length < 256) && wfRun one m.start.toNat m.slots

def valEcomax (m : EcomaxMsg) : Params := valRun m.start.toNat m.slots

def decodeEcomax : List Byte → Except Err (Params × List Byte)
  | _ :: s :: c :: r => decodeRun one c.toNat s.toNat r
  | _ => .error .index

/-! ### mixer parameters: `[b0, start, count, mixers] ++ mixers × count × triple` -/

structure MixerMsg where
  b0 : Byte
  start : Byte
  count : Byte
  blocks : List (List Slot)
deriving Repr

def encodeMixer (m : MixerMsg) : List Byte :=
  [m.b0, m.start, m.count, m.blocks.length.toUInt8] ++ m.blocks.flatMap (encRun one m.start.toNat)

def wfMixer (m : MixerMsg) : Bool :=
  decide (m.blocks.length < 256) &&
    m.blocks.all (fun b => decide (b.length = m.count.toNat) && wfRun one m.start.toNat b)

def valMixer (m : MixerMsg) : Blocks := valBlocks m.start.toNat 0 m.blocks

def decodeMixer : List Byte → Except Err (Blocks × List Byte)
  | _ :: s :: c :: k :: r => decodeBlocks one s.toNat c.toNat k.toNat 0 r
  | _ => .error .index

/-! ### thermostat parameters: `[b0, start, count] ++ profile triple ++ T × per × triple(size)`

`T` is not on the wire: it is `ATTR_THERMOSTATS_AVAILABLE` of the owning device.  The code reads,
for each thermostat, the indexes `range(start, (start + count) // T)` (DESIGN.md section 5: the
layout quirk is specified as the code has it), widths from `THERMOSTAT_PARAMETERS[index].size`. -/

def thermoSize (i : Nat) : Option Nat := (Gen.thermostat[i]?).map (·.size)

inductive ThermoVal
  | unavailable                       -- `{thermostat_parameters: None}`
  | val (profile : Option Triple) (blocks : Blocks)
deriving Repr, DecidableEq

structure ThermoMsg where
  b0 : Byte
  start : Byte
  count : Byte
  profile : Slot
  blocks : List (List Slot)          -- one list per thermostat
deriving Repr

def encodeThermo (m : ThermoMsg) : List Byte :=
  [m.b0, m.start, m.count] ++ encSlot 1 m.profile ++ m.blocks.flatMap (encRun thermoSize m.start.toNat)

/-- slots per thermostat as the code computes them -/
def thermoPer (start count T : Nat) : Nat := (start + count) / T - start

def wfThermo (m : ThermoMsg) : Bool :=
  decide (0 < m.blocks.length) && wfSlot 1 m.profile &&
    m.blocks.all (fun b =>
      decide (b.length = thermoPer m.start.toNat m.count.toNat m.blocks.length) &&
        wfRun thermoSize m.start.toNat b)

def valThermo (m : ThermoMsg) : ThermoVal := .val m.profile (valBlocks m.start.toNat 0 m.blocks)

/-- `thermostats = none`: no owning device (`frame.handler is None`) -/
def decodeThermo (thermostats : Option Nat) (msg : List Byte) : Except Err (ThermoVal × List Byte) :=
  match thermostats with
  | some 0 => .ok (.unavailable, msg)
  | _ =>
    match msg with
    | _ :: s :: c :: r =>
      let profile := unpackParam 1 r
      match thermostats with
      | none => .error .unbound
      | some T =>
        match decodeBlocks thermoSize s.toNat (thermoPer s.toNat c.toNat T) T 0 (r.drop 3) with
        | .error e => .error e
        | .ok (bs, r') => .ok (.val profile bs, r')
    | _ => .error .index

end PlumVerif.P2

import PlumVerif.Model.Entry
import PlumVerif.Spec.C10
/- line-protocol front end for the C10 interleaving machine

  c10 <lk:0|1> <cr> <ev> …
      cr = addresses that have a device class, separated by "," (or "-")
      ev = F<a>:<m> (m frames from address a) | R (the oldest pending class loading completes /
           raises) | G<a> (a user get() for the name of address a) | C (connection lost and re-established) | T<a> (a get() for a with a timeout that expires at once)
      -> one snapshot per event, separated by " ; ":  held created setups pub disp handled gets
         (pub, disp: - | a.d,…;  handled: - | f.d,…;  gets: - | w|d,…), `reject` for an event the
         machine does not accept (nothing to release, or no fixpoint within the pass bound); the
         replay stops there
  c10judge <cr> <fa> <ga> <snapshot> ; <snapshot> …   -> pass | fail@<k> | fail@final   (C10.spec)
      fa / ga = addresses of the frames fed / of the get() calls, separated by "," (or "-")
-/
namespace PlumVerif.Entry

def showList (xs : List String) : String := if xs.isEmpty then "-" else String.intercalate "," xs

def showPairs (ps : List (Nat × Nat)) : String := showList (ps.map fun p => s!"{p.1}.{p.2}")

def Snap.show (o : Snap) : String :=
  let gets := showList (o.gets.map fun g => match g with | some d => toString d | none => "w")
  s!"{o.held} {o.created} {o.setups} {showPairs o.published} {showPairs o.dispatched} {showPairs o.handled} {gets}"

def parseEv (w : String) : Option Ev :=
  if w = "R" then some .release
  else if w = "C" then some .reconnect
  else if w.startsWith "T" then (w.drop 1).toNat?.map .timedOut
  else if w.startsWith "G" then (w.drop 1).toNat?.map .get
  else if w.startsWith "F" then
    match (w.drop 1).toString.splitOn ":" with
    | [a, m] => do
      let a ← a.toNat?; let m ← m.toNat?
      if m = 0 then none else pure (.feed a m)
    | _ => none
  else none

def parseList (w : String) (f : String → Option α) : Option (List α) :=
  if w = "-" then some [] else (w.splitOn ",").mapM f

def parsePair (w : String) : Option (Nat × Nat) :=
  match w.splitOn "." with
  | [a, b] => do let a ← a.toNat?; let b ← b.toNat?; pure (a, b)
  | _ => none

def parseSnap : List String → Option Snap
  | [held, created, setups, pub, disp, hand, gets] => do
    let held ← held.toNat?; let created ← created.toNat?; let setups ← setups.toNat?
    let pub ← parseList pub parsePair
    let disp ← parseList disp parsePair
    let hand ← parseList hand parsePair
    let gets ← parseList gets fun w => if w = "w" then some none else (w.toNat?).map some
    pure { held, created, setups, published := pub, dispatched := disp, handled := hand, gets }
  | _ => none

/-- split a word list at ";" -/
def splitSemi (ws : List String) : List (List String) :=
  ws.foldr (fun w acc =>
    match acc with
    | [] => if w = ";" then [[], []] else [[w]]
    | g :: gs => if w = ";" then [] :: g :: gs else (w :: g) :: gs) []

def judge (fa ga : List Nat) (cr : Nat → Bool) (snaps : List Snap) : String :=
  match snaps.findIdx? (fun o => !C10.snapOk fa ga o) with
  | some k => s!"fail@{k}"
  | none => if C10.spec fa ga cr snaps then "pass" else "fail@final"

def entryOps : List String → Option String
  | "c10" :: lk :: cr :: evs => do
    let lk ← if lk = "1" then some true else if lk = "0" then some false else none
    let cr ← parseList cr String.toNat?
    let evs ← evs.mapM parseEv
    if evs.isEmpty then none
    pure (String.intercalate " ; " ((replay lk (fun a => cr.contains a) evs).map fun
      | some o => o.show
      | none => "reject"))
  | "c10judge" :: cr :: fa :: ga :: rest => do
    let cr ← parseList cr String.toNat?
    let fa ← parseList fa String.toNat?
    let ga ← parseList ga String.toNat?
    let snaps ← (splitSemi rest).mapM parseSnap
    pure (judge fa ga (fun a => cr.contains a) snaps)
  | _ => none

end PlumVerif.Entry

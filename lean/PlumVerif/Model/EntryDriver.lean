import PlumVerif.Model.Entry
import PlumVerif.Spec.C10
/- line-protocol front end for the C10 interleaving machine

  c10 <lk:0|1> <ev> …            ev = F<m> (feed m frames) | R (release oldest import) | G (user get)
      -> one snapshot per event, separated by " ; ":  held created setups pub disp handled gets
         (pub: - | n;  disp: - | n,n;  handled: - | f.d,f.d;  gets: - | w|n,…), `reject` for an
         event the machine does not accept (the replay stops there)
  c10judge <frames> <snapshot> ; <snapshot> …   -> pass | fail@<k> | fail@final   (C10.spec)
-/
namespace PlumVerif.Entry

def showList (xs : List String) : String := if xs.isEmpty then "-" else String.intercalate "," xs

def Snap.show (o : Snap) : String :=
  let pub := match o.published with | some d => toString d | none => "-"
  let disp := showList (o.dispatched.map toString)
  let hand := showList (o.handled.map fun p => s!"{p.1}.{p.2}")
  let gets := showList (o.gets.map fun g => match g with | some d => toString d | none => "w")
  s!"{o.held} {o.created} {o.setups} {pub} {disp} {hand} {gets}"

def parseEv (w : String) : Option Ev :=
  if w = "R" then some .release
  else if w = "G" then some .get
  else if w.startsWith "F" then do
    let m ← (w.drop 1).toNat?
    if m = 0 then none else pure (.feed m)
  else none

def parseList (w : String) (f : String → Option α) : Option (List α) :=
  if w = "-" then some [] else (w.splitOn ",").mapM f

def parseSnap : List String → Option Snap
  | [held, created, setups, pub, disp, hand, gets] => do
    let held ← held.toNat?; let created ← created.toNat?; let setups ← setups.toNat?
    let pub ← if pub = "-" then some none else (pub.toNat?).map some
    let disp ← parseList disp String.toNat?
    let hand ← parseList hand fun w =>
      match w.splitOn "." with
      | [a, b] => do let a ← a.toNat?; let b ← b.toNat?; pure (a, b)
      | _ => none
    let gets ← parseList gets fun w => if w = "w" then some none else (w.toNat?).map some
    pure { held, created, setups, published := pub, dispatched := disp, handled := hand, gets }
  | _ => none

/-- split a word list at ";" -/
def splitSemi (ws : List String) : List (List String) :=
  ws.foldr (fun w acc =>
    match acc with
    | [] => if w = ";" then [[], []] else [[w]]
    | g :: gs => if w = ";" then [] :: g :: gs else (w :: g) :: gs) []

def judge (frames : Nat) (snaps : List Snap) : String :=
  match snaps.findIdx? (fun o => !C10.snapOk o) with
  | some k => s!"fail@{k}"
  | none => if C10.spec frames snaps then "pass" else "fail@final"

def entryOps : List String → Option String
  | "c10" :: lk :: evs => do
    let lk ← if lk = "1" then some true else if lk = "0" then some false else none
    let evs ← evs.mapM parseEv
    if evs.isEmpty then none
    pure (String.intercalate " ; " ((replay lk replay0 evs).map fun
      | some o => o.show
      | none => "reject"))
  | "c10judge" :: frames :: rest => do
    let frames ← frames.toNat?
    let snaps ← (splitSemi rest).mapM parseSnap
    pure (judge frames snaps)
  | _ => none

end PlumVerif.Entry

import PlumVerif.Model.FrameObject
import PlumVerif.Model.PayloadDriver
/-
line-protocol front end for the frame-object state machine and the FrameWriter model.

  obj <a.b.c> <code> <rc> <sd> <et> <ev> <message hex|-|_> <data dict|_> <op> …
        a.b.c = numeric software version of the package (default VersionInfo)
        op: gd | gm | b | l | sd=<dict> | sm=<hex|->
        dict: `{}` or `key~val;key~val;…` (sorted by key)
              val: i<int> | N | t<text> | S<schedule word> | n<net fields joined by '|'> | v<version fields joined by '|'>
      → one word per op:  d:<dict> | m:<hex> | b:<hex> | l:<n> | ok | E:<error>
  fw write <hex|E> <drain: ok|os|timeout|other>          → events ; result
  fw close <close: ok|os|timeout|other> <wait: …>        → events ; result
-/
namespace PlumVerif
open Obj

def splitFirst (s : String) (sep : Char) : String × Option String :=
  match s.splitOn (String.singleton sep) with
  | [] => (s, none)
  | [a] => (a, none)
  | a :: rest => (a, some (String.intercalate (String.singleton sep) rest))

def parseNetWords (ws : List String) : Option NetInfo :=
  match ws with
  | [eth, est, wlan, wst, ssid, enc, sig, srv] => do
    let e ← parseHex eth; let w ← parseHex wlan; let ssid ← parseHex ssid
    let eip ← ip4Of (e.take 4); let em ← ip4Of ((e.drop 4).take 4); let eg ← ip4Of (e.drop 8)
    let wip ← ip4Of (w.take 4); let wm ← ip4Of ((w.drop 4).take 4); let wg ← ip4Of (w.drop 8)
    let est ← flagOf est; let wst ← flagOf wst; let srv ← flagOf srv
    let enc ← byteOfWord enc; let sig ← byteOfWord sig
    pure ⟨⟨eip, em, eg, est⟩, ⟨wip, wm, wg, wst, ssid, enc, sig⟩, srv⟩
  | _ => none

def parseVerWords (ws : List String) : Option VersionInfo :=
  match ws with
  | [a, b, c, tag, sv, dev, sig] => do
    let a ← a.toNat?; let b ← b.toNat?; let c ← c.toNat?; let sv ← sv.toNat?
    let tag ← parseHex tag; let dev ← parseHex dev; let sig ← parseHex sig
    pure ⟨a, b, c, tag, sv, dev, sig⟩
  | _ => none

def parseDVal (w : String) : Option DVal :=
  match w.toList with
  | 'i' :: r => (String.ofList r).toInt?.map DVal.int
  | ['N'] => some DVal.none
  | 't' :: r => some (DVal.str (String.ofList r))
  | 'S' :: r => do
    let s ← parseSched (String.ofList r)
    s.map DVal.sched
  | 'n' :: r => (parseNetWords ((String.ofList r).splitOn "|")).map DVal.net
  | 'v' :: r => (parseVerWords ((String.ofList r).splitOn "|")).map DVal.ver
  | _ => none

def parseDict (w : String) : Option Dict :=
  if w = "{}" then some []
  else (w.splitOn ";").mapM fun kv =>
    match splitFirst kv '~' with
    | (k, some v) => (parseDVal v).map fun x => (k, x)
    | _ => none

def showDVal : DVal → String
  | .int v => s!"i{v}"
  | .none => "N"
  | .str s => "t" ++ s
  | .sched s => "S" ++ (if s.isEmpty then "-" else showSched s)
  | .net n => "n" ++ (showNet n).replace " " "|"
  | .ver v => "v" ++ (showVersion v).replace " " "|"

def showDict (d : Dict) : String :=
  if d.isEmpty then "{}" else String.intercalate ";" (d.map fun p => p.1 ++ "~" ++ showDVal p.2)

def parseOp (w : String) : Option (Op Dict) :=
  if w = "gd" then some .getData
  else if w = "gm" then some .getMessage
  else if w = "b" then some .bytes
  else if w = "l" then some .len
  else match splitFirst w '=' with
    | ("sd", some d) => (parseDict d).map Op.setData
    | ("sm", some h) => (parseHex h).map Op.setMessage
    | _ => none

/-- `hr=<int>` / `hs=` / `ht=` / `hv=`: assignment of recipient / sender / econet type / econet version -/
def parseHOp (w : String) : Option (HOp Dict) :=
  match splitFirst w '=' with
  | ("hr", some v) => v.toInt?.map (HOp.hdr .rcpt)
  | ("hs", some v) => v.toInt?.map (HOp.hdr .sender)
  | ("ht", some v) => v.toInt?.map (HOp.hdr .etype)
  | ("hv", some v) => v.toInt?.map (HOp.hdr .ever)
  | _ => (parseOp w).map HOp.op

def showObjErr : ObjErr → String
  | .build .frameData => "E:frameData"
  | .build .value => "E:value"
  | .build .overflow => "E:overflow"
  | .struct => "E:struct"
  | .decode => "E:decode"
  | .type => "E:type"

def showObjOut : Out Dict → String
  | .data d => "d:" ++ showDict d
  | .message m => "m:" ++ showHex m
  | .bytes b => "b:" ++ showHex b
  | .len n => s!"l:{n}"
  | .done => "ok"
  | .raised e => showObjErr e

def parseExc (w : String) : Option (Option Writer.Exc) :=
  if w = "ok" then some none
  else if w = "os" then some (some .os)
  else if w = "timeout" then some (some .timeout)
  else if w = "other" then some (some .other)
  else none

def showEv : Writer.Ev → String
  | .write b => "write:" ++ showHex b
  | .drain => "drain"
  | .close => "close"
  | .waitClosed => "wait_closed"

def showWriterRes : Writer.Res → String
  | .ok => "ok"
  | .raised .os => "raised:os"
  | .raised .timeout => "raised:timeout"
  | .raised .other => "raised:other"
  | .frameError e => "frame:" ++ showObjErr e

def showWriter (r : List Writer.Ev × Writer.Res) : String :=
  (if r.1.isEmpty then "-" else String.intercalate "," (r.1.map showEv)) ++ " ; " ++ showWriterRes r.2

def objOps : List String → Option String
  | "obj" :: sw :: code :: rc :: sd :: et :: ev :: msg :: data :: ops => do
    let sw ← match sw.splitOn "." with
      | [a, b, c] => do pure ((← a.toNat?), (← b.toNat?), (← c.toNat?))
      | _ => none
    let code ← code.toNat?
    if ¬ objectKind code then none else
    let rc ← rc.toInt?; let sd ← sd.toInt?; let et ← et.toInt?; let ev ← ev.toInt?
    let msg ← if msg = "_" then some none else (parseHex msg).map some
    let data ← if data = "_" then some none else (parseDict data).map some
    let ops ← ops.mapM parseHOp
    let outs := (runH (codecOf sw code) (construct code rc sd et ev msg data) ops).2
    pure (if outs.isEmpty then "-" else String.intercalate " " (outs.map showObjOut))
  | ["fw", "write", b, d] => do
    let d ← parseExc d
    let fb ← if b = "E" then some (.error ObjErr.struct) else (parseHex b).map Except.ok
    pure (showWriter (Writer.write fb d))
  | ["fw", "close", c, w] => do
    let c ← parseExc c; let w ← parseExc w
    pure (showWriter (Writer.close c w))
  | _ => none

end PlumVerif

import PlumVerif.Model.FilterChain
import PlumVerif.Model.FiltersDriver
/-
Line-protocol front end for filter call results and dispatches through filter-wrapped subscribers (C13).

  c13fr <filter> <ret> <call>*       -> per call `<outcome>=<returned value or N>`, `;`-joined (`.` when no calls)
  c13chain <subs> <call>*            -> per dispatch `<outcome>,<outcome>,…=<stored value>`, `;`-joined (`.` when none)

  subs : `-` | <filter>/<ret>+<filter>/<ret>+…    (filter, call, val, outcome as in FiltersDriver; chains A>B)
  ret  : k (returns None) | a<int> (value + int sixteenths) | c<val> (a fixed value)
-/
namespace PlumVerif.C13
open PlumVerif.C20

def parseRet (s : String) : Option CbRet :=
  match s.toList with
  | ['k'] => some .keep
  | 'a' :: r => (String.ofList r).toInt?.map .add
  | 'c' :: r => match parseVal (String.ofList r) with
    | some .none => none
    | some v => some (.const v)
    | none => none
  | _ => none

def parseSub (s : String) : Option FSub :=
  match s.splitOn "/" with
  | [f, r] => do pure ⟨← parseFilter f, ← parseRet r, []⟩
  | _ => none

def parseSubs (s : String) : Option (List FSub) :=
  if s = "-" then some [] else (s.splitOn "+").mapM parseSub

def showRes : Option Val → String
  | some v => showVal v
  | none => "N"

/-- outcomes and returned values of a fresh filter object over a call list -/
def resultsOf (f : Filter) (r : CbRet) : List Call → List Call → List String
  | _, [] => []
  | seen, c :: cs =>
    let s := f.machine.state seen
    (showOut (f.machine.step s c).2 ++ "=" ++ showRes (f.stepR s c r.apply)) :: resultsOf f r (seen ++ [c]) cs

def chainOps : List String → Option String
  | "c13fr" :: f :: r :: calls => do
    let f ← parseFilter f
    let r ← parseRet r
    let cs ← calls.mapM parseCall
    pure (if cs.isEmpty then "." else String.intercalate ";" (resultsOf f r [] cs))
  | "c13chain" :: subs :: calls => do
    let subs ← parseSubs subs
    let cs ← calls.mapM parseCall
    let rows := (dispatchAll subs cs).map fun (os, v) =>
      (if os.isEmpty then "-" else String.intercalate "," (os.map showOut)) ++ "=" ++ showVal v
    pure (if rows.isEmpty then "." else String.intercalate ";" rows)
  | _ => none

end PlumVerif.C13

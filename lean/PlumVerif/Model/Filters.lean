import PlumVerif.Model.Basic
import PlumVerif.Generated.Consts
/-
C20 — the callback filters of `pyplumio/filters.py` as Mealy machines over call sequences.

Values (`Val`): numbers are carried as *sixteenths* (`Int`): the harness generates numbers as
multiples of 1/16 below 10^6, for which binary floating point is exact and the relative
tolerance of `math.isclose` (1e-9 · 10^6 < 0.1) is inert; strings as their UTF-8 bytes; lists
of integers; parameter records `(value, min, max, pending_update)`.

The "no value yet" state of a filter is `none` of an `Option` — after fix 2888d1f the code
uses a unique sentinel object that no value can equal, so it is a separate constructor of the
state and not a value.

Call times are `Int` ticks (sixteenths of a second in the harness) of `time.monotonic()`.
-/
namespace PlumVerif.C20

inductive Val where
  | num (n : Int)
  | str (s : List UInt8)
  | list (xs : List Int)
  | param (v mn mx : Int) (pending : Bool)
  | bool (b : Bool)          -- Python `True` / `False`: numbers 1 / 0 in every comparison and sum
  | none                     -- Python `None` passed as a value
  deriving DecidableEq, Repr, Inhabited

/-- the numeric reading of a value (`SupportsFloat`), in sixteenths -/
def Val.numOf : Val → Option Int
  | .num n => some n
  | .bool b => some (if b then 16 else 0)
  | _ => Option.none

/-- what `Parameter._call_relational_method` makes of the other operand: numbers (and True / False)
go through `int()` (truncation towards zero), the strings "on" / "off" are 1 / 0; anything else is
`NotImplemented` -/
def Val.paramNorm : Val → Option Int
  | .num n => some (n.tdiv 16)
  | .bool b => some (if b then 1 else 0)
  | .str [111, 110] => some 1          -- "on"
  | .str [111, 102, 102] => some 0     -- "off"
  | _ => Option.none

/-- `math.isclose(a, b, abs_tol=TOLERANCE)` on sixteenths: `|a-b|/16 ≤ TOLERANCE`, with the
exact binary value of the constant in the source (`Props/C20.lean: close_iff` ties it to the
statement's 0.1) -/
def close (a b : Int) : Bool :=
  decide (Gen.toleranceDen * (a - b).natAbs ≤ 16 * Gen.toleranceNum)

/-- `_significantly_changed(old, new)` (filters.py:66-74).  Two parameters: `new.pending_update
or old.values != new.values`; two numbers: not close; otherwise `old.__ne__(new)`: for an OLD value
that is a parameter this is `Parameter.__eq__` negated — the parameter's value against the other
side normalised by `int()` / on-off (so `changed(Parameter(5), 5.9)` is false), truthy
`NotImplemented` for anything it cannot normalise; for values of different kinds otherwise (also a
number followed by a parameter: `float.__ne__(Parameter)`) the truthy `NotImplemented` object. -/
def changed : Val → Val → Bool
  | .param v mn mx _, .param v' mn' mx' p' => p' || !(v == v' && mn == mn' && mx == mx')
  | .param v _ _ _, y => match y.paramNorm with | some n => v != n | Option.none => true
  | .str a, .str b => a != b
  | .list a, .list b => a != b
  | .none, .none => false
  | x, y =>
    match x.numOf, y.numOf with
    | some a, some b => !close a b
    | _, _ => true

inductive Diff where
  | nothing            -- `_diffence_between` returned None
  | val (v : Val)
  | error              -- the subtraction raised
  deriving DecidableEq, Repr

/-- `_diffence_between(old, new)` (filters.py:86-97, after fix a09c8cd `new - old`).
Two lists: the elements of `new` not in `old`; two numbers: `new - old`; two parameters:
`Parameter.__sub__` looks `__sub__` up on `ParameterValues` and raises AttributeError (open
finding F4); anything else has no difference. -/
def difference : Val → Val → Diff
  | .list a, .list b => .val (.list (b.filter fun x => !a.contains x))
  | .param .., .param .. => .error
  -- number / on-off after a parameter: `new - old` is `float.__sub__(Parameter)` = NotImplemented, no `__rsub__`: TypeError;
  -- other kinds have no `__sub__` at all: no difference
  | .param .., y => match y with | .num _ | .bool _ => .error | _ => .nothing
  -- parameter after a number / on-off: `Parameter.__sub__(old)` = value - int(old), a Python int
  | .num n, .param v _ _ _ => .val (.num ((v - n.tdiv 16) * 16))
  | .bool b, .param v _ _ _ => .val (.num ((v - (if b then 1 else 0)) * 16))
  | _, .param .. => .nothing       -- a `str` / list / None old value has no usable `__sub__`
  | x, y =>
    match x.numOf, y.numOf with
    | some a, some b => .val (.num (b - a))
    | _, _ => .nothing

structure Call where
  t : Int
  v : Val
  deriving DecidableEq, Repr

inductive Out where
  | skip                 -- the wrapped callback was not awaited
  | deliver (v : Val)    -- the wrapped callback was awaited with `v`
  | raised               -- the filter call raised
  deriving DecidableEq, Repr

structure Machine where
  σ : Type
  init : σ
  step : σ → Call → σ × Out

namespace Machine

def run (m : Machine) : m.σ → List Call → List Out
  | _, [] => []
  | s, c :: cs => (m.step s c).2 :: run m (m.step s c).1 cs

def final (m : Machine) : m.σ → List Call → m.σ
  | s, [] => s
  | s, c :: cs => final m (m.step s c).1 cs

/-- outputs of a fresh filter, one per call -/
def outs (m : Machine) (cs : List Call) : List Out := m.run m.init cs

/-- state of a fresh filter after the calls -/
def state (m : Machine) (cs : List Call) : m.σ := m.final m.init cs

end Machine

/-- what reached the wrapped callback: (call time, value), in order -/
def delivered : List Call → List Out → List Call
  | c :: cs, .deliver v :: os => ⟨c.t, v⟩ :: delivered cs os
  | _ :: cs, _ :: os => delivered cs os
  | _, _ => []

/-- `_OnChange.__call__` (filters.py:128-143); state = last delivered value -/
def onChangeStep (s : Option Val) (c : Call) : Option Val × Out :=
  match s with
  | none => (some c.v, .deliver c.v)
  | some o => if changed o c.v then (some c.v, .deliver c.v) else (s, .skip)

def onChange : Machine := ⟨Option Val, none, onChangeStep⟩

/-- `_Debounce.__call__` (filters.py:175-190); state = (last delivered, `_calls`) -/
def debounceStep (n : Nat) (s : Option Val × Nat) (c : Call) : (Option Val × Nat) × Out :=
  let calls := match s.1 with
    | none => s.2 + 1
    | some o => if changed o c.v then s.2 + 1 else 0
  if s.1.isNone || decide (n ≤ calls) then ((some c.v, 0), .deliver c.v) else ((s.1, calls), .skip)

def debounce (n : Nat) : Machine := ⟨Option Val × Nat, (none, 0), debounceStep n⟩

/-- `_Throttle.__call__` (filters.py:226-236); state = `_last_called` -/
def throttleStep (secs : Int) (s : Option Int) (c : Call) : Option Int × Out :=
  match s with
  | none => (some c.t, .deliver c.v)
  | some l => if secs ≤ c.t - l then (some c.t, .deliver c.v) else (s, .skip)

def throttle (secs : Int) : Machine := ⟨Option Int, none, throttleStep secs⟩

/-- `_Delta.__call__` (filters.py:257-276); state = last recorded value.  The new value is
recorded before the difference is computed, so it stays recorded when the subtraction raises. -/
def deltaStep (s : Option Val) (c : Call) : Option Val × Out :=
  match s with
  | none => (some c.v, .skip)
  | some o =>
    if changed o c.v then
      (some c.v, match difference o c.v with
        | .val d => .deliver d
        | .nothing => .skip
        | .error => .raised)
    else (s, .skip)

def delta : Machine := ⟨Option Val, none, deltaStep⟩

/-- `_Aggregate.__call__` (filters.py:310-328); state = (`_sum`, `_last_update`); `t0` is the
clock reading when the filter object was built.  A non-numeric value raises ValueError before
anything is changed. -/
def aggregateStep (secs : Int) (s : Int × Int) (c : Call) : (Int × Int) × Out :=
  match c.v.numOf with
  | some n =>
    if secs ≤ c.t - s.2 then ((0, c.t), .deliver (.num (s.1 + n))) else ((s.1 + n, s.2), .skip)
  | Option.none => (s, .raised)

def aggregate (secs t0 : Int) : Machine := ⟨Int × Int, (0, t0), aggregateStep secs⟩

/-- the user predicates the harness passes to `custom` -/
inductive Pred where
  | always
  | never
  | numGe (k : Int)     -- a number ≥ k sixteenths
  | notNum
  deriving DecidableEq, Repr

def Pred.eval : Pred → Val → Bool
  | .always, _ => true
  | .never, _ => false
  | .numGe k, v => match v.numOf with | some n => decide (k ≤ n) | Option.none => false
  | .notNum, v => v.numOf.isNone

/-- `_Custom.__call__` (filters.py:349-352) -/
def customStep (p : Pred) (_ : Unit) (c : Call) : Unit × Out :=
  ((), if p.eval c.v then .deliver c.v else .skip)

def custom (p : Pred) : Machine := ⟨Unit, (), customStep p⟩

/-- `a(b(callback))`: filter `a` is called; what it delivers is the call of filter `b` (at the
same clock reading).  Every filter updates its own state before awaiting its callback, except
`aggregate`, whose callback never raises on what an aggregate delivers (a number). -/
def chainStep (a b : Machine) (s : a.σ × b.σ) (c : Call) : (a.σ × b.σ) × Out :=
  match a.step s.1 c with
  | (sa, .deliver w) => ((sa, (b.step s.2 ⟨c.t, w⟩).1), (b.step s.2 ⟨c.t, w⟩).2)
  | (sa, .skip) => ((sa, s.2), .skip)
  | (sa, .raised) => ((sa, s.2), .raised)

def chain (a b : Machine) : Machine := ⟨a.σ × b.σ, (a.init, b.init), chainStep a b⟩

/-- a call to one of several filter OBJECTS built by the same factory expression around the same
callback (one logger subscribed to two events): `inst` says which object is called -/
structure ICall where
  inst : Nat
  call : Call
  deriving Repr

/-- every filter object has its own state: a call moves only the object it is made on -/
def multiRun (m : Machine) : (Nat → m.σ) → List ICall → List Out
  | _, [] => []
  | s, ic :: r =>
    (m.step (s ic.inst) ic.call).2 ::
      multiRun m (fun j => if j = ic.inst then (m.step (s ic.inst) ic.call).1 else s j) r

/-- outcomes of fresh filter objects, one per call -/
def multiOuts (m : Machine) (ics : List ICall) : List Out := multiRun m (fun _ => m.init) ics

/-- filter descriptions of the line protocol -/
inductive Filter where
  | onChange
  | debounce (n : Nat)
  | throttle (secs : Int)
  | delta
  | aggregate (secs t0 : Int)
  | custom (p : Pred)
  | chain (a b : Filter)
  deriving Repr

def Filter.machine : Filter → Machine
  | .onChange => C20.onChange
  | .debounce n => C20.debounce n
  | .throttle s => C20.throttle s
  | .delta => C20.delta
  | .aggregate s t0 => C20.aggregate s t0
  | .custom p => C20.custom p
  | .chain a b => C20.chain a.machine b.machine

/-- filters that hand on the value they were called with -/
def Filter.passThrough : Filter → Bool
  | .onChange | .debounce _ | .throttle _ | .custom _ => true
  | .chain a b => a.passThrough && b.passThrough
  | _ => false

end PlumVerif.C20

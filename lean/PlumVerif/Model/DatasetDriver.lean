import PlumVerif.Model.Dataset
/- line-protocol front end for the dataset / addressing model (C07) -/
namespace PlumVerif
open PlumVerif.Dataset PlumVerif.Scaling

namespace DatasetDriver

def parseDev (s : String) : Option Dev :=
  if s = "e" then some .ecomax
  else if s.startsWith "m" then (s.drop 1).toNat?.map Dev.mixer
  else if s.startsWith "t" then (s.drop 1).toNat?.map Dev.thermostat
  else none

/-- `E:<hex>` ecoMAX parameters, `M:<hex>` mixer parameters, `A:<n>` thermostats available,
`T:<hex>` thermostat parameters, `S:<hex>` schedules, `Z:<0|1>` state on/off,
`W:<dev>:<name>:<v>` accepted set -/
def parseEvent (s : String) : Option Event :=
  match s.splitOn ":" with
  | ["U"] => some .uid
  | ["E", h] => (parseHex h).map Event.ecomaxParams
  | ["M", h] => (parseHex h).map Event.mixerParams
  | ["T", h] => (parseHex h).map Event.thermostatParams
  | ["S", h] => (parseHex h).map Event.schedules
  | ["A", n] => n.toNat?.map Event.thermostatsAvailable
  | ["Z", "0"] => some (.state false)
  | ["Z", "1"] => some (.state true)
  | ["W", d, name, v] => do
    let d ← parseDev d
    let v ← v.toNat?
    pure (.set d name v)
  | _ => none

def kindTag : TKind → String
  | .ecomax => "ecomax" | .mixer => "mixer" | .thermostat => "thermostat"
  | .schedule => "schedule" | .control => "control" | .profile => "profile"

def showEntry (e : Entry) : String :=
  s!"{e.name}={kindTag e.kind}/{if e.switch then 1 else 0}/{e.index}/{e.triple.value}/{e.triple.min}/{e.triple.max}/{e.devIndex}/{e.offset}/{e.size}"

def insertSorted (e : Entry) : List Entry → List Entry
  | [] => [e]
  | x :: xs => if e.name < x.name then e :: x :: xs else x :: insertSorted e xs

def sortEntries (ds : DS) : List Entry := ds.foldl (fun acc e => insertSorted e acc) []

def showDS (label : String) (ds : DS) : String :=
  label ++ "{" ++ String.intercalate "," ((sortEntries ds).map showEntry) ++ "}"

def insertDev (p : Nat × DS) : List (Nat × DS) → List (Nat × DS)
  | [] => [p]
  | x :: xs => if p.1 < x.1 then p :: x :: xs else x :: insertDev p xs

def sortDevs (l : List (Nat × DS)) : List (Nat × DS) := l.foldl (fun acc p => insertDev p acc) []

def reqTag : ReqKind → String
  | .setEcomax => "SetEcomaxParameterRequest" | .setMixer => "SetMixerParameterRequest"
  | .setThermostat => "SetThermostatParameterRequest" | .ecomaxControl => "EcomaxControlRequest"
  | .setSchedule => "SetScheduleRequest"

def showOut : Out → String
  | .req r => reqTag r.kind ++ ":" ++ String.intercalate "." (r.payload.map toString)
  | .reqError => "reqerror"
  | .noParam => "noparam"
  | .decodeError => "decodeerror"

def showWorld (w : World) : String :=
  String.intercalate " " ([showDS "ecomax" w.ecomax] ++
    (sortDevs w.mixers).map (fun p => showDS s!"mixer{p.1}" p.2) ++
    (sortDevs w.thermostats).map (fun p => showDS s!"thermostat{p.1}" p.2))

end DatasetDriver
open DatasetDriver

def datasetOps : List String → Option String
  | "c07run" :: pt :: evs => do
    let pt ← (if pt = "P" then some Product.P else if pt = "I" then some Product.I else none)
    let evs ← evs.mapM parseEvent
    let (w, outs) := run pt {} evs
    pure ((if outs.isEmpty then "-" else String.intercalate "," (outs.map showOut)) ++ " | " ++ showWorld w)
  | _ => none

end PlumVerif

import PlumVerif.Model.DecodeRegdata
import PlumVerif.Model.DecodeMisc
/-
C05 — what a decode DEPENDS ON.  The payload decoders are pure functions; in the code two of them
read the OWNING DEVICE through `frame.handler` (structures/regulator_data.py: the schema the
device holds; structures/thermostat_parameters.py: the number of thermostats the device
reports).  This file states that dependence explicitly: one entry point for every decodable
kind, taking the payload and the decoding context.
-/
namespace PlumVerif
namespace Ctx5
open P2

/-- what the owning device contributes to a decode (`device = false`: the frame has no handler) -/
structure Ctx where
  device : Bool                       -- `frame.handler is not None`
  thermostats : Nat                   -- `device.get_nowait("thermostats_available", 0)`
  schema : List (Nat × Regd.Ty)       -- `device.get_nowait("regdata_schema", [])` as wire types
  product : Nat                       -- product type of the device (decides parameter NAMES later, in the device)

/-- the decodable frame kinds of the statement -/
inductive Kind
  | sensorData | regdata | regdataSchema
  | ecomaxParameters | mixerParameters | thermostatParameters
  | schedules | alerts | uid | password
deriving DecidableEq, Repr

inductive Out
  | sensorData (v : Option Val)
  | regdata (v : Option Val)
  | regdataSchema (v : Option (Val × List (Nat × Regd.Ty)))
  | ecomaxParameters (v : Except Err (Params × List Byte))
  | mixerParameters (v : Except Err (Blocks × List Byte))
  | thermostatParameters (v : Except Err (ThermoVal × List Byte))
  | schedules (v : Except Err (SchedVal × List Byte))
  | alerts (v : Except Err (AlertsVal × List Byte))
  | uid (v : Except Err (ProductVal × List Byte))
  | password (v : Except Err (Option (List Byte)))

/-- the thermostat count as the thermostat-parameters decoder sees it -/
def Ctx.count (c : Ctx) : Option Nat := if c.device then some c.thermostats else none
/-- the schema as the regulator-data decoder sees it -/
def Ctx.sch (c : Ctx) : List (Nat × Regd.Ty) := if c.device then c.schema else []

/-- `Frame(message = payload)` assigned to a device in state `ctx` (or to none), `.data` -/
def decode (k : Kind) (payload : List Byte) (ctx : Ctx) : Out :=
  match k with
  | .sensorData => .sensorData (Sens.decodeSensorData payload)
  | .regdata => .regdata (Regd.decodeRegdata ctx.sch payload)
  | .regdataSchema => .regdataSchema (Regd.decodeSchema payload)
  | .ecomaxParameters => .ecomaxParameters (decodeEcomax payload)
  | .mixerParameters => .mixerParameters (decodeMixer payload)
  | .thermostatParameters => .thermostatParameters (decodeThermo ctx.count payload)
  | .schedules => .schedules (decodeSched payload)
  | .alerts => .alerts (decodeAlerts payload)
  | .uid => .uid (decodeProduct payload)
  | .password => .password (decodePassword payload)

/-- the kinds whose decode reads the device -/
def Kind.readsDevice : Kind → Bool
  | .regdata | .thermostatParameters => true
  | _ => false

/-- observers used by the witnesses of real dependence -/
def Out.isUnbound : Out → Bool
  | .thermostatParameters (.error .unbound) => true
  | _ => false
def Out.isUnavailable : Out → Bool
  | .thermostatParameters (.ok (.unavailable, _)) => true
  | _ => false
def Out.hasRegdataKey : Out → Bool
  | .regdata (some (.record fs)) => fs.any (·.1 == "regdata")
  | _ => false

end Ctx5
end PlumVerif

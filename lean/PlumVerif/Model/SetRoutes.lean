import PlumVerif.Generated.Requests
import PlumVerif.Model.SetM
/-
C08 — the public set ROUTES as data.

`Gen.setRoutes` is produced by the translator: every public method of the parameter classes
(`Number`, `Switch` and their ecoMAX / mixer / thermostat / schedule subclasses) and of the device
classes (`Device.set`, `Device.set_nowait`, `EcoMAX.turn_on/off(+_nowait)`) is CALLED on a probe whose
base machine `Parameter.set` is a recorder, in every argument form, with a value, a number of
attempts, an interval and a device-level wait that are pairwise different and unlike any default.
A row says where each argument that reached the base machine came from.

This file says what a caller MEANS by each form (`meant`) and how a row turns a call into the
`call` event of the set machine `SetM` (`callOf`).  Import-free apart from generated tables.
-/
namespace PlumVerif.SetRoutes
open PlumVerif.SetM

structure Route where
  cls : String
  owner : Nat     -- 0 a parameter object, 1 a device (by name), 2 the EcoMAX on/off convenience
  method : Nat    -- 0 set, 1 set_nowait, 2 turn_on, 3 turn_off, 4 turn_on_nowait, 5 turn_off_nowait
  form : Nat      -- 0 f(v) 1 f(v, retries=r, timeout=t) 2 f(v, r, t) 3 f(v, timeout=t, retries=r) 4 f(v, r) 5 f(v, retries=r) 6 f(v, timeout=t) 7 f()
  vsrc : Nat
  rsrc : Nat
  tsrc : Nat
deriving Repr, DecidableEq, Inhabited

def routes : List Route :=
  Gen.setRoutes.map (fun (c, o, m, f, v, r, t) => ⟨c, o, m, f, v, r, t⟩)

/-- what the caller hands over; times in ms.  `wait` is the device-level `timeout` of
`Device.set(name, value, retries, timeout)`: the time to wait for the parameter to exist. -/
structure Args where
  value : Nat
  retries : Nat
  timeout : Nat
  wait : Nat
deriving Repr, DecidableEq, Inhabited

/-- the form hands a number of attempts over -/
def passesRetries (form : Nat) : Bool :=
  form == 1 || form == 2 || form == 3 || form == 4 || form == 5

/-- the form hands a retry interval over (a device-level `timeout` is not one) -/
def passesTimeout (owner form : Nat) : Bool :=
  owner == 0 && (form == 1 || form == 2 || form == 3 || form == 6)

def meantValue (method : Nat) (a : Args) : Nat :=
  if method ≤ 1 then a.value else if method = 2 ∨ method = 4 then 1 else 0

/-- the call the CALLER means: his value (on = 1 / off = 0 for the conveniences), his number of
attempts and his interval where the form carries them, the documented defaults otherwise -/
def meant (rt : Route) (a : Args) : Ev :=
  .call (meantValue rt.method a)
        (if passesRetries rt.form then a.retries else defaultRetries)
        (if passesTimeout rt.owner rt.form then a.timeout else defaultTimeoutMs)

/-- a source code of the probe table resolved against the caller's arguments -/
def resolve (a : Args) (src : Nat) : Option Nat :=
  if src = 1 then some a.value
  else if src = 2 then some a.retries
  else if src = 3 then some a.timeout
  else if src = 4 then some a.wait
  else if src ≥ 1000 ∧ src < 997000 then some (src - 1000)
  else none

/-- the call that reaches the set machine through the route, according to the probe -/
def callOf (rt : Route) (a : Args) : Option Ev :=
  match resolve a rt.vsrc, resolve a rt.rsrc, resolve a rt.tsrc with
  | some v, some r, some t => some (.call v r t)
  | _, _, _ => none

/-- the sources a route must have to forward what the caller means -/
def expectedSrc (rt : Route) : Nat × Nat × Nat :=
  (if rt.method ≤ 1 then 1 else if rt.method = 2 ∨ rt.method = 4 then 1001 else 1000,
   if passesRetries rt.form then 2 else 1000 + defaultRetries,
   if passesTimeout rt.owner rt.form then 3 else 1000 + defaultTimeoutMs)

def rowOk (rt : Route) : Bool :=
  decide (rt.method ≤ 5) && decide (rt.form ≤ 7) && decide (rt.owner ≤ 2) &&
  ((rt.method ≤ 1) == (rt.form ≤ 6)) &&
  decide ((rt.vsrc, rt.rsrc, rt.tsrc) = expectedSrc rt)

/-- number of probed rows of one (owner kind, method) -/
def count (owner method : Nat) : Nat :=
  (routes.filter (fun rt => rt.owner == owner && rt.method == method)).length

/-- the outputs of the set machine when the call is made through the route -/
def traceVia (rt : Route) (a : Args) (s0 : St) (es : List Ev) : Option (List Out) :=
  match callOf rt a with
  | some (.call v r T) => some (trace s0 v r T es)
  | _ => none

end PlumVerif.SetRoutes

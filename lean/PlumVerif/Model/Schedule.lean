import PlumVerif.Generated.Consts
import PlumVerif.Model.Basic
/-
Model of schedule editing and commit (C18):
* `ScheduleDay.set_state` / `_get_time_range` of pyplumio/helpers/schedule.py,
* `_split_byte`, `_join_bits`, `SchedulesStructure.encode / decode / _unpack_schedule` and
  `collect_schedule_data` of pyplumio/structures/schedules.py,
* `EcoMAX._add_schedules / _add_schedule_parameters` of pyplumio/devices/ecomax.py,
* `Schedule.__iter__ / commit` and `SetScheduleRequest.create_message`.

Parsing of the time strings is `datetime.strptime(s, "%H:%M")` (trusted): the model receives
what it produced, an (hour, minute) pair with hour < 24 and minute < 60, or `bad` when it
raised ValueError.  A schedule day is the list of its half-hour slots (48 for every day the
decoder produces; the theorems assume that length).
-/
namespace PlumVerif.Sched

/-! ### `ScheduleDay.set_state` -/

inductive TimeArg where
  | hm (h m : Nat)
  | bad
deriving DecidableEq, Repr

inductive Outcome where
  | ok
  | valueError
  | keyError     -- only from `Device.edit`: the device holds no such schedule
  | indexError   -- only on a day shorter than the addressed range (never a decoded, 48-slot day)
deriving DecidableEq, Repr

/-- `get_args(ScheduleState)` -/
def validStates : List String := ["on", "off", "day", "night"]
/-- `ON_STATES` -/
def onStates : List String := ["on", "day"]

/-- minutes per slot (`step`, default argument of `_get_time_range`) -/
def stepMin : Nat := 30

/-- `_get_time_range_cached`: the inclusive slot range `lo .. hi`, or `none` for ValueError
(unparsable time, or end not after start; an end of exactly 00:00 is read as 24:00 − step) -/
def timeRange (s e : TimeArg) : Option (Nat × Nat) :=
  match s, e with
  | .hm sh sm, .hm eh em =>
    let sMin := sh * 60 + sm
    let eMin := if eh = 0 ∧ em = 0 then 24 * 60 - stepMin else eh * 60 + em
    if eMin ≤ sMin then none else some (sMin / stepMin, eMin / stepMin)
  | _, _ => none

/-- `for index in range(lo, lo + n): intervals[index] = v` -/
def fillRange (day : List Bool) (lo n : Nat) (v : Bool) : List Bool :=
  (List.range' lo n).foldl (fun d i => d.set i v) day

/-- `set_state(state, start, end)`: the day afterwards and what was raised.
The state is validated first, the time range is computed before the first slot is written.
The slots are then written one by one: on a day with fewer than `hi + 1` slots the list
assignment raises IndexError at the first missing slot, AFTER the slots `lo .. len-1` have been
written (`List.set` past the end is a no-op, so `fillRange` is exactly that partial edit). -/
def setState (day : List Bool) (state : String) (s e : TimeArg) : List Bool × Outcome :=
  if validStates.contains state then
    match timeRange s e with
    | some (lo, hi) =>
      (fillRange day lo (hi + 1 - lo) (onStates.contains state), if hi < day.length then .ok else .indexError)
    | none => (day, .valueError)
  else (day, .valueError)

/-! ### bitmap codec -/

/-- `_split_byte`: most significant bit first -/
def splitByte (b : Byte) : List Bool := [7, 6, 5, 4, 3, 2, 1, 0].map fun i => b.toNat.testBit i

/-- `_join_bits`: `reduce(lambda acc, bit: (acc << 1) | bit, bits)` (on a non-empty list) -/
def joinBits (bs : List Bool) : Nat := bs.foldl (fun acc b => acc * 2 + b.toNat) 0

/-- `[l[i : i + n] for i in range(0, len(l), n)]` -/
def chunks {α : Type} (n : Nat) (l : List α) : List (List α) :=
  if _h : n = 0 ∨ l = [] then [] else l.take n :: chunks n (l.drop n)
termination_by l.length
decreasing_by
  have h1 : n ≠ 0 := fun e => _h (Or.inl e)
  have h2 : l ≠ [] := fun e => _h (Or.inr e)
  have := List.length_pos_iff.mpr h2
  simp only [List.length_drop]
  omega

def slotsPerDay : Nat := 48

/-- `_unpack_schedule`: all bits of the bitmap, cut into days of 48 slots -/
def decodeWeek (bm : List Byte) : List (List Bool) := chunks slotsPerDay (bm.flatMap splitByte)

def encodeDay (d : List Bool) : List Byte := (chunks 8 d).map fun c => (joinBits c).toUInt8

/-- the bitmap part of `SchedulesStructure.encode`: the days in iteration order, 8 slots a byte -/
def encodeWeek (w : List (List Bool)) : List Byte := w.flatMap encodeDay

/-! ### the response, the device, edits and commit -/

structure Entry where
  idx : Nat                  -- schedule index on the wire (position in `SCHEDULES`)
  switch : Nat               -- value of the schedule switch
  param : Option Nat         -- value of the schedule parameter; none for the undefined triple FF FF FF
  table : List (List Bool)   -- 7 × 48 as decoded, in wire order
deriving DecidableEq, Repr

def undefinedByte : Byte := Gen.byteUndefined.toUInt8

/-- the loop body of `SchedulesStructure.decode`, `n` entries; `none` = IndexError -/
def decodeEntries : Nat → List Byte → Option (List Entry)
  | 0, _ => some []
  | n + 1, data =>
    match data with
    | idx :: sw :: pv :: pmin :: pmax :: r =>
      if r.length < Gen.scheduleSize then none
      else
        let par := if pv = undefinedByte ∧ pmin = undefinedByte ∧ pmax = undefinedByte then none else some pv.toNat
        match decodeEntries n (r.drop Gen.scheduleSize) with
        | some es => some (⟨idx.toNat, sw.toNat, par, decodeWeek (r.take Gen.scheduleSize)⟩ :: es)
        | none => none
    | _ => none

/-- `SchedulesStructure.decode` of a response payload: byte 0 is not read, byte 2 is the number
of entries; a payload shorter than 3 bytes decodes to "no schedules" -/
def decodeResponse (msg : List Byte) : Option (List Entry) :=
  match msg with
  | _ :: _ :: count :: r => decodeEntries count.toNat r
  | _ => some []

/-- a `Schedule` object: seven named days -/
structure Week where
  sunday : List Bool
  monday : List Bool
  tuesday : List Bool
  wednesday : List Bool
  thursday : List Bool
  friday : List Bool
  saturday : List Bool
deriving DecidableEq, Repr

inductive Weekday where
  | sunday | monday | tuesday | wednesday | thursday | friday | saturday
deriving DecidableEq, Repr

/-- `_add_schedules`: `monday=schedule[1] … saturday=schedule[6], sunday=schedule[0]` -/
def Week.ofTable (t : List (List Bool)) : Week :=
  { sunday := t.getD 0 [], monday := t.getD 1 [], tuesday := t.getD 2 [], wednesday := t.getD 3 [],
    thursday := t.getD 4 [], friday := t.getD 5 [], saturday := t.getD 6 [] }

/-- `Schedule.__iter__`: Sunday first -/
def Week.toTable (w : Week) : List (List Bool) :=
  [w.sunday, w.monday, w.tuesday, w.wednesday, w.thursday, w.friday, w.saturday]

def Week.get (w : Week) : Weekday → List Bool
  | .sunday => w.sunday | .monday => w.monday | .tuesday => w.tuesday | .wednesday => w.wednesday
  | .thursday => w.thursday | .friday => w.friday | .saturday => w.saturday

def Week.set (w : Week) (d : Weekday) (v : List Bool) : Week :=
  match d with
  | .sunday => { w with sunday := v } | .monday => { w with monday := v }
  | .tuesday => { w with tuesday := v } | .wednesday => { w with wednesday := v }
  | .thursday => { w with thursday := v } | .friday => { w with friday := v }
  | .saturday => { w with saturday := v }

/-- a dict keyed by schedule index: assignment replaces an existing key -/
def dictSet {α : Type} (d : List (Nat × α)) (k : Nat) (v : α) : List (Nat × α) :=
  (k, v) :: d.filter (fun p => p.1 != k)

/-- assignment only when a value is present -/
def dictSetOpt {α : Type} (d : List (Nat × α)) (k : Nat) (v : Option α) : List (Nat × α) :=
  match v with
  | some v => dictSet d k v
  | none => d

def dictGet {α : Type} (d : List (Nat × α)) (k : Nat) : Option α := d.lookup k

/-- what the device holds: `data["schedules"][name]`, `data[f"{name}_schedule_switch"]`,
`data[f"{name}_schedule_parameter"]`, all keyed here by the schedule index of the name -/
structure Device where
  schedules : List (Nat × Week)
  switches : List (Nat × Nat)
  params : List (Nat × Nat)
deriving Repr

def Device.init : Device := ⟨[], [], []⟩

def schedulesCount : Nat := Gen.schedules.length

/-- `handle_frame(SchedulesResponse)` followed by the dispatch of `schedules` and
`schedule_parameters`.  `none`: decoding raised (truncated payload).  An entry whose index has
no name makes both subscribers raise, which leaves the device as it was.  Otherwise the
schedules dict is REPLACED by the decoded ones (later entries win), switches are set for every
entry, parameters for every entry whose triple is defined. -/
def Device.receive (dev : Device) (msg : List Byte) : Option Device :=
  match decodeResponse msg with
  | none => none
  | some es =>
    if es.all (fun e => e.idx < schedulesCount) then
      some
        { schedules := es.foldl (fun d e => dictSet d e.idx (Week.ofTable e.table)) []
          switches := es.foldl (fun d e => dictSet d e.idx e.switch) dev.switches
          params := es.foldl (fun d e => dictSetOpt d e.idx e.param) dev.params }
    else some dev

structure Edit where
  idx : Nat
  day : Weekday
  state : String
  start : TimeArg
  stop : TimeArg
deriving Repr

/-- `device.data["schedules"][name].<day>.set_state(state, start, end)`; editing a schedule the
device does not hold raises KeyError and changes nothing -/
def Device.edit (dev : Device) (e : Edit) : Device × Outcome :=
  match dictGet dev.schedules e.idx with
  | none => (dev, .keyError)
  | some w =>
    let r := setState (w.get e.day) e.state e.start e.stop
    ({ dev with schedules := dictSet dev.schedules e.idx (w.set e.day r.1) }, r.2)

/-- payload of the `SetScheduleRequest` queued by `Schedule.commit()`; `none`: KeyError
(no such schedule, or its switch / parameter was never reported) -/
def Device.commit (dev : Device) (idx : Nat) : Option (List Byte) :=
  match dictGet dev.schedules idx, dictGet dev.switches idx, dictGet dev.params idx with
  | some w, some sw, some p =>
    some ([1, idx.toUInt8, sw.toUInt8, p.toUInt8] ++ encodeWeek w.toTable)
  | _, _, _ => none

/-! ### the write queue: requests hold the live `Schedule` object (finding F6)

`collect_schedule_data` captures the switch and parameter VALUES (ints, since fix 951eb7c) but a
REFERENCE to the `Schedule` object; `Frame.message` is built at its first access, i.e. when the
producer serialises the queued frame.  Every response replaces the device's `Schedule` objects
by new ones, so a request queued before it keeps the old object, which nothing edits any more
(edits go through `device.data["schedules"]`): it is frozen at its content of that moment. -/

def Week.empty : Week := ⟨[], [], [], [], [], [], []⟩

structure Req where
  idx : Nat
  switch : Nat
  param : Nat
  frozen : Option Week   -- none: still the object the device holds
deriving Repr

structure Sys where
  dev : Device
  queue : List Req
deriving Repr

/-- the week a queued request would encode if serialised now -/
def Req.week (dev : Device) (r : Req) : Week :=
  match r.frozen with
  | some w => w
  | none => (dictGet dev.schedules r.idx).getD Week.empty

def Req.payload (dev : Device) (r : Req) : List Byte :=
  [1, r.idx.toUInt8, r.switch.toUInt8, r.param.toUInt8] ++ encodeWeek (r.week dev).toTable

def Req.freeze (dev : Device) (r : Req) : Req := { r with frozen := some (r.week dev) }

inductive Ev where
  | receive (msg : List Byte)   -- handle_frame(SchedulesResponse) + dispatch
  | edit (e : Edit)             -- set_state through device.data["schedules"]
  | commit (idx : Nat)          -- Schedule.commit()
  | drain                       -- the producer takes the next frame and serialises it
deriving Repr

inductive Out where
  | received
  | decodeError
  | edited (o : Outcome)
  | queued
  | keyError
  | tx (payload : List Byte)
  | idle
deriving DecidableEq, Repr

def knownIndexes (es : List Entry) : Bool := es.all (fun e => e.idx < schedulesCount)

def Sys.step (s : Sys) : Ev → Sys × Out
  | .receive msg =>
    match decodeResponse msg, s.dev.receive msg with
    | some es, some dev' =>
      if knownIndexes es then (⟨dev', s.queue.map (Req.freeze s.dev)⟩, .received)
      else (s, .received)
    | _, _ => (s, .decodeError)
  | .edit e => let r := s.dev.edit e; (⟨r.1, s.queue⟩, .edited r.2)
  | .commit idx =>
    match dictGet s.dev.schedules idx, dictGet s.dev.switches idx, dictGet s.dev.params idx with
    | some _, some sw, some p => (⟨s.dev, s.queue ++ [⟨idx, sw, p, none⟩]⟩, .queued)
    | _, _, _ => (s, .keyError)
  | .drain =>
    match s.queue with
    | [] => (s, .idle)
    | r :: q => (⟨s.dev, q⟩, .tx (r.payload s.dev))

def Sys.run : Sys → List Ev → Sys × List Out
  | s, [] => (s, [])
  | s, ev :: evs =>
    let r := s.step ev
    let rest := Sys.run r.1 evs
    (rest.1, r.2 :: rest.2)

/-- events after which a request queued for schedule `idx` still encodes the same week -/
def Ev.harmlessFor (idx : Nat) : Ev → Bool
  | .receive _ => true
  | .edit e => e.idx != idx
  | _ => false

def Device.applyEdits (dev : Device) (edits : List Edit) : Device :=
  edits.foldl (fun d ed => (d.edit ed).1) dev

/-- position of a weekday in the wire bitmap: Sunday first -/
def Weekday.pos : Weekday → Nat
  | .sunday => 0 | .monday => 1 | .tuesday => 2 | .wednesday => 3
  | .thursday => 4 | .friday => 5 | .saturday => 6

/-- the edits addressed to schedule `idx`, read on the 7 × 48 table in wire order: each one
rewrites row `pos day` by `setState`, nothing else -/
def editTable (idx : Nat) (t : List (List Bool)) (edits : List Edit) : List (List Bool) :=
  edits.foldl (fun t ed =>
    if ed.idx = idx then t.set ed.day.pos (setState (t.getD ed.day.pos []) ed.state ed.start ed.stop).1 else t) t

end PlumVerif.Sched

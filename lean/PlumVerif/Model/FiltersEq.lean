import PlumVerif.Model.Filters
/-
`Filter.__eq__` / `__hash__` (filters.py, class `Filter`; no subclass overrides them — `Gen.filterFactories`
probes every factory's object for that).

    def __eq__(self, other):
        if isinstance(other, Filter): return self._callback == other._callback
        if callable(other):           return bool(self._callback == other)
        return NotImplemented

Defining `__eq__` without `__hash__` makes every filter object unhashable (`hash(f)` raises TypeError).
Callbacks are carried as the class of mutually `==` callables they belong to (a function is equal only to
itself, every access to a bound method yields a new but equal object): a natural number.
-/
namespace PlumVerif.C20

/-- a filter object: which factory expression built it (with its state — irrelevant), around which callback -/
structure FObj where
  kind : Filter
  cb : Nat

/-- the other side of a comparison -/
inductive Operand where
  | filter (f : FObj)
  | callable (cb : Nat)        -- a plain callable (function, bound method, any object with `__call__`)
  | other                      -- not callable: a number, None, a string …

/-- `Filter.__eq__(self, other)`; `none` is `NotImplemented` -/
def FObj.eqMethod (a : FObj) : Operand → Option Bool
  | .filter b => some (a.cb == b.cb)
  | .callable c => some (a.cb == c)
  | .other => none

/-- the expression `a == x` for a filter `a`: Python tries `a.__eq__(x)`, and on `NotImplemented` the reflected
`x.__eq__(a)` (also `NotImplemented` for the operands here), then falls back to identity: False -/
def FObj.eq (a : FObj) (x : Operand) : Bool := (a.eqMethod x).getD false

/-- the expression `x == a` with the filter on the RIGHT: a plain callable's own `__eq__` (identity / bound-method
equality) does not know filters and answers `NotImplemented`, so Python asks the filter -/
def FObj.eqReflected (a : FObj) (x : Operand) : Bool := a.eq x

/-- `list.remove(x)` / `x in list` (what `unsubscribe` does with a callback list): the first entry `e` with
`e == x`; entries are filter objects or plain callables -/
def findEntry (l : List Operand) (x : Operand) : Option Nat :=
  l.findIdx? fun e =>
    match e, x with
    | .filter f, y => f.eq y
    | y, .filter f => f.eqReflected y
    | .callable a, .callable b => a == b
    | _, _ => false

end PlumVerif.C20

import PlumVerif.Model.Schedule
/-
Schedule objects with IDENTITY (C18).

`Model/Schedule.lean`'s `Sys` lets every edit go through `device.data["schedules"]`; that is the
whole story only while the client never keeps a handle.  Here `Schedule` objects live in a heap:
every schedules response allocates fresh objects (the old ones stay, untouched, for whoever
still holds them), the device maps a schedule index to the object it holds NOW, and a client
may edit / commit through the device (`edit`, `commit`: lookup by name) or through an object it
obtained earlier (`hedit`, `hcommit`: a handle, possibly no longer the device's).

`Schedule.commit()` (since fix 22a19e7) queues a request for the object it is CALLED ON; the
switch and parameter values are still looked up by the object's name in the device data
(`collect_schedule_data`, which also raises KeyError when the device holds no schedule of that
name any more).  The bitmap is encoded when the frame is written (finding F6): `drain` reads
the object's CURRENT content.
-/
namespace PlumVerif.Sched

/-- the arguments of one `set_state` call on a day of a schedule object -/
structure DayEdit where
  day : Weekday
  state : String
  start : TimeArg
  stop : TimeArg
deriving Repr

def Week.edit (w : Week) (d : DayEdit) : Week :=
  w.set d.day (setState (w.get d.day) d.state d.start d.stop).1

def Week.editOutcome (w : Week) (d : DayEdit) : Outcome :=
  (setState (w.get d.day) d.state d.start d.stop).2

def Edit.toDayEdit (e : Edit) : DayEdit := ⟨e.day, e.state, e.start, e.stop⟩

/-- a `Schedule` object: its name (as schedule index) and its seven days -/
structure Obj where
  idx : Nat
  week : Week
deriving Repr

/-- a queued set-schedule request: index, switch and parameter as ints, the schedule BY REFERENCE -/
structure HReq where
  idx : Nat
  switch : Nat
  param : Nat
  obj : Nat
deriving Repr

structure HSys where
  heap : List Obj                 -- object id = position; objects are never removed
  sched : List (Nat × Nat)        -- device.data["schedules"]: schedule index -> object id
  switches : List (Nat × Nat)
  params : List (Nat × Nat)
  queue : List HReq
deriving Repr

def HSys.init : HSys := ⟨[], [], [], [], []⟩

inductive HEv where
  | receive (msg : List Byte)
  | keep (idx : Nat)                    -- the client stores `device.data["schedules"][name]`
  | edit (e : Edit)                     -- `device.data["schedules"][name].<day>.set_state(…)`
  | commit (idx : Nat)                  -- `device.data["schedules"][name].commit()`
  | hedit (h : Nat) (d : DayEdit)       -- `kept.<day>.set_state(…)`
  | hcommit (h : Nat)                   -- `kept.commit()`
  | drain
deriving Repr

inductive HOut where
  | received
  | decodeError
  | handle (h : Nat)
  | edited (o : Outcome)
  | queued
  | keyError
  | tx (payload : List Byte)
  | idle
deriving DecidableEq, Repr

def HOut.ofOut : Out → HOut
  | .received => .received
  | .decodeError => .decodeError
  | .edited o => .edited o
  | .queued => .queued
  | .keyError => .keyError
  | .tx p => .tx p
  | .idle => .idle

/-- `_add_schedules`: one fresh object per entry, in order; the dict keeps the last one per name -/
def allocSched (n : Nat) : List Entry → List (Nat × Nat) → List (Nat × Nat)
  | [], d => d
  | e :: es, d => allocSched (n + 1) es (dictSet d e.idx n)

def Entry.toObj (e : Entry) : Obj := ⟨e.idx, Week.ofTable e.table⟩

/-- the object (if any) an event edits, and with what -/
def HSys.target (s : HSys) : HEv → Option (Nat × DayEdit)
  | .edit e => (dictGet s.sched e.idx).map fun h => (h, e.toDayEdit)
  | .hedit h d => if h < s.heap.length then some (h, d) else none
  | _ => none

/-- write one day edit into object `h` -/
def editObj (heap : List Obj) (h : Nat) (d : DayEdit) : List Obj :=
  match heap[h]? with
  | some o => heap.set h { o with week := o.week.edit d }
  | none => heap

def weekAt (heap : List Obj) (h : Nat) : Week := (heap[h]?.map Obj.week).getD Week.empty

/-- what `collect_schedule_data(name, device)` needs: the device holds a schedule, a switch and a
parameter under that name -/
def HSys.collect (s : HSys) (idx : Nat) : Option (Nat × Nat) :=
  match dictGet s.sched idx, dictGet s.switches idx, dictGet s.params idx with
  | some _, some sw, some p => some (sw, p)
  | _, _, _ => none

def HReq.payload (heap : List Obj) (r : HReq) : List Byte :=
  [1, r.idx.toUInt8, r.switch.toUInt8, r.param.toUInt8] ++ encodeWeek (weekAt heap r.obj).toTable

def HSys.step (s : HSys) (ev : HEv) : HSys × HOut :=
  match ev with
  | .receive msg =>
    match decodeResponse msg with
    | none => (s, .decodeError)
    | some es =>
      if knownIndexes es then
        ({ s with
            heap := s.heap ++ es.map Entry.toObj
            sched := allocSched s.heap.length es []
            switches := es.foldl (fun d e => dictSet d e.idx e.switch) s.switches
            params := es.foldl (fun d e => dictSetOpt d e.idx e.param) s.params }, .received)
      else (s, .received)
  | .keep idx =>
    match dictGet s.sched idx with
    | some h => (s, .handle h)
    | none => (s, .keyError)
  | .edit e =>
    match s.target (.edit e) with
    | some (h, d) => ({ s with heap := editObj s.heap h d }, .edited ((weekAt s.heap h).editOutcome d))
    | none => (s, .edited .keyError)
  | .hedit h d =>
    match s.target (.hedit h d) with
    | some (h, d) => ({ s with heap := editObj s.heap h d }, .edited ((weekAt s.heap h).editOutcome d))
    | none => (s, .edited .keyError)
  | .commit idx =>
    match dictGet s.sched idx, s.collect idx with
    | some h, some (sw, p) => ({ s with queue := s.queue ++ [⟨idx, sw, p, h⟩] }, .queued)
    | _, _ => (s, .keyError)
  | .hcommit h =>
    match s.heap[h]? with
    | none => (s, .keyError)
    | some o =>
      match s.collect o.idx with
      | some (sw, p) => ({ s with queue := s.queue ++ [⟨o.idx, sw, p, h⟩] }, .queued)
      | none => (s, .keyError)
  | .drain =>
    match s.queue with
    | [] => (s, .idle)
    | r :: q => ({ s with queue := q }, .tx (r.payload s.heap))

def HSys.run : HSys → List HEv → HSys × List HOut
  | s, [] => (s, [])
  | s, ev :: evs =>
    let r := s.step ev
    let rest := HSys.run r.1 evs
    (rest.1, r.2 :: rest.2)

/-- the edits a history performs, resolved to the objects they hit, in order -/
def HSys.log : HSys → List HEv → List (Nat × DayEdit)
  | _, [] => []
  | s, ev :: evs =>
    match s.target ev with
    | some t => t :: HSys.log (s.step ev).1 evs
    | none => HSys.log (s.step ev).1 evs

/-- lookup-only histories: the events of `Sys` -/
def Ev.toH : Ev → HEv
  | .receive m => .receive m
  | .edit e => .edit e
  | .commit i => .commit i
  | .drain => .drain

/-- the PRE-FIX `Schedule.commit()` (before 22a19e7): whatever object it is called on, the
request is built from `device.data["schedules"][name]` -/
def HSys.stepPreFix (s : HSys) (ev : HEv) : HSys × HOut :=
  match ev with
  | .hcommit h =>
    match s.heap[h]? with
    | none => (s, .keyError)
    | some o => s.step (.commit o.idx)
  | ev => s.step ev

def HSys.runPreFix : HSys → List HEv → HSys × List HOut
  | s, [] => (s, [])
  | s, ev :: evs =>
    let r := s.stepPreFix ev
    let rest := HSys.runPreFix r.1 evs
    (rest.1, r.2 :: rest.2)

end PlumVerif.Sched

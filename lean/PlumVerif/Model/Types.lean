import PlumVerif.Generated.Consts
import PlumVerif.Model.Basic
/-
Model of the primitive wire types of pyplumio/helpers/data_types.py (C19).

Every wire type is a `Codec α`:
* `pack v`   — `T(v).to_bytes()`; `none` when the implementation raises (value not representable);
* `size v`   — `T(v).size`, the size reported by an object *constructed from a value*;
* `unpack d` — `o = T.from_bytes(d)`: `(o.value, o.size)`; `none` when the implementation raises
               (buffer too short).  `T.from_bytes(d, offset)` is `unpack (d.drop offset)`
               (`data[offset:]`, lenient slicing).

Values live at the wire boundary: integers are `Int`, floats are their IEEE bit patterns
(`struct` conversion is trusted), addresses are byte tuples (`inet_*` text forms trusted),
strings are their UTF-8 bytes (`str.encode/decode` trusted) — the *sizing* in bytes is modelled.
-/
namespace PlumVerif.Types

structure Codec (α : Type) where
  pack : α → Option (List Byte)
  size : α → Nat
  unpack : List Byte → Option (α × Nat)

/-! ### struct-backed integers (`BuiltInDataType` with formats `<b <B <h <H <i <I <q <Q`) -/

inductive IntTy where
  | i8 | u8 | i16 | u16 | i32 | u32 | i64 | u64
deriving DecidableEq, Repr

def IntTy.size : IntTy → Nat
  | .i8 | .u8 => 1
  | .i16 | .u16 => 2
  | .i32 | .u32 => 4
  | .i64 | .u64 => 8

def IntTy.signed : IntTy → Bool
  | .i8 | .i16 | .i32 | .i64 => true
  | _ => false

/-- number of distinct wire values, `256 ^ size` -/
def IntTy.modulus (t : IntTy) : Nat := 256 ^ t.size

/-- representable values: `struct.pack` raises `struct.error` outside this range -/
def IntTy.inRange (t : IntTy) (v : Int) : Bool :=
  if t.signed then decide (-((t.modulus / 2 : Nat) : Int) ≤ v ∧ v < ((t.modulus / 2 : Nat) : Int))
  else decide (0 ≤ v ∧ v < (t.modulus : Int))

/-- two's complement of `v` modulo `m` -/
def toTwos (m : Nat) (v : Int) : Nat := if v < 0 then (v + (m : Int)).toNat else v.toNat

/-- signed reading of the wire value `n` modulo `m` -/
def ofTwos (m : Nat) (n : Nat) : Int := if n < m / 2 then (n : Int) else (n : Int) - (m : Int)

def IntTy.toWire (t : IntTy) (v : Int) : Nat := if t.signed then toTwos t.modulus v else v.toNat
def IntTy.ofWire (t : IntTy) (n : Nat) : Int := if t.signed then ofTwos t.modulus n else (n : Int)

def intCodec (t : IntTy) : Codec Int where
  pack v := if t.inRange v then some (encodeLE (t.toWire v) t.size) else none
  size _ := t.size
  unpack d := if d.length < t.size then none else some (t.ofWire (decodeLE (d.take t.size)), t.size)

/-- class name in data_types.py → model type (checked against the translated struct formats
in `Props/C19.lean`) -/
def IntTy.ofName : String → Option IntTy
  | "SignedChar" => some .i8
  | "UnsignedChar" => some .u8
  | "Short" => some .i16
  | "UnsignedShort" => some .u16
  | "Int" => some .i32
  | "UnsignedInt" => some .u32
  | "Int64" => some .i64
  | "UInt64" => some .u64
  | _ => none

/-- the struct format a model type stands for -/
def IntTy.format : IntTy → String
  | .i8 => "<b" | .u8 => "<B" | .i16 => "<h" | .u16 => "<H"
  | .i32 => "<i" | .u32 => "<I" | .i64 => "<q" | .u64 => "<Q"

/-! ### float / double: `k`-byte little-endian bit patterns (`<f`, `<d`) -/

def bitsCodec (k : Nat) : Codec Nat where
  pack n := if n < 256 ^ k then some (encodeLE n k) else none
  size _ := k
  unpack d := if d.length < k then none else some (decodeLE (d.take k), k)

def floatCodec : Codec Nat := bitsCodec 4
def doubleCodec : Codec Nat := bitsCodec 8

/-! ### IPv4 / IPv6: byte tuples of length 4 / 16 -/

def addrCodec (k : Nat) : Codec (List Byte) where
  pack a := if a.length = k then some a else none
  size _ := k
  unpack d := if d.length < k then none else some (d.take k, k)

def ipv4Codec : Codec (List Byte) := addrCodec 4
def ipv6Codec : Codec (List Byte) := addrCodec 16

/-! ### null-terminated string (`String`), on the UTF-8 bytes of the value -/

def stringCodec : Codec (List Byte) where
  pack v := some (v ++ [0])
  size v := v.length + 1
  unpack d := let v := d.takeWhile (· != 0); some (v, v.length + 1)

/-! ### length-prefixed bytes / string (`VarBytes`, `VarString`): one length byte, then the bytes -/

def varCodec : Codec (List Byte) where
  pack v := if v.length ≤ 255 then some (v.length.toUInt8 :: v) else none
  size v := v.length + 1
  unpack d := match d with
    | [] => none
    | n :: r => some (r.take n.toNat, n.toNat + 1)

/-! ### bit array: one byte shared by up to eight consecutive one-bit fields -/

/-- `BitArray.unpack`: keeps the first byte of the buffer (`struct.error` on an empty one) -/
def bitUnpack (d : List Byte) : Option Byte := d.head?
/-- `BitArray.value` for the current index: `bool(byte & (1 << index))` -/
def bitValue (b : Byte) (idx : Nat) : Bool := b.toNat.testBit idx
/-- `BitArray.next(idx)`: select bit `idx`, return the index for the following bit field -/
def bitNext (idx : Nat) : Nat := if idx = Gen.bitarrayLastIndex then 0 else idx + 1
/-- `BitArray.size` with bit `idx` selected: the shared byte is released after its last bit -/
def bitSize (idx : Nat) : Nat := if idx = Gen.bitarrayLastIndex then 1 else 0
/-- `BitArray.pack` after `unpack`: the whole shared byte -/
def bitPack (b : Byte) : List Byte := [b]

/-- the consumer protocol of `RegulatorDataStructure._unpack_regulator_data`: a cursor is a
byte offset plus the index of the next bit in the current shared byte -/
structure Cursor where
  off : Nat
  bit : Nat
deriving DecidableEq, Repr

inductive Field where
  | bit                 -- a `BitArray` field
  | other (size : Nat)  -- any other field whose unpacked object reports `size`
deriving DecidableEq, Repr

/-- where a non-bit field starts reading: a partially used shared byte is skipped first -/
def Cursor.align (c : Cursor) : Nat := if c.bit > 0 then c.off + 1 else c.off

/-- one field: the bit read (for bit fields) and the cursor afterwards; `none` when a bit
field has no byte left to read -/
def stepField (msg : List Byte) (c : Cursor) : Field → Option (Option Bool × Cursor)
  | .bit =>
    match bitUnpack (msg.drop c.off) with
    | none => none
    | some b => some (some (bitValue b c.bit), ⟨c.off + bitSize c.bit, bitNext c.bit⟩)
  | .other n => some (none, ⟨c.align + n, 0⟩)

/-- a run of `k` bit fields from cursor `c`: the values read and the cursor afterwards -/
def runBits (msg : List Byte) : Nat → Cursor → Option (List Bool × Cursor)
  | 0, c => some ([], c)
  | k + 1, c =>
    match stepField msg c .bit with
    | some (some v, c') =>
      match runBits msg k c' with
      | some (vs, c'') => some (v :: vs, c'')
      | none => none
    | _ => none

/-- a whole schema: start offset of every non-bit field, value of every bit field -/
inductive Slot where
  | bitVal (v : Bool)
  | startsAt (off : Nat)
deriving DecidableEq, Repr

def runFields (msg : List Byte) : List Field → Cursor → Option (List Slot × Cursor)
  | [], c => some ([], c)
  | f :: fs, c =>
    match stepField msg c f with
    | none => none
    | some (r, c') =>
      match runFields msg fs c' with
      | none => none
      | some (ss, c'') =>
        some ((match r with | some v => Slot.bitVal v | none => Slot.startsAt c.align) :: ss, c'')

/-! ### a data type INSTANCE, re-used across calls

The regulator-data schema keeps one `DataType` instance per field and unpacks into it again and
again; `to_bytes()`, `.size`, `.value` then speak about whatever was constructed or unpacked
last.  State of an instance: the value slot (`_value`, possibly unset) and the size slot
(`_size`; for the fixed-width classes the observable `.size` is constant, which is what is
kept here).  `VarBytes` / `VarString` build the length prefix of `to_bytes()` from the SIZE slot,
not from the value — the one place where the two slots can disagree (after an unpack from a
buffer shorter than its length prefix promises). -/

structure InstCodec (α : Type) extends Codec α where
  /-- `to_bytes()` of an instance holding value `v` and size slot `n` -/
  packI : α → Nat → Option (List Byte)
  /-- the value a default-constructed instance holds (`String()`, `VarBytes()`, `VarString()`: empty) -/
  dflt : Option α
  /-- `.size` of an instance that holds no value -/
  emptySize : Nat

structure Inst (α : Type) where
  value : Option α
  size : Nat

inductive Op (α : Type) where
  | construct (v : Option α)   -- `T(v)` / `T()`: a new instance takes the place of the old one
  | toBytes
  | unpack (d : List Byte)
  | size
  | value

inductive Obs (α : Type) where
  | done
  | bytes (b : List Byte)
  | size (n : Nat)
  | value (v : α)
  | raised
deriving DecidableEq

def Inst.new {α : Type} (c : InstCodec α) (v : Option α) : Inst α :=
  match (match v with | some v => some v | none => c.dflt) with
  | some v => ⟨some v, c.size v⟩
  | none => ⟨none, c.emptySize⟩

def Inst.step {α : Type} (c : InstCodec α) (s : Inst α) : Op α → Inst α × Obs α
  | .construct v => (Inst.new c v, .done)
  | .toBytes =>
    match s.value with
    | none => (s, .raised)
    | some v => match c.packI v s.size with
      | some b => (s, .bytes b)
      | none => (s, .raised)
  | .unpack d =>
    match c.unpack d with
    | some (v, n) => (⟨some v, n⟩, .done)
    | none => (s, .raised)            -- every class raises before it assigns anything
  | .size => (s, .size s.size)
  | .value =>
    match s.value with
    | some v => (s, .value v)
    | none => (s, .raised)

def Inst.run {α : Type} (c : InstCodec α) : Inst α → List (Op α) → Inst α × List (Obs α)
  | s, [] => (s, [])
  | s, op :: ops =>
    let r := s.step c op
    let rest := Inst.run c r.1 ops
    (rest.1, r.2 :: rest.2)

def intInst (t : IntTy) : InstCodec Int :=
  { intCodec t with packI := fun v _ => (intCodec t).pack v, dflt := none, emptySize := t.size }
def bitsInst (k : Nat) : InstCodec Nat :=
  { bitsCodec k with packI := fun v _ => (bitsCodec k).pack v, dflt := none, emptySize := k }
def addrInst (k : Nat) : InstCodec (List Byte) :=
  { addrCodec k with packI := fun v _ => (addrCodec k).pack v, dflt := none, emptySize := k }
def stringInst : InstCodec (List Byte) :=
  { stringCodec with packI := fun v _ => stringCodec.pack v, dflt := some [], emptySize := 1 }
/-- `UnsignedChar(self.size - 1).to_bytes() + value` -/
def varInst : InstCodec (List Byte) :=
  { varCodec with
    packI := fun v n => if n - 1 ≤ 255 then some ((n - 1).toUInt8 :: v) else none
    dflt := some [], emptySize := 1 }

/-- a bit array instance: the raw byte it holds (if any) and its position -/
structure BitInst where
  raw : Option Byte
  idx : Nat
deriving DecidableEq, Repr

inductive BitOp where
  | construct (v : Option Bool) (idx : Nat)   -- `BitArray(value, index)`
  | unpack (d : List Byte)
  | next (i : Nat)
  | value
  | size
  | toBytes
deriving Repr

inductive BitObs where
  | done
  | nextIs (k : Nat)
  | value (v : Bool)
  | size (n : Nat)
  | bytes (b : List Byte)
  | raised
deriving DecidableEq, Repr

def BitInst.step (s : BitInst) : BitOp → BitInst × BitObs
  | .construct v idx => (⟨v.map (fun b => if b then 1 else 0), idx⟩, .done)
  | .unpack d =>
    match bitUnpack d with
    | some b => (⟨some b, s.idx⟩, .done)      -- the position is NOT touched by unpack
    | none => (s, .raised)
  | .next i => (⟨s.raw, i⟩, .nextIs (bitNext i))
  | .value =>
    match s.raw with
    | some b => (s, .value (bitValue b s.idx))
    | none => (s, .raised)
  | .size => (s, .size (bitSize s.idx))
  | .toBytes =>
    match s.raw with
    | some b => (s, .bytes (bitPack b))
    | none => (s, .bytes [])

def BitInst.run : BitInst → List BitOp → BitInst × List BitObs
  | s, [] => (s, [])
  | s, op :: ops =>
    let r := s.step op
    let rest := BitInst.run r.1 ops
    (rest.1, r.2 :: rest.2)

end PlumVerif.Types

import PlumVerif.Model.ReaderChunks
/-
The reader and the arrival of chunks as ONE small-step system, for arbitrary interleavings.

Two kinds of moves, in any order (the schedule):
  * `arrive`  the next chunk is appended to the stream buffer (whether or not the reader is
              waiting); with no chunk left, the end of the stream is signalled;
  * `run`     the reader gets the processor: between calls it starts the next `read()`; a
              suspended call is resumed from its state on what the buffer holds now; it runs to
              completion or to its next suspension.  A call suspended when the end of the stream
              has been signalled gets the end-of-stream answer of its primitive.
Nothing ties arrival to the reader being blocked, and a `run` with nothing new in the buffer is
allowed (spurious wake-up): the call just suspends again in the same state.
-/
namespace PlumVerif

inductive Move
  | arrive
  | run
deriving Repr, DecidableEq

structure Sys where
  st : RState                   -- state of the current call (`scanning` = at its start / between calls)
  started : Nat                 -- bytes not yet consumed (buffered + still to arrive) when the current call started
  buf : List Byte               -- the StreamReader's buffer
  pending : List (List Byte)    -- chunks that have not arrived yet
  eof : Bool                    -- the end of the stream has been signalled
  outs : List (Outcome × Nat)   -- completed calls: outcome, bytes consumed
  finished : Bool               -- a call reported the connection lost: the caller stops reading
deriving Repr

def Sys.init (cs : List (List Byte)) : Sys := ⟨.scanning, cs.flatten.length, [], cs, false, [], false⟩

/-- bytes not yet consumed -/
def Sys.remaining (s : Sys) : Nat := s.buf.length + s.pending.flatten.length

def Sys.step (s : Sys) : Move → Sys
  | .arrive =>
    match s.pending with
    | [] => { s with eof := true }
    | c :: cs => { s with buf := s.buf ++ c, pending := cs }
  | .run =>
    if s.finished then s
    else
      match resume s.st s.buf with
      | .done o b =>
        { s with st := .scanning, buf := b, started := b.length + s.pending.flatten.length,
                 outs := s.outs ++ [(o, s.started - (b.length + s.pending.flatten.length))] }
      | .blocked st' b =>
        if s.eof then
          -- (the end is signalled only when nothing is pending) the primitive answers at once; the buffer is cleared
          { s with st := .scanning, buf := [], started := 0,
                   outs := s.outs ++ [(atEof st', s.started)], finished := decide (atEof st' = .connLost) }
        else { s with st := st', buf := b }

def Sys.run (s : Sys) (ms : List Move) : Sys := ms.foldl Sys.step s

end PlumVerif

import PlumVerif.Model.Versions
import PlumVerif.Spec.C15
/-
Line-protocol front end for C15.

  c15 <event>*     -> per event `<queued kinds , or ->/<0|1 raised>`, `;`-joined (`.` when no events)
  event : a<k>:<v>,<k>:<v>,…  or a-   (announcement, wire order)
        | e<k>,<k>,…          or e-   (frame_errors dispatched)
        | q<k>:<n>                    (a public request() for kind k: n attempts, never answered)
  c15judge <event>* | <observed>*   -> pass | fail   (C15.spec; observed = queued kinds per event: <k>,<k>,… or -)
  c15sys <addr>@<event> …           -> several devices on one queue: per event the frames `<kind>><recipient>,…` or `-`, `;`-joined
  c15sysjudge <addr>@<event>* | <observed frames>*   -> pass | fail   (C15.specSys)
-/
namespace PlumVerif.C15

def parseNats (s : String) : Option (List Nat) :=
  if s = "-" then some [] else (s.splitOn ",").mapM String.toNat?

def parseEntry (s : String) : Option Entry :=
  match s.splitOn ":" with
  | [k, v] => do pure (← k.toNat?, ← v.toNat?)
  | _ => none

def parseEv (s : String) : Option Ev :=
  match s.toList with
  | 'a' :: r =>
    let body := String.ofList r
    if body = "-" then some (.announce []) else ((body.splitOn ",").mapM parseEntry).map .announce
  | 'e' :: r => (parseNats (String.ofList r)).map .errors
  | _ => none

def parseEv2 (s : String) : Option Ev2 :=
  match s.toList with
  | 'q' :: r =>
    match (String.ofList r).splitOn ":" with
    | [k, n] => do pure (.request (← k.toNat?) (← n.toNat?))
    | _ => none
  | _ => (parseEv s).map .ev

def showRes (r : Res) : String :=
  (if r.queued.isEmpty then "-" else String.intercalate "," (r.queued.map toString)) ++ "/" ++
    (if r.raised then "1" else "0")

def parseAddrEv (s : String) : Option (Nat × Ev2) :=
  match s.splitOn "@" with
  | [a, e] => do pure (← a.toNat?, ← parseEv2 e)
  | _ => none

def parseFrame (s : String) : Option Frame :=
  match s.splitOn ">" with
  | [k, r] => do pure ⟨← k.toNat?, ← r.toNat?⟩
  | _ => none

def parseFrames (s : String) : Option (List Frame) :=
  if s = "-" then some [] else (s.splitOn ",").mapM parseFrame

def showFrames (fs : List Frame) : String :=
  if fs.isEmpty then "-" else String.intercalate "," (fs.map fun f => s!"{f.kind}>{f.recipient}")

def versionOps : List String → Option String
  | "c15" :: evs => do
    let es ← evs.mapM parseEv2
    let rs := run2 init es
    pure (if rs.isEmpty then "." else String.intercalate ";" (rs.map showRes))
  | "c15judge" :: rest => do
    let es ← (rest.takeWhile (· ≠ "|")).mapM parseEv2
    let obs ← ((rest.dropWhile (· ≠ "|")).drop 1).mapM parseNats
    if rest.contains "|" then pure (if spec2 es obs then "pass" else "fail") else none
  | "c15sys" :: evs => do
    let es ← evs.mapM parseAddrEv
    let rs := sysRun (fun _ => init) es
    pure (if rs.isEmpty then "." else String.intercalate ";" (rs.map showFrames))
  | "c15sysjudge" :: rest => do
    let es ← (rest.takeWhile (· ≠ "|")).mapM parseAddrEv
    let obs ← ((rest.dropWhile (· ≠ "|")).drop 1).mapM parseFrames
    if rest.contains "|" then pure (if specSys es obs then "pass" else "fail") else none
  | _ => none

end PlumVerif.C15

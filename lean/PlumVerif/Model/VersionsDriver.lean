import PlumVerif.Model.Versions
import PlumVerif.Spec.C15
/-
Line-protocol front end for C15.

  c15 <event>*     -> per event `<queued kinds , or ->/<0|1 raised>`, `;`-joined (`.` when no events)
  event : a<k>:<v>,<k>:<v>,…  or a-   (announcement, wire order)
        | e<k>,<k>,…          or e-   (frame_errors dispatched)
        | q<k>:<n>                    (a public request() for kind k: n attempts, never answered)
  c15judge <event>* | <observed>*   -> pass | fail   (C15.spec; observed = queued kinds per event: <k>,<k>,… or -)
-/
namespace PlumVerif.C15

def parseNats (s : String) : Option (List Nat) :=
  if s = "-" then some [] else (s.splitOn ",").mapM String.toNat?

def parseEntry (s : String) : Option Entry :=
  match s.splitOn ":" with
  | [k, v] => do pure (← k.toNat?, ← v.toNat?)
  | _ => none

def parseEv (s : String) : Option Ev :=
  match s.toList with
  | 'a' :: r =>
    let body := String.ofList r
    if body = "-" then some (.announce []) else ((body.splitOn ",").mapM parseEntry).map .announce
  | 'e' :: r => (parseNats (String.ofList r)).map .errors
  | _ => none

def parseEv2 (s : String) : Option Ev2 :=
  match s.toList with
  | 'q' :: r =>
    match (String.ofList r).splitOn ":" with
    | [k, n] => do pure (.request (← k.toNat?) (← n.toNat?))
    | _ => none
  | _ => (parseEv s).map .ev

def showRes (r : Res) : String :=
  (if r.queued.isEmpty then "-" else String.intercalate "," (r.queued.map toString)) ++ "/" ++
    (if r.raised then "1" else "0")

def versionOps : List String → Option String
  | "c15" :: evs => do
    let es ← evs.mapM parseEv2
    let rs := run2 init es
    pure (if rs.isEmpty then "." else String.intercalate ";" (rs.map showRes))
  | "c15judge" :: rest => do
    let es ← (rest.takeWhile (· ≠ "|")).mapM parseEv2
    let obs ← ((rest.dropWhile (· ≠ "|")).drop 1).mapM parseNats
    if rest.contains "|" then pure (if spec2 es obs then "pass" else "fail") else none
  | _ => none

end PlumVerif.C15

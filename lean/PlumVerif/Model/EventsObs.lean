import PlumVerif.Model.Events
/-
C13: the history of API calls the harness drives (`Op`), the FIFO replay of such a history on
the interleaving machine (`doOp`: asyncio's ready queue decides the order in which ready tasks
move), and what an observer sees (`Obs`): the callback invocation log with values, a snapshot
after every loop run (stored data, which dispatches have finished, state of every get/wait_for),
and for every waiter when it started, whether a value existed then.
-/
namespace PlumVerif.C13

inductive Op where
  | sub (n cb : Nat)
  | once (n cb : Nat)
  | unsub (n cb : Nat)
  | unsubo (n sid : Nat)
  | disp (n v : Nat)
  | get (n : Nat) (to : Option Nat)
  | rel (i : Nat)            -- the suspension dispatch task i is waiting on is released
  | settle                   -- the loop runs until nothing is ready
  | adv (t : Nat)            -- the clock reaches t (all ready tasks have run before)
  deriving Repr, DecidableEq

inductive Ready where
  | d (i : Nat)
  | w (j : Nat)
  deriving DecidableEq, Repr

/-- what is seen of a get / wait_for task -/
inductive WSt where
  | notYet                    -- created or woken, has not run yet (never seen between loop runs)
  | waiting (deadline : Option Nat)
  | returned (v at_ : Nat)
  | timedOut (at_ : Nat)
  deriving DecidableEq, Repr

structure Snap where
  op : Nat                    -- index of the `settle` / `adv` after which it was taken
  now : Nat
  data : List (Option Nat)    -- names 0, 1, 2
  done : List Bool            -- per dispatch, in creation order
  susp : List (Option Nat)    -- per dispatch: the callback function it is suspended in, if any
  ws : List WSt               -- per waiter, in creation order
  deriving DecidableEq, Repr

structure WMeta where
  started : Bool
  t0 : Nat                    -- clock reading when it started
  had : Bool                  -- a value existed when it started
  fin : WSt                   -- how it ended (or still waits) at the end of the history
  deriving DecidableEq, Repr

structure LogO where
  task : Nat
  cb : Nat
  val : Nat
  deriving DecidableEq, Repr

structure Obs where
  log : List LogO
  snaps : List Snap
  wmeta : List WMeta
  deriving Repr

def isDone (t : DTask) : Bool := match t.ph with | .done _ => true | _ => false

def wst (t : WTask) : WSt :=
  match t.ph with
  | .waiting dl => .waiting dl
  | .returned v a => .returned v a
  | .timedOut a => .timedOut a
  | _ => .notYet

def wmetaOf (t : WTask) : WMeta :=
  match t.ph with
  | .absent | .created => ⟨false, 0, false, .notYet⟩
  | _ => ⟨true, t.t0, t.had, wst t⟩

def mkSnap (s : St) (k : Nat) : Snap :=
  ⟨k, s.now, (List.range 3).map s.data, (List.range s.nd).map fun i => isDone (s.d i),
    (List.range s.nd).map fun i => (match (s.d i).ph with | .inCb _ u _ _ => some u.cb | _ => none),
    (List.range s.nw).map fun j => wst (s.w j)⟩

structure Drv where
  s : St
  ready : List Ready
  k : Nat                     -- number of ops performed
  snaps : List Snap
  bad : Option Nat            -- index of the first op the machine does not accept

def isWaiting (t : WTask) : Bool := match t.ph with | .waiting _ => true | _ => false
def isWoken (t : WTask) : Bool := match t.ph with | .woken => true | _ => false

/-- run the ready queue in FIFO order; tasks woken by a store are queued behind what is ready
(`fuel` bounds the loop: every move finishes a task, consumes a suspension or starts a task) -/
def settle (sc : Nat → Script) : Nat → St → List Ready → St
  | 0, s, _ => s
  | _, s, [] => s
  | fuel + 1, s, .d i :: rest =>
    let s' := step sc s (.stepD i)
    let newly := (List.range s.nw).filter fun j => isWaiting (s.w j) && isWoken (s'.w j)
    settle sc fuel s' (rest ++ newly.map Ready.w)
  | fuel + 1, s, .w j :: rest => settle sc fuel (step sc s (.stepW j)) rest

def doOp (sc : Nat → Script) (dv : Drv) (op : Op) : Drv :=
  let dv' : Drv :=
    match op with
    | .sub n c => { dv with s := step sc dv.s (.subscribe n c) }
    | .once n c => { dv with s := step sc dv.s (.subscribeOnce n c) }
    | .unsub n c => { dv with s := step sc dv.s (.unsubCb n c) }
    | .unsubo n x => { dv with s := step sc dv.s (.unsubOnce n x) }
    | .disp n v => { dv with ready := dv.ready ++ [.d dv.s.nd], s := step sc dv.s (.spawnDispatch n v) }
    | .get n t => { dv with ready := dv.ready ++ [.w dv.s.nw], s := step sc dv.s (.spawnWait n t) }
    | .rel i =>
      let ok := (match (dv.s.d i).ph with | .inCb .. => true | _ => false) && !dv.ready.contains (.d i)
      { dv with ready := dv.ready ++ [.d i], bad := if ok then dv.bad else dv.bad.or (some dv.k) }
    | .settle =>
      let s' := settle sc 10000 dv.s dv.ready
      { dv with s := s', ready := [], snaps := dv.snaps ++ [mkSnap s' dv.k] }
    | .adv t =>
      let s' := step sc dv.s (.advance t)
      { dv with s := s', snaps := dv.snaps ++ [mkSnap s' dv.k],
                bad := if dv.ready.isEmpty then dv.bad else dv.bad.or (some dv.k) }
  { dv' with k := dv.k + 1 }

def drv0 : Drv := ⟨init, [], 0, [], none⟩

def runOps (sc : Nat → Script) (ops : List Op) : Drv := ops.foldl (doOp sc) drv0

def obsOf (s : St) (snaps : List Snap) : Obs :=
  ⟨s.log.map fun e => ⟨e.task, e.sub.cb, e.val⟩, snaps, (List.range s.nw).map fun j => wmetaOf (s.w j)⟩

/-- what an observer sees of the machine driven through the history `ops` -/
def observe (sc : Nat → Script) (ops : List Op) : Obs :=
  obsOf (runOps sc ops).s (runOps sc ops).snaps

end PlumVerif.C13

import PlumVerif.Model.PyCodeTypesDriver
/-
Line-protocol front end for the translated STRUCTURES (network information / program version) of Generated/PyCodeTypes.lean:
`pytn <function> <args…>`; one word per argument, values NESTED:
  scalar atom of PyCodeDriver (`n t f i… b… s…`) | `U` (slot never assigned) | `O<class>(<slot>=<value>,…)` | `M(<hex key>=<value>,…)` (dict)
Answer as `pyt`: `ok <value>` / `err <exception class>`.
-/
namespace PlumVerif.PyCodeTypes
open PlumVerif.Py PlumVerif.PyCode

mutual
partial def parseVal (cs : List Char) : Option (V × List Char) :=
  match cs with
  | 'U' :: r => some (PyT.unset, r)
  | 'O' :: r =>
    let name := r.takeWhile (· ≠ '(')
    match r.dropWhile (· ≠ '(') with
    | '(' :: r' => do
      let (kvs, rest) ← parseFields r'
      pure (.obj (String.ofList name) (kvs.map (·.1)) (kvs.map (·.2)), rest)
    | _ => none
  | 'M' :: '(' :: r => do
    let (kvs, rest) ← parseFields r
    let ks ← kvs.mapM fun kv => parseStr kv.1
    pure (.dict ks (kvs.map (·.2)), rest)
  | _ =>
    let tok := cs.takeWhile (fun c => c ≠ ',' ∧ c ≠ ')' ∧ c ≠ '=')
    (parseScalar (String.ofList tok)).map fun v => (v, cs.drop tok.length)

partial def parseFields (cs : List Char) : Option (List (String × V) × List Char) :=
  match cs with
  | ')' :: r => some ([], r)
  | _ =>
    let key := cs.takeWhile (· ≠ '=')
    match cs.dropWhile (· ≠ '=') with
    | '=' :: r => do
      let (v, rest) ← parseVal r
      match rest with
      | ',' :: rest' => do
        let (more, rest'') ← parseFields rest'
        pure ((String.ofList key, v) :: more, rest'')
      | ')' :: rest' => pure ([(String.ofList key, v)], rest')
      | _ => none
    | _ => none
end

def parseNested (a : String) : Option V :=
  match parseVal a.toList with
  | some (v, []) => some v
  | _ => none

def pytnOps : List String → Option String
  | "pytn" :: name :: args => do
    let vs ← args.mapM parseNested
    let m ← call name 0 vs
    match m with
    | .ok v => pure s!"ok {showT v}"
    | .error e => pure s!"err {errName e}"
  | _ => none

end PlumVerif.PyCodeTypes

import PlumVerif.Model.DecodeParams
import PlumVerif.Model.DecodeMisc
/-
Line-protocol front end for the parameter-block / schedules / alerts / UID / password models.

  p2enc ecomax <b0> <start> <slot>*                       slot: `-` (hole) or `v/min/max`
  p2enc mixer <b0> <start> <count> (| <slot>*)*           one `|` group per mixer
  p2enc thermostat <b0> <start> <count> <profile slot> (| <slot>*)*
  p2enc schedules <b0> <start> (<index> <switch> <slot> <d0.d1.….d6>)*    days as 0/1 strings
  p2enc alerts <total> <start> (<code> <y-m-d-H-M-S> <y-m-d-H-M-S|open>)*
  p2enc uid <ptype> <pid> <uid hex> <logo> <image> <name hex>
  p2enc password <b0> <pw hex>
      -> `<payload hex> <wf 0|1> <value the message stands for>`
  p2dec ecomax|mixer|schedules|alerts|uid|password <hex>
  p2dec thermostat <T|none> <hex>
      -> `<decoded value> <bytes consumed>`  or  `E:<exception class>`
  p2uidtext <uid hex>     -> `<UID text or - when empty> <crc16>`
-/
namespace PlumVerif.P2

def Err.tag : Err → String
  | .index => "index" | .unbound => "unbound" | .struct => "struct" | .value => "value"

def showTriple : Triple → String | (v, mn, mx) => s!"{v}/{mn}/{mx}"
def showParams (ps : Params) : String :=
  "[" ++ String.intercalate "," (ps.map fun (i, t) => s!"{i}={showTriple t}") ++ "]"
def showBlocks (bs : Blocks) : String :=
  "{" ++ String.intercalate ";" (bs.map fun (t, ps) => s!"{t}:{showParams ps}") ++ "}"
def showThermo : ThermoVal → String
  | .unavailable => "U"
  | .val p bs => "P" ++ (match p with | some t => showTriple t | none => "-") ++ showBlocks bs
def showBits (bs : List Bool) : String := String.ofList (bs.map fun b => if b then '1' else '0')
def showDays (ds : List (List Bool)) : String := String.intercalate "." (ds.map showBits)
def showSched : SchedVal → String
  | .short => "S"
  | .val ss ps =>
    "(" ++ String.intercalate ";" (ss.map fun (i, ds) => s!"{i}:{showDays ds}") ++ ")" ++ showParams ps
def showDT (t : DT) : String := s!"{t.y}-{t.mo}-{t.d}-{t.h}-{t.mi}-{t.s}"
def showAlert (a : AlertRec) : String :=
  s!"{a.code.toNat}@{showDT a.from_}>" ++ (match a.to with | some t => showDT t | none => "open")
def showAlerts (v : AlertsVal) : String :=
  s!"T{v.total}" ++ (match v.alerts with
    | none => "N"
    | some as => "[" ++ String.intercalate "," (as.map showAlert) ++ "]")
def showProduct (v : ProductVal) : String :=
  s!"{v.ptype},{v.pid},{v.uid},{v.logo},{v.image}," ++
    (if namePrintable v.rawName then showHex v.model else "~")
def showPassword : Option (List Byte) → String
  | none => "N"
  | some p => showHex p

def parseByte (s : String) : Option Byte := do
  let n ← s.toNat?
  if n < 256 then pure n.toUInt8 else none

def parseSlot (s : String) : Option Slot :=
  if s = "-" then some none
  else match s.splitOn "/" with
    | [a, b, c] => do pure (some (← a.toNat?, ← b.toNat?, ← c.toNat?))
    | _ => none

/-- `| s s | s` → [[s,s],[s]] (`cur`: the group being read, reversed; `acc`: finished groups, reversed) -/
def parseGroupsAux : List String → Option (List Slot) → List (List Slot) → Option (List (List Slot))
  | [], none, acc => some acc.reverse
  | [], some g, acc => some (g.reverse :: acc).reverse
  | "|" :: rest, none, acc => parseGroupsAux rest (some []) acc
  | "|" :: rest, some g, acc => parseGroupsAux rest (some []) (g.reverse :: acc)
  | _ :: _, none, _ => none
  | w :: rest, some g, acc =>
    match parseSlot w with
    | some s => parseGroupsAux rest (some (s :: g)) acc
    | none => none

def parseGroups (ws : List String) : Option (List (List Slot)) := parseGroupsAux ws none []

def parseBits (s : String) : Option (List Bool) :=
  s.toList.mapM fun c => if c = '0' then some false else if c = '1' then some true else none

def parseDT (s : String) : Option DT :=
  match (s.splitOn "-").mapM String.toNat? with
  | some [y, mo, d, h, mi, sec] => some ⟨y, mo, d, h, mi, sec⟩
  | _ => none

def parseSchedEntries : List String → Option (List SchedEntry)
  | [] => some []
  | i :: sw :: p :: ds :: rest => do
    let i ← parseByte i; let sw ← parseByte sw; let p ← parseSlot p
    let days ← (if ds = "-" then some [] else (ds.splitOn ".").mapM parseBits)
    let es ← parseSchedEntries rest
    pure (⟨i, sw, p, days⟩ :: es)
  | _ => none

def parseAlertRecs : List String → Option (List AlertRec)
  | [] => some []
  | c :: f :: t :: rest => do
    let c ← parseByte c; let f ← parseDT f
    let t ← (if t = "open" then some none else (parseDT t).map some)
    let as ← parseAlertRecs rest
    pure (⟨c, f, t⟩ :: as)
  | _ => none

def encAnswer (bytes : List Byte) (wf : Bool) (val : String) : String :=
  s!"{showHex bytes} {if wf then 1 else 0} {val}"

def decAnswer {α : Type} (total : Nat) (sh : α → String) : Except Err (α × List Byte) → String
  | .error e => "E:" ++ e.tag
  | .ok (v, rest) => s!"{sh v} {total - rest.length}"

def p2Ops : List String → Option String
  | "p2enc" :: "ecomax" :: b0 :: st :: slots => do
    let m : EcomaxMsg := ⟨← parseByte b0, ← parseByte st, ← slots.mapM parseSlot⟩
    pure (encAnswer (encodeEcomax m) (wfEcomax m) (showParams (valEcomax m)))
  | "p2enc" :: "mixer" :: b0 :: st :: c :: groups => do
    let m : MixerMsg := ⟨← parseByte b0, ← parseByte st, ← parseByte c, ← parseGroups groups⟩
    pure (encAnswer (encodeMixer m) (wfMixer m) (showBlocks (valMixer m)))
  | "p2enc" :: "thermostat" :: b0 :: st :: c :: prof :: groups => do
    let m : ThermoMsg := ⟨← parseByte b0, ← parseByte st, ← parseByte c, ← parseSlot prof, ← parseGroups groups⟩
    pure (encAnswer (encodeThermo m) (wfThermo m) (showThermo (valThermo m)))
  | "p2enc" :: "schedules" :: b0 :: st :: entries => do
    let m : SchedMsg := ⟨← parseByte b0, ← parseByte st, ← parseSchedEntries entries⟩
    pure (encAnswer (encodeSched m) (wfSched m) (showSched (valSched m)))
  | "p2enc" :: "alerts" :: total :: st :: recs => do
    let m : AlertsMsg := ⟨← parseByte total, ← parseByte st, ← parseAlertRecs recs⟩
    pure (encAnswer (encodeAlerts m) (wfAlerts m) (showAlerts (valAlerts m)))
  | ["p2enc", "uid", pt, pid, uid, logo, image, name] => do
    let m : ProductMsg := ⟨← parseByte pt, ← pid.toNat?, ← parseHex uid, ← logo.toNat?, ← image.toNat?, ← parseHex name⟩
    pure (encAnswer (encodeProduct m) (wfProduct m) (showProduct (valProduct m)))
  | ["p2enc", "password", b0, pw] => do
    let m : PasswordMsg := ⟨← parseByte b0, ← parseHex pw⟩
    pure (encAnswer (encodePassword m) (wfPassword m) (showPassword (valPassword m)))
  | ["p2dec", "ecomax", h] => do
    let bs ← parseHex h
    pure (decAnswer bs.length showParams (decodeEcomax bs))
  | ["p2dec", "mixer", h] => do
    let bs ← parseHex h
    pure (decAnswer bs.length showBlocks (decodeMixer bs))
  | ["p2dec", "thermostat", t, h] => do
    let bs ← parseHex h
    let t ← (if t = "none" then some none else t.toNat?.map some)
    pure (decAnswer bs.length showThermo (decodeThermo t bs))
  | ["p2dec", "schedules", h] => do
    let bs ← parseHex h
    pure (decAnswer bs.length showSched (decodeSched bs))
  | ["p2dec", "alerts", h] => do
    let bs ← parseHex h
    pure (decAnswer bs.length showAlerts (decodeAlerts bs))
  | ["p2dec", "uid", h] => do
    let bs ← parseHex h
    pure (decAnswer bs.length showProduct (decodeProduct bs))
  | ["p2dec", "password", h] => do
    let bs ← parseHex h
    pure (match decodePassword bs with
      | .error e => "E:" ++ e.tag
      | .ok v => s!"{showPassword v} {bs.length}")
  | ["p2uidtext", h] => do
    let bs ← parseHex h
    pure s!"{if (uidChars bs).isEmpty then "-" else uidString bs} {crc16 bs}"
  | _ => none

end PlumVerif.P2

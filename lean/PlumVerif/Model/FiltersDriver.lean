import PlumVerif.Model.Filters
import PlumVerif.Spec.C20
/-
Line-protocol front end for the filter machines (C20).

  c20 <filter> <call>*                    -> one outcome per call, `;`-joined (`.` when no calls);
                                             for a chain `A>B`: outcomes of A alone `|` outcomes of the chain
  c20judge <filter> <call>* | <outcome>*  -> pass | fail   (C20.spec on an observed run; no chains)
  c20m <filter> <inst>=<call> …           -> outcomes when several filter objects built by the same expression are called in turn

  filter  : oc | db:<n> | th:<secs> | de | ag:<secs>:<t0> | cu:always | cu:never | cu:ge:<k> | cu:notnum | A>B
  call    : <t>@<val>         t, secs, t0 in ticks (Int)
  val     : n<int> (sixteenths) | s<hex utf-8 or -> | l<int,int,…> or l- | p<v>,<min>,<max>,<0|1> | b0 | b1 | N
  outcome : - (not delivered) | ! (raised) | d<val>
-/
namespace PlumVerif.C20

def parseInts (s : String) : Option (List Int) :=
  if s = "-" then some [] else (s.splitOn ",").mapM String.toInt?

def parseVal (s : String) : Option Val :=
  match s.toList with
  | 'n' :: r => (String.ofList r).toInt?.map .num
  | 's' :: r => (parseHex (String.ofList r)).map .str
  | 'l' :: r => (parseInts (String.ofList r)).map .list
  | 'p' :: r =>
    match parseInts (String.ofList r) with
    | some [v, mn, mx, 0] => some (.param v mn mx false)
    | some [v, mn, mx, 1] => some (.param v mn mx true)
    | _ => none
  | ['b', '0'] => some (.bool false)
  | ['b', '1'] => some (.bool true)
  | ['N'] => some .none
  | _ => none

def showInts (xs : List Int) : String :=
  if xs.isEmpty then "-" else String.intercalate "," (xs.map toString)

def showVal : Val → String
  | .num n => s!"n{n}"
  | .str b => "s" ++ showHex b
  | .list xs => "l" ++ showInts xs
  | .param v mn mx p => s!"p{v},{mn},{mx},{if p then 1 else 0}"
  | .bool b => if b then "b1" else "b0"
  | .none => "N"

def parseCall (s : String) : Option Call :=
  match s.splitOn "@" with
  | [t, v] => do pure ⟨← t.toInt?, ← parseVal v⟩
  | _ => none

def parseOut (s : String) : Option Out :=
  match s.toList with
  | ['-'] => some .skip
  | ['!'] => some .raised
  | 'd' :: r => (parseVal (String.ofList r)).map .deliver
  | _ => none

def showOut : Out → String
  | .skip => "-"
  | .raised => "!"
  | .deliver v => "d" ++ showVal v

def showOuts (os : List Out) : String :=
  if os.isEmpty then "." else String.intercalate ";" (os.map showOut)

def parseBase (s : String) : Option Filter :=
  match s.splitOn ":" with
  | ["oc"] => some .onChange
  | ["db", n] => n.toNat?.map .debounce
  | ["th", x] => x.toInt?.map .throttle
  | ["de"] => some .delta
  | ["ag", x, t0] => do pure (.aggregate (← x.toInt?) (← t0.toInt?))
  | ["cu", "always"] => some (.custom .always)
  | ["cu", "never"] => some (.custom .never)
  | ["cu", "notnum"] => some (.custom .notNum)
  | ["cu", "ge", k] => k.toInt?.map fun k => .custom (.numGe k)
  | _ => none

def parseFilter (s : String) : Option Filter :=
  match s.splitOn ">" with
  | [a] => parseBase a
  | [a, b] => do pure (.chain (← parseBase a) (← parseBase b))
  | _ => none

def parseICall (s : String) : Option ICall :=
  match s.splitOn "=" with
  | [i, c] => do pure ⟨← i.toNat?, ← parseCall c⟩
  | _ => none

def filterOps : List String → Option String
  | "c20" :: f :: calls => do
    let f ← parseFilter f
    let cs ← calls.mapM parseCall
    match f with
    | .chain a _ => pure (showOuts (a.machine.outs cs) ++ "|" ++ showOuts (f.machine.outs cs))
    | _ => pure (showOuts (f.machine.outs cs))
  | "c20m" :: f :: calls => do
    let f ← parseFilter f
    let ics ← calls.mapM parseICall
    pure (showOuts (multiOuts f.machine ics))
  | "c20judge" :: f :: rest => do
    let f ← parseBase f
    let cs ← (rest.takeWhile (· ≠ "|")).mapM parseCall
    let os ← ((rest.dropWhile (· ≠ "|")).drop 1).mapM parseOut
    if rest.contains "|" then pure (if spec f cs os then "pass" else "fail") else none
  | _ => none

end PlumVerif.C20

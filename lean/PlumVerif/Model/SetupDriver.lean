import PlumVerif.Model.Setup
import PlumVerif.Spec.C16
/-
line-protocol front end for the C16 set-up machine (configuration of EcoMAX.async_setup from the
generated tables)

  c16 <mixers 0|1> <event>*
      -> <group>|<group>|…;<clock>;<available bits>;<tx counts>;<loaded time or ->;<errors>
      a `w:<ms>` that would reach or cross the pending deadline is not an event of the machine: bad-op
  c16judge <mixers 0|1> <t0> <complete 0|1> <loaded time or -> <errors e.e.e or -> <answers a,a,… (- = never)> <tx n,n,…> <present bits>
      -> pass | full-only[:F11-input] | fail
events:  s   a:<kind position>   w:<ms>   t   v:<k.k.k or -> (frame-versions table naming these kinds)
outputs: X:<kind>:<t>   L:<t>:<e.e.e or ->   V:<kind>:<t> (request by the frame-versions handler)
-/
namespace PlumVerif
open PlumVerif.Setup

namespace Setup

def parseEv (tok : String) : Option Ev :=
  match tok.splitOn ":" with
  | ["s"] => some .sensors
  | ["a", k] => do pure (.answer (← k.toNat?))
  | ["w", d] => do pure (.wait (← d.toNat?))
  | ["t"] => some .timer
  | ["v", ks] => do pure (.versions (← if ks = "-" then some [] else (ks.splitOn ".").mapM (·.toNat?)))
  | _ => none

def showNats (sep : String) (l : List Nat) : String :=
  if l.isEmpty then "-" else String.intercalate sep (l.map toString)

def Out.show : Out → String
  | .tx k t => s!"X:{k}:{t}"
  | .loaded t e => s!"L:{t}:{showNats "." e}"
  | .vtx k t => s!"V:{k}:{t}"

def showGroup (g : List Out) : String :=
  if g.isEmpty then "-" else String.intercalate "," (g.map Out.show)

def parseBool : String → Option Bool
  | "0" => some false
  | "1" => some true
  | _ => none

def parseList (sep : String) (s : String) : Option (List Nat) :=
  if s = "-" then some [] else (s.splitOn sep).mapM (·.toNat?)

def parseOptNat (s : String) : Option (Option Nat) :=
  if s = "-" then some none else do pure (some (← s.toNat?))

end Setup

/-- every `.wait d` of the history stays short of the pending deadline (the machine's `.wait` is only defined there;
crossing it is the `.timer` event) -/
def waitsOk (c : Cfg) : St → List Ev → Bool
  | _, [] => true
  | s, e :: es =>
    (match e, s.phase with
     | .wait d, .running i => decide (s.now + d < s.t0 + i * c.T)
     | _, _ => true) && waitsOk c (step c s e).1 es

def setupOps : List String → Option String
  | "c16" :: m :: evs => do
    let mixers ← Setup.parseBool m
    let es ← evs.mapM Setup.parseEv
    let c := ecomaxCfg mixers
    if !(waitsOk c init es) then none else
    let groups := runGroups c init es
    let sf := (run c init es).1
    let bits := String.ofList ((kinds c).map fun k => if avail c sf k then '1' else '0')
    let txs := Setup.showNats "," ((kinds c).map sf.tx)
    let ld := match sf.phase with
      | .loaded => s!"{sf.loadedAt};{Setup.showNats "." sf.errors}"
      | _ => "-;-"
    let vtxs := Setup.showNats "," ((kinds c).map sf.vtx)
    pure (String.intercalate "|" (groups.map Setup.showGroup) ++ s!";{sf.now};{bits};{txs};{ld};{vtxs}")
  | ["c16judge", m, t0, comp, ld, errs, ans, txs, pres] => do
    let mixers ← Setup.parseBool m
    let t0 ← t0.toNat?
    let complete ← Setup.parseBool comp
    let loadedAt ← Setup.parseOptNat ld
    let errors ← Setup.parseList "." errs
    let answers ← (ans.splitOn ",").mapM Setup.parseOptNat
    let tx ← Setup.parseList "," txs
    let present ← pres.toList.mapM (fun ch => if ch = '1' then some true else if ch = '0' then some false else none)
    let c := ecomaxCfg mixers
    if answers.length ≠ c.n ∨ tx.length ≠ c.n ∨ present.length ≠ c.n then none
    else
      let o : C16.Obs := ⟨t0, answers, complete, loadedAt, errors, tx, present⟩
      -- pass: the statement as written holds; full-only: only the literal "data of every answered request is available"
      -- fails (with or without the input class of finding F11); fail: another clause fails
      pure (if C16.specFull c o then "pass"
            else if C16.spec c o then (if C16.f11Input c o then "full-only:F11-input" else "full-only") else "fail")
  | _ => none

end PlumVerif

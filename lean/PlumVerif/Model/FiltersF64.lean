import PlumVerif.Model.F64
import PlumVerif.Generated.Consts
import PlumVerif.Generated.EventsTables
/-
C20 on binary64 numbers — the comparison `filters.py` really computes.

`Model/Filters.lean` carries numbers as sixteenths, where every float operation is exact.  Here a
number is ANY finite double, given by its exact rational value (`F64.Q`), and the comparison is
CPython's `math.isclose(old, new, rel_tol=…, abs_tol=…)` (Modules/mathmodule.c, `math_isclose_impl`):

    if (a == b) return 1;
    diff = fabs(b - a);                                   -- the subtraction ROUNDS (`F64.rne`)
    return diff <= fabs(rel_tol * b) || diff <= fabs(rel_tol * a) || diff <= abs_tol;

with `rel_tol` and `abs_tol` the keywords of the call in `filters.py` (`Gen.relTol*`, `Gen.absTolCall*`: read from the source by
the translator and confirmed by probing `on_change` around the boundary at many magnitudes; an absent `rel_tol` is the default
1e-09 of `math.isclose`), both as the exact rationals of their doubles.  The model is the formula for WHATEVER the two constants
are; what they are is pinned in Props/C20F64.lean (`absTol_is_TOLERANCE`) and Props/C20F64Pin.lean (`relTol_is_zero`).
Not representable here and excluded: NaN and the infinities (isclose: NaN is close to
nothing, an infinity only to itself), and Python ints too large for a double (`OverflowError`).

The number-only filter machines over doubles: `on_change`, `debounce`, `delta` (difference =
correctly rounded `new - old`), `aggregate` (the running sum is a rounded float sum).
-/
namespace PlumVerif.C20F
open F64

abbrev D := Q

def absTol : D := ⟨Gen.absTolCallNum, Gen.absTolCallDen⟩
def relTol : D := ⟨Gen.relTolNum, Gen.relTolDen⟩

def fabs (q : D) : D := ⟨q.num.natAbs, q.den⟩
def neg (q : D) : D := ⟨-q.num, q.den⟩
/-- float subtraction `a - b` -/
def fsub (a b : D) : D := rne (a.add (neg b))

/-- `math.isclose(a, b, rel_tol=relTol, abs_tol=absTol)` on finite doubles -/
def isclose (a b : D) : Bool :=
  a.eqv b ||
    (let diff := fabs (fsub b a)
     diff.le (fabs (fmul relTol b)) || diff.le (fabs (fmul relTol a)) || diff.le absTol)

/-- `_significantly_changed(old, new)` for two numbers -/
def changed (old new : D) : Bool := !isclose old new

/-- the statement's reading on the exact values: the two numbers differ by MORE than the tolerance -/
def differs (a b : D) : Bool := !(fabs (a.add (neg b))).le absTol

/-- `|fl(new − old)| > abs_tol`: the correctly rounded float difference exceeds the tolerance -/
def exceeds (old new : D) : Bool := !(fabs (fsub new old)).le absTol

inductive Out where
  | skip
  | deliver (v : D)
  deriving DecidableEq, Repr

def Out.value? : Out → Option D
  | .deliver v => some v
  | .skip => none

/-- a Mealy machine over numbers (`Model/Filters.lean: Machine` with doubles for values) -/
structure Machine where
  σ : Type
  init : σ
  step : σ → D → σ × Out

namespace Machine
def run (m : Machine) : m.σ → List D → List Out
  | _, [] => []
  | s, v :: vs => (m.step s v).2 :: run m (m.step s v).1 vs
def final (m : Machine) : m.σ → List D → m.σ
  | s, [] => s
  | s, v :: vs => final m (m.step s v).1 vs
def outs (m : Machine) (vs : List D) : List Out := m.run m.init vs
def state (m : Machine) (vs : List D) : m.σ := m.final m.init vs
end Machine

/-- `_OnChange.__call__`; state = last delivered value -/
def onChangeStep (s : Option D) (v : D) : Option D × Out :=
  match s with
  | none => (some v, .deliver v)
  | some o => if changed o v then (some v, .deliver v) else (s, .skip)

def onChange : Machine := ⟨Option D, none, onChangeStep⟩

/-- `_Debounce.__call__`; state = (last delivered, `_calls`) -/
def debounceStep (n : Nat) (s : Option D × Nat) (v : D) : (Option D × Nat) × Out :=
  let calls := match s.1 with
    | none => s.2 + 1
    | some o => if changed o v then s.2 + 1 else 0
  if s.1.isNone || decide (n ≤ calls) then ((some v, 0), .deliver v) else ((s.1, calls), .skip)

def debounce (n : Nat) : Machine := ⟨Option D × Nat, (none, 0), debounceStep n⟩

/-- `_Delta.__call__`; state = last recorded value; the delivered difference is the float `new - old` -/
def deltaStep (s : Option D) (v : D) : Option D × Out :=
  match s with
  | none => (some v, .skip)
  | some o => if changed o v then (some v, .deliver (fsub v o)) else (s, .skip)

def delta : Machine := ⟨Option D, none, deltaStep⟩

/-- the history functions of the statement (as in Spec/C20.lean) -/
def lastDelivered (os : List Out) : Option D := os.reverse.findSome? Out.value?

def sinceDelivery (pre : List D) (os : List Out) : List D :=
  (((pre.zip os).reverse.takeWhile fun p => p.2.value?.isNone).map fun p => p.1).reverse

def trailing (p : D → Bool) (l : List D) : Nat := (l.reverse.takeWhile p).length

/-- the reference value of `delta` after the calls -/
def recorded (vs : List D) : Option D :=
  vs.foldl (fun r v => match r with
    | none => some v
    | some d => if changed d v then some v else r) none

/-- what the statement prescribes, with the comparison the code computes -/
def expectOnChange (os : List Out) (v : D) : Out :=
  match lastDelivered os with
  | none => .deliver v
  | some d => if isclose d v then .skip else .deliver v

def expectDebounce (n : Nat) (pre : List D) (os : List Out) (v : D) : Out :=
  match lastDelivered os with
  | none => .deliver v
  | some d => if n ≤ trailing (changed d) (sinceDelivery pre os ++ [v]) then .deliver v else .skip

def expectDelta (pre : List D) (v : D) : Out :=
  match recorded pre with
  | none => .skip
  | some d => if isclose d v then .skip else .deliver (fsub v d)

/-- the double nearest to the decimal `n / 10^p` (what the literal / `float("…")` / a decoded value gives) -/
def dec (n : Int) (p : Nat) : D := rne ⟨n, 10 ^ p⟩

end PlumVerif.C20F

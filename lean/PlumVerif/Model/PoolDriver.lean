import PlumVerif.Model.Pool
import PlumVerif.Spec.C09
/- line-protocol front end for the C09 pool machine

  frame word   <cls>:<sender>:<controller 0|1>:<items>:<raises 0|1>   cls = d | p | c | o
               (data, program-version request, check-device request, other request) or `s` for a
               received frame that never reaches the read queue (ignored / protocol error).
               Frame ids are positions in the whole sequence (skipped ones included).
  c09 <contain 0|1> <n> <cfg> <frame>… | <frame>… | …      batches separated by "|"
      -> one snapshot per batch, separated by " ; ":  delivered responses unfinished alive
         (delivered: - | id,id;  responses: - | code.rcpt.net,…); a batch starting with the word H
         arrives while no consumer can finish (device entry being created): nothing is handled yet
  c09judge <n> <cfg> <frame>… | <delivered> <responses> <unfinished> <alive> <shutdown 0|1>
      -> pass | fail:<first failing clause of C09.spec>
-/
namespace PlumVerif.Pool

def showL (xs : List String) : String := if xs.isEmpty then "-" else String.intercalate "," xs

def Resp.show (r : Resp) : String := s!"{r.kind.code}.{r.rcpt}.{r.net}"

def Snap.show (o : Snap) : String :=
  s!"{showL (o.delivered.map toString)} {showL (o.responses.map Resp.show)} {o.unfinished} {o.alive}"

def parseBit (w : String) : Option Bool :=
  if w = "1" then some true else if w = "0" then some false else none

/-- `none` = malformed, `some none` = skipped frame -/
def parseFrame (id : Nat) (w : String) : Option (Option Frame) :=
  if w = "s" then some none else
  match w.splitOn ":" with
  | [c, sd, ctl, items, r] => do
    let cls ← match c with
      | "d" => some Cls.data | "p" => some Cls.pvReq | "c" => some Cls.cdReq | "o" => some Cls.otherReq
      | _ => none
    let sd ← sd.toNat?; let ctl ← parseBit ctl; let items ← items.toNat?; let r ← parseBit r
    pure (some ⟨id, cls, sd, ctl, items, r⟩)
  | _ => none

def splitBar (ws : List String) : List (List String) :=
  ws.foldr (fun w acc =>
    match acc with
    | [] => if w = "|" then [[], []] else [[w]]
    | g :: gs => if w = "|" then [] :: g :: gs else (w :: g) :: gs) []

/-- parse batches of frame words, numbering positions from `start`; a batch that starts with
the word `H` arrives while the consumers are held up in device creation -/
def parseBatchesH : Nat → List (List String) → Option (List (Bool × List Frame))
  | _, [] => some []
  | start, b :: bs => do
    let (held, b) := match b with
      | "H" :: r => (true, r)
      | _ => (false, b)
    let fs ← (b.zipIdx start).mapM fun (w, i) => parseFrame i w
    let rest ← parseBatchesH (start + b.length) bs
    pure ((held, fs.filterMap id) :: rest)

def parseBatches (start : Nat) (bs : List (List String)) : Option (List (List Frame)) :=
  (parseBatchesH start bs).map fun l => l.map (·.2)

def parseResp (w : String) : Option Resp :=
  match w.splitOn "." with
  | [k, r, n] => do
    let k ← k.toNat?; let r ← r.toNat?; let n ← n.toNat?
    let kind ← if k = RKind.programVersion.code then some RKind.programVersion
               else if k = RKind.deviceAvailable.code then some RKind.deviceAvailable else none
    pure ⟨kind, r, n⟩
  | _ => none

def parseL (w : String) (f : String → Option α) : Option (List α) :=
  if w = "-" then some [] else (w.splitOn ",").mapM f

def judge (n cfg : Nat) (frames : List Frame) (o : C09.Obs) : String :=
  if !C09.deliveredOnce frames o then "fail:a-decodable-frame-was-not-delivered-exactly-once"
  else if !C09.onlyValid frames o then "fail:something-else-was-delivered"
  else if !C09.answered cfg frames o then "fail:controller-requests-not-answered-one-to-one"
  else if !C09.balanced n o then "fail:accounting-unbalanced-or-consumer-lost-or-shutdown-stuck"
  else if C09.spec n cfg frames o then "pass" else "fail:spec"

def poolOps : List String → Option String
  | "c09" :: contain :: n :: cfg :: rest => do
    let contain ← parseBit contain
    let n ← n.toNat?; let cfg ← cfg.toNat?
    let batches ← parseBatchesH 0 (splitBar rest)
    pure (String.intercalate " ; " ((replayH contain cfg n batches).map Snap.show))
  | "c09judge" :: n :: cfg :: rest => do
    let n ← n.toNat?; let cfg ← cfg.toNat?
    match splitBar rest with
    | [fws, [d, r, u, a, sh]] =>
      let frames ← parseBatches 0 [fws]
      let d ← parseL d String.toNat?
      let r ← parseL r parseResp
      let u ← u.toNat?; let a ← a.toNat?; let sh ← parseBit sh
      pure (judge n cfg frames.flatten ⟨d, r, u, a, sh⟩)
    | _ => none
  | _ => none

end PlumVerif.Pool

import PlumVerif.Model.Pool
import PlumVerif.Model.Fanout
import PlumVerif.Model.Pipe
import PlumVerif.Spec.C09
/- line-protocol front end for the C09 pool machine

  frame word   <cls>:<sender>:<controller 0|1>:<items>:<raises 0|1>   cls = d | p | c | o
               (data, program-version request, check-device request, other request) or `s` for a
               received frame that never reaches the read queue (ignored / protocol error).
               Frame ids are positions in the whole sequence (skipped ones included).
  c09 <contain 0|1> <n> <net> <ver> <frame>… | <frame>… | …      batches separated by "|"
      net = the configured network information as the payload (hex) of a device-available response
            (decoded here with the network structure's DECODER; undecodable -> bad-op)
      ver = a.b.c.<struct tag hex>.<struct version>.<device id hex>.<processor signature hex>
            (the code's `VersionInfo()` defaults, read from the implementation by the harness)
      -> one snapshot per batch, separated by " ; ":  delivered responses unfinished alive
         (responses: - | kind.rcpt.sender.etype.ever.payloadhex,…)
         (delivered: - | id,id;  responses: - | code.rcpt.net,…); a batch starting with the word H
         arrives while no consumer can finish (device entry being created): nothing is handled yet
  c09judge <n> <net> <frame>… | <delivered> <responses> <unfinished> <alive> <shutdown 0|1>
      -> pass | fail:<first failing clause of C09.spec>
-/
namespace PlumVerif.Pool

def showL (xs : List String) : String := if xs.isEmpty then "-" else String.intercalate "," xs

def showReply (f : Fields) : String :=
  s!"{f.kind.toNat}.{f.rcpt.toNat}.{f.sender.toNat}.{f.etype.toNat}.{f.ever.toNat}.{showHex f.payload}"

def Snap.show (o : Snap) : String :=
  s!"{showL (o.delivered.map toString)} {showL (o.responses.map showReply)} {o.unfinished} {o.alive}"

def parseBit (w : String) : Option Bool :=
  if w = "1" then some true else if w = "0" then some false else none

/-- `none` = malformed, `some none` = skipped frame -/
def parseFrame (id : Nat) (w : String) : Option (Option Frame) :=
  if w = "s" then some none else
  match w.splitOn ":" with
  | [c, sd, ctl, items, r] => do
    let cls ← match c with
      | "d" => some Cls.data | "p" => some Cls.pvReq | "c" => some Cls.cdReq | "o" => some Cls.otherReq
      | _ => none
    let sd ← sd.toNat?; let ctl ← parseBit ctl; let items ← items.toNat?; let r ← parseBit r
    if sd < 256 then pure (some ⟨id, cls, sd.toUInt8, ctl, items, r⟩) else none
  | _ => none

def splitBar (ws : List String) : List (List String) :=
  ws.foldr (fun w acc =>
    match acc with
    | [] => if w = "|" then [[], []] else [[w]]
    | g :: gs => if w = "|" then [] :: g :: gs else (w :: g) :: gs) []

/-- parse batches of frame words, numbering positions from `start`; a batch that starts with
the word `H` arrives while the consumers are held up in device creation -/
def parseBatchesH : Nat → List (List String) → Option (List (Bool × List Frame))
  | _, [] => some []
  | start, b :: bs => do
    let (held, b) := match b with
      | "H" :: r => (true, r)
      | _ => (false, b)
    let fs ← (b.zipIdx start).mapM fun (w, i) => parseFrame i w
    let rest ← parseBatchesH (start + b.length) bs
    pure ((held, fs.filterMap id) :: rest)

def parseBatches (start : Nat) (bs : List (List String)) : Option (List (List Frame)) :=
  (parseBatchesH start bs).map fun l => l.map (·.2)

def parseByte (w : String) : Option Byte := do
  let n ← w.toNat?
  if n < 256 then some n.toUInt8 else none

def parseReply (w : String) : Option Fields :=
  match w.splitOn "." with
  | [k, r, sd, et, ev, p] => do
    let k ← parseByte k; let r ← parseByte r; let sd ← parseByte sd; let et ← parseByte et; let ev ← parseByte ev
    let p ← parseHex p
    pure ⟨k, r, sd, et, ev, p⟩
  | _ => none

def parseVer (w : String) : Option VersionInfo :=
  match w.splitOn "." with
  | [a, b, c, tag, sv, dev, sig] => do
    let a ← a.toNat?; let b ← b.toNat?; let c ← c.toNat?; let sv ← sv.toNat?
    let tag ← parseHex tag; let dev ← parseHex dev; let sig ← parseHex sig
    pure ⟨a, b, c, tag, sv, dev, sig⟩
  | _ => none

def parseL (w : String) (f : String → Option α) : Option (List α) :=
  if w = "-" then some [] else (w.splitOn ",").mapM f

def judge (n : Nat) (net : NetInfo) (frames : List Frame) (o : C09.Obs) : String :=
  if !C09.deliveredOnce frames o then "fail:a-decodable-frame-was-not-delivered-exactly-once"
  else if !C09.onlyValid frames o then "fail:something-else-was-delivered"
  else if !C09.answered net frames o then "fail:controller-requests-not-answered-one-to-one"
  else if !C09.balanced n o then "fail:accounting-unbalanced-or-consumer-lost-or-shutdown-stuck"
  else if C09.spec n net frames o then "pass" else "fail:spec"

/-! sub-device fan-out (Model/Fanout.lean)

  message word  <m|t><s|p>:<slot>,<slot>,…    slot = `-` (absent) or the block token; `ms:` = no slots
  fan <msg>…                    -> per message `<delivs> <announced> <mixers> <thermostats>` separated by " ; "
                                   delivs: - | idx.obj.blk,…   registries: - | idx.obj,…   announced: n | registry
  fanjudge <msg>… | <out> ; <out> ; …   -> pass | fail   (Fanout.spec on an observation) -/
def parseSlot (x : String) : Option (Option Nat) :=
  if x = "-" then some none else x.toNat?.map some

def parseSlots (sl : String) : Option (List (Option Nat)) :=
  if sl = "" then some [] else (sl.splitOn ",").mapM parseSlot

open Fanout in
def parseMsg (w : String) : Option Fanout.Msg :=
  match w.splitOn ":" with
  | [hd, sl] => do
    let (f, p) ← match hd with
      | "ms" => some (Fam.mixer, Part.sensors) | "mp" => some (Fam.mixer, Part.params)
      | "ts" => some (Fam.thermostat, Part.sensors) | "tp" => some (Fam.thermostat, Part.params)
      | _ => none
    let slots ← parseSlots sl
    pure ⟨f, p, slots⟩
  | _ => none

def showReg (r : Fanout.Reg) : String := showL (r.map fun e => s!"{e.1}.{e.2}")

def showOut (o : Fanout.Out) : String :=
  let a := match o.announced with | none => "n" | some r => showReg r
  s!"{showL (o.delivs.map fun d => s!"{d.idx}.{d.obj}.{d.blk}")} {a} {showReg o.mixers} {showReg o.therms}"

def parseNats (w : String) : Option (List Nat) := (w.splitOn ".").mapM String.toNat?

def parseReg (w : String) : Option Fanout.Reg :=
  parseL w fun x => do
    match ← parseNats x with
    | [i, o] => some (i, o)
    | _ => none

def parseOut (ws : List String) : Option Fanout.Out :=
  match ws with
  | [d, a, m, t] => do
    let d ← parseL d fun x => do
      match ← parseNats x with
      | [i, o, b] => some (⟨i, o, b⟩ : Fanout.Deliv)
      | _ => none
    let a ← if a = "n" then some none else (parseReg a).map some
    pure ⟨d, a, ← parseReg m, ← parseReg t⟩
  | _ => none

def splitSemi (ws : List String) : List (List String) :=
  ws.foldr (fun w acc =>
    match acc with
    | [] => if w = ";" then [[], []] else [[w]]
    | g :: gs => if w = ";" then [] :: g :: gs else (w :: g) :: gs) []

def fanOps : List String → Option String
  | "fan" :: ws => do
    let ms ← ws.mapM parseMsg
    pure (String.intercalate " ; " ((Fanout.run ms).map showOut))
  | "fanjudge" :: rest =>
    match splitBar rest with
    | [mws, ows] => do
      let ms ← mws.mapM parseMsg
      let os ← (if ows.isEmpty then some [] else (splitSemi ows).mapM parseOut)
      pure (if Fanout.spec ms os then "pass" else "fail")
    | _ => none
  | _ => none

/-! composed pipeline (Model/Pipe.lean)

  c09pipe <n> <net> <ver> <addresses with a device class a,a|-> <frame>… | <frame>… | …     (batches as for `c09`)
      -> <id.addr,… of the delivered frames that carry data, by THE device of which address> <device map addr.dev,…>
         <replies written to the transport> <frames left in the write queue> -/
def pipeOps : List String → Option String
  | "c09pipe" :: n :: net :: ver :: crw :: rest => do
    let n ← n.toNat?
    let net ← Net.decode (← parseHex net)
    let ver ← parseVer ver
    let crl ← parseL crw String.toNat?
    let batches ← parseBatchesH 0 (splitBar rest)
    let all := (batches.map (·.2)).flatten
    let s := Pipe.replay ⟨net, ver⟩ (fun a => crl.contains a) n batches
    let pairs := s.deliveredTo.reverse.filter fun p => all.any fun f => f.id == p.1 && decide (0 < f.items)
    let addrOf := fun (d : Nat) => ((s.devOf.find? fun e => e.2 == d).map (·.1)).getD 999
    pure s!"{showL (pairs.map fun p => s!"{p.1}.{addrOf p.2}")} {showL (s.devOf.map fun e => s!"{e.1}.{e.2}")} {showL (s.written.reverse.map showReply)} {s.wqueue.length}"
  | _ => none

def poolOps : List String → Option String
  | "c09pipe" :: ws => pipeOps ("c09pipe" :: ws)
  | "fan" :: ws => fanOps ("fan" :: ws)
  | "fanjudge" :: ws => fanOps ("fanjudge" :: ws)
  | "c09" :: contain :: n :: net :: ver :: rest => do
    let contain ← parseBit contain
    let n ← n.toNat?
    let net ← Net.decode (← parseHex net)
    let ver ← parseVer ver
    let cfg : Cfg := ⟨net, ver⟩
    let batches ← parseBatchesH 0 (splitBar rest)
    pure (String.intercalate " ; " ((replayH contain cfg n batches).map Snap.show))
  | "c09judge" :: n :: net :: rest => do
    let n ← n.toNat?
    let net ← Net.decode (← parseHex net)
    match splitBar rest with
    | [fws, [d, r, u, a, sh]] =>
      let frames ← parseBatches 0 [fws]
      let d ← parseL d String.toNat?
      let r ← parseL r parseReply
      let u ← u.toNat?; let a ← a.toNat?; let sh ← parseBit sh
      pure (judge n net frames.flatten ⟨d, r, u, a, sh⟩)
    | _ => none
  | _ => none

end PlumVerif.Pool

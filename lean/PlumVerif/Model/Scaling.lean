import PlumVerif.Model.F64
/-
Display <-> raw conversion of parameters (C17, C06), as the code has it NOW:

* `EcomaxNumber` / `MixerNumber` (structures/ecomax_parameters.py, mixer_parameters.py)
    value      = round((raw - offset) * multiplier, precision)
    set(v):  v += offset ; v = round(v / multiplier, precision) ; Parameter.set(v)
* `ThermostatNumber` (structures/thermostat_parameters.py) — the description has NO offset
    value      = round(raw * multiplier, precision)
    set(v):  v = round(v / multiplier, precision) ; Parameter.set(v)
* `Number` (helpers/parameter.py; used for `ScheduleNumber`): value = raw, set(v): Parameter.set(v)
* `Switch`: value = 'on' if raw == 1 else 'off'; min_value = 'off'; max_value = 'on';
  set(v): Parameter.set(v)
* `Parameter.set` first normalises: 'on' -> 1, 'off' -> 0, everything else `int(v)`
  (truncation toward zero for floats, False/True -> 0/1).

Import-free apart from the float model.  The numbers of a conversion (multiplier as the exact
rational of the Python float, offset, precision) are a `Conv`; table rows are mapped to `Conv`s
in `Model/ParamTables.lean`.
-/
namespace PlumVerif.Scaling
open PlumVerif.F64

/-- a Python value a caller may pass to `set` / that a property may display -/
inductive PyVal where
  | int (i : Int)
  | float (q : Q)
  | bool (b : Bool)
  | str (s : String)
deriving Repr, DecidableEq, Inhabited

/-- which `set`/`value` code applies -/
inductive Cls where
  | scaledOff   -- EcomaxNumber, MixerNumber: offset added, then divided
  | scaled      -- ThermostatNumber: no offset
  | plain       -- Number (ScheduleNumber)
  | switch      -- Switch (all switch classes)
deriving Repr, DecidableEq, Inhabited

/-- the numbers a conversion uses (multiplier = multNum/multDen is an exact double) -/
structure Conv where
  cls : Cls
  multNum : Nat
  multDen : Nat
  offset : Nat
  precision : Nat
deriving Repr, DecidableEq, Inhabited

def Conv.mult (c : Conv) : Q := ⟨c.multNum, c.multDen⟩

/-- offset actually used by the class (`ThermostatNumber` never looks at one) -/
def Conv.off (c : Conv) : Int :=
  match c.cls with
  | .scaledOff => c.offset
  | _ => 0

/-- the `value` / `min_value` / `max_value` property applied to a raw integer
(`Switch.min_value`/`max_value` are the constants 'off'/'on' and are not this function) -/
def display (c : Conv) (raw : Int) : PyVal :=
  match c.cls with
  | .scaledOff => .float (pyround (fmul (ofIntF (raw - c.offset)) c.mult) c.precision)
  | .scaled => .float (pyround (fmul (ofIntF raw) c.mult) c.precision)
  | .plain => .int raw
  | .switch => .str (if raw = 1 then "on" else "off")

inductive Err where
  | typeError   -- str passed to a scaled Number: `'on' + 0`, `'on' / 0.1`
  | other       -- int('abc') etc. (not generated)
deriving Repr, DecidableEq, Inhabited

/-- `_normalize_parameter_value` -/
def normalize : PyVal → Except Err Int
  | .str s => if s = "on" then .ok 1 else if s = "off" then .ok 0 else .error .other
  | .int i => .ok i
  | .bool b => .ok (if b then 1 else 0)
  | .float q => .ok (trunc q)

/-- Python numeric value as a float operand (`int`/`bool` operands of a float operation are
converted, correctly rounded) -/
def asFloat : PyVal → Except Err Q
  | .int i => .ok (ofIntF i)
  | .bool b => .ok (ofIntF (if b then 1 else 0))
  | .float q => .ok q
  | .str _ => .error .typeError

/-- `value += offset` : int + int stays an (exact) int, float + int is a float addition -/
def addOffset (off : Int) : PyVal → Except Err PyVal
  | .int i => .ok (.int (i + off))
  | .bool b => .ok (.int ((if b then 1 else 0) + off))
  | .float q => .ok (.float (fadd q (ofIntF off)))
  | .str _ => .error .typeError

/-- everything `X.set(v)` does to `v` before the comparison with the current value:
the subclass's display -> raw conversion followed by `_normalize_parameter_value` -/
def toRaw (c : Conv) (v : PyVal) : Except Err Int :=
  match c.cls with
  | .scaledOff => do
      let w ← addOffset c.offset v
      let x ← asFloat w
      normalize (.float (pyround (fdiv x c.mult) c.precision))
  | .scaled => do
      let x ← asFloat v
      normalize (.float (pyround (fdiv x c.mult) c.precision))
  | .plain => normalize v
  | .switch => normalize v

/-- C17's per-value check: writing back the displayed form of `raw` yields `raw` -/
def okRaw (c : Conv) (raw : Nat) : Bool :=
  match toRaw c (display c raw) with
  | .ok r => r == (raw : Int)
  | .error _ => false

/-- displayed value of a scaled number as a fraction (0 for the non-float classes) -/
def shownQ (c : Conv) (raw : Nat) : Q :=
  match display c raw with
  | .float q => q
  | _ => ⟨0, 1⟩

/-- the displayed value does not decrease from `raw` to `raw + 1` -/
def stepMono (c : Conv) (raw : Nat) : Bool := Q.le (shownQ c raw) (shownQ c (raw + 1))

/-- per-value obligation of C17's chunk theorems: the write-back check, and monotonicity of the
displayed value towards the next raw value (except at the last raw value `top`) -/
def okStep (c : Conv) (top : Nat) (raw : Nat) : Bool := okRaw c raw && (raw == top || stepMono c raw)

end PlumVerif.Scaling

import PlumVerif.Model.Filters
/-
C13 / C20 — what a filter CALL returns, and a dispatch through filter-wrapped subscribers.

`EventManager.dispatch` hands each subscribed callback "the value returned by the previous one (a
None return keeps the value)".  A subscriber registered through a filter factory is the filter
object; what the dispatch chain sees of it is the value its `__call__` returns.  Every filter class
of `filters.py` ends its delivering branch with `return await self._callback(...)` (`_Aggregate`:
`result = await self._callback(self._sum) … return result`; `_Custom` since fix dfda3f3 — before it
awaited the callback without `return`, and a custom-filtered callback's replacement value was
dropped from the dispatch chain).

* `Filter.stepR f s c k`: the value returned by one call `c` of filter `f` in state `s`, the wrapped
  callback being `k` (`none` = Python `None`).  For a chain `a(b(cb))` the callback of `a` is the
  call of `b` at the same clock reading.
* `dispatchChain`: one `dispatch(name, value)` through a list of filter-wrapped subscribers, none
  of which suspends (sequential dispatches): awaited-with values per subscriber and the stored value.
-/
namespace PlumVerif.C20

/-- `return await self._callback(v)` on the delivering branch, `None` otherwise -/
def Out.result (k : Val → Option Val) : Out → Option Val
  | .deliver v => k v
  | _ => none

/-- the value one filter call returns to its caller (the event manager, or an outer filter) -/
def Filter.stepR : (f : Filter) → f.machine.σ → Call → (Val → Option Val) → Option Val
  | .onChange, s, c, k => (onChangeStep s c).2.result k
  | .debounce n, s, c, k => (debounceStep n s c).2.result k
  | .throttle x, s, c, k => (throttleStep x s c).2.result k
  | .delta, s, c, k => (deltaStep s c).2.result k
  | .aggregate x _, s, c, k => (aggregateStep x s c).2.result k
  | .custom p, s, c, k => (customStep p s c).2.result k
  | .chain a b, s, c, k => a.stepR s.1 c (fun w => b.stepR s.2 ⟨c.t, w⟩ k)

end PlumVerif.C20

namespace PlumVerif.C13
open PlumVerif.C20

/-- what a scripted client callback returns -/
inductive CbRet where
  | keep                 -- `return None`
  | add (c : Int)        -- a number: the value plus c sixteenths (anything else: None)
  | const (v : Val)      -- a fixed replacement value (the falsy ones: 0, False, "", [])
  deriving Repr

def CbRet.apply : CbRet → Val → Option Val
  | .keep, _ => none
  | .add c, .num n => some (.num (n + c))
  | .add _, _ => none
  | .const v, _ => some v

/-- a subscriber registered through a filter expression; `seen` = the calls its filter object has
received so far (its state is the state of a fresh filter after them) -/
structure FSub where
  f : Filter
  ret : CbRet
  seen : List Call
  deriving Repr

/-- one call of the subscriber: (subscriber afterwards, what its filter did, what the call returned) -/
def FSub.call (u : FSub) (c : Call) : FSub × Out × Option Val :=
  ({ u with seen := u.seen ++ [c] },
   (u.f.machine.step (u.f.machine.state u.seen) c).2,
   u.f.stepR (u.f.machine.state u.seen) c u.ret.apply)

/-- `for callback in list(callbacks): if (result := await callback(value)) is not None: value = result`
→ (subscribers afterwards, per subscriber what reached the wrapped callback, final value) -/
def dispatchChain (t : Int) : List FSub → Val → List FSub × List Out × Val
  | [], v => ([], [], v)
  | u :: us, v =>
    let r := u.call ⟨t, v⟩
    let rest := dispatchChain t us (r.2.2.getD v)
    (r.1 :: rest.1, r.2.1 :: rest.2.1, rest.2.2)

/-- a history of sequential dispatches `(t, v)`: per dispatch the outcomes and the stored value -/
def dispatchAll : List FSub → List Call → List (List Out × Val)
  | _, [] => []
  | subs, c :: cs =>
    let r := dispatchChain c.t subs c.v
    (r.2.1, r.2.2) :: dispatchAll r.1 cs

/-- the chain of PLAIN callbacks with the same scripts (the C13 machine's threading rule) -/
def plainChain : List CbRet → Val → Val
  | [], v => v
  | r :: rs, v => plainChain rs ((r.apply v).getD v)

end PlumVerif.C13

import PlumVerif.Model.Frame
/-
Gate-free structural parse of ONE frame at the head of a byte string: start delimiter, LE16
length (at least the ten framing bytes) that fits, XOR checksum.  No recipient, sender, kind or
maximum-size gate: this is "reading the bytes back" for ANY frame the library can serialise,
including the ones it transmits itself (recipient 0x45), which its own reader ignores.
-/
namespace PlumVerif

def parseEnvelope (s : List Byte) : Option (Fields × List Byte) :=
  match s with
  | st :: l0 :: l1 :: rc :: sd :: et :: ev :: r1 =>
    let len := l0.toNat + 256 * l1.toNat
    if st ≠ startByte ∨ len < 10 ∨ r1.length < len - 7 then none
    else
      let body := r1.take (len - 7)
      let kind := body.headD 0
      let payload := (body.drop 1).take (len - 7 - 3)
      let crc := body.getD (len - 7 - 2) 0
      let pre := [st, l0, l1, rc, sd, et, ev] ++ body.take (len - 7 - 2)
      if bcc pre ≠ crc then none else some (⟨kind, rc, sd, et, ev, payload⟩, r1.drop (len - 7))
  | _ => none

end PlumVerif

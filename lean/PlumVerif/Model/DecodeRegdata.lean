import PlumVerif.Model.DecodeSensors
/-
C05 (first half) — regulator data schema (`structures/regulator_data_schema.py`) and the
schema-driven regulator data message (`structures/regulator_data.py`, `helpers/data_types.py`).

Decoders mirror the Python code: the schema is walked entry by entry with a cursor
(remaining bytes, bit index); consecutive BitArray entries share a byte, LSB first, the byte is
left when bit 7 has been read or -- lazily -- when the next non-bit entry arrives.
The layout itself is written once as `RegMsg` / `encodeRegdata` / `valOfRegdata`.
-/
namespace PlumVerif
namespace Regd
open Wire

/-- the wire types of helpers/data_types.py -/
inductive Ty where
  | undefined | i8 | i16 | i32 | u8 | u16 | u32 | f32 | f64 | bit | string | i64 | u64 | ipv4 | ipv6
deriving DecidableEq, Repr

def tyOfName (s : String) : Option Ty :=
  if s == "Undefined" then some .undefined
  else if s == "SignedChar" then some .i8
  else if s == "Short" then some .i16
  else if s == "Int" then some .i32
  else if s == "UnsignedChar" then some .u8
  else if s == "UnsignedShort" then some .u16
  else if s == "UnsignedInt" then some .u32
  else if s == "Float" then some .f32
  else if s == "Double" then some .f64
  else if s == "BitArray" then some .bit
  else if s == "String" then some .string
  else if s == "Int64" then some .i64
  else if s == "UInt64" then some .u64
  else if s == "IPv4" then some .ipv4
  else if s == "IPv6" then some .ipv6
  else none

/-- `DATA_TYPES[type_id]` (IndexError beyond the table) -/
def tyOfId (t : Nat) : Option Ty := Gen.dataTypes[t]? >>= tyOfName

/-! ## regulator data schema -/

/-- `_unpack_block`: type byte, then `<H` parameter id -/
def decSchemaBlock : Dec (Nat × Nat) := fun s => do
  let (t, r) ← readByte s
  let (id, r) ← readLE 2 r
  pure ((id, t.toNat), r)

def resolve : List (Nat × Nat) → Option (List (Nat × Ty))
  | [] => some []
  | (id, t) :: r => do
    let ty ← tyOfId t
    let rs ← resolve r
    pure ((id, ty) :: rs)

def schemaValWith (names : List String) (bs : List (Nat × Nat)) : Val :=
  Val.list (bs.map fun it => Val.list [Val.nat it.1, Val.ascii ((names[it.2]?).getD "?")])

def schemaVal (bs : List (Nat × Nat)) : Val := schemaValWith Gen.dataTypes bs

/-- the type table of the layout, as literals -/
def typeNamesSpec : List String :=
  ["Undefined", "SignedChar", "Short", "Int", "UnsignedChar", "UnsignedShort", "UnsignedInt", "Float",
   "Undefined", "Double", "BitArray", "String", "String", "Int64", "UInt64", "IPv4", "IPv6"]

def schemaValSpec (bs : List (Nat × Nat)) : Val := schemaValWith typeNamesSpec bs

/-- regulator_data_schema.py decode: `<H` block count (0: no key at all), then the blocks.
Returns the decoded data and the schema a device would hold. -/
def decodeSchema (msg : List Byte) : Option (Val × List (Nat × Ty)) := do
  let (n, r) ← readLE 2 msg
  if n == 0 then pure (Val.record [], [])
  else
    let (bs, _) ← decN decSchemaBlock n r
    let tys ← resolve bs
    pure (Val.record [("regdata_schema", schemaVal bs)], tys)

/-! ## regulator data -/

structure Cur where
  rest : List Byte
  bit : Nat

def ipv4Str (a b c d : Byte) : List Byte :=
  decBytes a.toNat ++ [dot] ++ decBytes b.toNat ++ [dot] ++ decBytes c.toNat ++ [dot] ++ decBytes d.toNat

/-- `data.split(b"\0", 1)[0]` -/
def untilNul : List Byte → List Byte
  | [] => []
  | b :: r => if b == 0 then [] else b :: untilNul r

/-- `data_type.unpack(message[offset:])`, value and `size` of a non-bit type -/
def decScalar : Ty → Dec Val
  | .undefined, s => some (Val.none, s)
  | .i8, s => do let (v, r) ← readSLE 1 s; pure (Val.int v, r)
  | .i16, s => do let (v, r) ← readSLE 2 s; pure (Val.int v, r)
  | .i32, s => do let (v, r) ← readSLE 4 s; pure (Val.int v, r)
  | .i64, s => do let (v, r) ← readSLE 8 s; pure (Val.int v, r)
  | .u8, s => do let (v, r) ← readLE 1 s; pure (Val.nat v, r)
  | .u16, s => do let (v, r) ← readLE 2 s; pure (Val.nat v, r)
  | .u32, s => do let (v, r) ← readLE 4 s; pure (Val.nat v, r)
  | .u64, s => do let (v, r) ← readLE 8 s; pure (Val.nat v, r)
  | .f32, s => do let (v, r) ← readF32 s; pure (Val.f32 v, r)
  | .f64, s => do let (v, r) ← readF64 s; pure (Val.f64 v, r)
  | .string, s =>
    -- never fails: without a terminator the rest of the message is the string
    let v := untilNul s
    some (Val.str v, s.drop (v.length + 1))
  | .ipv4, s => do
    let (bs, r) ← takeN 4 s
    match bs with
    | [a, b, c, d] => pure (Val.str (ipv4Str a b c d), r)
    | _ => none
  | .ipv6, s => do
    -- the textual form is socket.inet_ntop's (trusted); the model keeps the 16 bytes
    let (bs, r) ← takeN 16 s
    pure (Val.record [("ipv6_packed", Val.str bs)], r)
  | .bit, _ => none

/-- `_unpack_regulator_data` for one schema entry -/
def decEntry (ty : Ty) (c : Cur) : Option (Val × Cur) :=
  match ty with
  | .bit =>
    match c.rest with
    | [] => none   -- UnsignedChar.from_bytes(b"") raises
    | b :: r =>
      let v := Val.bool (b.toNat &&& (1 <<< c.bit) != 0)
      -- next(): index 7 wraps to 0 and the byte is consumed (size 1), otherwise size 0
      if c.bit == Gen.bitarrayLastIndex then some (v, ⟨r, 0⟩) else some (v, ⟨b :: r, c.bit + 1⟩)
  | _ =>
    -- a non-bit entry after an unfinished bit run skips the byte the run was reading
    let s := if c.bit > 0 then c.rest.drop 1 else c.rest
    match decScalar ty s with
    | some (v, r) => some (v, ⟨r, 0⟩)
    | none => none

def decEntries : List (Nat × Ty) → Cur → Option (List (Nat × Val) × Cur)
  | [], c => some ([], c)
  | (id, ty) :: s, c => do
    let (v, c) ← decEntry ty c
    let (vs, c) ← decEntries s c
    pure ((id, v) :: vs, c)

def versionString (b3 b2 : Byte) : String := natToDec b3.toNat ++ "." ++ natToDec b2.toNat

/-- regulator_data.py decode.  `schema` is what the owning device holds (`[]` when there is no
owning device or no schema yet). -/
def decodeRegdata (schema : List (Nat × Ty)) (msg : List Byte) : Option Val := do
  let b3 ← msg[3]?
  let b2 ← msg[2]?
  if versionString b3 b2 != Gen.regdataVersion then pure (Val.record [])
  else
    let (fv, r) ← Sens.decFrameVersions (msg.drop 4)
    if schema.isEmpty then pure (Val.record fv)
    else
      let (vs, _) ← decEntries schema ⟨r, 0⟩
      pure (Val.record (assocSet fv "regdata" (Val.intDict (assocOf vs))))

/-! ## the wire layout: abstract messages -/

/-- a scalar value together with its wire type (`alt` picks the second type id of the two
Undefined / String entries of the table) -/
inductive SVal where
  | undefined (alt : Bool)
  | i8 (v : Int) | i16 (v : Int) | i32 (v : Int) | i64 (v : Int)
  | u8 (v : Nat) | u16 (v : Nat) | u32 (v : Nat) | u64 (v : Nat)
  | f32 (b : F32) | f64 (b : F64)
  | str (alt : Bool) (bytes : List Byte)     -- no NUL inside
  | ipv4 (a b c d : Byte)
  | ipv6 (bytes : List Byte)                 -- 16 bytes

def SVal.ty : SVal → Ty
  | .undefined _ => .undefined
  | .i8 _ => .i8 | .i16 _ => .i16 | .i32 _ => .i32 | .i64 _ => .i64
  | .u8 _ => .u8 | .u16 _ => .u16 | .u32 _ => .u32 | .u64 _ => .u64
  | .f32 _ => .f32 | .f64 _ => .f64
  | .str _ _ => .string | .ipv4 .. => .ipv4 | .ipv6 _ => .ipv6

def SVal.typeId : SVal → Nat
  | .undefined alt => if alt then 8 else 0
  | .i8 _ => 1 | .i16 _ => 2 | .i32 _ => 3 | .u8 _ => 4 | .u16 _ => 5 | .u32 _ => 6
  | .f32 _ => 7 | .f64 _ => 9
  | .str alt _ => if alt then 12 else 11
  | .i64 _ => 13 | .u64 _ => 14 | .ipv4 .. => 15 | .ipv6 _ => 16

def bitTypeId : Nat := 10

/-- two's complement of `v` in `k` bytes -/
def encSigned (v : Int) (k : Nat) : List Byte :=
  encodeLE (if v < 0 then (v + Int.ofNat (256 ^ k)).toNat else v.toNat) k

def SVal.enc : SVal → List Byte
  | .undefined _ => []
  | .i8 v => encSigned v 1 | .i16 v => encSigned v 2 | .i32 v => encSigned v 4 | .i64 v => encSigned v 8
  | .u8 v => encodeLE v 1 | .u16 v => encodeLE v 2 | .u32 v => encodeLE v 4 | .u64 v => encodeLE v 8
  | .f32 b => encodeLE b.toNat 4
  | .f64 b => encodeLE b.toNat 8
  | .str _ bs => bs ++ [0]
  | .ipv4 a b c d => [a, b, c, d]
  | .ipv6 bs => bs

def inSigned (v : Int) (k : Nat) : Bool :=
  decide (-(Int.ofNat (256 ^ k / 2)) ≤ v) && decide (v < Int.ofNat (256 ^ k / 2))

def SVal.wf : SVal → Bool
  | .undefined _ => true
  | .i8 v => inSigned v 1 | .i16 v => inSigned v 2 | .i32 v => inSigned v 4 | .i64 v => inSigned v 8
  | .u8 v => v < 256 ^ 1 | .u16 v => v < 256 ^ 2 | .u32 v => v < 256 ^ 4 | .u64 v => v < 256 ^ 8
  | .f32 _ => true | .f64 _ => true
  | .str _ bs => bs.all (· != 0)
  | .ipv4 .. => true
  | .ipv6 bs => bs.length == 16

def SVal.val : SVal → Val
  | .undefined _ => Val.none
  | .i8 v => Val.int v | .i16 v => Val.int v | .i32 v => Val.int v | .i64 v => Val.int v
  | .u8 v => Val.nat v | .u16 v => Val.nat v | .u32 v => Val.nat v | .u64 v => Val.nat v
  | .f32 b => Val.f32 b | .f64 b => Val.f64 b
  | .str _ bs => Val.str bs
  | .ipv4 a b c d => Val.str (ipv4Str a b c d)
  | .ipv6 bs => Val.record [("ipv6_packed", Val.str bs)]

/-- one stretch of the regulator data: a scalar parameter, or a maximal run of bit parameters
stored in `bytes`: parameter number `p` of the run is bit `p % 8` (LSB first) of byte `p / 8`;
the unused high bits of the last byte are padding -/
inductive Item where
  | scalar (id : Nat) (v : SVal)
  | bits (ids : List Nat) (bytes : List Byte)

def Item.isBits : Item → Bool
  | .bits .. => true
  | .scalar .. => false

def Item.enc : Item → List Byte
  | .scalar _ v => v.enc
  | .bits _ bytes => bytes

def Item.schemaIds : Item → List (Nat × Nat)
  | .scalar id v => [(id, v.typeId)]
  | .bits ids _ => ids.map fun id => (id, bitTypeId)

def Item.schema : Item → List (Nat × Ty)
  | .scalar id v => [(id, v.ty)]
  | .bits ids _ => ids.map fun id => (id, Ty.bit)

def bitAt (bytes : List Byte) (p : Nat) : Val := Val.bool ((bytes.getD (p / 8) 0).toNat.testBit (p % 8))

def Item.vals : Item → List (Nat × Val)
  | .scalar id v => [(id, v.val)]
  | .bits ids bytes => ids.zipIdx.map fun ip => (ip.1, bitAt bytes ip.2)

def Item.wf : Item → Bool
  | .scalar id v => id < 65536 && v.wf
  | .bits ids bytes => !ids.isEmpty && ids.all (· < 65536) && bytes.length == (ids.length + 7) / 8

/-- runs of bits are maximal: two `bits` items are never adjacent -/
def wfItems : List Item → Bool
  | [] => true
  | [x] => x.wf
  | x :: y :: r => x.wf && !(x.isBits && y.isBits) && wfItems (y :: r)

structure RegMsg where
  hdr0 : Byte                      -- two leading bytes the decoder skips
  hdr1 : Byte
  versions : List (Byte × Nat)
  items : List Item

def RegMsg.wf (m : RegMsg) : Bool :=
  m.versions.length < 256 && m.versions.all (fun tv => tv.2 < 65536) && wfItems m.items

def encItems (items : List Item) : List Byte := items.flatMap Item.enc
def schemaIdsOf (items : List Item) : List (Nat × Nat) := items.flatMap Item.schemaIds
def schemaOf (items : List Item) : List (Nat × Ty) := items.flatMap Item.schema
def valsOf (items : List Item) : List (Nat × Val) := items.flatMap Item.vals

/-- THE LAYOUT of the regulator data payload (version 1.0 = bytes 0, 1 at offsets 2, 3) -/
def encodeRegdata (m : RegMsg) : List Byte :=
  [m.hdr0, m.hdr1, 0, 1] ++ Sens.encVersions m.versions ++ encItems m.items

/-- THE LAYOUT of the schema payload: LE16 count, then (type id byte, LE16 parameter id) -/
def encodeSchema (bs : List (Nat × Nat)) : List Byte :=
  encodeLE bs.length 2 ++ bs.flatMap fun it => it.2.toUInt8 :: encodeLE it.1 2

/-- decoded with the schema the items imply (when there are items) -/
def valOfRegdata (m : RegMsg) : Val :=
  if m.items.isEmpty then Val.record (Sens.valVersions m.versions)
  else Val.record (assocSet (Sens.valVersions m.versions) "regdata" (Val.intDict (assocOf (valsOf m.items))))

/-- decoded without an owning device -/
def valOfRegdataNoSchema (m : RegMsg) : Val := Val.record (Sens.valVersions m.versions)

end Regd
end PlumVerif

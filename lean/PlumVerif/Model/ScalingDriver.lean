import PlumVerif.Model.ParamTables
import PlumVerif.Model.ParamSet
import PlumVerif.Spec.C06
/- line-protocol front end for the scaling / range-check models (C17, C06) -/
namespace PlumVerif
open PlumVerif.Scaling PlumVerif.F64 PlumVerif.ParamSet

namespace ScalingDriver

def parseCls : String → Option Cls
  | "so" => some .scaledOff
  | "sc" => some .scaled
  | "pl" => some .plain
  | "sw" => some .switch
  | _ => none

def parseConv (cls mn md off pr : String) : Option Conv := do
  let c ← parseCls cls
  let mn ← mn.toNat?; let md ← md.toNat?; let off ← off.toNat?; let pr ← pr.toNat?
  if md = 0 ∨ mn = 0 then none else pure ⟨c, mn, md, off, pr⟩

/-- `i:<int>` `f:<num>/<den>` `b:0|1` `s:<text>` -/
def parseVal (s : String) : Option PyVal :=
  match s.splitOn ":" with
  | ["i", x] => do pure (.int (← x.toInt?))
  | ["b", "0"] => some (.bool false)
  | ["b", "1"] => some (.bool true)
  | ["s", x] => some (.str x)
  | ["f", x] =>
    match x.splitOn "/" with
    | [n, d] => do
      let n ← n.toInt?; let d ← d.toNat?
      if d = 0 then none else pure (.float ⟨n, d⟩)
    | _ => none
  | _ => none

def gcdNorm (q : Q) : Q :=
  let g := Nat.gcd q.num.natAbs q.den
  if g = 0 then q else ⟨q.num / (g : Int), q.den / g⟩

def showVal : PyVal → String
  | .int i => s!"i:{i}"
  | .bool b => if b then "b:1" else "b:0"
  | .str s => s!"s:{s}"
  | .float q => let r := gcdNorm q; s!"f:{r.num}/{r.den}"

def showRaw : Except Err Int → String
  | .ok r => s!"ok:{r}"
  | .error .typeError => "err:type"
  | .error .other => "err:other"

def showOutcome : Outcome → String
  | .noop => "noop"
  | .reject => "reject"
  | .typeError => "typeerror"
  | .otherError => "othererror"
  | .transmit r => s!"transmit:{r}"

end ScalingDriver
open ScalingDriver

def scalingOps : List String → Option String
  | ["display", cls, mn, md, off, pr, raw] => do
    let c ← parseConv cls mn md off pr
    let raw ← raw.toInt?
    pure (showVal (display c raw))
  | ["toraw", cls, mn, md, off, pr, v] => do
    let c ← parseConv cls mn md off pr
    let v ← parseVal v
    pure (showRaw (toRaw c v))
  -- displayed value and written-back raw value for every raw in [lo, hi)
  | ["c17range", cls, mn, md, off, pr, lo, hi] => do
    let c ← parseConv cls mn md off pr
    let lo ← lo.toNat?; let hi ← hi.toNat?
    if hi < lo ∨ hi - lo > 65536 then none else
    pure (String.intercalate ";" ((List.range (hi - lo)).map fun k =>
      let raw := lo + k
      showVal (display c raw) ++ ">" ++ showRaw (toRaw c (display c raw))))
  -- one call of set: outcome, value held afterwards, raw values transmitted
  | ["c06set", cls, mn, md, off, pr, val, mi, ma, v, retries] => do
    let c ← parseConv cls mn md off pr
    let val ← val.toInt?; let mi ← mi.toInt?; let ma ← ma.toInt?
    let v ← parseVal v
    let retries ← retries.toNat?
    let e := ParamSet.set c ⟨val, mi, ma⟩ v retries
    pure (s!"{showOutcome e.outcome} {e.after.value} " ++
      (if e.tx.isEmpty then "-" else String.intercalate "," (e.tx.map toString)))
  -- the statement's predicate on one observed call: raw encoding, triple, ValueError?, value after, transmitted raws
  | ["c06judge", raw, val, mi, ma, raised, after, tx] => do
    let raw ← raw.toInt?; let val ← val.toInt?; let mi ← mi.toInt?; let ma ← ma.toInt?
    let raised ← (if raised = "1" then some true else if raised = "0" then some false else none)
    let after ← after.toInt?
    let tx ← (if tx = "-" then some [] else (tx.splitOn ",").mapM String.toInt?)
    pure (if C06.spec raw ⟨val, mi, ma⟩ ⟨raised, after, tx⟩ then "pass" else "fail")
  -- a history on one parameter, starting with a report: `R:<value>:<min>:<max>` controller report,
  -- `S:<retries>:<pyval>` set call (decision + first attempt), `T` the sleep of the call in flight is over.
  -- answer: per event (separated by `/`) its outputs `d:<outcome>` `tx:<raw>` `ret:<0|1>` (`-` if none),
  -- then ` | value min max pending inflight`
  | "c06hist" :: cls :: mn :: md :: off :: pr :: evs => do
    let c ← parseConv cls mn md off pr
    let parseEv (s : String) : Option MEvent :=
      match s.splitOn ":" with
      | ["R", v, mi, ma] => do pure (.report ⟨← v.toInt?, ← mi.toInt?, ← ma.toInt?⟩)
      | ["T"] => some .tick
      | "S" :: n :: rest => do
        let v ← parseVal (String.intercalate ":" rest)
        pure (.set v (← n.toNat?))
      | _ => none
    let evs ← evs.mapM parseEv
    match evs with
    | .report t0 :: rest =>
      let showOut : MOut → String
        | .decided o => "d:" ++ showOutcome o
        | .tx r _ _ _ _ => s!"tx:{r}"
        | .returned b => if b then "ret:1" else "ret:0"
      let (s, outs) := rest.foldl (fun (acc : MState × List String) ev =>
        let (s1, o) := stepM c acc.1 ev
        (s1, acc.2 ++ [if o.isEmpty then "-" else String.intercalate "," (o.map showOut)])) (⟨t0, false, 0, none⟩, [])
      pure (String.intercalate "/" outs ++
        s!" | {s.held.value} {s.held.min} {s.held.max} {if s.pending then 1 else 0} {if s.call.isSome then 1 else 0}")
    | _ => none
  | _ => none

end PlumVerif

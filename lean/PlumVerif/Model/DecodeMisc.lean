import PlumVerif.Model.DecodeParams
/-
C05 (second half) — schedules, alerts, product info / UID, password.

Models of `structures/schedules.py` (`SchedulesStructure.decode`), `structures/alerts.py`,
`structures/product_info.py` + `helpers/uid.py`, and `PasswordResponse.decode_message`
(`frames/responses.py`) as they are in /repo now.  As in DecodeParams.lean the wire layout is the
encoder over an abstract message record; decoders work on remainders and return the value and
the unconsumed remainder or the class of the Python exception.
-/
namespace PlumVerif.P2

/-! ### schedules -/

/-- `_split_byte`: the eight bits of a byte, most significant first -/
def splitByte (b : Byte) : List Bool :=
  [b &&& 128 != 0, b &&& 64 != 0, b &&& 32 != 0, b &&& 16 != 0,
   b &&& 8 != 0, b &&& 4 != 0, b &&& 2 != 0, b &&& 1 != 0]

/-- `_join_bits`: most significant bit first -/
def joinBits (bs : List Bool) : Byte := bs.foldl (fun acc b => acc * 2 + (if b then 1 else 0)) 0

/-- `k` bytes from `8k` bits -/
def packBits : Nat → List Bool → List Byte
  | 0, _ => []
  | k + 1, bits => joinBits (bits.take 8) :: packBits k (bits.drop 8)

/-- `[schedule[i:i+48] for i in range(0, len(schedule), 48)]`, `n` = number of chunks -/
def splitDays : Nat → List Bool → List (List Bool)
  | 0, _ => []
  | n + 1, bits => bits.take 48 :: splitDays n (bits.drop 48)

/-- number of 48-slot chunks of a SCHEDULE_SIZE-byte bitmap -/
def dayCount : Nat := (8 * Gen.scheduleSize + 47) / 48

structure SchedEntry where
  index : Byte
  switch : Byte
  param : Slot
  days : List (List Bool)            -- 7 days (Sunday first) × 48 half-hour slots
deriving Repr

structure SchedMsg where
  b0 : Byte
  start : Byte
  entries : List SchedEntry
deriving Repr

def encodeSchedEntry (e : SchedEntry) : List Byte :=
  [e.index, e.switch] ++ encSlot 1 e.param ++ e.days.flatMap (packBits 6)

def encodeSched (m : SchedMsg) : List Byte :=
  [m.b0, m.start, m.entries.length.toUInt8] ++ m.entries.flatMap encodeSchedEntry

def wfSchedEntry (e : SchedEntry) : Bool :=
  wfSlot 1 e.param && decide (e.days.length = 7) && e.days.all (fun d => decide (d.length = 48))

def wfSched (m : SchedMsg) : Bool := decide (m.entries.length < 256) && m.entries.all wfSchedEntry

inductive SchedVal
  | short                             -- `{schedules: []}` (fewer than 3 bytes)
  | val (schedules : List (Nat × List (List Bool))) (params : Params)
deriving Repr, DecidableEq

def schedParams (e : SchedEntry) : Params :=
  (e.index.toNat * 2, (e.switch.toNat, 0, 1)) ::
    (match e.param with | some t => [(e.index.toNat * 2 + 1, t)] | none => [])

def valSched (m : SchedMsg) : SchedVal :=
  .val (m.entries.map fun e => (e.index.toNat, e.days)) (m.entries.flatMap schedParams)

def decodeSchedLoop : Nat → List Byte →
    Except Err (List (Nat × List (List Bool)) × Params × List Byte)
  | 0, r => .ok ([], [], r)
  | n + 1, r =>
    match r with
    | idx :: sw :: r1 =>
      let p := unpackParam 1 r1
      let r2 := r1.drop 3
      if r2.length < Gen.scheduleSize then .error .index
      else
        let days := splitDays dayCount ((r2.take Gen.scheduleSize).flatMap splitByte)
        match decodeSchedLoop n (r2.drop Gen.scheduleSize) with
        | .error e => .error e
        | .ok (ss, ps, r3) =>
          .ok ((idx.toNat, days) :: ss,
               (idx.toNat * 2, (sw.toNat, 0, 1)) ::
                 ((match p with | some t => [(idx.toNat * 2 + 1, t)] | none => []) ++ ps), r3)
    | _ => .error .index

def decodeSched : List Byte → Except Err (SchedVal × List Byte)
  | _ :: _ :: c :: r =>
    match decodeSchedLoop c.toNat r with
    | .error e => .error e
    | .ok (ss, ps, r') => .ok (.val ss ps, r')
  | msg => .ok (.short, msg)

/-! ### alerts -/

structure DT where
  y : Nat
  mo : Nat
  d : Nat
  h : Nat
  mi : Nat
  s : Nat
deriving Repr, DecidableEq

/-- the controller's timestamp: seconds since 2000-01-01 with 31-day months -/
def tsOf (t : DT) : Nat :=
  (((((t.y - 2000) * 12 + (t.mo - 1)) * 31 + (t.d - 1)) * 24 + t.h) * 60 + t.mi) * 60 + t.s

/-- `_seconds_to_datetime`'s keyword arguments: successive `//` and remainder over
DATETIME_INTERVALS (year 32140800 s +2000, month 2678400 s +1, day 86400 s +1, 3600, 60, 1) -/
def dtOf (ts : Nat) : DT :=
  let y := ts / 32140800; let r1 := ts - y * 32140800
  let mo := r1 / 2678400; let r2 := r1 - mo * 2678400
  let d := r2 / 86400; let r3 := r2 - d * 86400
  let h := r3 / 3600; let r4 := r3 - h * 3600
  let mi := r4 / 60; let s := r4 - mi * 60
  ⟨y + 2000, mo + 1, d + 1, h, mi, s⟩

def isLeap (y : Nat) : Bool := (y % 4 == 0 && y % 100 != 0) || y % 400 == 0

def daysIn (y mo : Nat) : Nat :=
  if mo = 2 then (if isLeap y then 29 else 28)
  else if mo = 4 ∨ mo = 6 ∨ mo = 9 ∨ mo = 11 then 30 else 31

/-- `datetime(...)` accepts the arguments (otherwise ValueError) -/
def validDT (t : DT) : Bool :=
  decide (1 ≤ t.y ∧ t.y ≤ 9999 ∧ 1 ≤ t.mo ∧ t.mo ≤ 12 ∧ 1 ≤ t.d ∧ t.d ≤ daysIn t.y t.mo ∧
    t.h < 24 ∧ t.mi < 60 ∧ t.s < 60)

def maxU32 : Nat := 4294967295

structure AlertRec where
  code : Byte
  from_ : DT
  to : Option DT                      -- `none`: the alert is still open (0xFFFFFFFF on the wire)
deriving Repr, DecidableEq

structure AlertsMsg where
  total : Byte
  start : Byte
  alerts : List AlertRec
deriving Repr

def encodeAlert (a : AlertRec) : List Byte :=
  a.code :: (encodeLE (tsOf a.from_) 4 ++
    encodeLE (match a.to with | none => maxU32 | some t => tsOf t) 4)

def encodeAlerts (m : AlertsMsg) : List Byte :=
  [m.total, m.start, m.alerts.length.toUInt8] ++ m.alerts.flatMap encodeAlert

/-- a date the controller can express: a real calendar date from 2000 on whose timestamp fits
32 bits -/
def wfDT (t : DT) : Bool := decide (2000 ≤ t.y) && validDT t && decide (tsOf t ≤ maxU32)

/-- an end date must moreover not be the date whose timestamp is the "open" marker -/
def wfAlert (a : AlertRec) : Bool :=
  wfDT a.from_ && (match a.to with | none => true | some t => wfDT t && decide (tsOf t ≠ maxU32))

def wfAlerts (m : AlertsMsg) : Bool := decide (m.alerts.length < 256) && m.alerts.all wfAlert

structure AlertsVal where
  total : Nat
  alerts : Option (List AlertRec)     -- `none`: no `alerts` key (count 0)
deriving Repr, DecidableEq

def valAlerts (m : AlertsMsg) : AlertsVal :=
  ⟨m.total.toNat, if m.alerts.isEmpty then none else some m.alerts⟩

def decodeAlert : List Byte → Except Err (AlertRec × List Byte)
  | [] => .error .index
  | code :: r1 =>
    if r1.length < 4 then .error .struct
    else
      let f := decodeLE (r1.take 4); let r2 := r1.drop 4
      if r2.length < 4 then .error .struct
      else
        let t := decodeLE (r2.take 4); let r3 := r2.drop 4
        if !validDT (dtOf f) then .error .value
        else if t = maxU32 then .ok (⟨code, dtOf f, none⟩, r3)
        else if !validDT (dtOf t) then .error .value
        else .ok (⟨code, dtOf f, some (dtOf t)⟩, r3)

def decodeAlertList : Nat → List Byte → Except Err (List AlertRec × List Byte)
  | 0, r => .ok ([], r)
  | n + 1, r =>
    match decodeAlert r with
    | .error e => .error e
    | .ok (a, r1) =>
      match decodeAlertList n r1 with
      | .error e => .error e
      | .ok (as, r2) => .ok (a :: as, r2)

def decodeAlerts : List Byte → Except Err (AlertsVal × List Byte)
  | total :: _ :: c :: r =>
    if c = 0 then .ok (⟨total.toNat, none⟩, r)
    else
      match decodeAlertList c.toNat r with
      | .error e => .error e
      | .ok (as, r') => .ok (⟨total.toNat, some as⟩, r')
  | _ => .error .index

/-! ### product info / UID -/

/-- one shift step of `_crc16_byte`: `(crc >> 1) ^ POLYNOMIAL if crc & 1 else crc >> 1` -/
def crcShift (c : Nat) : Nat := if c % 2 = 1 then (c / 2) ^^^ Gen.uidPolynomial else c / 2

/-- eight shift steps -/
def crcShift8 (c : Nat) : Nat :=
  crcShift (crcShift (crcShift (crcShift (crcShift (crcShift (crcShift (crcShift c)))))))

/-- `_crc16_byte`: `crc ^= byte`, then eight shift steps -/
def crc16Byte (crc : Nat) (b : Byte) : Nat := crcShift8 (crc ^^^ b.toNat)

/-- `_crc16` before `to_bytes`: `reduce(_crc16_byte, buffer, CRC)` -/
def crc16 (bs : List Byte) : Nat := bs.foldl crc16Byte Gen.uidCrc

/-- BASE5_KEY -/
def base5Key : List Char := Gen.base5Key.toList

def keyChar (d : Nat) : Char := base5Key.getD d '?'

/-- `_base5`: base-32 digits, most significant first, nothing for 0 (`fuel` bounds the number
of digits; `uidChars` supplies enough for the bit length of its argument) -/
def base5 : Nat → Nat → List Char → List Char
  | 0, _, acc => acc
  | fuel + 1, n, acc =>
    if n = 0 then acc else base5 fuel (n / 32) (keyChar (n % 32) :: acc)

/-- the number `decode_uid` writes out: UID bytes followed by their CRC-16 (2 bytes, little
endian), read as one little-endian integer -/
def uidNumber (uid : List Byte) : Nat := decodeLE (uid ++ encodeLE (crc16 uid) 2)

def uidFuel (uid : List Byte) : Nat := 8 * (uid.length + 2) / 5 + 1

def uidChars (uid : List Byte) : List Char := base5 (uidFuel uid) (uidNumber uid) []

/-- `decode_uid` -/
def uidString (uid : List Byte) : String := String.ofList (uidChars uid)

def isLetter (b : Byte) : Bool := (65 ≤ b && b ≤ 90) || (97 ≤ b && b ≤ 122)
def isDigit (b : Byte) : Bool := 48 ≤ b && b ≤ 57
def isPrintable (b : Byte) : Bool := 32 ≤ b && b ≤ 126

/-- `format_model_name` for printable-ASCII names (the regular expression
`^([A-Z]+)\s{0,}([0-9]{3,})(.+)$`, IGNORECASE; "EM" becomes "ecoMAX").  Outside printable ASCII
the correspondence does not compare the name (see `namePrintable`). -/
def formatModelName (name : List Byte) : List Byte :=
  let l := name.takeWhile isLetter
  let a := name.dropWhile isLetter
  let b := a.dropWhile (· == 32)
  let d := b.takeWhile isDigit
  let r := b.dropWhile isDigit
  let dev := if l = [69, 77] then [101, 99, 111, 77, 65, 88] else l
  if l.isEmpty then name
  else if 3 ≤ d.length ∧ ¬ r.isEmpty then dev ++ [32] ++ d ++ r
  else if 4 ≤ d.length ∧ r.isEmpty then dev ++ [32] ++ d
  else name

def namePrintable (name : List Byte) : Bool := name.all isPrintable

def knownProduct (b : Byte) : Bool := Gen.productTypes.any (·.2 == b.toNat)

structure ProductMsg where
  ptype : Byte
  pid : Nat
  uid : List Byte
  logo : Nat
  image : Nat
  name : List Byte
deriving Repr

structure ProductVal where
  ptype : Nat
  pid : Nat
  uid : String
  logo : Nat
  image : Nat
  rawName : List Byte                 -- bytes of the model-name field
  model : List Byte                   -- `format_model_name` of it (compared when printable ASCII)
deriving Repr, DecidableEq

def encodeProduct (m : ProductMsg) : List Byte :=
  m.ptype :: (encodeLE m.pid 2 ++ (m.uid.length.toUInt8 :: m.uid) ++ encodeLE m.logo 2 ++
    encodeLE m.image 2 ++ (m.name.length.toUInt8 :: m.name))

def wfProduct (m : ProductMsg) : Bool :=
  knownProduct m.ptype && decide (m.pid < 65536) && decide (m.uid.length < 256) &&
    decide (m.logo < 65536) && decide (m.image < 65536) && decide (m.name.length < 256)

def valProduct (m : ProductMsg) : ProductVal :=
  ⟨m.ptype.toNat, m.pid, uidString m.uid, m.logo, m.image, m.name, formatModelName m.name⟩

def decodeProduct (msg : List Byte) : Except Err (ProductVal × List Byte) :=
  match msg with
  | pt :: p0 :: p1 :: r =>
    match r with
    | [] => .error .index
    | n :: r1 =>
      let uid := r1.take n.toNat; let r2 := r1.drop n.toNat
      if r2.length < 2 then .error .struct
      else
        let logo := decodeLE (r2.take 2); let r3 := r2.drop 2
        if r3.length < 2 then .error .struct
        else
          let image := decodeLE (r3.take 2); let r4 := r3.drop 2
          match r4 with
          | [] => .error .index
          | k :: r5 =>
            let name := r5.take k.toNat; let r6 := r5.drop k.toNat
            if !knownProduct pt then .error .value
            else .ok (⟨pt.toNat, decodeLE [p0, p1], uidString uid, logo, image, name,
                        formatModelName name⟩, r6)
  | _ => .error .struct

/-! ### password -/

def isCont (b : Byte) : Bool := 0x80 ≤ b && b ≤ 0xBF

/-- strict UTF-8 well-formedness (RFC 3629: no overlongs, no surrogates, ≤ U+10FFFF), which is
what `bytes.decode()` accepts -/
def validUTF8 : List Byte → Bool
  | [] => true
  | b0 :: r =>
    if b0 ≤ 0x7F then validUTF8 r
    else if 0xC2 ≤ b0 && b0 ≤ 0xDF then
      match r with
      | b1 :: r' => isCont b1 && validUTF8 r'
      | _ => false
    else if 0xE0 ≤ b0 && b0 ≤ 0xEF then
      match r with
      | b1 :: b2 :: r' =>
        (if b0 = 0xE0 then 0xA0 ≤ b1 && b1 ≤ 0xBF
         else if b0 = 0xED then 0x80 ≤ b1 && b1 ≤ 0x9F else isCont b1)
          && isCont b2 && validUTF8 r'
      | _ => false
    else if 0xF0 ≤ b0 && b0 ≤ 0xF4 then
      match r with
      | b1 :: b2 :: b3 :: r' =>
        (if b0 = 0xF0 then 0x90 ≤ b1 && b1 ≤ 0xBF
         else if b0 = 0xF4 then 0x80 ≤ b1 && b1 ≤ 0x8F else isCont b1)
          && isCont b2 && isCont b3 && validUTF8 r'
      | _ => false
    else false

structure PasswordMsg where
  b0 : Byte
  pw : List Byte                      -- UTF-8 bytes of the password
deriving Repr

def encodePassword (m : PasswordMsg) : List Byte := m.b0 :: m.pw

def wfPassword (m : PasswordMsg) : Bool := validUTF8 m.pw

/-- `none`: no password (`{password: None}`) -/
def valPassword (m : PasswordMsg) : Option (List Byte) := if m.pw.isEmpty then none else some m.pw

/-- `message[1:].decode() if message[1:] else None` — consumes the whole message -/
def decodePassword (msg : List Byte) : Except Err (Option (List Byte)) :=
  let p := msg.drop 1
  if p.isEmpty then .ok none
  else if validUTF8 p then .ok (some p) else .error .value

end PlumVerif.P2

import PlumVerif.Model.DecodeSensors
/-
Line-protocol front end for the sensor data model.
  c05s-encode <flat ints>   -> "<hex payload> <json of valOfSensorData>"   (Lean is the single source of the layout)
  c05s-decode <hex>         -> json of decodeSensorData, or ERR
Flat int format of an abstract sensor message (see `pSensorMsg`):
  nV (type ver)*  state outputs flags  nT (index f32bits)*  s0 s1 s2 s3  nA alert*  fuelTag fuelVal
  transmission fan load power cons thermostat
  modA: 0 | 1 a b c vc vv   modB..panel: 0 | 1 a b c
  lambda: 0 | 1 state target level   thermostats: 0 | 1 contacts n (state cur tgt)*
  nM (cur target pad5 flags pad7)*
-/
namespace PlumVerif
namespace Sens
open Wire

abbrev P := StateT (List Nat) Option

def pNat : P Nat := fun s => match s with
  | [] => none
  | x :: r => some (x, r)

def pBound (b : Nat) : P Nat := do
  let n ← pNat
  if n < b then pure n else failure

def pByte : P Byte := do let n ← pBound 256; pure n.toUInt8
def pF32 : P F32 := do let n ← pBound 4294967296; pure (UInt32.ofNat n)

def pMany {α : Type} (p : P α) : Nat → P (List α)
  | 0 => pure []
  | n + 1 => do let a ← p; let as ← pMany p n; pure (a :: as)

def pCounted {α : Type} (p : P α) : P (List α) := do
  let n ← pBound 256
  pMany p n

def pOpt {α : Type} (p : P α) : P (Option α) := do
  let t ← pBound 2
  if t == 0 then pure none else do let a ← p; pure (some a)

def pModVer : P ModVer := do
  let a ← pByte; let b ← pByte; let c ← pByte
  pure ⟨a, b, c⟩

def pModVerA : P ModVerA := do
  let v ← pModVer; let vc ← pByte; let vv ← pByte
  pure ⟨v, vc, vv⟩

def pThRaw : P ThRaw := do
  let s ← pByte; let c ← pF32; let t ← pF32
  pure ⟨s, c, t⟩

def pMixer : P MixerMsg := do
  let c ← pF32; let t ← pByte; let p5 ← pByte; let f ← pByte; let p7 ← pByte
  pure ⟨c, t, p5, f, p7⟩

def pFuel : P FuelLevel := do
  let t ← pBound 3
  let v ← pNat
  pure (if t == 0 then .absent else if t == 1 then .plain v else .rebased v)

def pSensorMsg : P SensorMsg := do
  let versions ← pCounted (do let t ← pByte; let v ← pNat; pure (t, v))
  let state ← pByte
  let outputs ← pNat
  let flags ← pNat
  let temps ← pCounted (do let i ← pByte; let f ← pF32; pure (i, f))
  let s0 ← pByte; let s1 ← pByte; let s2 ← pByte; let s3 ← pByte
  let alerts ← pCounted pByte
  let fuel ← pFuel
  let tr ← pByte
  let fan ← pF32
  let load ← pByte
  let power ← pF32
  let cons ← pF32
  let th ← pByte
  let mA ← pOpt pModVerA
  let mB ← pOpt pModVer; let mC ← pOpt pModVer; let mL ← pOpt pModVer
  let mS ← pOpt pModVer; let mP ← pOpt pModVer
  let lam ← pOpt (do let s ← pByte; let t ← pByte; let l ← pNat; pure (⟨s, t, l⟩ : LambdaMsg))
  let ths ← pOpt (do let c ← pByte; let items ← pCounted pThRaw; pure (⟨c, items⟩ : ThermostatsMsg))
  let mixers ← pCounted pMixer
  pure { versions := versions, state := state, outputs := outputs, outputFlags := flags,
         temps := temps, heatingTarget := s0, heatingStatus := s1, waterHeaterTarget := s2,
         waterHeaterStatus := s3, pendingAlerts := alerts, fuelLevel := fuel, transmission := tr,
         fanPower := fan, boilerLoad := load, boilerPower := power, fuelConsumption := cons,
         thermostat := th, moduleA := mA, moduleB := mB, moduleC := mC, ecolambda := mL,
         ecoster := mS, panel := mP, lambda := lam, thermostats := ths, mixers := mixers }

def parseNats (ws : List String) : Option (List Nat) := ws.mapM String.toNat?

def sensorOps : List String → Option String
  | "c05s-encode" :: ws => do
    let ns ← parseNats ws
    let (m, rest) ← pSensorMsg.run ns
    if rest.isEmpty && m.wf then
      pure (showHex (encodeSensorData m) ++ " " ++ (valOfSensorData m).toJson)
    else none
  | ["c05s-decode", h] => do
    let bs ← parseHex h
    pure (match decodeSensorData bs with | some v => v.toJson | none => "ERR")
  | _ => none

end Sens
end PlumVerif

/-
Byte-level helpers shared by every model.  Import-free (core Lean only) so that
the line-protocol driver can be compiled natively.
-/
namespace PlumVerif

abbrev Byte := UInt8

/-- block check character: XOR of all bytes (`frames.bcc`, a `reduce` over the bytes) -/
def bcc (xs : List Byte) : Byte := xs.foldl (· ^^^ ·) 0

def hexDigit (n : Nat) : Char :=
  if n < 10 then Char.ofNat (48 + n) else Char.ofNat (87 + n)

def hexOfBytes (bs : List Byte) : String :=
  String.ofList (bs.flatMap fun b => [hexDigit (b.toNat / 16), hexDigit (b.toNat % 16)])

def hexVal (c : Char) : Option UInt8 :=
  if '0' ≤ c ∧ c ≤ '9' then some (c.toNat - '0'.toNat).toUInt8
  else if 'a' ≤ c ∧ c ≤ 'f' then some (c.toNat - 'a'.toNat + 10).toUInt8
  else if 'A' ≤ c ∧ c ≤ 'F' then some (c.toNat - 'A'.toNat + 10).toUInt8
  else none

def parseHexChars : List Char → Option (List Byte)
  | [] => some []
  | a :: b :: rest => do
      let x ← hexVal a; let y ← hexVal b; let r ← parseHexChars rest
      pure ((x <<< 4 ||| y) :: r)
  | _ => none

/-- "-" denotes the empty byte string in the line protocol -/
def parseHex (s : String) : Option (List Byte) :=
  if s = "-" then some [] else parseHexChars s.toList

def showHex (bs : List Byte) : String := if bs.isEmpty then "-" else hexOfBytes bs

/-- little-endian encoding of `n` into `k` bytes (low `k` bytes of `n`) -/
def encodeLE (n : Nat) : Nat → List Byte
  | 0 => []
  | k + 1 => (n % 256).toUInt8 :: encodeLE (n / 256) k

/-- little-endian decoding -/
def decodeLE : List Byte → Nat
  | [] => 0
  | b :: r => b.toNat + 256 * decodeLE r

end PlumVerif

import PlumVerif.Model.Entry
/-
The entry machine of Model/Entry.lean with one more event: the task of a caller is CANCELLED while it is inside
`get_device_entry` awaiting the (thread-pool) class loading.

    async with self._entry_lock:
        if name not in self.data:
            device = await PhysicalDevice.create(...)      <- CancelledError raised here
            ...
    return self.data[name]

`async with` releases the lock when the CancelledError leaves the block (`rel = true`: the code that exists); the
cancelled caller is gone - a consumer acknowledges its frame in `finally` and ends, a user call raises - and never moves
again (`gone`).  The import it was waiting for is abandoned; the next creator starts its OWN import (factory
`_import_module` calls `run_in_executor` on every call: there is no shared future a cancellation could poison), which is
the ordinary `creating` move of that caller.

The underlying `St` of a cancelled caller is put back to `.start` and the wrapper's `gone` bit keeps it from ever moving:
the invariant of the locked machine (Proofs/Entry.lean) is untouched.  `rel = false` is the machine of a lock taken
and released by hand without try/finally (contrast: `C10.unreleased_lock_blocks`).
-/
namespace PlumVerif.Entry

structure StC where
  st : St
  gone : Nat → Bool      -- callers whose task was cancelled

def initC : StC := { st := init, gone := fun _ => false }

inductive MvC
  | move (i : Nat)       -- caller i makes its next move (nothing happens if it is gone)
  | cancel (i : Nat)     -- the task of caller i is cancelled (modelled while it awaits the class loading or has not got the lock yet; no effect elsewhere)

def stepC (rel : Bool) (who : Nat → Caller) (cr : Nat → Bool) (s : StC) : MvC → StC
  | .move i => if s.gone i then s else { s with st := step true who cr s.st i }
  | .cancel i =>
    if s.gone i then s else
    match s.st.pc i with
    | .creating => { st := { s.st with pc := upd s.st.pc i .start, lock := if rel then none else s.st.lock },
                     gone := upd s.gone i true }
    | .start => { s with gone := upd s.gone i true }   -- not started / suspended in `acquire`: leaves the lock's waiters
    | _ => s

def runC (rel : Bool) (who : Nat → Caller) (cr : Nat → Bool) (s : StC) : List MvC → StC
  | [] => s
  | m :: ms => runC rel who cr (stepC rel who cr s m) ms

/-- what an observer sees of caller `i`: `none` = its task was cancelled -/
def pcC (s : StC) (i : Nat) : Option PC := if s.gone i then none else some (s.st.pc i)

/-! ### replay of a harness schedule (driver op `c10c`)

Callers are numbered in order of arrival; `cs j = (caller, isFrame)`: frames and user `get_device_entry()` calls are
`entry` callers, `get()` calls are `get` callers.  `consumers` = consumers_count: the frames in the consumers' hands are
the `consumers` oldest frames that are neither finished nor cancelled (FIFO read queue). -/

inductive EvC
  | feed (a m : Nat)      -- m frames from address a
  | user (a : Nat)        -- a user task awaits get_device_entry(a)
  | get (a : Nat)         -- a user task awaits get(name of a)
  | release               -- the pending class loading completes
  | cancelUser            -- the most recent user get_device_entry() task is cancelled
  | cancelTasks           -- protocol.cancel_tasks(): the consumers are cancelled (with the frames in their hands); connection established again
  | reconnect             -- connection lost and re-established: no effect on the machine

def arrivals : List EvC → List (Caller × Bool)
  | [] => []
  | .feed a m :: es => List.replicate m (⟨.entry, a⟩, true) ++ arrivals es
  | .user a :: es => (⟨.entry, a⟩, false) :: arrivals es
  | .get a :: es => (⟨.get, a⟩, false) :: arrivals es
  | _ :: es => arrivals es

structure ReplayC where
  s : StC
  n : Nat               -- callers arrived so far
  users : List Nat      -- user get_device_entry() callers, most recent first

def live (r : ReplayC) (j : Nat) : Bool :=
  !r.s.gone j && (match r.s.st.pc j with | .done _ => false | .failed => false | .got _ => false | _ => true)

def passC (who : Nat → Caller) (cr : Nat → Bool) (r : ReplayC) : ReplayC :=
  (List.range r.n).foldl (fun r j =>
    if isCreating (r.s.st.pc j) then r else { r with s := stepC true who cr r.s (.move j) }) r

def quietC (who : Nat → Caller) (cr : Nat → Bool) (r : ReplayC) : Bool :=
  (List.range r.n).all fun j =>
    isCreating (r.s.st.pc j) || decide ((stepC true who cr r.s (.move j)).st.pc j = r.s.st.pc j)

def settleC (who : Nat → Caller) (cr : Nat → Bool) : Nat → ReplayC → Option ReplayC
  | 0, r => if quietC who cr r then some r else none
  | fuel + 1, r => if quietC who cr r then some r else settleC who cr fuel (passC who cr r)

def applyEvC (consumers : Nat) (cs : Nat → Caller × Bool) (cr : Nat → Bool) (r : ReplayC) : EvC → Option ReplayC :=
  let who := fun j => (cs j).1
  fun
  | .feed _ m => settleC who cr settleFuel { r with n := r.n + m }
  | .user _ => settleC who cr settleFuel { r with n := r.n + 1, users := r.n :: r.users }
  | .get _ => settleC who cr settleFuel { r with n := r.n + 1 }
  | .release =>
    match (List.range r.n).find? (fun j => !r.s.gone j && isCreating (r.s.st.pc j)) with
    | some j => settleC who cr settleFuel { r with s := stepC true who cr r.s (.move j) }
    | none => none
  | .cancelUser =>
    match r.users with
    | u :: _ => settleC who cr settleFuel { r with s := stepC true who cr r.s (.cancel u) }
    | [] => none
  | .cancelTasks =>
    let inHand := ((List.range r.n).filter fun j => (cs j).2 && live r j).take consumers
    settleC who cr settleFuel { r with s := inHand.foldl (fun s j => stepC true who cr s (.cancel j)) r.s }
  | .reconnect => settleC who cr settleFuel r

/-- what the harness can see: pending imports, objects created, set-ups started, announcements, (frame, object) handled
(frames numbered among the frames), get() results, and the entry per announcement -/
structure SnapC where
  held : Nat
  created : Nat
  setups : Nat
  dispatched : List (Nat × Nat)
  handled : List (Nat × Nat)
  gets : List (Option Nat)
deriving Repr, DecidableEq

def frameNo (cs : Nat → Caller × Bool) (j : Nat) : Nat := ((List.range j).filter fun k => (cs k).2).length

def observeC (cs : Nat → Caller × Bool) (r : ReplayC) : SnapC :=
  { held := ((List.range r.n).filter fun j => !r.s.gone j && isCreating (r.s.st.pc j)).length
    created := r.s.st.created
    setups := r.s.st.setups
    dispatched := r.s.st.dispatched.reverse
    handled := (r.s.st.handled.reverse.filter fun p => (cs p.1).2).map fun p => (frameNo cs p.1, p.2)
    gets := ((List.range r.n).filter fun j => (cs j).1.kind == .get).map fun j => getRes (r.s.st.pc j) }

def replayFromC (consumers : Nat) (cs : Nat → Caller × Bool) (cr : Nat → Bool) : ReplayC → List EvC → List (Option SnapC)
  | _, [] => []
  | r, e :: es =>
    match applyEvC consumers cs cr r e with
    | some r' => some (observeC cs r') :: replayFromC consumers cs cr r' es
    | none => [none]

def replayC (consumers : Nat) (cr : Nat → Bool) (evs : List EvC) : List (Option SnapC) :=
  let arr := arrivals evs
  replayFromC consumers (fun j => arr.getD j (⟨.entry, 0⟩, false)) cr { s := initC, n := 0, users := [] } evs

end PlumVerif.Entry

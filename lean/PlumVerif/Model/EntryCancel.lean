import PlumVerif.Model.Entry
/-
The entry machine of Model/Entry.lean with one more event: the task of a caller is CANCELLED while it is inside
`get_device_entry` awaiting the (thread-pool) class loading.

    async with self._entry_lock:
        if name not in self.data:
            device = await PhysicalDevice.create(...)      <- CancelledError raised here
            ...
    return self.data[name]

`async with` releases the lock when the CancelledError leaves the block (`rel = true`: the code that exists); the
cancelled caller is gone - a consumer acknowledges its frame in `finally` and ends, a user call raises - and never moves
again (`gone`).  The import it was waiting for is abandoned; the next creator starts its OWN import (factory
`_import_module` calls `run_in_executor` on every call: there is no shared future a cancellation could poison), which is
the ordinary `creating` move of that caller.

The underlying `St` of a cancelled caller is put back to `.start` and the wrapper's `gone` bit keeps it from ever moving:
the invariant of the locked machine (Proofs/Entry.lean) is untouched.  `rel = false` is the machine of a lock taken
and released by hand without try/finally (contrast: `C10.unreleased_lock_blocks`).
-/
namespace PlumVerif.Entry

structure StC where
  st : St
  gone : Nat → Bool      -- callers whose task was cancelled

def initC : StC := { st := init, gone := fun _ => false }

inductive MvC
  | move (i : Nat)       -- caller i makes its next move (nothing happens if it is gone)
  | cancel (i : Nat)     -- the task of caller i is cancelled (modelled while it awaits the class loading; no effect elsewhere)

def stepC (rel : Bool) (who : Nat → Caller) (cr : Nat → Bool) (s : StC) : MvC → StC
  | .move i => if s.gone i then s else { s with st := step true who cr s.st i }
  | .cancel i =>
    if s.gone i then s else
    match s.st.pc i with
    | .creating => { st := { s.st with pc := upd s.st.pc i .start, lock := if rel then none else s.st.lock },
                     gone := upd s.gone i true }
    | _ => s

def runC (rel : Bool) (who : Nat → Caller) (cr : Nat → Bool) (s : StC) : List MvC → StC
  | [] => s
  | m :: ms => runC rel who cr (stepC rel who cr s m) ms

/-- what an observer sees of caller `i`: `none` = its task was cancelled -/
def pcC (s : StC) (i : Nat) : Option PC := if s.gone i then none else some (s.st.pc i)

end PlumVerif.Entry

import PlumVerif.Generated.Consts
import PlumVerif.Model.Basic
import PlumVerif.Model.ParamTables
/-
C07 — which controller slot a named parameter was read from and which slot its set request
addresses.  Model of (as the code is NOW, after fix a46bd66):

* the parameter block decoders (structures/ecomax_parameters.py, mixer_parameters.py,
  thermostat_parameters.py, schedules.py): payload bytes -> (position, triple) items, Python's
  lenient slicing and raising indexing modelled faithfully;
* the handlers that turn items into named parameters (devices/ecomax.py `_handle_ecomax_parameters`,
  `_add_schedule_parameters`, `_add_ecomax_control_parameter`, `_add_thermostat_profile_parameter`,
  devices/mixer.py, devices/thermostat.py) through `Parameter.create_or_update`;
* the request builders (`create_request` of the four parameter families, frames/requests.py).

A device's dataset is an association list name -> `Entry`.  Import-free apart from the generated
tables.
-/
namespace PlumVerif.Dataset
open PlumVerif PlumVerif.Scaling

inductive Product where
  | P | I
deriving Repr, DecidableEq, Inhabited

/-- raw (value, min, max) as decoded from the payload -/
structure Triple where
  value : Nat
  min : Nat
  max : Nat
deriving Repr, DecidableEq, Inhabited

/-- a named parameter held by a device -/
structure Entry where
  name : String
  kind : TKind       -- which family created it
  switch : Bool      -- Switch or Number class
  index : Nat        -- `Parameter._index`
  triple : Triple
  devIndex : Nat     -- index of the owning mixer / thermostat (0 on the controller itself)
  offset : Nat       -- `ThermostatParameter.offset` (0 elsewhere)
  size : Nat         -- value width in bytes
deriving Repr, DecidableEq, Inhabited

abbrev DS := List Entry

def tableOf (pt : Product) : TKind → List Gen.Desc
  | .ecomax => match pt with | .P => Gen.ecomaxP | .I => Gen.ecomaxI
  | .mixer => match pt with | .P => Gen.mixerP | .I => Gen.mixerI
  | .thermostat => Gen.thermostat
  | .schedule => Gen.scheduleParams
  | .control => [Gen.ecomaxControl]
  | .profile => [Gen.thermostatProfile]

/-- Python class family of a parameter (`isinstance(parameter, cls)` in `create_or_update`):
EcomaxSwitch/EcomaxNumber are shared by the table, the control switch and the profile number -/
def clsGroup : TKind → Nat
  | .ecomax => 0 | .control => 0 | .profile => 0
  | .mixer => 1 | .thermostat => 2 | .schedule => 3

def sameClass (e new : Entry) : Bool := clsGroup e.kind == clsGroup new.kind && e.switch == new.switch

def find (ds : DS) (name : String) : Option Entry := ds.find? (fun e => e.name == name)

/-- `data[name] = entry` -/
def setEntry (ds : DS) (e : Entry) : DS := e :: ds.filter (fun x => !(x.name == e.name))

/-- one `create_or_update` + dispatch.  All `create_or_update` calls of a response run before the
first dispatch, so existence is decided against the dataset `old` as it was when the response
arrived; an existing parameter of the same class is updated in place (its index, offset and owner
are kept), otherwise a new parameter object replaces whatever is stored under the name. -/
def upsert (old ds : DS) (new : Entry) : DS :=
  match find old new.name with
  | some e => if sameClass e new then setEntry ds { e with triple := new.triple } else setEntry ds new
  | none => setEntry ds new

/-- like `upsert`, but the dispatch never happens (the generator raised later on): only an
existing parameter of the same class changes (in place) -/
def updateOnly (old ds : DS) (new : Entry) : DS :=
  match find old new.name with
  | some e => if sameClass e new then setEntry ds { e with triple := new.triple } else ds
  | none => ds

def newEntry (k : TKind) (d : Gen.Desc) (pos : Nat) (t : Triple) (devIndex offset : Nat) : Entry :=
  ⟨d.name, k, d.switch, pos, t, devIndex, offset, d.size⟩

/-! ### decoders -/

/-- `unpack_parameter(data, offset, size)`: `None` when the 3·size bytes (as far as present) are
all 0xFF — in particular when nothing is left -/
def unpack (msg : List Byte) (off size : Nat) : Option Triple :=
  if ((msg.drop off).take (3 * size)).all (· == 255) then none
  else some ⟨decodeLE ((msg.drop off).take size), decodeLE ((msg.drop (off + size)).take size),
             decodeLE ((msg.drop (off + 2 * size)).take size)⟩

/-- `count` consecutive 3-byte slots from `off`, positions `pos, pos+1, …`; holes are skipped -/
def decodeBlock (msg : List Byte) : Nat → Nat → Nat → List (Nat × Triple)
  | _, _, 0 => []
  | off, pos, n + 1 =>
    (match unpack msg off 1 with | some t => [(pos, t)] | none => []) ++ decodeBlock msg (off + 3) (pos + 1) n

/-- EcomaxParametersStructure.decode: `[_, start, count] ++ slots`; `none` = IndexError -/
def decodeEcomax (msg : List Byte) : Option (List (Nat × Triple)) := do
  let start ← msg[1]?
  let count ← msg[2]?
  pure (decodeBlock msg 3 start.toNat count.toNat)

def decodeMixerBlocks (msg : List Byte) (start count : Nat) : Nat → Nat → Nat → List (Nat × List (Nat × Triple))
  | _, _, 0 => []
  | off, m, n + 1 =>
    let items := decodeBlock msg off start count
    (if items.isEmpty then [] else [(m, items)]) ++ decodeMixerBlocks msg start count (off + 3 * count) (m + 1) n

/-- MixerParametersStructure.decode: `[_, start, count, mixers] ++ mixers × count slots`;
mixers without any defined parameter are left out -/
def decodeMixers (msg : List Byte) : Option (List (Nat × List (Nat × Triple))) := do
  let start ← msg[1]?
  let count ← msg[2]?
  let mixers ← msg[3]?
  pure (decodeMixerBlocks msg start.toNat count.toNat 4 0 mixers.toNat)

/-- slots of one thermostat: widths come from the description of each position; a position
without description raises IndexError (`none`) -/
def decodeTBlock (msg : List Byte) (tbl : List Gen.Desc) : Nat → Nat → Nat → Option (List (Nat × Triple) × Nat)
  | off, _, 0 => some ([], off)
  | off, pos, n + 1 =>
    match tbl[pos]? with
    | none => none
    | some d =>
      match decodeTBlock msg tbl (off + 3 * d.size) (pos + 1) n with
      | none => none
      | some (rest, o) => some ((match unpack msg off d.size with | some t => [(pos, t)] | none => []) ++ rest, o)

def decodeTBlocks (msg : List Byte) (tbl : List Gen.Desc) (start per : Nat) :
    Nat → Nat → Nat → Option (List (Nat × List (Nat × Triple)))
  | _, _, 0 => some []
  | off, t, n + 1 =>
    match decodeTBlock msg tbl off start per with
    | none => none
    | some (items, o) =>
      match decodeTBlocks msg tbl start per o (t + 1) n with
      | none => none
      | some rest => some ((if items.isEmpty then [] else [(t, items)]) ++ rest)

/-- slots per thermostat as the decoder reads them: positions `start .. (start+count)//T - 1` -/
def slotsPer (start count T : Nat) : Nat := (start + count) / T - start

/-- ThermostatParametersStructure.decode for `T ≥ 1` thermostats:
`[_, start, count] ++ profile slot ++ T × slots`; result (profile, per thermostat items) -/
def decodeThermostats (msg : List Byte) (T : Nat) :
    Option (Option Triple × List (Nat × List (Nat × Triple))) := do
  let start ← msg[1]?
  let count ← msg[2]?
  let blocks ← decodeTBlocks msg Gen.thermostat start.toNat (slotsPer start.toNat count.toNat T) 6 0 T
  pure (unpack msg 3 1, blocks)

structure SchedItem where
  index : Nat
  switch : Nat
  param : Option Triple
  bits : List Byte
deriving Repr, DecidableEq, Inhabited

/-- entries of a schedules response: index, switch value, parameter slot, 42 bitmap bytes -/
def decodeSchedEntries (msg : List Byte) : Nat → Nat → Option (List SchedItem)
  | _, 0 => some []
  | off, n + 1 => do
    let index ← msg[off]?
    let switch ← msg[off + 1]?
    let bits := (msg.drop (off + 5)).take Gen.scheduleSize
    if bits.length < Gen.scheduleSize then none else
    let rest ← decodeSchedEntries msg (off + 5 + Gen.scheduleSize) n
    pure (⟨index.toNat, switch.toNat, unpack msg (off + 2) 1, bits⟩ :: rest)

inductive SchedDecode where
  | short                         -- header missing: `{schedules: []}` only
  | error                         -- IndexError while reading an entry
  | ok (items : List SchedItem)
deriving Repr, Inhabited

def decodeSchedules (msg : List Byte) : SchedDecode :=
  match msg[1]?, msg[2]? with
  | some _, some count =>
    match decodeSchedEntries msg 3 count.toNat with
    | some items => .ok items
    | none => .error
  | _, _ => .short

/-- `schedule_parameters` items in the order the decoder appends them -/
def schedParamItems : List SchedItem → List (Nat × Triple)
  | [] => []
  | s :: rest =>
    (2 * s.index, (⟨s.switch, 0, 1⟩ : Triple)) ::
      ((match s.param with | some t => [(2 * s.index + 1, t)] | none => []) ++ schedParamItems rest)

/-! ### handlers -/

/-- `_handle_ecomax_parameters`: a position without description is skipped (`continue`) -/
def applyEcomaxItems (pt : Product) (old : DS) : DS → List (Nat × Triple) → DS
  | ds, [] => ds
  | ds, (pos, t) :: rest =>
    match (tableOf pt .ecomax)[pos]? with
    | none => applyEcomaxItems pt old ds rest
    | some d => applyEcomaxItems pt old (upsert old ds (newEntry .ecomax d pos t 0 0)) rest

/-- `Mixer._handle_mixer_parameters`: a position without description ends the generator (`return`) -/
def applyMixerItems (pt : Product) (m : Nat) (old : DS) : DS → List (Nat × Triple) → DS
  | ds, [] => ds
  | ds, (pos, t) :: rest =>
    match (tableOf pt .mixer)[pos]? with
    | none => ds
    | some d => applyMixerItems pt m old (upsert old ds (newEntry .mixer d pos t m 0)) rest

/-- `Thermostat._handle_thermostat_parameters`: offset = thermostat index × number of DEFINED
parameters of this thermostat in this response (finding F3); positions are known (the decoder
has already looked every one of them up) -/
def applyThermostatItems (tIdx n : Nat) (old : DS) : DS → List (Nat × Triple) → DS
  | ds, [] => ds
  | ds, (pos, t) :: rest =>
    match Gen.thermostat[pos]? with
    | none => ds
    | some d => applyThermostatItems tIdx n old (upsert old ds (newEntry .thermostat d pos t tIdx (tIdx * n))) rest

def allKnown (tbl : List Gen.Desc) (items : List (Nat × Triple)) : Bool := items.all (fun it => it.1 < tbl.length)

/-- `_add_schedule_parameters`: an index without description raises inside the generator: nothing
is dispatched; parameters that already existed were updated in place up to that point -/
def applyScheduleItems (old : DS) (items : List (Nat × Triple)) : DS → DS :=
  if allKnown Gen.scheduleParams items then
    fun ds => items.foldl (fun ds it =>
      match Gen.scheduleParams[it.1]? with
      | some d => upsert old ds (newEntry .schedule d it.1 it.2 0 0)
      | none => ds) ds
  else
    fun ds => (items.takeWhile (fun it => it.1 < Gen.scheduleParams.length)).foldl (fun ds it =>
      match Gen.scheduleParams[it.1]? with
      | some d => updateOnly old ds (newEntry .schedule d it.1 it.2 0 0)
      | none => ds) ds

structure World where
  ecomax : DS := []
  mixers : List (Nat × DS) := []
  thermostats : List (Nat × DS) := []
  tAvail : Nat := 0
  schedules : List (String × List Byte) := []
deriving Repr, Inhabited

/-- `devices.setdefault(i, Device(i))` then apply `f` to its dataset -/
def updDev (l : List (Nat × DS)) (i : Nat) (f : DS → DS) : List (Nat × DS) :=
  if l.any (fun p => p.1 == i) then l.map (fun p => if p.1 == i then (p.1, f p.2) else p)
  else l ++ [(i, f [])]

inductive Dev where
  | ecomax
  | mixer (i : Nat)
  | thermostat (i : Nat)
deriving Repr, DecidableEq, Inhabited

def World.ds (w : World) : Dev → Option DS
  | .ecomax => some w.ecomax
  | .mixer i => (w.mixers.find? (fun p => p.1 == i)).map (·.2)
  | .thermostat i => (w.thermostats.find? (fun p => p.1 == i)).map (·.2)

def World.setDs (w : World) : Dev → DS → World
  | .ecomax, ds => { w with ecomax := ds }
  | .mixer i, ds => { w with mixers := w.mixers.map (fun p => if p.1 == i then (p.1, ds) else p) }
  | .thermostat i, ds => { w with thermostats := w.thermostats.map (fun p => if p.1 == i then (p.1, ds) else p) }

inductive Event where
  | ecomaxParams (msg : List Byte)
  | mixerParams (msg : List Byte)
  | thermostatsAvailable (n : Nat)
  | thermostatParams (msg : List Byte)
  | schedules (msg : List Byte)
  | state (on : Bool)
  /-- an accepted `set` of raw value `v` (the range check is C06's subject) -/
  | set (dev : Dev) (name : String) (v : Nat)
deriving Repr, Inhabited

inductive ReqKind where
  | setEcomax | setMixer | setThermostat | ecomaxControl | setSchedule
deriving Repr, DecidableEq, Inhabited

structure Req where
  kind : ReqKind
  payload : List Nat     -- message bytes as naturals (each < 256 when the request is encodable)
deriving Repr, DecidableEq, Inhabited

inductive Out where
  | req (r : Req)
  | reqError          -- create_request raised (missing schedule data / value not encodable)
  | noParam           -- no such device / parameter
  | decodeError       -- the frame could not be decoded (IndexError): nothing changes
deriving Repr, DecidableEq, Inhabited

def leBytes (v : Nat) : Nat → List Nat
  | 0 => []
  | k + 1 => (v % 256) :: leBytes (v / 256) k

def suffixSwitch : String := "_schedule_switch"
def suffixParameter : String := "_schedule_parameter"

/-- `create_request` of a parameter held in world `w` -/
def requestOf (w : World) (e : Entry) : Option Req :=
  let v := e.triple.value
  match e.kind with
  | .ecomax => if e.index < 256 ∧ v < 256 then some ⟨.setEcomax, [e.index, v]⟩ else none
  | .mixer =>
    if e.devIndex < 256 ∧ e.index < 256 ∧ v < 256 then some ⟨.setMixer, [e.devIndex, e.index, v]⟩ else none
  | .thermostat =>
    if e.index + 1 + e.offset < 256 ∧ v < 256 ^ e.size then
      some ⟨.setThermostat, (e.index + 1 + e.offset) :: leBytes v e.size⟩ else none
  | .control => if v < 256 then some ⟨.ecomaxControl, [v]⟩ else none
  | .profile => if e.index < 256 ∧ v < 256 then some ⟨.setThermostat, [e.index, v]⟩ else none
  | .schedule =>
    match Gen.schedules[e.index / 2]? with
    | none => none
    | some sname =>
      match find w.ecomax (sname ++ suffixSwitch), find w.ecomax (sname ++ suffixParameter),
            w.schedules.find? (fun p => p.1 == sname) with
      | some sw, some par, some (_, bits) =>
        if sw.triple.value < 256 ∧ par.triple.value < 256 then
          some ⟨.setSchedule, [1, e.index / 2, sw.triple.value, par.triple.value] ++ bits.map (·.toNat)⟩
        else none
      | _, _, _ => none

def applyMixers (pt : Product) (mixers : List (Nat × DS)) : List (Nat × List (Nat × Triple)) → List (Nat × DS)
  | [] => mixers
  | (m, items) :: rest =>
    applyMixers pt (updDev mixers m (fun ds => applyMixerItems pt m ds ds items)) rest

def applyThermostats (ths : List (Nat × DS)) : List (Nat × List (Nat × Triple)) → List (Nat × DS)
  | [] => ths
  | (t, items) :: rest =>
    applyThermostats (updDev ths t (fun ds => applyThermostatItems t items.length ds ds items)) rest

def scheduleName (i : Nat) : Option String := Gen.schedules[i]?

def step (pt : Product) (w : World) : Event → World × List Out
  | .ecomaxParams msg =>
    match decodeEcomax msg with
    | none => (w, [.decodeError])
    | some items => ({ w with ecomax := applyEcomaxItems pt w.ecomax w.ecomax items }, [])
  | .mixerParams msg =>
    match decodeMixers msg with
    | none => (w, [.decodeError])
    | some blocks => ({ w with mixers := applyMixers pt w.mixers blocks }, [])
  | .thermostatsAvailable n => ({ w with tAvail := n }, [])
  | .thermostatParams msg =>
    if w.tAvail = 0 then (w, []) else
    match decodeThermostats msg w.tAvail with
    | none => (w, [.decodeError])
    | some (profile, blocks) =>
      let eco := w.ecomax.filter (fun x => !(x.name == Gen.thermostatProfile.name))
      let eco := match profile with
        | some t => newEntry .profile Gen.thermostatProfile 0 t 0 0 :: eco
        | none => eco
      ({ w with ecomax := eco, thermostats := applyThermostats w.thermostats blocks }, [])
  | .schedules msg =>
    match decodeSchedules msg with
    | .error => (w, [.decodeError])
    | .short => ({ w with schedules := [] }, [])
    | .ok items =>
      let scheds :=
        if items.all (fun s => s.index < Gen.schedules.length) then
          -- dict comprehension: a later entry with the same index replaces an earlier one
          items.foldl (fun acc s =>
            match scheduleName s.index with
            | some n => (n, s.bits) :: acc.filter (fun p => !(p.1 == n))
            | none => acc) []
        else w.schedules
      ({ w with schedules := scheds, ecomax := applyScheduleItems w.ecomax (schedParamItems items) w.ecomax }, [])
  | .state on =>
    let e := newEntry .control Gen.ecomaxControl 0 ⟨if on then 1 else 0, 0, 1⟩ 0 0
    ({ w with ecomax := upsert w.ecomax w.ecomax e }, [])
  | .set dev name v =>
    match w.ds dev with
    | none => (w, [.noParam])
    | some ds =>
      match find ds name with
      | none => (w, [.noParam])
      | some e =>
        let e' := { e with triple := { e.triple with value := v } }
        let w' := w.setDs dev (setEntry ds e')
        (w', [match requestOf w' e' with | some r => .req r | none => .reqError])

def run (pt : Product) : World → List Event → World × List Out
  | w, [] => (w, [])
  | w, ev :: rest =>
    let (w1, o1) := step pt w ev
    let (w2, o2) := run pt w1 rest
    (w2, o1 ++ o2)

end PlumVerif.Dataset

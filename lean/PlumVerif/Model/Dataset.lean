import PlumVerif.Generated.Consts
import PlumVerif.Model.Basic
import PlumVerif.Model.ParamTables
import PlumVerif.Model.DecodeParams
import PlumVerif.Model.DecodeMisc
/-
C07 — which controller slot a named parameter was read from and which slot its set request
addresses.  Model of (as the code is NOW, after fix a46bd66):

* the parameter block decoders (structures/ecomax_parameters.py, mixer_parameters.py,
  thermostat_parameters.py, schedules.py): payload bytes -> (position, triple) items, Python's
  lenient slicing and raising indexing modelled faithfully;
* the handlers that turn items into named parameters (devices/ecomax.py `_handle_ecomax_parameters`,
  `_add_schedule_parameters`, `_add_ecomax_control_parameter`, `_add_thermostat_profile_parameter`,
  devices/mixer.py, devices/thermostat.py) through `Parameter.create_or_update`;
* the request builders (`create_request` of the four parameter families, frames/requests.py).

A device's dataset is an association list name -> `Entry`.  Import-free apart from the generated
tables.
-/
namespace PlumVerif.Dataset
open PlumVerif PlumVerif.Scaling

inductive Product where
  | P | I
deriving Repr, DecidableEq, Inhabited

/-- raw (value, min, max) as decoded from the payload -/
structure Triple where
  value : Nat
  min : Nat
  max : Nat
deriving Repr, DecidableEq, Inhabited

/-- a named parameter held by a device -/
structure Entry where
  name : String
  kind : TKind       -- which family created it
  switch : Bool      -- Switch or Number class
  index : Nat        -- `Parameter._index`
  triple : Triple
  devIndex : Nat     -- index of the owning mixer / thermostat (0 on the controller itself)
  offset : Nat       -- `ThermostatParameter.offset` (0 elsewhere)
  size : Nat         -- value width in bytes
deriving Repr, DecidableEq, Inhabited

abbrev DS := List Entry

def tableOf (pt : Product) : TKind → List Gen.Desc
  | .ecomax => match pt with | .P => Gen.ecomaxP | .I => Gen.ecomaxI
  | .mixer => match pt with | .P => Gen.mixerP | .I => Gen.mixerI
  | .thermostat => Gen.thermostat
  | .schedule => Gen.scheduleParams
  | .control => [Gen.ecomaxControl]
  | .profile => [Gen.thermostatProfile]

/-- Python class family of a parameter (`isinstance(parameter, cls)` in `create_or_update`):
EcomaxSwitch/EcomaxNumber are shared by the table, the control switch and the profile number -/
def clsGroup : TKind → Nat
  | .ecomax => 0 | .control => 0 | .profile => 0
  | .mixer => 1 | .thermostat => 2 | .schedule => 3

def sameClass (e new : Entry) : Bool := clsGroup e.kind == clsGroup new.kind && e.switch == new.switch

def find (ds : DS) (name : String) : Option Entry := ds.find? (fun e => e.name == name)

/-- `data[name] = entry` -/
def setEntry (ds : DS) (e : Entry) : DS := e :: ds.filter (fun x => !(x.name == e.name))

/-- one `create_or_update` + dispatch.  All `create_or_update` calls of a response run before the
first dispatch, so existence is decided against the dataset `old` as it was when the response
arrived; an existing parameter of the same class is updated in place (its index, offset and owner
are kept), otherwise a new parameter object replaces whatever is stored under the name. -/
def upsert (old ds : DS) (new : Entry) : DS :=
  match find old new.name with
  | some e => if sameClass e new then setEntry ds { e with triple := new.triple } else setEntry ds new
  | none => setEntry ds new

/-- like `upsert`, but the dispatch never happens (the generator raised later on): only an
existing parameter of the same class changes (in place) -/
def updateOnly (old ds : DS) (new : Entry) : DS :=
  match find old new.name with
  | some e => if sameClass e new then setEntry ds { e with triple := new.triple } else ds
  | none => ds

def newEntry (k : TKind) (d : Gen.Desc) (pos : Nat) (t : Triple) (devIndex offset : Nat) : Entry :=
  ⟨d.name, k, d.switch, pos, t, devIndex, offset, d.size⟩

/-! ### decoders

The payload decoders are C05's (`Model/DecodeParams.lean`, `Model/DecodeMisc.lean`, namespace `P2`,
round trips proved in Props/C05Params.lean): the dataset model consumes exactly what they produce. -/

/-- a decoded `(value, min, max)` -/
def tr (t : P2.Triple) : Triple := ⟨t.1, t.2.1, t.2.2⟩

/-- slots per thermostat as the decoder reads them: positions `start .. (start+count)//T - 1` -/
abbrev slotsPer (start count T : Nat) : Nat := P2.thermoPer start count T

/-! ### handlers -/

/-- the common shape of the four handlers: look the position up in the family's table, build the
parameter with `mk`, `create_or_update` it; a position without description is skipped
(`skip = true`: `continue`) or ends the processing (`skip = false`: `return`) -/
def applyItems (tbl : List Gen.Desc) (mk : Gen.Desc → Nat → P2.Triple → Entry) (skip : Bool) (old : DS) :
    DS → P2.Params → DS
  | ds, [] => ds
  | ds, (pos, t) :: rest =>
    match tbl[pos]? with
    | none => if skip then applyItems tbl mk skip old ds rest else ds
    | some d => applyItems tbl mk skip old (upsert old ds (mk d pos t)) rest

def mkEcomax (d : Gen.Desc) (pos : Nat) (t : P2.Triple) : Entry := newEntry .ecomax d pos (tr t) 0 0
def mkMixer (m : Nat) (d : Gen.Desc) (pos : Nat) (t : P2.Triple) : Entry := newEntry .mixer d pos (tr t) m 0
def mkThermostat (tIdx n : Nat) (d : Gen.Desc) (pos : Nat) (t : P2.Triple) : Entry :=
  newEntry .thermostat d pos (tr t) tIdx (tIdx * n)
def mkSchedule (d : Gen.Desc) (pos : Nat) (t : P2.Triple) : Entry := newEntry .schedule d pos (tr t) 0 0

/-- `_handle_ecomax_parameters`: a position without description is skipped (`continue`) -/
def applyEcomaxItems (pt : Product) (old : DS) : DS → P2.Params → DS :=
  applyItems (tableOf pt .ecomax) mkEcomax true old

/-- `Mixer._handle_mixer_parameters`: a position without description ends the generator (`return`) -/
def applyMixerItems (pt : Product) (m : Nat) (old : DS) : DS → P2.Params → DS :=
  applyItems (tableOf pt .mixer) (mkMixer m) false old

/-- `Thermostat._handle_thermostat_parameters`: offset = thermostat index × number of DEFINED
parameters of this thermostat in this response (finding F3); positions are known (the decoder
has already looked every one of them up) -/
def applyThermostatItems (tIdx n : Nat) (old : DS) : DS → P2.Params → DS :=
  applyItems Gen.thermostat (mkThermostat tIdx n) false old

def allKnown (tbl : List Gen.Desc) (items : P2.Params) : Bool := items.all (fun it => it.1 < tbl.length)

/-- `_add_schedule_parameters`: an index without description raises inside the generator: nothing
is dispatched; parameters that already existed were updated in place up to that point -/
def applyScheduleItems (old : DS) (items : P2.Params) : DS → DS :=
  if allKnown Gen.scheduleParams items then
    fun ds => applyItems Gen.scheduleParams mkSchedule true old ds items
  else
    fun ds => (items.takeWhile (fun it => it.1 < Gen.scheduleParams.length)).foldl (fun ds it =>
      match Gen.scheduleParams[it.1]? with
      | some d => updateOnly old ds (mkSchedule d it.1 it.2)
      | none => ds) ds

structure World where
  ecomax : DS := []
  mixers : List (Nat × DS) := []
  thermostats : List (Nat × DS) := []
  tAvail : Nat := 0
  schedules : List (String × List (List Bool)) := []
  /-- product info (UID response) has arrived -/
  known : Bool := false
  /-- ecoMAX parameter dispatches parked in `await self.get(ATTR_PRODUCT)`, in arrival order -/
  pendingEco : List P2.Params := []
  /-- mixer parameter dispatches (mixer index, items) parked in `await self.parent.get(ATTR_PRODUCT)` -/
  pendingMix : P2.Blocks := []
deriving Repr, Inhabited

/-- `devices.setdefault(i, Device(i))` then apply `f` to its dataset -/
def updDev (l : List (Nat × DS)) (i : Nat) (f : DS → DS) : List (Nat × DS) :=
  if l.any (fun p => p.1 == i) then l.map (fun p => if p.1 == i then (p.1, f p.2) else p)
  else l ++ [(i, f [])]

inductive Dev where
  | ecomax
  | mixer (i : Nat)
  | thermostat (i : Nat)
deriving Repr, DecidableEq, Inhabited

/-- dataset of sub-device `i` -/
def lookupDev (l : List (Nat × DS)) (i : Nat) : Option DS := (l.find? (fun p => p.1 == i)).map (·.2)

def World.ds (w : World) : Dev → Option DS
  | .ecomax => some w.ecomax
  | .mixer i => lookupDev w.mixers i
  | .thermostat i => lookupDev w.thermostats i

def World.setDs (w : World) : Dev → DS → World
  | .ecomax, ds => { w with ecomax := ds }
  | .mixer i, ds => { w with mixers := w.mixers.map (fun p => if p.1 == i then (p.1, ds) else p) }
  | .thermostat i, ds => { w with thermostats := w.thermostats.map (fun p => if p.1 == i then (p.1, ds) else p) }

inductive Event where
  /-- the UID response: product info becomes available; the parked handlers run, in arrival order,
  with the table of the controller's real product type -/
  | uid
  | ecomaxParams (msg : List Byte)
  | mixerParams (msg : List Byte)
  | thermostatsAvailable (n : Nat)
  | thermostatParams (msg : List Byte)
  | schedules (msg : List Byte)
  | state (on : Bool)
  /-- an accepted `set` of raw value `v` (the range check is C06's subject) -/
  | set (dev : Dev) (name : String) (v : Nat)
deriving Repr, Inhabited

inductive ReqKind where
  | setEcomax | setMixer | setThermostat | ecomaxControl | setSchedule
deriving Repr, DecidableEq, Inhabited

structure Req where
  kind : ReqKind
  payload : List Nat     -- message bytes as naturals (each < 256 when the request is encodable)
deriving Repr, DecidableEq, Inhabited

inductive Out where
  | req (r : Req)
  | reqError          -- create_request raised (missing schedule data / value not encodable)
  | noParam           -- no such device / parameter
  | decodeError       -- the frame could not be decoded (IndexError): nothing changes
deriving Repr, DecidableEq, Inhabited

def leBytes (v : Nat) : Nat → List Nat
  | 0 => []
  | k + 1 => (v % 256) :: leBytes (v / 256) k

def suffixSwitch : String := "_schedule_switch"
def suffixParameter : String := "_schedule_parameter"

/-- Python `s.split(sep, 1)[0]` on character lists: everything before the first occurrence of `sep`
(the whole string if there is none) -/
def splitHead (sep : List Char) : List Char → List Char
  | [] => []
  | c :: cs => if sep.isPrefixOf (c :: cs) then [] else c :: splitHead sep cs

/-- `SCHEDULES.index(name.split("_schedule_", 1)[0])`; `none` = ValueError -/
def scheduleIndex (name : String) : Option Nat :=
  let h := splitHead "_schedule_".toList name.toList
  let i := Gen.schedules.findIdx (fun s => s.toList == h)
  if i < Gen.schedules.length then some i else none

/-- `create_request` of a parameter held in world `w` -/
def requestOf (w : World) (e : Entry) : Option Req :=
  let v := e.triple.value
  match e.kind with
  | .ecomax => if e.index < 256 ∧ v < 256 then some ⟨.setEcomax, [e.index, v]⟩ else none
  | .mixer =>
    if e.devIndex < 256 ∧ e.index < 256 ∧ v < 256 then some ⟨.setMixer, [e.devIndex, e.index, v]⟩ else none
  | .thermostat =>
    if e.index + 1 + e.offset < 256 ∧ v < 256 ^ e.size then
      some ⟨.setThermostat, (e.index + 1 + e.offset) :: leBytes v e.size⟩ else none
  | .control => if v < 256 then some ⟨.ecomaxControl, [v]⟩ else none
  | .profile => if e.index < 256 ∧ v < 256 then some ⟨.setThermostat, [e.index, v]⟩ else none
  | .schedule =>
    -- `name.split("_schedule_", 1)[0]`, then `SCHEDULES.index(...)`
    match scheduleIndex e.name with
    | none => none
    | some si =>
      match Gen.schedules[si]? with
      | none => none
      | some sname =>
        match find w.ecomax (sname ++ suffixSwitch), find w.ecomax (sname ++ suffixParameter),
              w.schedules.find? (fun p => p.1 == sname) with
        | some sw, some par, some (_, days) =>
          if sw.triple.value < 256 ∧ par.triple.value < 256 then
            some ⟨.setSchedule, [1, si, sw.triple.value, par.triple.value] ++
              (days.flatMap (P2.packBits 6)).map (·.toNat)⟩
          else none
        | _, _, _ => none

/-- one sub-device block after the other: `devices.setdefault(i, …)`, then the block's items go to
that sub-device's dataset -/
def applyBlocks (g : Nat → P2.Params → DS → DS) (devs : List (Nat × DS)) : P2.Blocks → List (Nat × DS)
  | [] => devs
  | (i, items) :: rest => applyBlocks g (updDev devs i (g i items)) rest

def mixerBlock (pt : Product) (m : Nat) (items : P2.Params) (ds : DS) : DS := applyMixerItems pt m ds ds items
def thermostatBlock (t : Nat) (items : P2.Params) (ds : DS) : DS := applyThermostatItems t items.length ds ds items

def applyMixers (pt : Product) (mixers : List (Nat × DS)) (blocks : P2.Blocks) : List (Nat × DS) :=
  applyBlocks (mixerBlock pt) mixers blocks

def applyThermostats (ths : List (Nat × DS)) (blocks : P2.Blocks) : List (Nat × DS) :=
  applyBlocks thermostatBlock ths blocks

/-- the parked ecoMAX handlers resume one after the other -/
def applyPendingEco (pt : Product) : DS → List P2.Params → DS
  | ds, [] => ds
  | ds, items :: rest => applyPendingEco pt (applyEcomaxItems pt ds ds items) rest

def scheduleName (i : Nat) : Option String := Gen.schedules[i]?

def step (pt : Product) (w : World) : Event → World × List Out
  | .uid =>
    if w.known then (w, []) else
    ({ w with known := true, pendingEco := [], pendingMix := [],
              ecomax := applyPendingEco pt w.ecomax w.pendingEco,
              mixers := applyMixers pt w.mixers w.pendingMix }, [])
  | .ecomaxParams msg =>
    match P2.decodeEcomax msg with
    | .error _ => (w, [.decodeError])
    | .ok (items, _) =>
      if w.known then ({ w with ecomax := applyEcomaxItems pt w.ecomax w.ecomax items }, [])
      else ({ w with pendingEco := w.pendingEco ++ [items] }, [])   -- `_handle_ecomax_parameters` awaits the product
  | .mixerParams msg =>
    match P2.decodeMixer msg with
    | .error _ => (w, [.decodeError])
    | .ok (blocks, _) =>
      if w.known then ({ w with mixers := applyMixers pt w.mixers blocks }, [])
      else
        -- the Mixer objects are created at once; each `Mixer._handle_mixer_parameters` awaits the parent's product
        ({ w with mixers := applyBlocks (fun _ _ ds => ds) w.mixers blocks, pendingMix := w.pendingMix ++ blocks }, [])
  | .thermostatsAvailable n => ({ w with tAvail := n }, [])
  | .thermostatParams msg =>
    match P2.decodeThermo (some w.tAvail) msg with
    | .error _ => (w, [.decodeError])
    | .ok (.unavailable, _) => (w, [])
    | .ok (.val profile blocks, _) =>
      -- `_add_thermostat_profile_parameter`: `create_or_update` (in place since fix 1abb9cb); an undefined
      -- profile slot stores None under the name: the parameter is gone from the dataset
      let eco := match profile with
        | some t => upsert w.ecomax w.ecomax (newEntry .profile Gen.thermostatProfile 0 (tr t) 0 0)
        | none => w.ecomax.filter (fun x => !(x.name == Gen.thermostatProfile.name))
      ({ w with ecomax := eco, thermostats := applyThermostats w.thermostats blocks }, [])
  | .schedules msg =>
    match P2.decodeSched msg with
    | .error _ => (w, [.decodeError])
    | .ok (.short, _) => ({ w with schedules := [] }, [])
    | .ok (.val ss ps, _) =>
      let scheds :=
        if ss.all (fun s => s.1 < Gen.schedules.length) then
          -- dict comprehension: a later entry with the same index replaces an earlier one
          ss.foldl (fun acc s =>
            match scheduleName s.1 with
            | some n => (n, s.2) :: acc.filter (fun p => !(p.1 == n))
            | none => acc) []
        else w.schedules
      ({ w with schedules := scheds, ecomax := applyScheduleItems w.ecomax ps w.ecomax }, [])
  | .state on =>
    let e := newEntry .control Gen.ecomaxControl 0 ⟨if on then 1 else 0, 0, 1⟩ 0 0
    ({ w with ecomax := upsert w.ecomax w.ecomax e }, [])
  | .set dev name v =>
    match w.ds dev with
    | none => (w, [.noParam])
    | some ds =>
      match find ds name with
      | none => (w, [.noParam])
      | some e =>
        let e' := { e with triple := { e.triple with value := v } }
        let w' := w.setDs dev (setEntry ds e')
        (w', [match requestOf w' e' with | some r => .req r | none => .reqError])

def run (pt : Product) : World → List Event → World × List Out
  | w, [] => (w, [])
  | w, ev :: rest =>
    let (w1, o1) := step pt w ev
    let (w2, o2) := run pt w1 rest
    (w2, o1 ++ o2)

end PlumVerif.Dataset

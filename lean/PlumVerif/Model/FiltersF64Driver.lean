import PlumVerif.Model.FiltersF64
import PlumVerif.Model.FiltersEq
/-
Line-protocol front end for the filters on binary64 numbers (C20, `Model/FiltersF64.lean`).

  c20f <filter> <val>*     -> one outcome per call, `;`-joined (`.` when no calls)
  c20close <a> <b>         -> <isclose a b as 0|1> <differs a b (exact, statement) as 0|1> <float b - a>
  filter  : oc | db:<n> | de
  val     : <num>/<den>    the exact value of a finite double (`float.as_integer_ratio()`), den > 0
  outcome : - | d<num>/<den>   (not normalised: compare as fractions)
  c20eq <operand> <operand>*  -> for the filter object given first: `a == x` per further operand as 0|1, then `|`, then the index of
                              the first entry of the operand list that equals the first operand's callback seen as a raw callable (`-`: none)
  operand : f<cb> (a filter object around callback class cb) | c<cb> (a plain callable) | x (not callable)
-/
namespace PlumVerif.C20F
open F64

def parseD (s : String) : Option D :=
  match s.splitOn "/" with
  | [n, d] => do
    let n ← n.toInt?
    let d ← d.toNat?
    if d = 0 then none else pure ⟨n, d⟩
  | _ => none

def showD (q : D) : String := s!"{q.num}/{q.den}"

def showOuts (os : List Out) : String :=
  if os.isEmpty then "." else String.intercalate ";" (os.map fun o => match o with | .skip => "-" | .deliver v => "d" ++ showD v)

def runFilter (s : String) (vs : List D) : Option (List Out) :=
  match s.splitOn ":" with
  | ["oc"] => some (onChange.outs vs)
  | ["db", n] => n.toNat?.map fun n => (debounce n).outs vs
  | ["de"] => some (delta.outs vs)
  | _ => none

def f64FilterOps : List String → Option String
  | "c20f" :: f :: vals => do
    let vs ← vals.mapM parseD
    let os ← runFilter f vs
    pure (showOuts os)
  | ["c20close", a, b] => do
    let a ← parseD a
    let b ← parseD b
    pure s!"{if isclose a b then 1 else 0} {if differs a b then 1 else 0} {showD (fsub b a)}"
  | "c20eq" :: a :: rest => do
    let parseOp (w : String) : Option C20.Operand :=
      match w.toList with
      | 'f' :: r => (String.ofList r).toNat?.map fun c => .filter ⟨.onChange, c⟩
      | 'c' :: r => (String.ofList r).toNat?.map .callable
      | ['x'] => some .other
      | _ => none
    let a ← parseOp a
    let xs ← rest.mapM parseOp
    match a with
    | .filter f =>
      let eqs := xs.map fun x => if f.eq x then "1" else "0"
      let idx := match C20.findEntry xs (.callable f.cb) with | some i => toString i | none => "-"
      pure (String.intercalate "" eqs ++ "|" ++ idx)
    | _ => none
  | _ => none

end PlumVerif.C20F

/-
C09 / C10 (extension) — fan-out of a controller message to the sub-devices of the ecoMAX
(devices/ecomax.py: `_handle_mixer_sensors`, `_handle_mixer_parameters`,
`_handle_thermostat_sensors`, `_handle_thermostat_parameters`, with `_mixers` / `_thermostats`).

A sensor-data message (and a mixer- / thermostat-parameters response) carries, per family,
`M` SLOTS; slot `i` either holds a block for sub-device `i` or is absent (NaN temperature, no
parameter in range …: which slots decode to a block is C05's business and an input here).  The
decoder hands the ecoMAX a dict `index ↦ block` for the present slots.  The handler then walks the
indexes in order, `setdefault`s the sub-device object of each index in the registry
(`data["mixers"]` / `data["thermostats"]`: return the object if the index is known, create and
register it otherwise), dispatches block `i` on the object of index `i`, and announces the registry
(`mixers` / `thermostats` event).  An empty dict does nothing at all (the handler returns False).

Objects are named by their position in the registry of their family (creation order), which is how
the harness names them, too (first appearance).
-/
namespace PlumVerif.Fanout

inductive Fam
  | mixer | thermostat
deriving Repr, DecidableEq

inductive Part
  | sensors | params
deriving Repr, DecidableEq

structure Msg where
  fam : Fam
  part : Part
  slots : List (Option Nat)     -- slot i: `some token` = a block for sub-device i, `none` = absent
deriving Repr, DecidableEq

structure Deliv where
  idx : Nat      -- `index` of the sub-device object the block was dispatched on
  obj : Nat      -- which object
  blk : Nat      -- the block (token)
deriving Repr, DecidableEq

/-- registry of one family: (index, object) in creation order -/
abbrev Reg := List (Nat × Nat)

structure State where
  mixers : Reg
  therms : Reg
deriving Repr, DecidableEq

def init : State := ⟨[], []⟩

def State.reg (s : State) : Fam → Reg
  | .mixer => s.mixers
  | .thermostat => s.therms

def State.setReg (s : State) (f : Fam) (r : Reg) : State :=
  match f with
  | .mixer => { s with mixers := r }
  | .thermostat => { s with therms := r }

/-- the dict the decoder yields: (index, block) of the present slots, in slot order -/
def presentFrom : Nat → List (Option Nat) → List (Nat × Nat)
  | _, [] => []
  | k, none :: rest => presentFrom (k + 1) rest
  | k, some b :: rest => (k, b) :: presentFrom (k + 1) rest

def present (slots : List (Option Nat)) : List (Nat × Nat) := presentFrom 0 slots

/-- `registry.setdefault(index, <new object>)` -/
def bindOne (r : Reg) (i : Nat) : Reg × Nat :=
  match r.lookup i with
  | some o => (r, o)
  | none => (r ++ [(i, r.length)], r.length)

/-- the walk over the indexes: bind each, dispatch its block on the object -/
def bindAll : Reg → List (Nat × Nat) → Reg × List Deliv
  | r, [] => (r, [])
  | r, (i, b) :: rest =>
    let r1 := (bindOne r i).1
    let o := (bindOne r i).2
    ((bindAll r1 rest).1, ⟨i, o, b⟩ :: (bindAll r1 rest).2)

/-- what one message shows: the blocks dispatched on sub-device objects, the announced registry
(`none`: nothing announced) and both registries afterwards -/
structure Out where
  delivs : List Deliv
  announced : Option Reg
  mixers : Reg
  therms : Reg
deriving Repr, DecidableEq

def step (s : State) (m : Msg) : State × Out :=
  let blocks := present m.slots
  if blocks.isEmpty then (s, ⟨[], none, s.mixers, s.therms⟩)
  else
    let r := (bindAll (s.reg m.fam) blocks).1
    let s' := s.setReg m.fam r
    (s', ⟨(bindAll (s.reg m.fam) blocks).2, some r, s'.mixers, s'.therms⟩)

def runFrom : State → List Msg → List Out
  | _, [] => []
  | s, m :: ms => (step s m).2 :: runFrom (step s m).1 ms

def finalFrom : State → List Msg → State
  | s, [] => s
  | s, m :: ms => finalFrom (step s m).1 ms

def run (ms : List Msg) : List Out := runFrom init ms

/-! ### the statement as a decidable predicate on an observation

For every message: every present block is dispatched exactly once, on the object registered for
its index, and nothing else is dispatched; the registry of the message's family grows by exactly
the indexes not seen before (one new object each, objects never shared between indexes, bindings
never change), the other family's registry is untouched. -/

def Out.reg (o : Out) : Fam → Reg
  | .mixer => o.mixers
  | .thermostat => o.therms

def other : Fam → Fam
  | .mixer => .thermostat
  | .thermostat => .mixer

def nodupB : List Nat → Bool
  | [] => true
  | a :: l => !l.contains a && nodupB l

def pick (pm pt : Reg) : Fam → Reg
  | .mixer => pm
  | .thermostat => pt

def msgOk (prevM prevT : Reg) (m : Msg) (o : Out) : Bool :=
  let blocks := present m.slots
  let prev := pick prevM prevT m.fam
  let prevOther := pick prevM prevT (other m.fam)
  let reg := o.reg m.fam
  -- each present block: exactly one dispatch with its index, carrying it, on the registered object
  blocks.all (fun ib =>
    match reg.lookup ib.1 with
    | some ob => o.delivs.filter (fun d => d.idx == ib.1) == [⟨ib.1, ob, ib.2⟩]
    | none => false)
  -- nothing else
  && o.delivs.length == blocks.length
  -- the registry extends the previous one (bindings never change) …
  && prev.isPrefixOf reg
  -- … by exactly the indexes that were not bound yet, one new object each
  && (reg.drop prev.length).all (fun e => (prev.lookup e.1).isNone && (blocks.map (·.1)).contains e.1)
  && nodupB (reg.map (·.1))
  && nodupB (reg.map (·.2))
  -- the other family is not touched
  && o.reg (other m.fam) == prevOther

def specFrom : Reg → Reg → List Msg → List Out → Bool
  | _, _, [], [] => true
  | pm, pt, m :: ms, o :: os => msgOk pm pt m o && specFrom o.mixers o.therms ms os
  | _, _, _, _ => false

/-- the statement on a whole run, starting with no sub-device -/
def spec (ms : List Msg) (os : List Out) : Bool := specFrom [] [] ms os

end PlumVerif.Fanout

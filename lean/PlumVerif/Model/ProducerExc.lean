import PlumVerif.Generated.Pipeline
import PlumVerif.Model.Producer
/-
C09 — WHICH exception classes the receive pipeline contains, and which it takes for a lost connection.

The pool machine (Model/Pool.lean) and the producer machine (Model/Producer.lean) take "handling raises" /
"read() raises" as input bits.  This file makes the classes behind those bits explicit and takes the reaction to each
class from the CODE: `Gen.producerProbe` / `Gen.consumerProbe` are what the real coroutines `AsyncProtocol.frame_producer`
/ `frame_consumer` did when the translator (tools/gen_tables.py `_pipeline`) ran them with a reader / an entry lookup / a
device that raises an exception of each family (behaviour, not syntax: a behaviour-preserving rewrite of the loops leaves
the tables unchanged); `Gen.excIsA` is `issubclass(·, Exception)` as the interpreter answers it (every representative of
a family agrees, or the row says 2).

    producer:   try: … await writer.write(frame) … await reader.read() … queues.read.put_nowait(response)
                except ProtocolError: log                      → continue
                except (OSError, asyncio.TimeoutError): create_task(connection_lost()); break
                except Exception: log                          → continue
    consumer:   frame = await queue.get()
                try: device = await self.get_device_entry(frame.sender); device.handle_frame(frame)
                except Exception: log                          → continue
                finally: queue.task_done()

A received frame's payload is decoded lazily.  In the code as it is that happens at two SITES: inside the consumer's
try (`handle_frame` → `frame.data`), and — only when the application enabled DEBUG logging AND a handler formats the
record — inside the logging machinery (`stream.py`: `_LOGGER.debug("Received frame: %s", frame)`; `Handler.emit`
catches `Exception` and calls `handleError`).  It does NOT happen inside `FrameReader.read()` itself; the site `reader`
exists in the model to show that the model tells the difference (a decoder's OSError there is taken for a lost
connection).
-/
namespace PlumVerif.Contain
open PlumVerif.Producer

/-- exception families, at the granularity the clauses distinguish -/
inductive Exc
  | protocolError   -- pyplumio.exceptions.ProtocolError and every subclass (ReadError, ChecksumError, UnknownDeviceError, UnknownFrameError, FrameDataError)
  | osError         -- OSError and its subclasses other than TimeoutError (ConnectionResetError, …; `socket.inet_ntoa` on a short field)
  | timeoutError    -- asyncio.TimeoutError (= builtin TimeoutError, a subclass of OSError)
  | other           -- every other subclass of Exception (ValueError, IndexError, KeyError, struct.error, UnicodeDecodeError, TypeError, …)
  | cancelled       -- asyncio.CancelledError: a BaseException, NOT an Exception (task cancellation; outside the statement)
deriving Repr, DecidableEq

def Exc.family : Exc → String
  | .protocolError => "ProtocolError"
  | .osError => "OSError"
  | .timeoutError => "TimeoutError"
  | .other => "other"
  | .cancelled => "CancelledError"

def Exc.all : List Exc := [.protocolError, .osError, .timeoutError, .other, .cancelled]

/-- `issubclass(e, cls)` as the interpreter answered the translator -/
def isA (e : Exc) (cls : String) : Bool :=
  Gen.excIsA.any fun r => r.1 == e.family && r.2.1 == cls && r.2.2 == 1

inductive Reaction
  | continues    -- logged, the loop goes on
  | breaks       -- connection_lost() scheduled, the loop is left
  | propagates   -- no clause matches: the exception ends the task
deriving Repr, DecidableEq

/-- what `frame_producer` does when `reader.read()` raises an exception of the family — as PROBED on the code by the
translator (`Gen.producerProbe`: the real coroutine run with a reader that raises once) -/
def producerReaction (e : Exc) : Reaction :=
  match Gen.producerProbe.lookup e.family with
  | some "continue" => .continues
  | some "break" => .breaks
  | _ => .propagates

/-- the consumer survives an exception of the family raised at the site ("entry": `get_device_entry`, "handle":
`device.handle_frame`) AND acknowledges the frame — as probed (`Gen.consumerProbe`: the real coroutine run on two frames) -/
def consumerContainsAt (e : Exc) (site : String) : Bool :=
  Gen.consumerProbe.any fun r => r.1 == e.family && r.2.1 == site && r.2.2 == 1

def consumerReaction (e : Exc) : Reaction :=
  if consumerContainsAt e "entry" && consumerContainsAt e "handle" then .continues else .propagates

/-- the probe's verdict includes the accounting: a contained frame is acknowledged (`task_done`), whichever site raised -/
def consumerAccounts : Bool :=
  [Exc.protocolError, .osError, .timeoutError, .other].all fun e =>
    consumerContainsAt e "entry" == consumerContainsAt e "handle"

/-- the `contain` bit of the pool machine, computed from the probes -/
def containBit : Bool :=
  [Exc.protocolError, .osError, .timeoutError, .other].all (fun e => consumerReaction e == .continues) && consumerAccounts

/-- where the payload of a received frame gets decoded -/
inductive Site
  | logging    -- while a logging handler formats the reader's DEBUG line
  | consumer   -- `device.handle_frame(frame)` inside the consumer's try
  | reader     -- inside `FrameReader.read()`, i.e. inside the producer's try (not in the code as it is)
deriving Repr, DecidableEq

/-- the application's logging configuration for the `pyplumio` loggers -/
structure LogCfg where
  debug : Bool      -- level DEBUG
  handler : Bool    -- a handler that formats the records it gets
deriving Repr, DecidableEq

/-- the sites at which the code as it is decodes a received frame, in order -/
def decodeSites (l : LogCfg) : List Site :=
  (if l.debug && l.handler then [Site.logging] else []) ++ [Site.consumer]

/-- what a decoder's exception does at a site -/
inductive Effect
  | swallowed   -- nothing: the frame goes on to the next site
  | dropped     -- the frame is dropped (logged, acknowledged), everything goes on
  | lost        -- taken for a lost connection: the producer stops, `connection_lost()` runs
  | dies        -- a task ends with the exception
deriving Repr, DecidableEq

def effectAt : Site → Exc → Effect
  | .logging, e => if isA e "Exception" then .swallowed else .dies      -- logging.Handler: `except Exception: self.handleError(record)`
  | .consumer, e =>
    match consumerReaction e with
    | .continues => if consumerAccounts then .dropped else .dies
    | _ => .dies
  | .reader, e =>
    match producerReaction e with
    | .continues => .dropped
    | .breaks => .lost
    | .propagates => .dies

/-- the fate of a frame whose decoder raises `e`: the first site at which something happens -/
def fate : List Site → Exc → Effect
  | [], _ => .swallowed
  | s :: rest, e => match effectAt s e with | .swallowed => fate rest e | x => x

/-- an exception raised by `reader.read()` as a read outcome of the producer machine -/
def routOf (pe : PErr) : Exc → ROut
  | .protocolError => .frame (.protoErr pe)
  | .osError => .frame .connLost
  | .timeoutError => .timeout
  | .other => .other
  | .cancelled => .other     -- (not an outcome of the machine: excluded by hypothesis where it matters)

def parseExc : String → Option Exc
  | "ProtocolError" => some .protocolError
  | "OSError" => some .osError
  | "TimeoutError" => some .timeoutError
  | "other" => some .other
  | "CancelledError" => some .cancelled
  | _ => none

def Effect.show : Effect → String
  | .swallowed => "swallowed" | .dropped => "dropped" | .lost => "lost" | .dies => "dies"

def parseBit (w : String) : Option Bool :=
  if w = "1" then some true else if w = "0" then some false else none

/-- line protocol:  c09exc <site: r | d> <family> <debug 0|1> <handler 0|1>
    r = the exception is raised by reader.read() itself; d = by the decoder of a received frame (sites of the code as it is) -/
def excOps : List String → Option String
  | ["c09exc", site, fam, dbg, hnd] => do
    let e ← parseExc fam
    let l : LogCfg := ⟨← parseBit dbg, ← parseBit hnd⟩
    match site with
    | "r" => some (fate [.reader] e).show
    | "d" => some (fate (decodeSites l) e).show
    | _ => none
  | _ => none

end PlumVerif.Contain

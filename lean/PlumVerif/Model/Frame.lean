import PlumVerif.Generated.Consts
import PlumVerif.Model.Basic
/-
Model of the frame envelope: `Frame.bytes` (encode) and `FrameReader.read`
(readFrame) of pyplumio/frames/__init__.py and pyplumio/stream.py.

`readFrame` consumes a prefix of the byte stream and returns the outcome of ONE
call of `FrameReader.read()` together with the unconsumed remainder.  The stream
is the complete sequence of bytes that will ever arrive (followed by EOF);
chunking is asyncio.StreamReader's business (trusted, exercised by the harness).
-/
namespace PlumVerif

/-- protocol errors raised by `FrameReader.read` -/
inductive PErr
  | incompleteHeader   -- ReadError: EOF inside the 7-byte header
  | badLength          -- ReadError: length field outside MIN..MAX
  | incompleteFrame    -- ReadError: EOF inside the body
  | unknownDevice      -- UnknownDeviceError
  | checksum           -- ChecksumError
  | unknownFrame       -- UnknownFrameError
deriving Repr, DecidableEq

structure Fields where
  kind : Byte
  rcpt : Byte
  sender : Byte
  etype : Byte
  ever : Byte
  payload : List Byte
deriving Repr, DecidableEq

inductive Outcome
  | delivered (f : Fields)
  | ignored                 -- `read()` returned None
  | protoErr (e : PErr)     -- a ProtocolError subclass was raised
  | connLost                -- OSError("Serial connection broken")
deriving Repr, DecidableEq

def knownDevice (b : Byte) : Bool := Gen.deviceTypes.any (·.2 == b.toNat)
def knownFrame (b : Byte) : Bool := Gen.frameTypes.any (·.2 == b.toNat)
/-- address of the library (DeviceType.ECONET) and broadcast (DeviceType.ALL) -/
def isForUs (b : Byte) : Bool := b == 86 || b == 0

def startByte : Byte := Gen.frameStart.toUInt8
def endByte : Byte := Gen.frameEnd.toUInt8

/-- `_read_header`: drop bytes up to and including the first start delimiter -/
def scan : List Byte → Option (List Byte)
  | [] => none
  | b :: r => if b = startByte then some r else scan r

def readFrame (s : List Byte) : Outcome × List Byte :=
  match scan s with
  | none => (.connLost, [])
  | some r =>
    match r with
    | l0 :: l1 :: rc :: sd :: et :: ev :: r1 =>
      let len := l0.toNat + 256 * l1.toNat
      if len > Gen.maxFrameLength ∨ len < Gen.minFrameLength then (.protoErr .badLength, r1)
      else if r1.length < len - Gen.headerSize then (.protoErr .incompleteFrame, [])
      else
        let body := r1.take (len - Gen.headerSize)
        let r2 := r1.drop (len - Gen.headerSize)
        -- body = kind :: payload ++ [crc, end]
        let kind := body.headD 0
        let payload := (body.drop 1).take (len - Gen.headerSize - 3)
        let crc := body.getD (len - Gen.headerSize - 2) 0
        let pre := [startByte, l0, l1, rc, sd, et, ev] ++ body.take (len - Gen.headerSize - 2)
        if ¬ isForUs rc then (.ignored, r2)
        else if ¬ knownDevice sd then (.protoErr .unknownDevice, r2)
        else if bcc pre ≠ crc then (.protoErr .checksum, r2)
        else if ¬ knownFrame kind then (.protoErr .unknownFrame, r2)
        else (.delivered ⟨kind, rc, sd, et, ev, payload⟩, r2)
    | _ => (.protoErr .incompleteHeader, [])

/-- `Frame.bytes` with an arbitrary last byte `endb` (the code always writes FRAME_END;
the reader never inspects that byte, so soundness theorems quantify over it). -/
def encodeWith (f : Fields) (endb : Byte) : List Byte :=
  let len := f.payload.length + 10
  let pre := [startByte, (len % 256).toUInt8, (len / 256).toUInt8, f.rcpt, f.sender, f.etype, f.ever, f.kind] ++ f.payload
  pre ++ [bcc pre, endb]

def encode (f : Fields) : List Byte := encodeWith f endByte

/-- all results of calling `read()` until the connection is reported lost;
`fuel` bounds the number of calls (each call that is not `connLost` consumes ≥ 1 byte,
see `C14.progress`, so `s.length + 1` calls always suffice). -/
def readAllFuel : Nat → List Byte → List (Outcome × Nat)
  | 0, _ => []
  | fuel + 1, s =>
    let (o, r) := readFrame s
    match o with
    | .connLost => [(o, s.length - r.length)]
    | _ => (o, s.length - r.length) :: readAllFuel fuel r

def readAll (s : List Byte) : List (Outcome × Nat) := readAllFuel (s.length + 1) s

end PlumVerif

import PlumVerif.Generated.Consts
import PlumVerif.Model.Basic
/-
Model of the payload builders (`create_message`) of the nine parameterised requests of
pyplumio/frames/requests.py and of `SchedulesStructure.encode`
(pyplumio/structures/schedules.py), together with positional parsers used as the
"documented layout" in the C02 theorems and as judges on implementation bytes.

Python values: an `int` argument is an `Int`; a key that is absent from the `data` dict is
`none` (`data[k]` then raises KeyError, `data.get(k, d)` yields the default).
Exceptions escaping `create_message` are modelled by `BuildErr`:
  * `frameData` — FrameDataError (a KeyError/ValueError caught and converted),
  * `value`     — a bare ValueError (`bytearray([300])` outside a try block that converts it),
  * `overflow`  — OverflowError of `int.to_bytes` (never converted: not a ValueError).
-/
namespace PlumVerif.Req

inductive BuildErr
  | frameData
  | value
  | overflow
deriving Repr, DecidableEq

/-- one element of `bytearray([...])`: must be in `range(0, 256)`, else ValueError -/
def byteOf (v : Int) : Option Byte :=
  if 0 ≤ v ∧ v < 256 then some v.toNat.toUInt8 else none

/-- `bytearray([v0, v1, ...])` -/
def bytesOf : List Int → Option (List Byte)
  | [] => some []
  | v :: r =>
    match byteOf v, bytesOf r with
    | some b, some bs => some (b :: bs)
    | _, _ => none

/-- `[count, start]` — EcomaxParametersRequest, MixerParametersRequest,
ThermostatParametersRequest: `bytearray([data.get("count", 255), data.get("start", 0)])`,
no conversion of the ValueError. -/
def rangePayload (count start : Option Int) : Except BuildErr (List Byte) :=
  match bytesOf [count.getD 255, start.getD 0] with
  | some bs => .ok bs
  | none => .error .value

/-- `[start, count]` — AlertsRequest: `bytearray([data.get("start", 0), data.get("count", 10)])` -/
def alertsPayload (start count : Option Int) : Except BuildErr (List Byte) :=
  match bytesOf [start.getD 0, count.getD 10] with
  | some bs => .ok bs
  | none => .error .value

/-- `[index, value]` — SetEcomaxParameterRequest (KeyError, ValueError → FrameDataError) -/
def setEcomaxPayload (index value : Option Int) : Except BuildErr (List Byte) :=
  match index, value with
  | some i, some v =>
    match bytesOf [i, v] with
    | some bs => .ok bs
    | none => .error .frameData
  | _, _ => .error .frameData

/-- `[device_index, index, value]` — SetMixerParameterRequest -/
def setMixerPayload (device index value : Option Int) : Except BuildErr (List Byte) :=
  match device, index, value with
  | some d, some i, some v =>
    match bytesOf [d, i, v] with
    | some bs => .ok bs
    | none => .error .frameData
  | _, _, _ => .error .frameData

/-- `[index (+ offset)] ++ value.to_bytes(size, "little")` — SetThermostatParameterRequest.
`offset` is `none` when the key is absent and `some none` when it is Python `None`.
`int.to_bytes`: negative length → ValueError (converted); negative value or a value that
does not fit → OverflowError (escapes). -/
def setThermostatPayload (index value : Option Int) (offset : Option (Option Int))
    (size : Option Int) : Except BuildErr (List Byte) :=
  match index, value, offset with
  | some i, some v, some off =>
    match byteOf (match off with | none => i | some o => i + o) with
    | none => .error .frameData
    | some b =>
      match size with
      | none => .error .frameData
      | some sz =>
        if sz < 0 then .error .frameData
        else if v < 0 ∨ v ≥ 256 ^ sz.toNat then .error .overflow
        else .ok (b :: encodeLE v.toNat sz.toNat)
  | _, _, _ => .error .frameData

/-- `[value]` — EcomaxControlRequest (only KeyError is converted) -/
def controlPayload (value : Option Int) : Except BuildErr (List Byte) :=
  match value with
  | none => .error .frameData
  | some v =>
    match bytesOf [v] with
    | some bs => .ok bs
    | none => .error .value

/-! ### schedules -/

/-- `_join_bits`: `reduce(lambda bit, byte: (bit << 1) | byte, bits)` on booleans -/
def joinBits (bits : List Bool) : Nat := bits.foldl (fun acc b => 2 * acc + b.toNat) 0

/-- `_join_bits(day[i : i + 8]) for i in range(0, len(day), 8)` -/
def dayBytes (day : List Bool) : List Byte :=
  (List.range ((day.length + 7) / 8)).map fun j => (joinBits ((day.drop (8 * j)).take 8)).toUInt8

/-- the bitmap part of a set-schedule payload: every day, in order, eight slots per byte -/
def bitmap (sched : List (List Bool)) : List Byte := sched.flatMap dayBytes

/-- `int(x).to_bytes(length=1, byteorder="little")` -/
def oneByte (v : Int) : Except BuildErr Byte :=
  if 0 ≤ v ∧ v < 256 then .ok v.toNat.toUInt8 else .error .overflow

/-- `SchedulesStructure.encode`: header `[1, SCHEDULES.index(type), switch, parameter]` then
the bitmap.  Evaluation order as in the code: type (KeyError / ValueError of `.index` →
FrameDataError), switch, parameter (KeyError → FrameDataError, out of range → OverflowError),
schedule (KeyError → FrameDataError). -/
def schedulePayload (type : Option String) (switch parameter : Option Int)
    (schedule : Option (List (List Bool))) : Except BuildErr (List Byte) := do
  let idx ← match type with
    | none => .error .frameData
    | some t =>
      match Gen.schedules.idxOf? t with
      | none => .error .frameData
      | some i => oneByte i
  let sw ← match switch with
    | none => .error .frameData
    | some s => oneByte s
  let par ← match parameter with
    | none => .error .frameData
    | some p => oneByte p
  match schedule with
  | none => .error .frameData
  | some s => pure ([1, idx, sw, par] ++ bitmap s)

/-! ### positional parsers: the documented layouts, read back -/

def parse2 : List Byte → Option (Int × Int)
  | [a, b] => some (a.toNat, b.toNat)
  | _ => none

def parse3 : List Byte → Option (Int × Int × Int)
  | [a, b, c] => some (a.toNat, b.toNat, c.toNat)
  | _ => none

def parse1 : List Byte → Option Int
  | [a] => some a.toNat
  | _ => none

/-- thermostat: (slot = index + offset, value width, value) -/
def parseThermostat : List Byte → Option (Int × Nat × Int)
  | [] => none
  | s :: r => some (s.toNat, r.length, decodeLE r)

/-- slot `i` of day `d` is bit `7 - i % 8` (MSB first) of bitmap byte `6 * d + i / 8` -/
def unpackBitmap (bs : List Byte) : List (List Bool) :=
  (List.range 7).map fun d => (List.range 48).map fun i =>
    (bs.getD (6 * d + i / 8) 0).toNat.testBit (7 - i % 8)

/-- (schedule index, switch, parameter, 7 × 48 slots) -/
def parseSchedule (bs : List Byte) : Option (Nat × Int × Int × List (List Bool)) :=
  match bs with
  | one :: idx :: sw :: par :: bm =>
    if one = 1 ∧ bm.length = Gen.scheduleSize then
      some (idx.toNat, sw.toNat, par.toNat, unpackBitmap bm)
    else none
  | _ => none

end PlumVerif.Req

import PlumVerif.Generated.Consts
import PlumVerif.Generated.Sensors
import PlumVerif.Model.Val
/-
C05 (first half) — the sensor data message (`frames/messages.py` SensorDataMessage and the
structures of its section chain).

Three things live here, all executable and import-free:
  * `Wire`  : byte readers on remainders (`message[offset:]` is the remainder, a threaded offset
              is a threaded remainder); running out of bytes is `none` (IndexError / struct.error).
  * decoders `dec…` mirroring the Python code section by section, `decodeSensorData`;
  * the wire layout, written ONCE as encoders over abstract message records
    (`SensorMsg`, `encodeSensorData`) together with the value the message stands for
    (`valOfSensorData`).  This is the specification; `Proofs/DecodeSensors.lean` proves
    `decode (encode m ++ rest) = some (valOf m, rest)` per section and for the chain.
-/
namespace PlumVerif

/-! ## byte readers -/
namespace Wire

abbrev Dec (α : Type) := List Byte → Option (α × List Byte)

/-- `message[offset]` -/
def readByte : Dec Byte
  | [] => none
  | b :: r => some (b, r)

/-- exactly `n` bytes (struct.unpack_from raises when fewer are left) -/
def takeN (n : Nat) : Dec (List Byte) := fun s =>
  if s.length < n then none else some (s.take n, s.drop n)

/-- unsigned little-endian integer of `k` bytes (`<B`, `<H`, `<I`, `<Q`) -/
def readLE (k : Nat) : Dec Nat := fun s => do
  let (bs, r) ← takeN k s
  pure (decodeLE bs, r)

/-- two's complement little-endian integer of `k` bytes (`<b`, `<h`, `<i`, `<q`) -/
def readSLE (k : Nat) : Dec Int := fun s => do
  let (n, r) ← readLE k s
  pure (if n < 256 ^ k / 2 then Int.ofNat n else Int.ofNat n - Int.ofNat (256 ^ k), r)

/-- wire floats are opaque bit patterns -/
abbrev F32 := UInt32
abbrev F64 := UInt64

def readF32 : Dec F32 := fun s => do
  let (n, r) ← readLE 4 s
  pure (UInt32.ofNat n, r)

def readF64 : Dec F64 := fun s => do
  let (n, r) ← readLE 8 s
  pure (UInt64.ofNat n, r)

/-- `math.isnan` on the binary32 pattern: exponent all ones, mantissa non-zero -/
def isNaN32 (b : F32) : Bool := b.toNat % 2147483648 > 2139095040

/-- `value > 0` on the binary32 pattern: sign clear, not zero, not NaN (+inf and denormals count) -/
def gtZero32 (b : F32) : Bool := b.toNat < 2147483648 && b.toNat != 0 && !isNaN32 b

/-- `n` items one after another -/
def decN {α : Type} (d : Dec α) : Nat → Dec (List α)
  | 0, s => some ([], s)
  | n + 1, s => do
    let (a, r) ← d s
    let (as, r) ← decN d n r
    pure (a :: as, r)

/-- `str(n)` as characters -/
def decBytes (n : Nat) : List Byte := (Nat.toDigits 10 n).map fun c => c.toNat.toUInt8

def dot : Byte := 46

end Wire

namespace Sens
open Wire

/-! ## decoders (mirror of the Python structures) -/

/-- `DeviceState(x)` with `_missing_` looking into EXTRA_DEVICE_STATES; unknown values stay ints -/
def deviceStateOf (b : Nat) : Nat :=
  if Gen.deviceStates.any (fun p => p.2 == b) then b
  else match Gen.extraDeviceStates.lookup b with
    | some v => v
    | none => b

def decVersion : Dec (Nat × Nat) := fun s => do
  let (t, r) ← readByte s
  let (v, r) ← readLE 2 r
  pure ((t.toNat, v), r)

def versionsVal (ps : List (Nat × Nat)) : Val :=
  Val.intDict ((assocOf ps).map fun kv => (kv.1, Val.nat kv.2))

/-- frame_versions.py: count byte, then (frame type byte, `<H` version) each; `dict(...)` -/
def decFrameVersions : Dec VFields := fun s => do
  let (n, r) ← readByte s
  let (ps, r) ← decN decVersion n.toNat r
  pure ([("frame_versions", versionsVal ps)], r)

/-- outputs.py: `<I`, output `i` is `bool(value & 2**i)` -/
def decOutputs : Dec VFields := fun s => do
  let (v, r) ← readLE 4 s
  pure (Gen.outputsNames.zipIdx.map (fun ni => (ni.1, Val.bool (v &&& 2 ^ ni.2 != 0))), r)

/-- output_flags.py: `<I`, masks 0x04 0x08 0x10 0x800 -/
def decOutputFlags : Dec VFields := fun s => do
  let (v, r) ← readLE 4 s
  pure ([("heating_pump_flag", Val.bool (v &&& 0x04 != 0)),
         ("water_heater_pump_flag", Val.bool (v &&& 0x08 != 0)),
         ("circulation_pump_flag", Val.bool (v &&& 0x10 != 0)),
         ("solar_pump_flag", Val.bool (v &&& 0x800 != 0))], r)

def decTemp : Dec (Nat × F32) := fun s => do
  let (i, r) ← readByte s
  let (t, r) ← readF32 r
  pure ((i.toNat, t), r)

/-- `data[TEMPERATURES[index]] = temp.value` for the non-NaN, in-range entries, in order -/
def tempFieldsWith (names : List String) (ts : List (Nat × F32)) : VFields :=
  assocOf (ts.filterMap fun it =>
    if isNaN32 it.2 then none else (names[it.1]?).map fun n => (n, Val.f32 it.2))

def tempFields (ts : List (Nat × F32)) : VFields := tempFieldsWith Gen.temperaturesNames ts

/-- temperatures.py: count byte, then (index byte, `<f`) each -/
def decTemperatures : Dec VFields := fun s => do
  let (n, r) ← readByte s
  let (ts, r) ← decN decTemp n.toNat r
  pure (tempFields ts, r)

def statusAt (s : List Byte) : List (String × Nat) → Option VFields
  | [] => some []
  | (name, i) :: ns => do
    let b ← s[i]?
    let fs ← statusAt s ns
    pure ((name, Val.nat b.toNat) :: fs)

/-- statuses.py: `message[offset + index]` per name, then `offset + STATUSES_SIZE` -/
def decStatuses : Dec VFields := fun s => do
  let fs ← statusAt s Gen.statusesNames.zipIdx
  pure (fs, s.drop Gen.statusesSize)

/-- pending_alerts.py: count byte, then that many bytes are skipped (no bounds check) -/
def decPendingAlerts : Dec VFields := fun s => do
  let (n, r) ← readByte s
  pure ([("pending_alerts", Val.nat n.toNat)], r.drop n.toNat)

/-- fuel_level.py: 0xFF absent, values >= 101 are rebased -/
def decFuelLevel : Dec VFields := fun s => do
  let (b, r) ← readByte s
  if b.toNat == Gen.byteUndefined then pure ([], r)
  else if b.toNat ≥ Gen.fuelLevelOffset then
    pure ([("fuel_level", Val.nat (b.toNat - Gen.fuelLevelOffset))], r)
  else pure ([("fuel_level", Val.nat b.toNat)], r)

/-- fan_power.py / boiler_power.py / fuel_consumption.py: `<f`, NaN absent -/
def decOptF32 (name : String) : Dec VFields := fun s => do
  let (f, r) ← readF32 s
  pure (if isNaN32 f then [] else [(name, Val.f32 f)], r)

/-- boiler_load.py: byte, 0xFF absent -/
def decBoilerLoad : Dec VFields := fun s => do
  let (b, r) ← readByte s
  pure (if b.toNat == Gen.byteUndefined then [] else [("boiler_load", Val.nat b.toNat)], r)

def versionStr (a b c : Byte) : List Byte :=
  decBytes a.toNat ++ [dot] ++ decBytes b.toNat ++ [dot] ++ decBytes c.toNat

/-- modules.py `_unpack_module_version`: 0xFF -> None (1 byte); else `<BBB` joined by dots;
module A carries a vendor suffix `<BB` rendered `.{chr(code)}{version}` -/
def decModule (name : String) : Dec Val := fun s => do
  let (b0, r0) ← readByte s
  if b0.toNat == Gen.byteUndefined then pure (Val.none, r0)
  else
    let (v, r) ← takeN 3 s
    match v with
    | [a, b, c] =>
      if name == "module_a" then
        let (w, r) ← takeN 2 r
        match w with
        | [vc, vv] => pure (Val.str (versionStr a b c ++ [dot, vc] ++ decBytes vv.toNat), r)
        | _ => none
      else pure (Val.str (versionStr a b c), r)
    | _ => none

def decFieldsSeq (d : String → Dec Val) : List String → Dec VFields
  | [], s => some ([], s)
  | n :: ns, s => do
    let (v, r) ← d n s
    let (fs, r) ← decFieldsSeq d ns r
    pure ((n, v) :: fs, r)

def decModules : Dec VFields := fun s => do
  let (fs, r) ← decFieldsSeq decModule Gen.modulesNames s
  pure ([("modules", Val.record fs)], r)

/-- lambda_sensor.py: state byte (0xFF: section absent, 1 byte), target byte, `<H` level;
level is `value / 10` (the isnan test on an int is always False) -/
def decLambda : Dec VFields := fun s => do
  let (st, r) ← readByte s
  if st.toNat == Gen.byteUndefined then pure ([], r)
  else
    let (tg, r) ← readByte r
    let (lv, r) ← readLE 2 r
    pure ([("lambda_state", Val.nat st.toNat), ("lambda_target", Val.nat tg.toNat),
           ("lambda_level", Val.ratio lv 10)], r)

structure ThRaw where
  state : Byte
  cur : F32
  tgt : F32

def decThermostat : Dec ThRaw := fun s => do
  let (st, r) ← readByte s
  let (c, r) ← readF32 r
  let (t, r) ← readF32 r
  pure (⟨st, c, t⟩, r)

/-- `_thermostat_sensors`: thermostat `i` is reported when its current temperature is not NaN and
its target is > 0; the contact / schedule masks start at 1 and 8 and are shifted left once per
thermostat, reported or not -/
def thermoEntries (contacts : Nat) : List ThRaw → Nat → Nat → Nat → List (Nat × Val)
  | [], _, _, _ => []
  | t :: ts, i, cm, sm =>
    let rest := thermoEntries contacts ts (i + 1) (cm <<< 1) (sm <<< 1)
    if !isNaN32 t.cur && gtZero32 t.tgt then
      (i, Val.record [("state", Val.nat t.state.toNat), ("current_temp", Val.f32 t.cur),
        ("target_temp", Val.f32 t.tgt), ("contacts", Val.bool (contacts &&& cm != 0)),
        ("schedule", Val.bool (contacts &&& sm != 0))]) :: rest
    else rest

/-- thermostat_sensors.py: 0xFF -> section absent (1 byte); else contacts byte, count byte,
9 bytes per thermostat -/
def decThermostats : Dec VFields := fun s => do
  let (c, r) ← readByte s
  if c.toNat == Gen.byteUndefined then pure ([], r)
  else
    let (n, r) ← readByte r
    let (ts, r) ← decN decThermostat n.toNat r
    let es := thermoEntries c.toNat ts 0 1 (1 <<< 3)
    pure ([("thermostat_sensors", Val.intDict es), ("thermostats_available", Val.nat n.toNat),
           ("thermostats_connected", Val.nat es.length)], r)

/-- mixer_sensors.py `_unpack_mixer_sensors`: `<f` current; bytes 4 and 6 are read only when the
current temperature is not NaN; the offset always advances by MIXER_SENSOR_SIZE -/
def decMixer : Dec (Option Val) := fun s => do
  let (cur, _) ← readF32 s
  if isNaN32 cur then pure (none, s.drop Gen.mixerSensorSize)
  else
    let tgt ← s[4]?
    let fl ← s[6]?
    pure (some (Val.record [("current_temp", Val.f32 cur), ("target_temp", Val.nat tgt.toNat),
      ("pump", Val.bool (fl.toNat &&& 1 != 0))]), s.drop Gen.mixerSensorSize)

def mixerEntries (ms : List (Option Val)) : List (Nat × Val) :=
  ms.zipIdx.filterMap fun oi => oi.1.map fun v => (oi.2, v)

def decMixers : Dec VFields := fun s => do
  let (n, r) ← readByte s
  let (ms, r) ← decN decMixer n.toNat r
  let es := mixerEntries ms
  pure ([("mixer_sensors", Val.intDict es), ("mixers_available", Val.nat n.toNat),
         ("mixers_connected", Val.nat es.length)], r)

/-- `data |= extra` section after section -/
def mergeAll (secs : List VFields) : VFields := secs.foldl assocMerge []

/-- the final `sensors[ATTR_STATE] = DeviceState(...)` replaces the value in place -/
def finish (secs : List VFields) (state : Nat) : Val :=
  Val.record [("sensors", Val.record (assocSet (mergeAll secs) "state" (Val.nat state)))]

/-- messages.py SensorDataMessage.decode_message -/
def decodeSensorData (msg : List Byte) : Option Val := do
  let (fv, r) ← decFrameVersions msg
  let (st, r) ← readByte r
  let (outs, r) ← decOutputs r
  let (flags, r) ← decOutputFlags r
  let (temps, r) ← decTemperatures r
  let (stat, r) ← decStatuses r
  let (pa, r) ← decPendingAlerts r
  let (fuel, r) ← decFuelLevel r
  let (tr, r) ← readByte r
  let (fan, r) ← decOptF32 "fan_power" r
  let (load, r) ← decBoilerLoad r
  let (power, r) ← decOptF32 "boiler_power" r
  let (cons, r) ← decOptF32 "fuel_consumption" r
  let (th, r) ← readByte r
  let (mods, r) ← decModules r
  let (lam, r) ← decLambda r
  let (ths, r) ← decThermostats r
  let (mix, _) ← decMixers r
  pure (finish [fv, [("state", Val.nat st.toNat)], outs, flags, temps, stat, pa, fuel,
    [("transmission", Val.nat tr.toNat)], fan, load, power, cons,
    [("thermostat", Val.nat th.toNat)], mods, lam, ths, mix] (deviceStateOf st.toNat))

/-! ## the wire layout: abstract messages, their encoding and their meaning -/

def encF32 (f : F32) : List Byte := encodeLE f.toNat 4

/-- fuel level byte: absent (0xFF), a plain level, or a level sent rebased by +101 -/
inductive FuelLevel where
  | absent
  | plain (v : Nat)      -- v < 101
  | rebased (v : Nat)    -- v + 101 < 255

structure ModVer where
  a : Byte   -- ≠ 0xFF
  b : Byte
  c : Byte

structure ModVerA extends ModVer where
  vendorCode : Byte
  vendorVer : Byte

structure LambdaMsg where
  state : Byte   -- ≠ 0xFF
  target : Byte
  level : Nat    -- < 65536, tenths

structure ThermostatsMsg where
  contacts : Byte   -- ≠ 0xFF; bit i: contacts of thermostat i, bit i+3: schedule of thermostat i
  items : List ThRaw  -- < 256 of them

structure MixerMsg where
  cur : F32
  target : Byte
  pad5 : Byte
  flags : Byte    -- bit 0: pump
  pad7 : Byte

structure SensorMsg where
  versions : List (Byte × Nat)         -- (frame type, version < 65536), < 256 of them
  state : Byte
  outputs : Nat                        -- < 2^32, bit i = output i
  outputFlags : Nat                    -- < 2^32
  temps : List (Byte × F32)            -- (index, value), < 256 of them
  heatingTarget : Byte
  heatingStatus : Byte
  waterHeaterTarget : Byte
  waterHeaterStatus : Byte
  pendingAlerts : List Byte            -- < 256 of them; only their number is decoded
  fuelLevel : FuelLevel
  transmission : Byte
  fanPower : F32                       -- NaN = absent
  boilerLoad : Byte                    -- 0xFF = absent
  boilerPower : F32
  fuelConsumption : F32
  thermostat : Byte
  moduleA : Option ModVerA
  moduleB : Option ModVer
  moduleC : Option ModVer
  ecolambda : Option ModVer
  ecoster : Option ModVer
  panel : Option ModVer
  lambda : Option LambdaMsg
  thermostats : Option ThermostatsMsg
  mixers : List MixerMsg               -- < 256 of them

def encVersions (vs : List (Byte × Nat)) : List Byte :=
  vs.length.toUInt8 :: vs.flatMap fun tv => tv.1 :: encodeLE tv.2 2

def encTemps (ts : List (Byte × F32)) : List Byte :=
  ts.length.toUInt8 :: ts.flatMap fun it => it.1 :: encF32 it.2

def encPendingAlerts (as : List Byte) : List Byte := as.length.toUInt8 :: as

def encFuelLevel : FuelLevel → List Byte
  | .absent => [0xFF]
  | .plain v => [v.toUInt8]
  | .rebased v => [(v + 101).toUInt8]

def encModVer : Option ModVer → List Byte
  | none => [0xFF]
  | some m => [m.a, m.b, m.c]

def encModVerA : Option ModVerA → List Byte
  | none => [0xFF]
  | some m => [m.a, m.b, m.c, m.vendorCode, m.vendorVer]

def encLambda : Option LambdaMsg → List Byte
  | none => [0xFF]
  | some l => l.state :: l.target :: encodeLE l.level 2

def encThermostat (t : ThRaw) : List Byte := t.state :: (encF32 t.cur ++ encF32 t.tgt)

def encThermostats : Option ThermostatsMsg → List Byte
  | none => [0xFF]
  | some t => t.contacts :: t.items.length.toUInt8 :: t.items.flatMap encThermostat

def encMixer (m : MixerMsg) : List Byte := encF32 m.cur ++ [m.target, m.pad5, m.flags, m.pad7]

def encMixers (ms : List MixerMsg) : List Byte := ms.length.toUInt8 :: ms.flatMap encMixer

def encModules (m : SensorMsg) : List Byte :=
  encModVerA m.moduleA ++ encModVer m.moduleB ++ encModVer m.moduleC ++
  encModVer m.ecolambda ++ encModVer m.ecoster ++ encModVer m.panel

/-- THE LAYOUT of the sensor data payload -/
def encodeSensorData (m : SensorMsg) : List Byte :=
  encVersions m.versions ++ [m.state] ++ encodeLE m.outputs 4 ++ encodeLE m.outputFlags 4 ++
  encTemps m.temps ++
  [m.heatingTarget, m.heatingStatus, m.waterHeaterTarget, m.waterHeaterStatus] ++
  encPendingAlerts m.pendingAlerts ++ encFuelLevel m.fuelLevel ++ [m.transmission] ++
  encF32 m.fanPower ++ [m.boilerLoad] ++ encF32 m.boilerPower ++ encF32 m.fuelConsumption ++
  [m.thermostat] ++ encModules m ++ encLambda m.lambda ++ encThermostats m.thermostats ++
  encMixers m.mixers

def FuelLevel.wf : FuelLevel → Bool
  | .absent => true
  | .plain v => v < 101
  | .rebased v => v + 101 < 255

def modOk (m : Option ModVer) : Bool := match m with | none => true | some v => v.a != 0xFF
def modAOk (m : Option ModVerA) : Bool := match m with | none => true | some v => v.a != 0xFF

def SensorMsg.wf (m : SensorMsg) : Bool :=
  m.versions.length < 256 && m.versions.all (fun tv => tv.2 < 65536) &&
  m.outputs < 4294967296 && m.outputFlags < 4294967296 &&
  m.temps.length < 256 && m.pendingAlerts.length < 256 && m.fuelLevel.wf &&
  modAOk m.moduleA && modOk m.moduleB && modOk m.moduleC && modOk m.ecolambda &&
  modOk m.ecoster && modOk m.panel &&
  (match m.lambda with | none => true | some l => l.state != 0xFF && l.level < 65536) &&
  (match m.thermostats with | none => true | some t => t.contacts != 0xFF && t.items.length < 256) &&
  m.mixers.length < 256

/-! ### what the message means (written from the layout description, not from the decoders) -/

def optF32 (name : String) (f : F32) : VFields := if isNaN32 f then [] else [(name, Val.f32 f)]

def valVersions (vs : List (Byte × Nat)) : VFields :=
  [("frame_versions", versionsVal (vs.map fun tv => (tv.1.toNat, tv.2)))]

/-- the names of the layout, as literals (the decoders take theirs from the source's tables) -/
def outputNamesSpec : List String :=
  ["fan", "feeder", "heating_pump", "water_heater_pump", "circulation_pump", "lighter", "alarm",
   "outer_boiler", "fan2_exhaust", "feeder2", "outer_feeder", "solar_pump", "fireplace_pump",
   "gcz_contact", "blow_fan1", "blow_fan2"]

def temperatureNamesSpec : List String :=
  ["heating_temp", "feeder_temp", "water_heater_temp", "outside_temp", "return_temp", "exhaust_temp",
   "optical_temp", "upper_buffer_temp", "lower_buffer_temp", "upper_solar_temp", "lower_solar_temp",
   "fireplace_temp", "total_gain", "hydraulic_coupler_temp", "exchanger_temp", "air_in_temp",
   "air_out_temp"]

/-- the state byte is reported as is, except 12 and 23 which stand for STABILIZATION (1) -/
def stateSpec (b : Nat) : Nat := if b = 12 ∨ b = 23 then 1 else b

def valOutputs (v : Nat) : VFields :=
  outputNamesSpec.zipIdx.map fun ni => (ni.1, Val.bool (v.testBit ni.2))

def valOutputFlags (v : Nat) : VFields :=
  [("heating_pump_flag", Val.bool (v.testBit 2)), ("water_heater_pump_flag", Val.bool (v.testBit 3)),
   ("circulation_pump_flag", Val.bool (v.testBit 4)), ("solar_pump_flag", Val.bool (v.testBit 11))]

def valTemps (ts : List (Byte × F32)) : VFields :=
  tempFieldsWith temperatureNamesSpec (ts.map fun it => (it.1.toNat, it.2))

def valFuelLevel : FuelLevel → VFields
  | .absent => []
  | .plain v => [("fuel_level", Val.nat v)]
  | .rebased v => [("fuel_level", Val.nat v)]

def valModVer : Option ModVer → Val
  | none => Val.none
  | some m => Val.str (versionStr m.a m.b m.c)

def valModVerA : Option ModVerA → Val
  | none => Val.none
  | some m => Val.str (versionStr m.a m.b m.c ++ [dot, m.vendorCode] ++ decBytes m.vendorVer.toNat)

def valModules (m : SensorMsg) : VFields :=
  [("modules", Val.record [("module_a", valModVerA m.moduleA), ("module_b", valModVer m.moduleB),
    ("module_c", valModVer m.moduleC), ("ecolambda", valModVer m.ecolambda),
    ("ecoster", valModVer m.ecoster), ("panel", valModVer m.panel)])]

def valLambda : Option LambdaMsg → VFields
  | none => []
  | some l => [("lambda_state", Val.nat l.state.toNat), ("lambda_target", Val.nat l.target.toNat),
               ("lambda_level", Val.ratio l.level 10)]

/-- thermostat `i` (position in the section) is reported when current is a number and target > 0;
its contacts flag is bit `i` and its schedule flag bit `i + 3` of the contacts byte -/
def valThermoEntry (contacts : Nat) (ti : ThRaw × Nat) : Option (Nat × Val) :=
  if !isNaN32 ti.1.cur && gtZero32 ti.1.tgt then
    some (ti.2, Val.record [("state", Val.nat ti.1.state.toNat), ("current_temp", Val.f32 ti.1.cur),
      ("target_temp", Val.f32 ti.1.tgt), ("contacts", Val.bool (contacts.testBit ti.2)),
      ("schedule", Val.bool (contacts.testBit (ti.2 + 3)))])
  else none

def valThermoEntries (contacts : Nat) (items : List ThRaw) : List (Nat × Val) :=
  items.zipIdx.filterMap (valThermoEntry contacts)

def valThermostats : Option ThermostatsMsg → VFields
  | none => []
  | some t =>
    let es := valThermoEntries t.contacts.toNat t.items
    [("thermostat_sensors", Val.intDict es), ("thermostats_available", Val.nat t.items.length),
     ("thermostats_connected", Val.nat es.length)]

def valMixer (m : MixerMsg) : Option Val :=
  if isNaN32 m.cur then none
  else some (Val.record [("current_temp", Val.f32 m.cur), ("target_temp", Val.nat m.target.toNat),
    ("pump", Val.bool (m.flags.toNat.testBit 0))])

def valMixers (ms : List MixerMsg) : VFields :=
  let es := mixerEntries (ms.map valMixer)
  [("mixer_sensors", Val.intDict es), ("mixers_available", Val.nat ms.length),
   ("mixers_connected", Val.nat es.length)]

/-- the sections of the decoded dict, in wire order -/
def sections (m : SensorMsg) : List VFields :=
  [valVersions m.versions, [("state", Val.nat m.state.toNat)], valOutputs m.outputs,
   valOutputFlags m.outputFlags, valTemps m.temps,
   [("heating_target", Val.nat m.heatingTarget.toNat), ("heating_status", Val.nat m.heatingStatus.toNat),
    ("water_heater_target", Val.nat m.waterHeaterTarget.toNat),
    ("water_heater_status", Val.nat m.waterHeaterStatus.toNat)],
   [("pending_alerts", Val.nat m.pendingAlerts.length)], valFuelLevel m.fuelLevel,
   [("transmission", Val.nat m.transmission.toNat)], optF32 "fan_power" m.fanPower,
   (if m.boilerLoad = 0xFF then [] else [("boiler_load", Val.nat m.boilerLoad.toNat)]),
   optF32 "boiler_power" m.boilerPower, optF32 "fuel_consumption" m.fuelConsumption,
   [("thermostat", Val.nat m.thermostat.toNat)], valModules m, valLambda m.lambda,
   valThermostats m.thermostats, valMixers m.mixers]

def valOfSensorData (m : SensorMsg) : Val := finish (sections m) (stateSpec m.state.toNat)

end Sens
end PlumVerif

import PlumVerif.Model.EventsObs
import PlumVerif.Spec.C13
/-
Line-protocol front end for the event-dispatch machine (C13).

  c13 <scripts> <op>*   ->  ok|reject@<k> LOG <entries> SNAPS <snapshot>;<snapshot>;… W <wmeta>,…
  c13judge <scripts> <op>* | <entries> | <snapshot>;… | <wmeta>,…   ->  pass | fail:<clauses>   (C13.spec on an observation)

  scripts : S<cb>:<susp>:<k|a<c>>,…   (callback function scripts; `S-` for none; unlisted = 0 suspensions, returns None)
  op      : sub:<n>:<cb> | once:<n>:<cb> | unsub:<n>:<cb> | unsubo:<n>:<sid>
          | disp:<n>:<v> | get:<n>:<timeout or ->
          | rel:<i>        the suspension dispatch task i is waiting on is released (the task becomes ready)
          | settle         the ready tasks run in FIFO order (asyncio's ready queue) until none is ready
          | adv:<t>        the clock reaches t
  The harness replays the schedule it chose on the implementation; `C13.doOp` turns it into the event
  list of the machine and rejects a `rel` of a task that is not suspended.
  LOG entry  : <task>.<cb>.<value>            (`-` when empty)
  snapshot   : <op>/<now>/<d0>,<d1>,<d2>/<per dispatch: d | s<cb> | c>,…/<per waiter: n | w<deadline or -> | r<v>@<t> | x@<t>>,…
  wmeta      : <started 0|1>:<t0>:<had 0|1>:<final waiter state>
-/
namespace PlumVerif.C13

def parseScripts (str : String) : Option (Nat → Script) :=
  match str.toList with
  | 'S' :: r =>
    let body := String.ofList r
    if body = "-" then some (fun _ => ⟨0, .keep⟩) else do
      let items ← (body.splitOn ",").mapM fun it =>
        match it.splitOn ":" with
        | [c, su, rt] => do
          let c ← c.toNat?; let su ← su.toNat?
          let rt ← match rt.toList with
            | ['k'] => some Ret.keep
            | 'a' :: x => (String.ofList x).toNat?.map Ret.add
            | _ => none
          pure (c, (⟨su, rt⟩ : Script))
        | _ => none
      pure fun c => ((items.find? (·.1 == c)).map (·.2)).getD ⟨0, .keep⟩
  | _ => none

def parseOptNat (x : String) : Option (Option Nat) :=
  if x = "-" then some none else x.toNat?.map some

def parseOp (op : String) : Option Op :=
  match op.splitOn ":" with
  | ["sub", n, c] => do pure (.sub (← n.toNat?) (← c.toNat?))
  | ["once", n, c] => do pure (.once (← n.toNat?) (← c.toNat?))
  | ["unsub", n, c] => do pure (.unsub (← n.toNat?) (← c.toNat?))
  | ["unsubo", n, x] => do pure (.unsubo (← n.toNat?) (← x.toNat?))
  | ["disp", n, v] => do pure (.disp (← n.toNat?) (← v.toNat?))
  | ["get", n, t] => do pure (.get (← n.toNat?) (← parseOptNat t))
  | ["rel", i] => do pure (.rel (← i.toNat?))
  | ["settle"] => some .settle
  | ["adv", t] => do pure (.adv (← t.toNat?))
  | _ => none

def showOpt (o : Option Nat) : String := match o with | some v => toString v | none => "-"

def showW : WSt → String
  | .notYet => "n"
  | .waiting dl => s!"w{showOpt dl}"
  | .returned v a => s!"r{v}@{a}"
  | .timedOut a => s!"x@{a}"

def joinOr (l : List String) : String := if l.isEmpty then "-" else String.intercalate "," l

def showSnap (sn : Snap) : String :=
  let ds := (sn.done.zip sn.susp).map fun (dn, su) =>
    if dn then "d" else match su with | some cb => s!"s{cb}" | none => "c"
  s!"{sn.op}/{sn.now}/{joinOr (sn.data.map showOpt)}/{joinOr ds}/{joinOr (sn.ws.map showW)}"

def showMeta (m : WMeta) : String :=
  s!"{if m.started then 1 else 0}:{m.t0}:{if m.had then 1 else 0}:{showW m.fin}"

def showLog (l : List LogO) : String := joinOr (l.map fun e => s!"{e.task}.{e.cb}.{e.val}")

def parseW (s : String) : Option WSt :=
  match s.toList with
  | ['n'] => some .notYet
  | 'w' :: r => (parseOptNat (String.ofList r)).map .waiting
  | 'r' :: r =>
    match (String.ofList r).splitOn "@" with
    | [v, a] => do pure (.returned (← v.toNat?) (← a.toNat?))
    | _ => none
  | 'x' :: '@' :: r => (String.ofList r).toNat?.map .timedOut
  | _ => none

def splitList (s : String) : List String := if s = "-" then [] else s.splitOn ","

def parseSnap (s : String) : Option Snap :=
  match s.splitOn "/" with
  | [k, now, d, t, w] => do
    let data ← (splitList d).mapM parseOptNat
    let ts := splitList t
    let done := ts.map (· == "d")
    let susp := ts.map fun x => match x.toList with | 's' :: r => (String.ofList r).toNat? | _ => none
    let ws ← (splitList w).mapM parseW
    pure ⟨← k.toNat?, ← now.toNat?, data, done, susp, ws⟩
  | _ => none

def parseMeta (s : String) : Option WMeta :=
  match s.splitOn ":" with
  | [st, t0, had, fin] => do pure ⟨st == "1", ← t0.toNat?, had == "1", ← parseW fin⟩
  | _ => none

def parseLogO (s : String) : Option LogO :=
  match s.splitOn "." with
  | [t, c, v] => do pure ⟨← t.toNat?, ← c.toNat?, ← v.toNat?⟩
  | _ => none

/-- the clauses of `spec` that fail (for the harness's report) -/
def failing (sc : Nat → Script) (ops : List Op) (o : Obs) : List String :=
  (if threading sc ops o then [] else ["threading"]) ++ (if order ops o then [] else ["order"]) ++
  (if onceOnly ops o then [] else ["once"]) ++ (if stored sc ops o then [] else ["stored"]) ++
  (if getters sc ops o then [] else ["getters"]) ++
  (if onceDue ops o then [] else ["once-due"]) ++ (if orderT ops o then [] else ["order-at-first-run"]) ++
  (if gettersT sc ops o then [] else ["getter-at-return-time"])

def eventOps : List String → Option String
  | "c13" :: scr :: ops => do
    let sc ← parseScripts scr
    let ops ← ops.mapM parseOp
    let dv := runOps sc ops
    let verdict := match dv.bad with
      | some k => s!"reject@{k}"
      | none => if dv.ready.isEmpty then "ok" else "reject@end"
    let o := obsOf dv.s dv.snaps
    pure s!"{verdict} LOG {showLog o.log} SNAPS {String.intercalate ";" (o.snaps.map showSnap)} W {joinOr (o.wmeta.map showMeta)}"
  | "c13judge" :: scr :: rest => do
    let sc ← parseScripts scr
    let ops ← (rest.takeWhile (· ≠ "|")).mapM parseOp
    match (rest.dropWhile (· ≠ "|")) with
    | ["|", lg, "|", sn, "|", wm] =>
      let log ← (splitList lg).mapM parseLogO
      let snaps ← (if sn = "-" then some [] else (sn.splitOn ";").mapM parseSnap)
      let wmeta ← (splitList wm).mapM parseMeta
      let o : Obs := ⟨log, snaps, wmeta⟩
      pure (if specT sc ops o then "pass" else "fail:" ++ String.intercalate "+" (failing sc ops o))
    | _ => none
  | "c13self" :: scr :: ops => do
    -- the tightened judge applied to the machine's OWN observation of this history
    let sc ← parseScripts scr
    let ops ← ops.mapM parseOp
    let o := observe sc ops
    pure (if specT sc ops o then "pass" else "fail:" ++ String.intercalate "+" (failing sc ops o))
  | _ => none

end PlumVerif.C13

import PlumVerif.Model.Events
/-
Line-protocol front end for the event-dispatch machine (C13).

  c13 <scripts> <op>*   ->  ok|reject@<k> LOG <entries> SNAPS <snapshot>;<snapshot>;…

  scripts : S<cb>:<susp>:<k|a<c>>,…   (callback function scripts; `S-` for none; unlisted = 0 suspensions, returns None)
  op      : sub:<n>:<cb> | once:<n>:<cb> | unsub:<n>:<cb> | unsubo:<n>:<sid>
          | disp:<n>:<v> | get:<n>:<timeout or ->
          | rel:<i>        the suspension dispatch task i is waiting on is released (the task becomes ready)
          | settle         the ready tasks run in FIFO order (asyncio's ready queue) until none is ready
          | adv:<t>        the clock reaches t
  The harness replays the schedule it chose on the implementation; the driver turns it into the event
  list of the machine (`stepD i` / `stepW j` in ready-queue order; tasks woken by a store are queued
  behind what is already ready) and rejects a `rel` of a task that is not suspended.
  LOG entry  : <task>.<cb>.<sid>.<value>
  snapshot   : after every `settle` and `adv`: D<n>=<v|->… T<i>=<c|s<cb>|d<final>>… W<j>=<c|w|k|r<v>@<t>|x@<t>>… @<now>
-/
namespace PlumVerif.C13

inductive Ready where
  | d (i : Nat)
  | w (j : Nat)
  deriving DecidableEq, Repr

structure Drv where
  s : St
  ready : List Ready
  snaps : List String
  bad : Option Nat        -- index of the first op the machine does not accept

def parseScripts (str : String) : Option (Nat → Script) :=
  match str.toList with
  | 'S' :: r =>
    let body := String.ofList r
    if body = "-" then some (fun _ => ⟨0, .keep⟩) else do
      let items ← (body.splitOn ",").mapM fun it =>
        match it.splitOn ":" with
        | [c, su, rt] => do
          let c ← c.toNat?; let su ← su.toNat?
          let rt ← match rt.toList with
            | ['k'] => some Ret.keep
            | 'a' :: x => (String.ofList x).toNat?.map Ret.add
            | _ => none
          pure (c, (⟨su, rt⟩ : Script))
        | _ => none
      pure fun c => ((items.find? (·.1 == c)).map (·.2)).getD ⟨0, .keep⟩
  | _ => none

def showOpt (o : Option Nat) : String := match o with | some v => toString v | none => "-"

def showD (t : DTask) : String :=
  match t.ph with
  | .absent => "?"
  | .created => "c"
  | .running => "?"
  | .inCb _ u _ _ => s!"s{u.cb}"
  | .done f => s!"d{f}"

def showW (t : WTask) : String :=
  match t.ph with
  | .absent => "?"
  | .created => "c"
  | .waiting _ => "w"
  | .woken => "k"
  | .returned v a => s!"r{v}@{a}"
  | .timedOut a => s!"x@{a}"

def snapshot (s : St) : String :=
  String.intercalate " " (
    ((List.range 3).map fun n => s!"D{n}={showOpt (s.data n)}") ++
    ((List.range s.nd).map fun i => s!"T{i}={showD (s.d i)}") ++
    ((List.range s.nw).map fun j => s!"W{j}={showW (s.w j)}") ++ [s!"@{s.now}"])

def isWaiting (t : WTask) : Bool := match t.ph with | .waiting _ => true | _ => false
def isWoken (t : WTask) : Bool := match t.ph with | .woken => true | _ => false

/-- run the ready queue (fuel bounds the loop; every step either finishes a task, consumes a
suspension, or starts a task, so `fuel` = a generous bound chosen by the caller) -/
def settle (sc : Nat → Script) : Nat → St → List Ready → St
  | 0, s, _ => s
  | _, s, [] => s
  | fuel + 1, s, .d i :: rest =>
    let s' := step sc s (.stepD i)
    let newly := (List.range s.nw).filter fun j => isWaiting (s.w j) && isWoken (s'.w j)
    settle sc fuel s' (rest ++ newly.map Ready.w)
  | fuel + 1, s, .w j :: rest => settle sc fuel (step sc s (.stepW j)) rest

def parseOptNat (x : String) : Option (Option Nat) :=
  if x = "-" then some none else x.toNat?.map some

def doOp (sc : Nat → Script) (k : Nat) (dv : Drv) (op : String) : Option Drv :=
  match op.splitOn ":" with
  | ["sub", n, c] => do pure { dv with s := step sc dv.s (.subscribe (← n.toNat?) (← c.toNat?)) }
  | ["once", n, c] => do pure { dv with s := step sc dv.s (.subscribeOnce (← n.toNat?) (← c.toNat?)) }
  | ["unsub", n, c] => do pure { dv with s := step sc dv.s (.unsubCb (← n.toNat?) (← c.toNat?)) }
  | ["unsubo", n, x] => do pure { dv with s := step sc dv.s (.unsubOnce (← n.toNat?) (← x.toNat?)) }
  | ["disp", n, v] => do
    pure { dv with ready := dv.ready ++ [.d dv.s.nd], s := step sc dv.s (.spawnDispatch (← n.toNat?) (← v.toNat?)) }
  | ["get", n, t] => do
    pure { dv with ready := dv.ready ++ [.w dv.s.nw], s := step sc dv.s (.spawnWait (← n.toNat?) (← parseOptNat t)) }
  | ["rel", i] => do
    let i ← i.toNat?
    let ok := (match (dv.s.d i).ph with | .inCb .. => true | _ => false) && !dv.ready.contains (.d i)
    pure { dv with ready := dv.ready ++ [.d i], bad := if ok then dv.bad else dv.bad.or (some k) }
  | ["settle"] =>
    let s' := settle sc 10000 dv.s dv.ready
    pure { dv with s := s', ready := [], snaps := dv.snaps ++ [snapshot s'] }
  | ["adv", t] => do
    let t ← t.toNat?
    let s' := step sc dv.s (.advance t)
    pure { dv with s := s', snaps := dv.snaps ++ [snapshot s'],
                   bad := if dv.ready.isEmpty then dv.bad else dv.bad.or (some k) }
  | _ => none

def runOps (sc : Nat → Script) : Nat → Drv → List String → Option Drv
  | _, dv, [] => some dv
  | k, dv, op :: ops => do runOps sc (k + 1) (← doOp sc k dv op) ops

def showLog (l : List LogE) : String :=
  if l.isEmpty then "-" else String.intercalate "," (l.map fun e => s!"{e.task}.{e.sub.cb}.{e.sub.sid}.{e.val}")

def eventOps : List String → Option String
  | "c13" :: scr :: ops => do
    let sc ← parseScripts scr
    let dv ← runOps sc 0 ⟨init, [], [], none⟩ ops
    let verdict := match dv.bad with
      | some k => s!"reject@{k}"
      | none => if dv.ready.isEmpty then "ok" else "reject@end"
    pure s!"{verdict} LOG {showLog dv.s.log} SNAPS {String.intercalate ";" dv.snaps}"
  | _ => none

end PlumVerif.C13

import PlumVerif.Model.FrameObjectKinds
import PlumVerif.Model.ObjectDriver
/-
line-protocol front end: a frame of ANY of the 33 kinds (selected by FrameType name through the
generated table `Gen.frameKinds`) constructed from a message and / or a data dict, then
`.message`, `.bytes`, `len()`.

  kind <a.b.c> <FrameType name> <rc> <sd> <et> <ev> <message hex|-|_> <data dict|_>
      → m:<hex>|E:<err>  b:<hex>|E:<err>  l:<n>|E:<err>
  kindrow <FrameType name>  → <code> <module> <class> <hasCreate 0/1> <hasDecode 0/1> <builder|->
-/
namespace PlumVerif.Req
open PlumVerif Obj

def showBuilder : Option Builder → String
  | some .range => "range"
  | some .alerts => "alerts"
  | some .setEcomax => "setecomax"
  | some .setMixer => "setmixer"
  | some .setThermostat => "setthermostat"
  | some .control => "control"
  | some .schedule => "schedule"
  | none => "-"

def kindOps : List String → Option String
  | ["kind", sw, name, rc, sd, et, ev, msg, data] => do
    let sw ← match sw.splitOn "." with
      | [a, b, c] => do pure ((← a.toNat?), (← b.toNat?), (← c.toNat?))
      | _ => none
    let k ← kindNamed name
    let rc ← rc.toInt?; let sd ← sd.toInt?; let et ← et.toInt?; let ev ← ev.toInt?
    let msg ← if msg = "_" then some none else (parseHex msg).map some
    let data ← if data = "_" then some none else (parseDict data).map some
    let outs := (runH (codecOfKind sw k) (construct k.code rc sd et ev msg data)
      [.op .getMessage, .op .bytes, .op .len]).2
    pure (String.intercalate " " (outs.map showObjOut))
  | ["kindrow", name] => do
    let k ← kindNamed name
    pure s!"{k.code} {k.module} {k.cls} {if k.hasCreate then 1 else 0} {if k.hasDecode then 1 else 0} {showBuilder (builderOf k.name)}"
  | _ => none

end PlumVerif.Req

/-
C10 — interleaving machine for `AsyncProtocol.get_device_entry` (protocol.py) and its
callers, after fix 9a3d4ee (asyncio.Lock around check – create – publish).

Callers are numbered by `Nat`; `kind j` says whether caller `j` is
  * `entry`: a frame consumer that took a frame from the address off the read queue and runs
        device = await self.get_device_entry(frame.sender); device.handle_frame(frame)
    (one caller per frame; a consumer task that handles several frames one after the other
    is several callers that never overlap — the machine allows every overlap, so it
    over-approximates every number of consumer tasks), or
  * `get`: a user's `await protocol.get("ecomax")` (EventManager.get).

`step lk kind s i` = "caller i makes its next move if it is enabled, otherwise nothing
happens"; an interleaving (schedule) is a list of caller numbers.  `lk = true` is the code
as it is now, `lk = false` the same code without the lock (kept to show that the model can
tell the difference).

Device objects are numbered in creation order (0, 1, …).
-/
namespace PlumVerif.Entry

inductive Kind
  | entry
  | get
deriving Repr, DecidableEq

/-- program counter of one caller -/
inductive PC
  | start                -- entry: about to `async with lock` (frame still queued, or suspended in acquire);
                         -- get: not called yet
  | creating             -- entry: inside the lock, saw no entry, awaiting the thread-pool class loading
  | publishing (d : Nat) -- entry: device d built, set-up task started, awaiting `dispatch(name, d)`
  | done (d : Nat)       -- entry: got d back from get_device_entry and handed its frame to d
  | gwait                -- get: no entry yet, suspended on the event
  | got (d : Nat)        -- get: returned d
deriving Repr, DecidableEq

structure St where
  pc : Nat → PC
  lock : Option Nat            -- holder of `_entry_lock`
  published : Option Nat       -- `self.data[name]`
  created : Nat                -- device objects created so far
  setups : Nat                 -- `device_setup_task`s started so far
  dispatched : List Nat        -- every value dispatched for the name (most recent first)
  handled : List (Nat × Nat)   -- (caller = frame, device that handled it), most recent first

def upd (f : Nat → PC) (i : Nat) (v : PC) : Nat → PC := fun j => if j = i then v else f j

def init : St :=
  { pc := fun _ => .start, lock := none, published := none, created := 0, setups := 0,
    dispatched := [], handled := [] }

/-- caller `i` returns from `get_device_entry` with the current entry and handles its frame -/
def finish (s : St) (i d : Nat) : St :=
  { s with pc := upd s.pc i (.done d), handled := (i, d) :: s.handled }

def step (lk : Bool) (kind : Nat → Kind) (s : St) (i : Nat) : St :=
  match s.pc i with
  | .start =>
    match kind i with
    | .entry =>
      if lk ∧ s.lock.isSome then s                       -- blocked on the lock
      else
        match s.published with
        | some d => finish s i d                         -- (acquire,) see the entry, (release,) handle
        | none =>                                        -- (acquire,) no entry: start class loading
          { s with pc := upd s.pc i .creating, lock := if lk then some i else s.lock }
    | .get =>
      match s.published with
      | some d => { s with pc := upd s.pc i (.got d) }   -- value present: returns at once
      | none => { s with pc := upd s.pc i .gwait }
  | .creating =>
    -- the harness released the import: build the device, `dispatch_nowait(connected)`,
    -- start the set-up task, enter `await self.dispatch(name, device)`
    { s with pc := upd s.pc i (.publishing s.created), created := s.created + 1, setups := s.setups + 1 }
  | .publishing d =>
    -- callbacks done: `self.data[name] = d`, wake waiters, release the lock,
    -- `return self.data[name]`, `handle_frame`
    { s with pc := upd s.pc i (.done d), published := some d, dispatched := d :: s.dispatched,
             lock := if lk then none else s.lock, handled := (i, d) :: s.handled }
  | .done _ => s
  | .gwait =>
    match s.published with
    | some d => { s with pc := upd s.pc i (.got d) }     -- woken: `return self.data[name]`
    | none => s
  | .got _ => s

def run (lk : Bool) (kind : Nat → Kind) (s : St) : List Nat → St
  | [] => s
  | i :: is => run lk kind (step lk kind s i) is

/-! ### replay of a harness schedule (external events, each followed by quiescence) -/

/-- external events of the harness: `feed m` = m more frames from the address arrive,
`release` = the oldest pending device-class import completes, `get` = a user calls get() -/
inductive Ev
  | feed (m : Nat)
  | release
  | get
deriving Repr, DecidableEq

/-- in the replay entry callers are the even numbers (frame f = caller 2f), get callers the odd ones -/
def parity (j : Nat) : Kind := if j % 2 = 0 then .entry else .get

structure Replay where
  st : St
  frames : Nat        -- frames fed so far
  gets : Nat          -- get() calls so far
  sched : List Nat    -- micro-schedule executed so far (most recent first)

def callers (r : Replay) : List Nat :=
  (List.range r.frames).map (2 * ·) ++ (List.range r.gets).map (2 * · + 1)

def isCreating : PC → Bool
  | .creating => true
  | _ => false

/-- one pass of the event loop: every caller that is not waiting for the environment moves -/
def pass (lk : Bool) (r : Replay) : Replay :=
  (callers r).foldl (fun r j =>
    if isCreating (r.st.pc j) then r
    else { r with st := step lk parity r.st j, sched := j :: r.sched }) r

/-- run to quiescence (three passes are enough; further passes would only stutter) -/
def settle (lk : Bool) (r : Replay) : Replay := pass lk (pass lk (pass lk r))

def applyEv (lk : Bool) (r : Replay) : Ev → Option Replay
  | .feed m => some (settle lk { r with frames := r.frames + m })
  | .get => some (settle lk { r with gets := r.gets + 1 })
  | .release =>
    match (callers r).find? (fun j => isCreating (r.st.pc j)) with
    | some j => some (settle lk { r with st := step lk parity r.st j, sched := j :: r.sched })
    | none => none        -- nothing to release: the schedule is not accepted

/-- what the harness can see of a state -/
structure Snap where
  held : Nat                    -- device-class imports pending
  created : Nat
  setups : Nat
  published : Option Nat
  dispatched : List Nat         -- oldest first
  handled : List (Nat × Nat)    -- (frame index, device), oldest first
  gets : List (Option Nat)      -- per get() call: none = still waiting
deriving Repr, DecidableEq

def getRes : PC → Option Nat
  | .got d => some d
  | _ => none

def observe (r : Replay) : Snap :=
  { held := ((callers r).filter fun j => isCreating (r.st.pc j)).length
    created := r.st.created
    setups := r.st.setups
    published := r.st.published
    dispatched := r.st.dispatched.reverse
    handled := (r.st.handled.reverse.map fun p => (p.1 / 2, p.2))
    gets := (List.range r.gets).map fun g => getRes (r.st.pc (2 * g + 1)) }

def replay0 : Replay := { st := init, frames := 0, gets := 0, sched := [] }

/-- snapshots after each event; `none` marks the first event the machine does not accept -/
def replay (lk : Bool) : Replay → List Ev → List (Option Snap)
  | _, [] => []
  | r, e :: es =>
    match applyEv lk r e with
    | some r' => some (observe r') :: replay lk r' es
    | none => [none]

end PlumVerif.Entry

/-
C10 — interleaving machine for `AsyncProtocol.get_device_entry` (protocol.py) and its
callers, after fix 9a3d4ee (ONE asyncio.Lock around check – create – publish, for all
addresses).

Callers are numbered by `Nat`; `who j` describes caller `j`:
  * `entry` at address `a`: a frame consumer that took a frame from address `a` off the read
    queue and runs
        device = await self.get_device_entry(frame.sender); device.handle_frame(frame)
    (one caller per frame; a consumer task that handles several frames one after the other
    is several callers that never overlap — the machine allows every overlap, so it
    over-approximates every number of consumer tasks), or
  * `get` at address `a`: a user's `await protocol.get(<name of a>)` (EventManager.get).

Any number of addresses share the one lock and the one counter of created objects; each has
its own entry `self.data[name]`.  `creatable a = false` models an address for which
`PhysicalDevice.create` raises (no device class: ECONET, ALL): the lock is released by
`async with`, the frame is dropped (contained by the consumer, C09), nothing is published.

`step lk who creatable s i` = "caller i makes its next move if it is enabled, otherwise
nothing happens"; an interleaving (schedule) is a list of caller numbers.  `lk = true` is the
code as it is now, `lk = false` the same code without the lock (kept to show that the model
can tell the difference).

Device objects are numbered in creation order (0, 1, …), across addresses.
-/
namespace PlumVerif.Entry

inductive Kind
  | entry
  | get
deriving Repr, DecidableEq

structure Caller where
  kind : Kind
  addr : Nat
deriving Repr, DecidableEq

/-- program counter of one caller -/
inductive PC
  | start                -- entry: about to `async with lock` (frame still queued, or suspended in acquire);
                         -- get: not called yet
  | creating             -- entry: inside the lock, saw no entry, awaiting the thread-pool class loading
  | publishing (d : Nat) -- entry: device d built, set-up task started, awaiting `dispatch(name, d)`
  | done (d : Nat)       -- entry: got d back from get_device_entry and handed its frame to d
  | failed               -- entry: `PhysicalDevice.create` raised; the frame is dropped
  | gwait                -- get: no entry yet, suspended on the event
  | got (d : Nat)        -- get: returned d
deriving Repr, DecidableEq

structure St where
  pc : Nat → PC
  lock : Option Nat               -- holder of `_entry_lock`
  published : Nat → Option Nat    -- per address: `self.data[name]`
  created : Nat                   -- device objects created so far (all addresses)
  createdFor : Nat → Nat          -- … per address
  setups : Nat                    -- `device_setup_task`s started so far (all addresses)
  setupsFor : Nat → Nat           -- `device_setup_task`s started, per address
  dispatched : List (Nat × Nat)   -- every (address, value) dispatched for an address name, most recent first
  handled : List (Nat × Nat)      -- (caller = frame, device that handled it), most recent first

def upd {α : Type} (f : Nat → α) (i : Nat) (v : α) : Nat → α := fun j => if j = i then v else f j

def init : St :=
  { pc := fun _ => .start, lock := none, published := fun _ => none, created := 0, createdFor := fun _ => 0, setups := 0,
    setupsFor := fun _ => 0, dispatched := [], handled := [] }

/-- caller `i` returns from `get_device_entry` with the current entry and handles its frame -/
def finish (s : St) (i d : Nat) : St :=
  { s with pc := upd s.pc i (.done d), handled := (i, d) :: s.handled }

def step (lk : Bool) (who : Nat → Caller) (creatable : Nat → Bool) (s : St) (i : Nat) : St :=
  let a := (who i).addr
  match s.pc i with
  | .start =>
    match (who i).kind with
    | .entry =>
      if lk ∧ s.lock.isSome then s                       -- blocked on the lock
      else
        match s.published a with
        | some d => finish s i d                         -- (acquire,) see the entry, (release,) handle
        | none =>                                        -- (acquire,) no entry: start class loading
          { s with pc := upd s.pc i .creating, lock := if lk then some i else s.lock }
    | .get =>
      match s.published a with
      | some d => { s with pc := upd s.pc i (.got d) }   -- value present: returns at once
      | none => { s with pc := upd s.pc i .gwait }
  | .creating =>
    if creatable a then
      -- the harness released the import: build the device, `dispatch_nowait(connected)`,
      -- start the set-up task, enter `await self.dispatch(name, device)`
      { s with pc := upd s.pc i (.publishing s.created), created := s.created + 1, setups := s.setups + 1,
               createdFor := upd s.createdFor a (s.createdFor a + 1),
               setupsFor := upd s.setupsFor a (s.setupsFor a + 1) }
    else
      -- the import raised: `async with` releases the lock, the exception reaches the consumer
      { s with pc := upd s.pc i .failed, lock := if lk then none else s.lock }
  | .publishing d =>
    -- callbacks done: `self.data[name] = d`, wake waiters, release the lock,
    -- `return self.data[name]`, `handle_frame`
    { s with pc := upd s.pc i (.done d), published := upd s.published a (some d),
             dispatched := (a, d) :: s.dispatched,
             lock := if lk then none else s.lock, handled := (i, d) :: s.handled }
  | .done _ => s
  | .failed => s
  | .gwait =>
    match s.published a with
    | some d => { s with pc := upd s.pc i (.got d) }     -- woken: `return self.data[name]`
    | none => s
  | .got _ => s

def run (lk : Bool) (who : Nat → Caller) (creatable : Nat → Bool) (s : St) : List Nat → St
  | [] => s
  | i :: is => run lk who creatable (step lk who creatable s i) is

/-! ### every public way to obtain the device

`protocol.data[name]`, `protocol.get_nowait(name)` and the attribute `protocol.<name>` read the entry at the moment of the
call; a callback subscribed to the name (`subscribe`, `subscribe_once`) is called with every announced object;
`await protocol.get(name)` — and `await protocol.wait_for(name)` followed by one of the reads — return to the caller; a
frame consumer returns from `get_device_entry` with the object it then hands its frame to. -/

inductive Route
  | data                -- protocol.data[name]
  | getNowait           -- protocol.get_nowait(name)
  | attr                -- protocol.<name>
  | subscribed          -- a callback subscribed to the name was called with the object
  | returned (j : Nat)  -- caller j (user get() / wait_for() + read, or frame consumer) returned with the object
deriving Repr, DecidableEq

/-- through route `ρ` the client sees object `d` as the device of address `a`, in state `s` -/
def sees (who : Nat → Caller) (s : St) (a : Nat) : Route → Nat → Bool
  | .data, d => s.published a == some d
  | .getNowait, d => s.published a == some d
  | .attr, d => s.published a == some d
  | .subscribed, d => s.dispatched.contains (a, d)
  | .returned j, d => (who j).addr == a && (s.pc j == .done d || s.pc j == .got d)

/-! ### reconnects

The link may drop and come back (`connection_lost` → `connection_established`, as
`Connection._reconnect` does) at any moment of the timeline, also while a class loading is in
flight.  In the code as it is the lock, the device map and the in-flight loads SURVIVE a
reconnect (consumers are topped up, a new producer is started, the devices are told
`connected`; nothing else changes): the event does not touch the machine's state.
`reset = true` is a variant in which every connection starts with a fresh lock object (the
holder of the old one goes on, the new one is free) — kept to show the model tells the
difference. -/

inductive Mv
  | move (i : Nat)     -- caller i makes its next move
  | reconnect          -- connection lost and re-established
deriving Repr, DecidableEq

def stepMv (lk reset : Bool) (who : Nat → Caller) (creatable : Nat → Bool) (s : St) : Mv → St
  | .move i => step lk who creatable s i
  | .reconnect => if reset then { s with lock := none } else s

def runMv (lk reset : Bool) (who : Nat → Caller) (creatable : Nat → Bool) (s : St) : List Mv → St
  | [] => s
  | m :: ms => runMv lk reset who creatable (stepMv lk reset who creatable s m) ms

/-- what a reconnect could do to the state the entry machine depends on.  The code's effect is
`⟨false, false⟩` (the lock object is created once in `__init__`, `self.data` is never cleared,
tasks inside `get_device_entry` are not cancelled): that this is so is established by the
CORRESPONDENCE runs (a reconnect at every position of the timeline on a real AsyncProtocol), not by
a theorem; the variants show that the model depends on each field. -/
structure Recon where
  freshLock : Bool       -- every connection starts with a new lock object
  clearEntries : Bool    -- the device map is emptied when the connection is lost
deriving Repr, DecidableEq

def reconEffect (e : Recon) (s : St) : St :=
  { s with lock := if e.freshLock then none else s.lock,
           published := if e.clearEntries then (fun _ => none) else s.published }

def stepMvWith (e : Recon) (who : Nat → Caller) (creatable : Nat → Bool) (s : St) : Mv → St
  | .move i => step true who creatable s i
  | .reconnect => reconEffect e s

def runMvWith (e : Recon) (who : Nat → Caller) (creatable : Nat → Bool) (s : St) : List Mv → St
  | [] => s
  | m :: ms => runMvWith e who creatable (stepMvWith e who creatable s m) ms

/-! ### replay of a harness schedule (external events, each followed by quiescence) -/

/-- external events of the harness: `feed a m` = m more frames from address `a` arrive,
`release` = the oldest pending device-class import completes (or raises, for an address
without a device class), `get a` = a user calls get() for the name of address `a` -/
inductive Ev
  | feed (a m : Nat)
  | release
  | get (a : Nat)
  | reconnect          -- the connection is lost and re-established at once (frames arrive on the new one from then on)
  | timedOut (a : Nat) -- a user get() for address `a` with a timeout that expires before there is an entry:
                       -- it raises and leaves no trace (the callers that are still waiting keep waiting)
deriving Repr, DecidableEq

/-- addresses of the frames / of the get() calls an event list brings, in order -/
def frameAddrs : List Ev → List Nat
  | [] => []
  | .feed a m :: es => List.replicate m a ++ frameAddrs es
  | _ :: es => frameAddrs es

def getAddrs : List Ev → List Nat
  | [] => []
  | .get a :: es => a :: getAddrs es
  | _ :: es => getAddrs es

/-- in the replay frame f is caller 2f (an entry caller), get() call g is caller 2g+1 -/
def whoPar (fa ga : List Nat) (j : Nat) : Caller :=
  if j % 2 = 0 then ⟨.entry, fa.getD (j / 2) 0⟩ else ⟨.get, ga.getD (j / 2) 0⟩

structure Replay where
  st : St
  frames : Nat        -- frames fed so far
  gets : Nat          -- get() calls so far
  sched : List Nat    -- micro-schedule executed so far (most recent first)

def callers (r : Replay) : List Nat :=
  (List.range r.frames).map (2 * ·) ++ (List.range r.gets).map (2 * · + 1)

def isCreating : PC → Bool
  | .creating => true
  | _ => false

/-- one pass of the event loop: every caller that is not waiting for the environment moves -/
def pass (lk : Bool) (who : Nat → Caller) (cr : Nat → Bool) (r : Replay) : Replay :=
  (callers r).foldl (fun r j =>
    if isCreating (r.st.pc j) then r
    else { r with st := step lk who cr r.st j, sched := j :: r.sched }) r

/-- nothing but a release can change anything: no caller other than a creating one can move -/
def quiet (lk : Bool) (who : Nat → Caller) (cr : Nat → Bool) (r : Replay) : Bool :=
  (callers r).all fun j =>
    isCreating (r.st.pc j) || decide ((step lk who cr r.st j).pc j = r.st.pc j)

/-- run to quiescence: passes until a pass finds nothing to do (`fuel` bounds them; two passes
are enough after a release, one after new callers; the replay rejects a schedule on which
the bound is hit) -/
def settle (lk : Bool) (who : Nat → Caller) (cr : Nat → Bool) : Nat → Replay → Option Replay
  | 0, r => if quiet lk who cr r then some r else none
  | fuel + 1, r => if quiet lk who cr r then some r else settle lk who cr fuel (pass lk who cr r)

def settleFuel : Nat := 4

def applyEv (lk : Bool) (who : Nat → Caller) (cr : Nat → Bool) (r : Replay) : Ev → Option Replay
  | .feed _ m => settle lk who cr settleFuel { r with frames := r.frames + m }
  | .get _ => settle lk who cr settleFuel { r with gets := r.gets + 1 }
  | .release =>
    match (callers r).find? (fun j => isCreating (r.st.pc j)) with
    | some j => settle lk who cr settleFuel { r with st := step lk who cr r.st j, sched := j :: r.sched }
    | none => none        -- nothing to release: the schedule is not accepted
  | .reconnect => settle lk who cr settleFuel r   -- nothing changes (the event loop runs on)
  | .timedOut _ => settle lk who cr settleFuel r  -- nothing changes

def getRes : PC → Option Nat
  | .got d => some d
  | _ => none

/-- what the harness can see of a state -/
structure Snap where
  held : Nat                       -- device-class imports pending
  created : Nat                    -- device objects created
  setups : Nat                     -- set-up tasks started
  published : List (Nat × Nat)     -- (address, object): the announced pairs that are the current entry of their address
  dispatched : List (Nat × Nat)    -- (address, object) announced, oldest first
  handled : List (Nat × Nat)       -- (frame index, object), oldest first
  gets : List (Option Nat)         -- per get() call, in call order: none = still waiting
deriving Repr, DecidableEq

def observe (r : Replay) : Snap :=
  { held := ((callers r).filter fun j => isCreating (r.st.pc j)).length
    created := r.st.created
    setups := r.st.setups
    published := r.st.dispatched.reverse.filter fun p => r.st.published p.1 == some p.2
    dispatched := r.st.dispatched.reverse
    handled := r.st.handled.reverse.map fun p => (p.1 / 2, p.2)
    gets := (List.range r.gets).map fun g => getRes (r.st.pc (2 * g + 1)) }

def replay0 : Replay := { st := init, frames := 0, gets := 0, sched := [] }

def replayFrom (lk : Bool) (who : Nat → Caller) (cr : Nat → Bool) :
    Replay → List Ev → List (Option Snap)
  | _, [] => []
  | r, e :: es =>
    match applyEv lk who cr r e with
    | some r' => some (observe r') :: replayFrom lk who cr r' es
    | none => [none]

/-- snapshots after each event; `none` marks the first event the machine does not accept -/
def replay (lk : Bool) (cr : Nat → Bool) (evs : List Ev) : List (Option Snap) :=
  replayFrom lk (whoPar (frameAddrs evs) (getAddrs evs)) cr replay0 evs

end PlumVerif.Entry

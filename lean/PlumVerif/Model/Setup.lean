import PlumVerif.Generated.Consts
import PlumVerif.Generated.Pipeline
/-
C16 — executable model of device set-up (pyplumio/devices/__init__.py `PhysicalDevice.async_setup`,
`PhysicalDevice.request`; pyplumio/devices/ecomax.py `EcoMAX.async_setup`, SETUP_FRAME_TYPES) at
the granularity "one external event, then run the loop to quiescence".

    async def async_setup(self):                       # EcoMAX
        await self.wait_for(ATTR_SENSORS)
        results = await asyncio.gather(*(self.request(d.provides, d.frame_type) for d in self._setup_frames),
                                       return_exceptions=True)
        errors = [r.args[1] for r in results if isinstance(r, BaseException)]
        await asyncio.gather(self.dispatch(ATTR_FRAME_ERRORS, errors), self.dispatch(ATTR_LOADED, True))

    async def request(self, name, frame_type, retries=3, timeout=3.0):
        request = await Request.create(frame_type, recipient=self.address)
        while retries > 0:
            try:
                self.queue.put_nowait(request)
                return await self.get(name, timeout=timeout)      # returns at once if `name in self.data`
            except asyncio.TimeoutError:
                retries -= 1
        raise ValueError(f'could not request "{name}"', frame_type)

All requests start at the same instant (the sensor data), so their per-attempt deadlines coincide:
one global attempt counter suffices.  A kind `k` (position in SETUP_FRAME_TYPES) is *available*
(`provides` name in `device.data`) once its response was handled and — for the kinds whose
handler first awaits product information (`_handle_ecomax_parameters`; `Mixer._handle_mixer_parameters`
when the response lists at least one mixer) — the product response was handled too.
Time is an explicit `Nat` (ms) owned by the machine: `wait d` never reaches the pending
deadline, `timer` jumps to it.  Import-free apart from the generated constants.
-/
namespace PlumVerif.Setup

structure Cfg where
  n : Nat                 -- number of set-up requests
  R : Nat                 -- `retries` of `request`
  T : Nat                 -- `timeout` of `request`, ms
  product : Nat           -- position of the product request
  dep : Nat → Bool        -- the handler of this kind awaits product information

inductive Phase
  | waiting               -- `await self.wait_for(ATTR_SENSORS)`
  | running (i : Nat)     -- inside the gather, attempt `i` (1-based) of every unfinished request
  | loaded
deriving Repr, DecidableEq, Inhabited

structure St where
  phase : Phase
  now : Nat
  t0 : Nat                -- time the sensor data arrived
  arrived : Nat → Bool    -- the response of kind k has been handled
  tx : Nat → Nat          -- requests of kind k put on the write queue
  errors : List Nat       -- `frame_errors`, as positions in the set-up table
  loadedAt : Nat
  snap : Nat → Bool       -- `arrived` at the moment of loading (bookkeeping for the statements)
  versioned : Nat → Bool  -- `_frame_versions` has an entry for the request of kind k
  vtx : Nat → Nat         -- requests of kind k put on the write queue by the frame-versions handler

inductive Ev
  | sensors               -- first sensor-data message handled
  | answer (k : Nat)      -- response of kind k handled (`device.handle_frame(response)`)
  | wait (d : Nat)        -- the clock advances by d ms without reaching the pending deadline
  | timer                 -- the clock jumps to the pending deadline: every pending `get` times out
  | versions (ks : List Nat)  -- a frame-versions table naming the requests of the kinds `ks` is handled
                          --   (regulator data / sensor data; at any time, also before the sensor data)
deriving Repr, DecidableEq, Inhabited

inductive Out
  | tx (k t : Nat)                     -- request of kind k put on the write queue at t
  | loaded (t : Nat) (errors : List Nat)
  | vtx (k t : Nat)                    -- request of kind k put on the write queue by the frame-versions handler
deriving Repr, DecidableEq, Inhabited

/-- the `provides` name of kind k is in `device.data` -/
def availOf (c : Cfg) (arrived : Nat → Bool) (k : Nat) : Bool :=
  arrived k && (!c.dep k || arrived c.product)

def avail (c : Cfg) (s : St) (k : Nat) : Bool := availOf c s.arrived k

def kinds (c : Cfg) : List Nat := List.range c.n

def allAvail (c : Cfg) (s : St) : Bool := (kinds c).all (avail c s)

def missing (c : Cfg) (s : St) : List Nat := (kinds c).filter (fun k => !avail c s k)

/-- the gather has completed: `frame_errors` and `loaded` are dispatched -/
def finish (c : Cfg) (s : St) : St × List Out :=
  ({ s with phase := .loaded, loadedAt := s.now, errors := missing c s, snap := s.arrived },
   [.loaded s.now (missing c s)])

def init : St :=
  { phase := .waiting, now := 0, t0 := 0, arrived := fun _ => false, tx := fun _ => 0, errors := [],
    loadedAt := 0, snap := fun _ => false, versioned := fun _ => false, vtx := fun _ => 0 }

/-- kinds the frame-versions handler requests now: named, not yet versioned, and not listed as failed
(`supports_frame_type`).  It neither looks at nor touches the set-up requests. -/
def versionRequests (c : Cfg) (s : St) (ks : List Nat) : List Nat :=
  (kinds c).filter (fun k => ks.contains k && !s.versioned k && !(s.phase == .loaded && s.errors.contains k))

/-- the sensor data has arrived: every request is created and put on the queue once -/
def start (c : Cfg) (s : St) : St :=
  { s with phase := .running 1, t0 := s.now, tx := fun k => if k < c.n then 1 else s.tx k }

/-- the response of kind k has been handled -/
def markArrived (s : St) (k : Nat) : St :=
  { s with arrived := fun j => if j = k then true else s.arrived j }

/-- attempt `i` has timed out for every unfinished request: each is put on the queue again -/
def retry (c : Cfg) (s : St) (i : Nat) : St :=
  { s with now := s.t0 + i * c.T, phase := .running (i + 1),
           tx := fun k => if k < c.n ∧ avail c s k = false then s.tx k + 1 else s.tx k }

/-- the last attempt has timed out -/
def expire (c : Cfg) (s : St) (i : Nat) : St := { s with now := s.t0 + i * c.T }

def step (c : Cfg) (s : St) : Ev → St × List Out
  | .sensors =>
    match s.phase with
    | .waiting =>
      if c.R = 0 then            -- `while retries > 0` is never entered: every request raises at once
        ({ s with phase := .loaded, t0 := s.now, loadedAt := s.now, errors := kinds c, snap := s.arrived },
         [.loaded s.now (kinds c)])
      else if allAvail c (start c s) then
        ((finish c (start c s)).1, (kinds c).map (fun k => Out.tx k s.now) ++ (finish c (start c s)).2)
      else (start c s, (kinds c).map (fun k => Out.tx k s.now))
    | _ => (s, [])
  | .answer k =>
    match s.phase with
    | .running _ => if allAvail c (markArrived s k) then finish c (markArrived s k) else (markArrived s k, [])
    | _ => (markArrived s k, [])
  | .wait d =>
    match s.phase with
    | .running i => if s.t0 + i * c.T ≤ s.now + d then (s, []) else ({ s with now := s.now + d }, [])
    | _ => ({ s with now := s.now + d }, [])
  | .timer =>
    match s.phase with
    | .running i =>
      if i < c.R then (retry c s i, (missing c s).map (fun k => Out.tx k (s.t0 + i * c.T)))
      else finish c (expire c s i)
    | _ => (s, [])
  | .versions ks =>
    ({ s with versioned := fun k => s.versioned k || (versionRequests c s ks).contains k,
              vtx := fun k => s.vtx k + (if (versionRequests c s ks).contains k then 1 else 0) },
     (versionRequests c s ks).map (fun k => Out.vtx k s.now))

def run (c : Cfg) (s : St) : List Ev → St × List Out
  | [] => (s, [])
  | e :: es => let r := step c s e; let r' := run c r.1 es; (r'.1, r.2 ++ r'.2)

def runGroups (c : Cfg) (s : St) : List Ev → List (List Out)
  | [] => []
  | e :: es => let r := step c s e; r.2 :: runGroups c r.1 es

/-- position of a `provides` name in the generated set-up table -/
def indexOf (name : String) : List (Nat × String) → Nat → Nat
  | [], i => i
  | (_, p) :: r, i => if p = name then i else indexOf name r (i + 1)

/-- the handler class `cls` subscribes for the event `name` awaits product information (`await ….get("product")`):
read from the source of `__init__` and of the handler by the translator (`Gen.handlerWaitsProduct`) -/
def waitsProduct (cls name : String) : Bool :=
  Gen.handlerWaitsProduct.any fun r => r.1 == cls && r.2.1 == name && r.2.2.2 == 1

/-- the handler of the data a set-up request `provides` waits for product information: the ecoMAX's own handler does,
or — for the mixer parameters, which the ecoMAX forwards to one `Mixer` object per listed mixer — the mixers' handler
does and at least one mixer is listed -/
def depOf (mixers : Bool) (name : String) : Bool :=
  waitsProduct "EcoMAX" name || (mixers && name == "mixer_parameters" && waitsProduct "Mixer" name)

/-- the configuration of `EcoMAX.async_setup` as read from the source by the translator: the table the device class
really uses (`EcoMAX._setup_frames`), in its order; the defaults of `PhysicalDevice.request(retries, timeout)`
(`inspect.signature`); which handlers wait for product information (`Gen.handlerWaitsProduct`);
`mixers` = the mixer-parameters response lists at least one mixer -/
def ecomaxCfg (mixers : Bool) : Cfg :=
  let tbl := Gen.setupFramesOfDevice
  { n := tbl.length, R := Gen.requestRetries, T := Gen.requestTimeoutMs, product := indexOf "product" tbl 0,
    dep := fun k => k < tbl.length && depOf mixers (tbl.getD k (0, "")).2 }

/-- `PhysicalDevice.request` as the translator probed it (`Gen.requestProbe`): with `retries = r` and no answer the
request is transmitted this many times before it raises -/
def probedTransmissions (r : Nat) : Option Nat :=
  (Gen.requestProbe.find? fun p => p.1 == r).map (·.2.1)

end PlumVerif.Setup

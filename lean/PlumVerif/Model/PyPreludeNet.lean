import PlumVerif.Model.PyPreludeTypes
/-
Semantic prelude, third part: the primitives used by the network-information / program-version STRUCTURES translated by
`tools/py2lean_types.py` (pyplumio/structures/network_info.py, program_version.py).  TRUSTED together with PyPrelude /
PyPreludeTypes; validated against CPython by `harness/pycode_types.py` (group `net`).

* `struct.Struct(fmt)` with SEVERAL fields, unsigned numbers (`B`, `H`, with a repeat count) and byte strings (`<n>s`:
  packed truncated or NUL-padded to exactly n bytes, unpacked as the n bytes): `struct_pack_into_s`, `struct_unpack_from_s`.
* `s.split(sep, k)` for a one-character separator, `sep.join(list of str)`, `map(int, …)` / `map(str, …)` consumed on the
  spot.  `int(text)`: exact on non-empty ASCII digit strings; a text with an ASCII character that can be part of no integer
  literal (or the empty text) is a ValueError; anything else (signs, blanks, underscores, non-ASCII digits) is DECLINED
  (`unsupported`) — never a guess.  `str(i)` of an int is its decimal representation.
-/
namespace PlumVerif.PyT
open PlumVerif.Py

inductive SField
  | num (w : Nat)
  | str (n : Nat)
deriving Repr, DecidableEq

def sfmtAux : List Char → Nat → Option (List SField)
  | [], 0 => some []
  | [], _ => Option.none
  | c :: r, k =>
    if c.isDigit then sfmtAux r (k * 10 + (c.toNat - 48))
    else
      match sfmtAux r 0 with
      | Option.none => Option.none
      | some rest =>
        let rep := if k = 0 then 1 else k
        if c = 'B' then some (List.replicate rep (.num 1) ++ rest)
        else if c = 'H' then some (List.replicate rep (.num 2) ++ rest)
        else if c = 's' then some (.str rep :: rest)
        else Option.none

def sfmtFields (fmt : String) : Option (List SField) :=
  match fmt.toList with
  | '<' :: r => sfmtAux r 0
  | _ => Option.none

def SField.size : SField → Nat
  | .num w => w
  | .str n => n

def spackFields : List SField → List V → PyM (List UInt8)
  | [], [] => pure []
  | .num w :: fs, x :: xs =>
    match asInt? x with
    | some v =>
      if 0 ≤ v ∧ v < (256 ^ w : Nat) then do
        let rest ← spackFields fs xs
        pure (encodeLE v.toNat w ++ rest)
      else throw .StructError
    | Option.none => throw .StructError
  | .str n :: fs, x :: xs =>
    match x with
    | .bytes b => do
      let rest ← spackFields fs xs
      pure ((b ++ List.replicate n 0).take n ++ rest)
    | _ => throw .StructError
  | _, _ => throw .StructError

/-- `struct.Struct(fmt).pack_into(buffer, offset, *args)`: the buffer afterwards -/
def struct_pack_into_s (fmt : String) (buf off : V) (args : List V) : PyM V :=
  match sfmtFields fmt, buf, off with
  | some fs, .bytes b, .int o =>
    if o < 0 then throw .unsupported
    else do
      let packed ← spackFields fs args
      if o.toNat + packed.length ≤ b.length then
        pure (.bytes (b.take o.toNat ++ packed ++ b.drop (o.toNat + packed.length)))
      else throw .StructError
  | _, _, _ => throw .unsupported

def sunpackFields : List SField → List UInt8 → List V
  | [], _ => []
  | .num w :: fs, b => .int (decodeLE (b.take w)) :: sunpackFields fs (b.drop w)
  | .str n :: fs, b => .bytes (b.take n) :: sunpackFields fs (b.drop n)

/-- `struct.Struct(fmt).unpack_from(buffer)` (offset 0): the tuple of the fields; a buffer shorter than the format: struct.error -/
def struct_unpack_from_s (fmt : String) (buf : V) : PyM V :=
  match sfmtFields fmt, buf with
  | some fs, .bytes b =>
    if b.length < (fs.map SField.size).sum then throw .StructError
    else pure (.tuple (sunpackFields fs b))
  | some _, _ => throw .TypeError
  | Option.none, _ => throw .unsupported

/-- the items of a tuple / list (star-arguments, tuple targets) -/
def items (v : V) : PyM (List V) := iter v

def unpack_list (n : Nat) (v : V) : PyM (List V) := unpackN n v

def nth (xs : List V) (i : Nat) : V := xs.getD i .none

def splitChars (sep : Char) : Nat → List Char → List Char → List (List Char)
  | _, [], cur => [cur.reverse]
  | 0, rest, cur => [cur.reverse ++ rest]
  | k + 1, c :: r, cur => if c = sep then cur.reverse :: splitChars sep k r [] else splitChars sep (k + 1) r (c :: cur)

/-- `s.split(sep, maxsplit)` for a one-character separator and `maxsplit ≥ 0` -/
def str_split (s sep k : V) : PyM V :=
  match s, sep, k with
  | .str s, .str sep, .int k =>
    match sep.toList with
    | [c] => if k < 0 then throw .unsupported else pure (.list ((splitChars c k.toNat s.toList []).map fun cs => .str (String.ofList cs)))
    | _ => throw .unsupported
  | _, _, _ => throw .unsupported

def intLiteralChar (c : Char) : Bool := c.isDigit || c = ' ' || c = '\t' || c = '\n' || c = '\r' || c = '\x0b' || c = '\x0c' || c = '_' || c = '+' || c = '-'
  || c = '\x1c' || c = '\x1d' || c = '\x1e' || c = '\x1f'

/-- `int(text)` -/
def int_of_text (s : String) : PyM V :=
  let cs := s.toList
  if cs.isEmpty then throw .ValueError
  else if cs.all Char.isDigit then pure (.int (cs.foldl (fun acc c => acc * 10 + (c.toNat - 48)) 0 : Nat))
  else if cs.any (fun c => c.toNat < 128 && !intLiteralChar c) then throw .ValueError
  else throw .unsupported

/-- `map(int, xs)` consumed at once, `xs` a list of texts -/
def map_int (xs : V) : PyM V := do
  let l ← iter xs
  let r ← l.mapM fun x => match x with
    | .str s => int_of_text s
    | .int i => pure (.int i)
    | _ => throw .unsupported
  pure (.list r)

def intText (i : Int) : String := if i < 0 then "-" ++ toString i.natAbs else toString i.toNat

/-- `map(str, xs)` consumed at once, `xs` a list of ints / texts -/
def map_str (xs : V) : PyM V := do
  let l ← iter xs
  let r ← l.mapM fun x => match x with
    | .int i => pure (V.str (intText i))
    | .str s => pure (V.str s)
    | _ => throw .unsupported
  pure (.list r)

/-- `sep.join(xs)`, `xs` a list of texts (anything else in it: TypeError) -/
def str_join (sep xs : V) : PyM V :=
  match sep with
  | .str sep => do
    let l ← iter xs
    let ss ← l.mapM fun x => match x with
      | .str s => pure s
      | _ => throw .TypeError
    pure (.str (String.intercalate sep ss))
  | _ => throw .unsupported

end PlumVerif.PyT

import PlumVerif.Model.VersionsOverlap
/-
C15, histories of ONE device object that is shut down and used again.

`Device.shutdown()` (devices/__init__.py: `cancel_tasks()` + `wait_until_done()`; called for every device by
`AsyncProtocol.shutdown` / on connection loss) cancels the device's tasks — among them the dispatch tasks in which
`update_frame_versions` is suspended in `await Request.create(…)` (the handler class is imported through
`run_in_executor`).  The device object stays in the protocol's registry and handles the announcements that follow a
reconnect.  A cancelled callback ends where it is suspended: nothing is queued and nothing recorded for the entry it
was waiting for, and the entries behind it are not looked at.

The machine is `Overlap` (announcement tasks that move between suspensions) with one more external event.  A task that
is cancelled ends with an exception (`CancelledError`): phase `raised`, like the TypeError ending.
-/
namespace PlumVerif.C15.Overlap
open PlumVerif.C15

/-- `task.cancel()` for a callback task that has not finished -/
def cancelTask (t : Task) : Task :=
  match t.ph with
  | .created => { t with ph := .raised }
  | .awaiting _ _ => { t with ph := .raised }
  | _ => t

/-- `device.shutdown()`: every live callback task is cancelled; records, unsupported kinds and queue are untouched -/
def shutdown (s : OSt) : OSt := { s with t := fun a => cancelTask (s.t a) }

inductive HEv where
  | ev (e : Ev)
  | shutdown
  deriving Repr

def hstep (s : OSt) : HEv → OSt
  | .ev e => step s e
  | .shutdown => shutdown s

def hrun (s : OSt) : List HEv → OSt
  | [] => s
  | e :: es => hrun (hstep s e) es

end PlumVerif.C15.Overlap

import PlumVerif.Generated.Consts
/-
Connection machine (C11, C12): model of

  pyplumio/protocol.py    AsyncProtocol.connection_established / _connection_close /
                          connection_lost / shutdown / frame_producer / frame_consumer
  pyplumio/connection.py  Connection._connect / _reconnect / connect / close
  pyplumio/stream.py      the @timeout wrappers of FrameReader.read, FrameWriter.write,
                          FrameWriter.wait_closed
  pyplumio/devices        Device.shutdown, EcoMAX.shutdown, the request rounds of
                          PhysicalDevice.async_setup (only as far as they queue requests)

as a state machine over *micro events*: an external event (a frame arrives, the stream
breaks, virtual time advances, the user queues a request / calls close()) or one resumption
of a library task (`prodStart`, `lostRun`, `lostRun2`, `shutdownRun`) or one timer (`tick`).
Every event is guarded: an event that is not enabled leaves the state unchanged and has no
output, so theorems quantified over ALL event lists cover every schedule of enabled events.
The deterministic scheduler the harness is compared with (`hstep`: one external event, then
internal events to quiescence) is a particular list of micro events (`hstep_is_run`).

Time is in milliseconds.  Not modelled (trusted, exercised by the harness): the asyncio
primitives; the read queue (frame handling is atomic because module imports complete
synchronously in the harness loop - import timing is C10's subject).
-/
namespace PlumVerif.Conn

/-- behaviour of a fake transport operation: completes, raises OSError, never completes -/
inductive Mode | ok | raise | hang
deriving DecidableEq, Repr

/-- scripted result of one `_open_connection` call; a successful open also fixes how the
new transport's `drain()` and `wait_closed()` behave until the harness changes it -/
inductive OpenRes | ok (drain close : Mode) | err | hang
deriving DecidableEq, Repr

/-- whose task executes the reconnect routine: the user's `connect()` call, the protocol's
`connection_lost` task, a `Connection._reconnect` task -/
inductive Owner | user | proto | conn
deriving DecidableEq, Repr

inductive Recon
  | idle
  | wclosing (dl : Nat)                 -- connection_lost task inside FrameWriter.wait_closed (hangs until dl)
  | attempting (dl : Nat) (o : Owner)   -- `_open_connection` outstanding, CONNECT_TIMEOUT at dl
  | backoff (dl : Nat) (o : Owner)      -- `asyncio.sleep(RECONNECT_TIMEOUT)` until dl
deriving DecidableEq, Repr

inductive PPhase
  | dead
  | starting            -- task created, has not run yet
  | reading (dl : Nat)  -- inside FrameReader.read, READER_TIMEOUT at dl
  | writing (dl : Nat)  -- inside FrameWriter.write (drain hangs), WRITER_TIMEOUT at dl
deriving DecidableEq, Repr

inductive Setup
  | waiting                              -- EcoMAX.async_setup waits for the first sensor data
  | armed                                -- sensor data arrived, the set-up task has not resumed yet
  | requesting (t0 : Nat) (round : Nat)  -- request round `round` (1-based) started at t0 + (round-1)*timeout
  | done                                 -- finished, failed or cancelled: no set-up task
deriving DecidableEq, Repr

structure Sub where
  idx : Nat
  parked : Nat          -- tasks in the sub-device's own task set
deriving DecidableEq, Repr

structure Dev where
  addr : Nat
  setup : Setup
  pw : Bool             -- 'password' already in the device's data
  pub : Bool            -- published in the protocol's device map (the dispatch of the device-name event is over)
  parked : Nat          -- tasks in the device's own task set
  mixers : List Sub
  thermos : List Sub
  vers : List (Nat × Nat) := []    -- `PhysicalDevice._frame_versions`: (request kind, version) last asked for
  vpend : List (Nat × Nat) := []   -- frame-version tables dispatched to `update_frame_versions` (a task of the
                                   -- device, `dispatch_nowait`) that it has not looked at yet
deriving DecidableEq, Repr

inductive CPhase
  | no
  | joining (t0 : Nat)          -- close() issued at t0, AsyncProtocol.shutdown inside Queues.join
  | joined (t0 : Nat)           -- the write queue's unfinished count reached 0: join() returns, shutdown resumes next
  | wclosing (t0 dl : Nat)      -- shutdown inside wait_closed of the transport (hangs until dl)
  | done (t0 t1 : Nat)          -- close() returned at t1
deriving DecidableEq, Repr

inductive Feed
  | pw (addr : Nat)             -- password response from `addr`
  | sensors (m t : Nat)         -- ecoMAX sensor data with mixers 0..m-1 and thermostats 0..t-1
  | foreign                     -- valid frame for another recipient: read() returns None
  | bad                         -- checksum error: read() raises a ProtocolError
  | undec                       -- wire-valid ecoMAX sensor data whose payload cannot be decoded: `handle_frame` raises
  | versions (vs : List (Nat × Nat))
                                -- ecoMAX sensor data (no mixers / thermostats) whose frame-version table is `vs`:
                                -- (request kind, version) pairs, in wire order
  | orphan (addr : Nat)         -- frame for us from a known address that has no device class (ecoNET, broadcast):
                                -- `get_device_entry` raises, the consumer logs it and carries on
deriving DecidableEq, Repr

structure St where
  cfg : Nat                     -- consumers_count
  rcOn : Bool                   -- reconnect_on_failure
  script : List OpenRes         -- results of the coming `_open_connection` calls (then: ok)
  now : Nat
  connected : Bool              -- Protocol.connected
  writer : Option Nat           -- `Protocol.writer`: id of the transport it wraps
  wopen : Bool                  -- that transport has not been close()d yet
  wdrain : Mode
  wcloseM : Mode
  nextTid : Nat
  producers : Nat               -- live frame_producer tasks
  pphase : PPhase
  consumers : Nat               -- live frame_consumer tasks
  lostPending : Bool            -- a connection_lost task was created and has not run yet
  lostMid : Bool                -- connection_lost cleared the flag and awaits the device callbacks
  recon : Recon
  writeQ : List Nat             -- kinds of the frames in the write queue
  devices : List Dev
  closing : CPhase
  readQ : List Feed             -- frames in the read queue that no consumer has taken yet
  hand : List Feed              -- frames consumers hold but cannot finish: the first one sits in a slow subscriber of
                                -- the device-name event (holding the entry lock), the others wait for the lock
  rUnf : Nat                    -- `Queue._unfinished_tasks` of the read queue
  rj : Bool                     -- `read.join()` of the pending shutdown has returned
  gates : List Nat              -- addresses whose device-name event has a subscriber that does not return yet
deriving Repr

inductive Target | dev (addr : Nat) | mixer (i : Nat) | thermo (i : Nat)
deriving DecidableEq, Repr

inductive Timer | readTO | writeTO | wcloseTO | openTO | backoffEnd | setup (addr : Nat) | cwcloseTO
deriving DecidableEq, Repr

inductive Ev
  | connect
  | feed (f : Feed)
  | readFault                   -- EOF or an exception set on the stream reader
  | setDrain (m : Mode)
  | setClose (m : Mode)
  | enq (n : Nat)               -- n requests put on the write queue
  | park (t : Target)           -- a task that never finishes is started in a device's task set
  | close
  | advance (dt : Nat)
  | tick (k : Timer)
  | prodStart | lostRun | lostRun2 | shutdownRun | setupGo
  | versionsGo                  -- the `update_frame_versions` tasks of the devices run
  | gate (addr : Nat)           -- a subscriber of the device-name event of `addr` that will not return until `release`
  | release                     -- every such subscriber returns
  | take                        -- a parked consumer takes the next frame from the read queue
  | reopen                      -- the connection object is used again after `close()` has returned (a second
                                -- `connect()` / `async with`, or a second `close()`): the finished call is forgotten,
                                -- everything else is the object's state as `close()` left it
deriving DecidableEq, Repr

inductive Out
  | openCall (tag : Nat)        -- `_open_connection` invoked; 0 ok, 1 raises, 2 hangs
  | tx (tid kind : Nat)
  | wclose (tid : Nat)          -- transport.close()
  | ann (addr : Nat) (val flag : Bool)   -- device `addr` told connected=val; `flag` = Protocol.connected then
  | deliver (addr kind : Nat)
  | newdev (addr : Nat)
  | cfail                       -- connect() raised ConnectionFailedError
  | closed                      -- close() returned
  | fault                       -- the producer ended with an I/O fault (not observable as such)
  | put (addr kind : Nat)       -- the producer put a frame from `addr` on the read queue (not observable as such)
deriving DecidableEq, Repr

/-! ### constants (from the translator) -/

def readerTO : Nat := Gen.readerTimeout * 1000
def writerTO : Nat := Gen.writerTimeout * 1000
def connectTO : Nat := Gen.connectTimeout * 1000
def reconnectTO : Nat := Gen.reconnectTimeout * 1000
def requestTO : Nat := Gen.requestTimeoutMs
def requestRetries : Nat := Gen.requestRetries

def lookupNat (tbl : List (String × Nat)) (name : String) : Nat :=
  match tbl.find? (·.1 == name) with
  | some p => p.2
  | none => 0

def startMaster : Nat := lookupNat Gen.frameTypes "REQUEST_START_MASTER"
def kindPassword : Nat := lookupNat Gen.frameTypes "RESPONSE_PASSWORD"
def kindSensors : Nat := lookupNat Gen.frameTypes "MESSAGE_SENSOR_DATA"
/-- kind of the requests the harness queues on behalf of the user (not a set-up request) -/
def kindUser : Nat := lookupNat Gen.frameTypes "REQUEST_PROGRAM_VERSION"
def ecomaxAddr : Nat := lookupNat Gen.deviceTypes "ECOMAX"
/-- request kinds whose version announcements the machine follows: parameterless requests that are not set-up
requests (whether a set-up kind is still "supported" depends on the outcome of the set-up - C15's subject) -/
def verKinds : List Nat := [kindUser, lookupNat Gen.frameTypes "REQUEST_CHECK_DEVICE"]
/-- pseudo kind of a frame that reaches its device object but cannot be decoded there -/
def kindUndec : Nat := 0

/-- request kinds queued by one round of `async_setup`; the password request is not repeated
once the password is known -/
def setupKinds (pw : Bool) : List Nat :=
  (Gen.setupFrames.filter (fun p => !(pw && p.2 == "password"))).map (·.1)

/-! ### small helpers -/

def isReading : PPhase → Bool | .reading _ => true | _ => false
def isWriting : PPhase → Bool | .writing _ => true | _ => false

/-- `Queue._unfinished_tasks` of the write queue: queued frames plus the one being written -/
def unfinished (s : St) : Nat :=
  s.writeQ.length + (if s.producers > 0 ∧ isWriting s.pphase then 1 else 0)

def reconOwner : Recon → Option Owner
  | .idle => none
  | .wclosing _ => some .proto
  | .attempting _ o => some o
  | .backoff _ o => some o

/-- the devices of the protocol's device map (`data`) -/
def published (s : St) : List Dev := s.devices.filter (·.pub)

def annAll (s : St) (v flag : Bool) : List Out := (published s).map (fun d => .ann d.addr v flag)

def init (cfg : Nat) (rcOn : Bool) (script : List OpenRes) : St :=
  { cfg, rcOn, script, now := 0, connected := false, writer := none, wopen := false, wdrain := .ok, wcloseM := .ok,
    nextTid := 0, producers := 0, pphase := .dead, consumers := 0, lostPending := false,
    lostMid := false, recon := .idle, writeQ := [], devices := [], closing := .no,
    readQ := [], hand := [], rUnf := 0, rj := false, gates := [] }

/-! ### the producer -/

/-- the producer ends with OSError / TimeoutError: `create_task(connection_lost())`, break -/
def prodFault (s : St) : St × List Out :=
  ({ s with producers := s.producers - 1, pphase := .dead, lostPending := true }, [.fault])

/-- `Queue.join` wakes up the moment the unfinished count reaches 0 (a later `put` does not
put it back to sleep) -/
def latch (s : St) : St :=
  match s.closing with
  | .joining t0 => if unfinished s = 0 then { s with closing := .joined t0 } else s
  | _ => s

def prodIO' (s : St) : St × List Out :=
  match s.writeQ, s.writer with
  | k :: rest, some tid =>
    match s.wdrain with
    | .ok => ({ s with writeQ := rest, pphase := .reading (s.now + readerTO) }, [.tx tid k])
    | .raise =>
      let r := prodFault { s with writeQ := rest }
      (r.1, .tx tid k :: r.2)
    | .hang => ({ s with writeQ := rest, pphase := .writing (s.now + writerTO) }, [.tx tid k])
  | _, _ => ({ s with pphase := .reading (s.now + readerTO) }, [])

/-- one pass of the producer loop body: send the head of the write queue if there is one
(`task_done` follows in every case), then start reading -/
def prodIO (s : St) : St × List Out :=
  let r := prodIO' s
  (latch r.1, r.2)

/-! ### frame handling (consumer + device) -/

def newDev (addr : Nat) : Dev :=
  { addr, setup := if addr = ecomaxAddr then .waiting else .done, pw := false, pub := false, parked := 0,
    mixers := [], thermos := [] }

def hasDev (ds : List Dev) (addr : Nat) : Bool := ds.any (·.addr == addr)

def ensureDev (ds : List Dev) (addr : Nat) : List Dev × List Out :=
  if hasDev ds addr then (ds, []) else (ds ++ [newDev addr], [.newdev addr, .ann addr true true])

def ensureSubs (subs : List Sub) (n : Nat) : List Sub :=
  subs ++ ((List.range n).filter (fun i => !subs.any (·.idx == i))).map (fun i => ⟨i, 0⟩)

def updDev (ds : List Dev) (addr : Nat) (f : Dev → Dev) : List Dev :=
  ds.map (fun d => if d.addr = addr then f d else d)

def handle (s : St) : Feed → St × List Out
  | .foreign => (s, [])
  | .bad => (s, [])
  | .orphan a => (s, [.deliver a kindUndec])   -- disposed of without a device object
  | .undec =>
    -- the device entry exists (it was looked up / created before `handle_frame`); decoding raises inside
    -- `handle_frame`, the consumer logs it and carries on: the frame reached its device object, nothing is dispatched
    let r := ensureDev s.devices ecomaxAddr
    ({ s with devices := r.1 }, r.2 ++ [.deliver ecomaxAddr kindUndec])
  | .pw addr =>
    let r := ensureDev s.devices addr
    ({ s with devices := updDev r.1 addr (fun d => { d with pw := true }) }, r.2 ++ [.deliver addr kindPassword])
  | .sensors m t =>
    let r := ensureDev s.devices ecomaxAddr
    let ds := updDev r.1 ecomaxAddr (fun d =>
      { d with mixers := ensureSubs d.mixers m, thermos := ensureSubs d.thermos t,
               setup := if d.setup = .waiting then .armed else d.setup })
    ({ s with devices := ds }, r.2 ++ [.deliver ecomaxAddr kindSensors])
  | .versions vs =>
    let r := ensureDev s.devices ecomaxAddr
    let ds := updDev r.1 ecomaxAddr (fun d =>
      { d with vpend := d.vpend ++ vs, setup := if d.setup = .waiting then .armed else d.setup })
    ({ s with devices := ds }, r.2 ++ [.deliver ecomaxAddr kindSensors])

/-- address and kind of a frame that is queued for the consumers (frames for somebody else and
malformed frames never get that far) -/
def Feed.addr? : Feed → Option (Nat × Nat)
  | .pw a => some (a, kindPassword)
  | .sensors _ _ => some (ecomaxAddr, kindSensors)
  | .versions _ => some (ecomaxAddr, kindSensors)
  | .undec => some (ecomaxAddr, kindUndec)
  | .orphan a => some (a, kindUndec)
  | .foreign => none
  | .bad => none

/-- a frame arrives while the producer is reading: the producer puts it on the read queue (if
it is for us) and continues with the write queue; handling is the consumers' business (`take`) -/
def feed (s : St) (f : Feed) : St × List Out :=
  if s.producers = 0 ∨ !isReading s.pphase then (s, []) else
  let a := prodIO s
  match f.addr? with
  | some (ad, k) => ({ a.1 with readQ := a.1.readQ ++ [f], rUnf := a.1.rUnf + 1 }, a.2 ++ [.put ad k])
  | none => a

/-! ### the frame consumers -/

/-- consumers parked on the read queue -/
def idle (s : St) : Nat := s.consumers - s.hand.length

def isJoining : CPhase → Bool
  | .joining _ => true
  | .joined _ => true
  | _ => false

/-- `read.join()` of a pending shutdown wakes up the moment the read queue's unfinished count reaches 0 -/
def latchR (s : St) : St :=
  if isJoining s.closing ∧ s.rUnf = 0 then { s with rj := true } else s

/-- `get_device_entry` up to the dispatch of the device-name event: a new device is created (not
yet in the device map); the third component says that a subscriber of that event does not return -/
def enter (s : St) (ad : Nat) : St × List Out × Bool :=
  if hasDev s.devices ad then (s, [], false)
  else ({ s with devices := s.devices ++ [newDev ad] }, [.newdev ad, .ann ad true true], s.gates.contains ad)

/-- the device-name event has been dispatched: the device is in the map -/
def publish (s : St) (ad : Nat) : St :=
  { s with devices := updDev s.devices ad (fun d => { d with pub := true }) }

/-- the rest of the consumer's loop body: `handle_frame`, `task_done`, then park again - or exit,
when the connection has been lost meanwhile -/
def finishFrame (s : St) (f : Feed) : St × List Out :=
  match f.addr? with
  | none => (s, [])
  | some (ad, _) =>
    let r := handle (publish s ad) f
    let s2 := latchR { r.1 with rUnf := r.1.rUnf - 1 }
    (if s2.connected then s2 else { s2 with consumers := s2.consumers - 1 }, r.2)

/-- a consumer that holds frame `f` and the entry lock: enter, then finish unless a subscriber blocks -/
def hasClass : Feed → Bool
  | .orphan _ => false
  | _ => true

def process (s : St) (f : Feed) : St × List Out × Bool :=
  match f.addr? with
  | none => (s, [], false)
  | some (ad, _) =>
    if !hasClass f then let r := finishFrame s f; (r.1, r.2, false) else
    let e := enter s ad
    if e.2.2 then (e.1, e.2.1, true)
    else let r := finishFrame e.1 f; (r.1, e.2.1 ++ r.2, false)

/-- a parked consumer takes the head of the read queue; it handles it at once, or waits for the
entry lock behind a consumer that sits in a slow subscriber, or becomes that consumer -/
def take (s : St) : St × List Out :=
  match s.readQ with
  | [] => (s, [])
  | f :: rest =>
    if idle s = 0 then (s, []) else
    if s.hand ≠ [] then ({ s with readQ := rest, hand := s.hand ++ [f] }, [])
    else
      let r := process { s with readQ := rest } f
      (if r.2.2 then { r.1 with hand := [f] } else r.1, r.2.1)

/-- the blocked consumers finish one after the other, in the order of the entry lock -/
def finishAll : List Feed → St → St × List Out
  | [], s => (s, [])
  | f :: fs, s =>
    let r := process s f
    let q := finishAll fs r.1
    (q.1, r.2.1 ++ q.2)

/-- every slow subscriber returns -/
def release (s : St) : St × List Out :=
  finishAll s.hand { s with gates := [], hand := [] }

def gateEv (s : St) (a : Nat) : St :=
  if s.gates.contains a ∨ hasDev s.devices a then s else { s with gates := a :: s.gates }

/-! ### establishment, loss, reconnect -/

def popScript (s : St) : OpenRes × St :=
  match s.script with
  | r :: rest => (r, { s with script := rest })
  | [] => (.ok .ok .ok, s)

/-- `connection_established` -/
def establish (s : St) (dm cm : Mode) : St × List Out :=
  ({ s with writer := some s.nextTid, wopen := true, nextTid := s.nextTid + 1, wdrain := dm, wcloseM := cm,
            writeQ := s.writeQ ++ [startMaster], producers := s.producers + 1, pphase := .starting,
            consumers := s.consumers + (s.cfg - s.consumers), connected := true, recon := .idle },
   annAll s true true)

/-- `_connect` raised ConnectionFailedError in the routine run by `o` -/
def openFailed (s : St) (o : Owner) : St × List Out :=
  if o = .user ∧ !s.rcOn then ({ s with recon := .idle }, [.cfail])
  else ({ s with recon := .backoff (s.now + reconnectTO) o }, [])

/-- one invocation of `_open_connection` by the routine run by `o` -/
def doOpen (s : St) (o : Owner) : St × List Out :=
  let p := popScript s
  match p.1 with
  | .ok dm cm => let r := establish p.2 dm cm; (r.1, .openCall 0 :: r.2)
  | .err => let r := openFailed p.2 o; (r.1, .openCall 1 :: r.2)
  | .hang => ({ p.2 with recon := .attempting (p.2.now + connectTO) o }, [.openCall 2])

/-- the `on_connection_lost` callbacks: `Connection._reconnect` if registered -/
def reconnectInvoke (s : St) : St × List Out :=
  if s.rcOn then doOpen s .proto else (s, [])

/-- `close_writer()` up to and including `transport.close()`; `Protocol.writer` is reset
only after `wait_closed()` came back -/
def closeWriter (s : St) : St × List Out :=
  match s.writer with
  | some tid => ({ s with wopen := false }, [.wclose tid])
  | none => ({ s with wopen := false }, [])   -- no writer, no open transport (`wopen` is already false)

/-- `wait_closed()` hangs (until WRITER_TIMEOUT) -/
def closeHangs (s : St) : Bool := s.writer.isSome && s.wcloseM == .hang

/-- second half of `connection_lost`: close the writer, then the callbacks -/
def lostFinish (s : St) : St × List Out :=
  let a := closeWriter s
  if closeHangs s then ({ a.1 with recon := .wclosing (s.now + writerTO) }, a.2)
  else let b := reconnectInvoke { a.1 with writer := none }; (b.1, a.2 ++ b.2)

/-- the `connection_lost` task runs: guarded by the flag, clears it, tells the devices -/
def lostRun (s : St) : St × List Out :=
  if !s.lostPending then (s, []) else
  let s := { s with lostPending := false }
  if !s.connected then (s, []) else
  let s := { s with connected := false }
  let o := annAll s false false
  if (published s).isEmpty then let r := lostFinish s; (r.1, o ++ r.2)
  else ({ s with lostMid := true }, o)

def lostRun2 (s : St) : St × List Out :=
  if !s.lostMid then (s, []) else lostFinish { s with lostMid := false }

/-! ### device set-up rounds -/

def setupDeadline (d : Dev) : Option Nat :=
  match d.setup with
  | .requesting t0 r => some (t0 + r * requestTO)
  | _ => none

/-- the set-up task resumes after the first sensor data: first round of requests -/
def setupGo (s : St) : St × List Out :=
  if s.devices.any (fun d => d.setup == .armed) then
    ({ s with devices := s.devices.map (fun d => if d.setup = .armed then { d with setup := .requesting s.now 1 } else d),
              writeQ := s.writeQ ++ setupKinds false }, [])
  else (s, [])

def fireSetup (s : St) (addr : Nat) : St × List Out :=
  match s.devices.find? (·.addr == addr) with
  | none => (s, [])
  | some d =>
    match d.setup with
    | .requesting t0 r =>
      if r < requestRetries then
        ({ s with devices := updDev s.devices addr (fun d => { d with setup := .requesting t0 (r + 1) }),
                  writeQ := s.writeQ ++ setupKinds d.pw }, [])
      else ({ s with devices := updDev s.devices addr (fun d => { d with setup := .done }) }, [])
    | _ => (s, [])

/-! ### frame-version announcements -/

def setVer (vers : List (Nat × Nat)) (k v : Nat) : List (Nat × Nat) := (k, v) :: vers.filter (·.1 != k)

/-- one entry of a frame-version table in `update_frame_versions`: a known, supported kind whose stored version is
missing or different is requested again and the announced version is remembered (`has_frame_version`) -/
def verEntry (acc : List (Nat × Nat) × List Nat) (p : Nat × Nat) : List (Nat × Nat) × List Nat :=
  if verKinds.contains p.1 && acc.1.lookup p.1 != some p.2 then (setVer acc.1 p.1 p.2, acc.2 ++ [p.1]) else acc

/-- `update_frame_versions` over the pending tables of one device: new version map, requests queued -/
def verRun (d : Dev) : List (Nat × Nat) × List Nat := d.vpend.foldl verEntry (d.vers, [])

/-- the `update_frame_versions` tasks run (in the order of the device map) -/
def versionsGo (s : St) : St × List Out :=
  if s.devices.any (fun d => !d.vpend.isEmpty) then
    ({ s with devices := s.devices.map (fun d => { d with vers := (verRun d).1, vpend := [] }),
              writeQ := s.writeQ ++ s.devices.flatMap (fun d => (verRun d).2) }, [])
  else (s, [])

/-! ### close() -/

def shutSub (x : Sub) : Sub := { x with parked := 0 }

/-- `EcoMAX.shutdown`: every mixer and every thermostat (both value sets), then the device -/
def shutDev (d : Dev) : Dev :=
  { d with parked := 0, vpend := [], mixers := d.mixers.map shutSub, thermos := d.thermos.map shutSub }

/-- `Connection.close` cancels the connection's own tasks (a `_reconnect` task): once before
`protocol.shutdown()`, and once more after it (daf0ebe: a retry task created while `shutdown()` waited) -/
def cancelConn (s : St) : St :=
  if reconOwner s.recon = some .conn then { s with recon := .idle } else s

/-- the devices are shut down, `shutdown()` returns; `Connection.close` cancels its tasks again and returns -/
def finishClose (s : St) (t0 : Nat) : St × List Out :=
  ({ (cancelConn s) with devices := s.devices.map shutDev, closing := .done t0 s.now }, [.closed])

/-- `AsyncProtocol.shutdown` starts with `Queues.join()` -/
def beginJoin (s : St) : St := latch { s with closing := .joining s.now, rj := s.rUnf == 0 }

/-- `Connection.close`: cancel the connection's own tasks, then `protocol.shutdown()` -/
def closeEv (s : St) : St × List Out :=
  if s.closing ≠ .no ∨ reconOwner s.recon = some .user then (s, []) else (beginJoin (cancelConn s), [])

def joinReady (s : St) : Bool :=
  match s.closing with
  | .joined _ => s.rj
  | _ => false

/-- `cancel_tasks` + `wait_until_done` of the protocol: producer, consumers, set-up tasks,
the connection_lost task wherever it is -/
def cancelProto (s : St) : St :=
  { s with producers := 0, pphase := .dead, consumers := 0, hand := [], rUnf := s.rUnf - s.hand.length,
           lostPending := false, lostMid := false,
           devices := s.devices.map (fun d => { d with setup := .done }),
           recon := if reconOwner s.recon = some .proto then .idle else s.recon }

/-- `_connection_close()` if the flag is still set, else `close_writer()`; then the devices -/
def shutdownTail (s : St) (t0 : Nat) : St × List Out :=
  let o := if s.connected then annAll s false false else []
  let a := closeWriter { s with connected := false }
  if closeHangs s then ({ a.1 with closing := .wclosing t0 (s.now + writerTO) }, o ++ a.2)
  else let b := finishClose { a.1 with writer := none } t0; (b.1, o ++ a.2 ++ b.2)

/-- `AsyncProtocol.shutdown` after `Queues.join()` returned -/
def shutdownRun (s : St) : St × List Out :=
  match s.closing with
  | .joined t0 => if s.rj then shutdownTail (cancelProto s) t0 else (s, [])
  | _ => (s, [])

/-! ### timers -/

def deadline? (s : St) : Timer → Option Nat
  | .readTO => if s.producers > 0 then (match s.pphase with | .reading dl => some dl | _ => none) else none
  | .writeTO => if s.producers > 0 then (match s.pphase with | .writing dl => some dl | _ => none) else none
  | .wcloseTO => match s.recon with | .wclosing dl => some dl | _ => none
  | .openTO => match s.recon with | .attempting dl _ => some dl | _ => none
  | .backoffEnd => match s.recon with | .backoff dl _ => some dl | _ => none
  | .setup addr => match s.devices.find? (·.addr == addr) with | some d => setupDeadline d | none => none
  | .cwcloseTO => match s.closing with | .wclosing _ dl => some dl | _ => none

def timers (s : St) : List Timer :=
  [.readTO, .writeTO, .wcloseTO, .openTO, .backoffEnd, .cwcloseTO] ++ s.devices.map (fun d => .setup d.addr)

def deadlines (s : St) : List Nat := (timers s).filterMap (deadline? s)

def fire (s : St) (k : Timer) : St × List Out :=
  match deadline? s k with
  | none => (s, [])
  | some dl =>
    if s.now < dl then (s, []) else
    match k with
    | .readTO => prodFault s
    | .writeTO => let r := prodFault s; (latch r.1, r.2)
    | .wcloseTO => reconnectInvoke { s with recon := .idle, writer := none }
    | .openTO => (match s.recon with | .attempting _ o => openFailed { s with recon := .idle } o | _ => (s, []))
    | .backoffEnd => doOpen { s with recon := .idle } .conn
    | .setup addr => fireSetup s addr
    | .cwcloseTO => (match s.closing with | .wclosing t0 _ => finishClose { s with writer := none } t0 | _ => (s, []))

/-! ### the step function -/

def parkSub (subs : List Sub) (i : Nat) : List Sub :=
  subs.map (fun x => if x.idx = i then { x with parked := x.parked + 1 } else x)

def park (s : St) : Target → St
  | .dev addr => { s with devices := updDev s.devices addr (fun d => if d.pub then { d with parked := d.parked + 1 } else d) }
  | .mixer i => { s with devices := updDev s.devices ecomaxAddr (fun d => { d with mixers := parkSub d.mixers i }) }
  | .thermo i => { s with devices := updDev s.devices ecomaxAddr (fun d => { d with thermos := parkSub d.thermos i }) }

def isDone : CPhase → Bool | .done _ _ => true | _ => false

/-- the connection object is used again after `close()` has returned: the finished call is forgotten.
(The guard never bites: a connection whose close() has returned is down - `C12.reopen_enabled`.) -/
def reopenEv (s : St) : St × List Out :=
  if s.connected ∨ s.lostMid ∨ s.recon ≠ .idle then (s, []) else ({ s with closing := .no, rj := false }, [])

/-- a connection whose `close()` has returned: time passes, or the object is used again -/
def stepDone (s : St) (e : Ev) : St × List Out :=
  match e with
  | .advance dt => ({ s with now := s.now + dt }, [])
  | .reopen => reopenEv s
  | _ => (s, [])

def stepLive (s : St) (e : Ev) : St × List Out :=
  match e with
  | .connect =>
    if s.connected ∨ s.recon ≠ .idle ∨ s.producers ≠ 0 ∨ s.lostPending ∨ s.lostMid ∨ s.closing ≠ .no then (s, [])
    else doOpen s .user
  | .feed f => feed s f
  | .readFault => if s.producers > 0 ∧ isReading s.pphase then prodFault s else (s, [])
  | .setDrain m => if s.writer.isSome then ({ s with wdrain := m }, []) else (s, [])
  | .setClose m => if s.writer.isSome then ({ s with wcloseM := m }, []) else (s, [])
  | .enq n => ({ s with writeQ := s.writeQ ++ List.replicate n kindUser }, [])
  | .park t => (park s t, [])
  | .close => closeEv s
  | .advance dt => if (deadlines s).all (fun d => s.now + dt ≤ d) then ({ s with now := s.now + dt }, []) else (s, [])
  | .tick k => fire s k
  | .prodStart => if s.producers > 0 ∧ s.pphase = .starting then prodIO s else (s, [])
  | .lostRun => lostRun s
  | .lostRun2 => lostRun2 s
  | .shutdownRun => shutdownRun s
  | .setupGo => setupGo s
  | .versionsGo => versionsGo s
  | .gate a => (gateEv s a, [])
  | .release => release s
  | .take => take s
  | .reopen => (s, [])          -- only a connection whose `close()` has returned can be used "again"

def step (s : St) (e : Ev) : St × List Out :=
  if isDone s.closing then stepDone s e else stepLive s e

/-! ### an open that completes later -/

/-- an `_open_connection` call started earlier (`Recon.attempting`: the routine of `o` is inside it) completes NOW, before
CONNECT_TIMEOUT: with a transport (`.ok`), or by raising (`.err`); `close()` may have been called between the start of the
call and its completion.  Not a constructor of `Ev` yet: the deterministic scheduler of the harness lets a held open run into
its time-out (`Timer.openTO`), the implementation-only harness sections `held_open_variant` / `late_open_variant` complete
it at every loop iteration of close().  `Reach1` (Proofs/ConnClean.lean) is reachability with this move added to the
machine's events; `C12.done_clean_open` is the close invariant over it. -/
def openDone (s : St) (r : OpenRes) : St × List Out :=
  if isDone s.closing then (s, []) else
  match s.recon, r with
  | .attempting _ _, .ok dm cm => establish { s with recon := .idle } dm cm
  | .attempting _ o, .err => openFailed { s with recon := .idle } o
  | _, _ => (s, [])

/-- run a list of moves: an event of the machine, or the completion of a pending open -/
def run1 (s : St) : List (Ev ⊕ OpenRes) → St
  | [] => s
  | .inl e :: ms => run1 (step s e).1 ms
  | .inr r :: ms => run1 (openDone s r).1 ms

/-- run a list of micro events; outputs are stamped with the time at which they were emitted -/
def run (s : St) : List Ev → St × List (Nat × Out)
  | [] => (s, [])
  | e :: es =>
    let r := step s e
    let q := run r.1 es
    (q.1, r.2.map (fun o => (s.now, o)) ++ q.2)

/-! ### the deterministic scheduler of the harness: one external event, then quiescence -/

/-- the library task that runs next, if any (asyncio's FIFO order in the situations that occur) -/
def internal? (s : St) : Option Ev :=
  if isDone s.closing then none
  -- a parked consumer woken by the producer's `put` runs before anything the producer started afterwards ...
  else if s.readQ ≠ [] ∧ idle s > 0 ∧ ¬ (s.producers > 0 ∧ s.pphase = .starting) then some .take
  -- the `update_frame_versions` task a consumer has just started (`dispatch_nowait`) runs in the next iteration of the
  -- loop: before a loss handler that became runnable in the same instant gets as far as re-establishing anything
  else if s.devices.any (fun d => !d.vpend.isEmpty) then some .versionsGo
  else if s.lostPending then some .lostRun
  else if joinReady s then some .shutdownRun
  else if s.lostMid then some .lostRun2
  else if s.producers > 0 ∧ s.pphase = .starting then some .prodStart
  -- ... but consumers started by `connection_established` run after the producer created just before them
  else if s.readQ ≠ [] ∧ idle s > 0 then some .take
  else if s.devices.any (fun d => d.setup == .armed) then some .setupGo
  else none

def settleEvs (s : St) : Nat → List Ev
  | 0 => []
  | fuel + 1 =>
    match internal? s with
    | none => []
    | some e => e :: settleEvs (step s e).1 fuel

/-- earliest timer due at or before `target` (first in `timers` order among equals) -/
def nextDue (s : St) (target : Nat) : Option (Timer × Nat) :=
  (timers s).foldl (fun best k =>
    match deadline? s k with
    | some d =>
      if d ≤ target then
        (match best with
         | some (_, bd) => if d < bd then some (k, d) else best
         | none => some (k, d))
      else best
    | none => best) none

/-- number of timers due at the earliest due instant (a tie if > 1) -/
def dueCount (s : St) (d : Nat) : Nat := ((deadlines s).filter (· == d)).length

def settleFuel : Nat := 64

/-- micro events of "advance virtual time to `target`" -/
def advanceEvs (s : St) (target : Nat) : Nat → List Ev
  | 0 => []
  | fuel + 1 =>
    match nextDue s target with
    | none => [.advance (target - s.now)]
    | some (k, d) =>
      let pre : List Ev := [.advance (d - s.now), .tick k]
      let s1 := (run s pre).1
      let post := settleEvs s1 settleFuel
      let s2 := (run s1 post).1
      pre ++ post ++ advanceEvs s2 target fuel

/-- harness-level events -/
inductive HEv
  | ext (e : Ev)            -- an external micro event, then quiescence
  | ext2 (e1 e2 : Ev)       -- two external micro events the producer sees in one go, then quiescence
  | advanceBy (dt : Nat)    -- let `dt` ms pass, firing timers in order
deriving Repr

/-- `connect()` / `close()` on a connection whose `close()` has returned: the object is used again -/
def reuses (s : St) (e : Ev) : Bool := isDone s.closing && (e == .connect || e == .close)

def hevs (s : St) : HEv → List Ev
  | .ext e =>
    if reuses s e then .reopen :: e :: settleEvs (step (step s .reopen).1 e).1 settleFuel
    else e :: settleEvs (step s e).1 settleFuel
  | .ext2 e1 e2 => e1 :: e2 :: settleEvs (step (step s e1).1 e2).1 settleFuel
  | .advanceBy dt => advanceEvs s (s.now + dt) 4096

def hstep (s : St) (h : HEv) : St × List (Nat × Out) := run s (hevs s h)

/-- two timers due at the same instant within the advance (the harness avoids such histories) -/
def tieWithin (s : St) (target : Nat) : Nat → Bool
  | 0 => false
  | fuel + 1 =>
    match nextDue s target with
    | none => false
    | some (k, d) =>
      if dueCount s d > 1 then true else
      let pre : List Ev := [.advance (d - s.now), .tick k]
      let s1 := (run s pre).1
      let s2 := (run s1 (settleEvs s1 settleFuel)).1
      tieWithin s2 target fuel

/-! ### observables of a state -/

/-- tasks of the loss handling: the `connection_lost` task, and - while it runs the reconnect
callback - the task `asyncio.gather` wraps that callback in -/
def reconProtoTasks : Recon → Nat
  | .wclosing _ => 1
  | .attempting _ .proto => 2
  | .backoff _ .proto => 2
  | _ => 0

def lostTasks (s : St) : Nat :=
  (if s.lostPending then 1 else 0) + (if s.lostMid then 1 else 0) + reconProtoTasks s.recon

def connTasks (s : St) : Nat := if reconOwner s.recon = some .conn then 1 else 0

def setupAlive (d : Dev) : Nat := if d.setup = .done then 0 else 1

def subTasks (d : Dev) : Nat := (d.mixers.map (·.parked)).sum + (d.thermos.map (·.parked)).sum

/-- live `PhysicalDevice.request` tasks of a set-up in a request round (children of the set-up
task's `gather`): one per set-up frame whose data is still missing -/
def reqAlive (d : Dev) : Nat :=
  match d.setup with
  | .requesting _ _ => (setupKinds d.pw).length
  | _ => 0

def setupTasks (s : St) : Nat := (s.devices.map setupAlive).sum
def reqTasks (s : St) : Nat := (s.devices.map reqAlive).sum
def devOwnTasks (s : St) : Nat := (s.devices.map (·.parked)).sum
def subOwnTasks (s : St) : Nat := (s.devices.map subTasks).sum

/-- tasks of devices and sub-devices, including the set-up tasks -/
def deviceTasks (s : St) : Nat := setupTasks s + reqTasks s + devOwnTasks s + subOwnTasks s

/-- every task created by the protocol, the connection, a device or a sub-device -/
def tasks (s : St) : Nat := s.producers + s.consumers + lostTasks s + connTasks s + deviceTasks s

/-! ### the live tasks by coroutine name -/

/-- children of `asyncio.gather(read.join(), write.join())` in `Queues.join` that have not finished -/
def joinTasks (s : St) : Nat :=
  (match s.closing with | .joining _ => 1 | _ => 0) + (if isJoining s.closing && !s.rj then 1 else 0)

/-- every live task the library created, by the name of its coroutine function: the prediction the harness
compares `asyncio.all_tasks()` with at every quiescent point (a task of one kind cannot stand in for a
missing task of another kind) -/
def taskNames (s : St) : List (String × Nat) :=
  [("_reconnect", (if reconProtoTasks s.recon = 2 then 1 else 0) + connTasks s),
   ("async_setup", setupTasks s),
   ("connection_lost", (if s.lostPending then 1 else 0) + (if s.lostMid then 1 else 0) + (if reconProtoTasks s.recon = 0 then 0 else 1)),
   ("frame_consumer", s.consumers),
   ("frame_producer", s.producers),
   ("join", joinTasks s),
   ("request", reqTasks s),
   ("set", devOwnTasks s + subOwnTasks s)]

end PlumVerif.Conn

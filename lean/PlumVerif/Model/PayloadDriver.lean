import PlumVerif.Model.Frame
import PlumVerif.Model.Requests
import PlumVerif.Model.NetVersion
import PlumVerif.Spec.C02
/-
line-protocol front end for the request payload builders, the network-info and
program-version codecs, the C02 envelope judge and the frame-equality model.

  req <builder> <args…>        →  ok <hex> | err frameData|value|overflow
        args: decimal ints, `_` = key absent, `N` = Python None (thermostat offset only)
        schedule: <type|_> <switch|_> <parameter|_> <sched|_>   sched = `-` (no days) or
                  `s` followed by the days joined with `/`, each day a string of 0/1
  parse <builder> <hex>        →  the fields read back at their documented positions | none
  c02judge <hex> k rc sd et ev <payload hex>   →  pass | fail        (C02.spec on implementation bytes)
  net enc <12 hex bytes eth> <eth status> <12 hex bytes wlan> <wlan status> <ssid hex> <enc> <signal> <server>
  net dec <hex>                →  same field list | none
  ver enc a b c <tag hex> <struct version> <device id hex> <signature hex> <sender>  →  hex | none
  ver dec <hex>                →  a b c tag version devid signature | none
  pyeq <frame> <frame>         →  true | false      frame = cls rc sd et ev <msg hex|_> <data token|_>
  pyfill <m|d> <value> <frame> →  frame             (fillMessage / fillData)
-/
namespace PlumVerif
open Req

def optInt (w : String) : Option (Option Int) :=
  if w = "_" then some none else (w.toInt?).map some

def showErr : BuildErr → String
  | .frameData => "err frameData"
  | .value => "err value"
  | .overflow => "err overflow"

def showBuild : Except BuildErr (List Byte) → String
  | .ok bs => "ok " ++ showHex bs
  | .error e => showErr e

def parseDay (s : String) : Option (List Bool) :=
  s.toList.mapM fun c => if c = '1' then some true else if c = '0' then some false else none

def parseSched (w : String) : Option (Option (List (List Bool))) :=
  if w = "_" then some none
  else if w = "-" then some (some [])
  else match w.toList with
    | 's' :: rest => ((String.ofList rest).splitOn "/").mapM parseDay |>.map some
    | _ => none

def showDay (d : List Bool) : String := String.ofList (d.map fun b => if b then '1' else '0')
def showSched (s : List (List Bool)) : String := "s" ++ String.intercalate "/" (s.map showDay)

def reqOps : List String → Option String
  | ["req", "range", c, s] => do
    let c ← optInt c; let s ← optInt s; pure (showBuild (rangePayload c s))
  | ["req", "alerts", s, c] => do
    let s ← optInt s; let c ← optInt c; pure (showBuild (alertsPayload s c))
  | ["req", "setecomax", i, v] => do
    let i ← optInt i; let v ← optInt v; pure (showBuild (setEcomaxPayload i v))
  | ["req", "setmixer", d, i, v] => do
    let d ← optInt d; let i ← optInt i; let v ← optInt v; pure (showBuild (setMixerPayload d i v))
  | ["req", "setthermostat", i, v, o, sz] => do
    let i ← optInt i; let v ← optInt v; let sz ← optInt sz
    let o ← if o = "N" then some (some none) else (optInt o).map fun x => x.map some
    pure (showBuild (setThermostatPayload i v o sz))
  | ["req", "control", v] => do
    let v ← optInt v; pure (showBuild (controlPayload v))
  | ["req", "schedule", t, sw, par, sch] => do
    let sw ← optInt sw; let par ← optInt par; let sch ← parseSched sch
    let t := if t = "_" then none else some t
    pure (showBuild (schedulePayload t sw par sch))
  | ["parse", "pair", h] => do
    let bs ← parseHex h
    pure (match parse2 bs with | some (a, b) => s!"{a} {b}" | none => "none")
  | ["parse", "triple", h] => do
    let bs ← parseHex h
    pure (match parse3 bs with | some (a, b, c) => s!"{a} {b} {c}" | none => "none")
  | ["parse", "single", h] => do
    let bs ← parseHex h
    pure (match parse1 bs with | some a => s!"{a}" | none => "none")
  | ["parse", "thermostat", h] => do
    let bs ← parseHex h
    pure (match parseThermostat bs with | some (slot, size, v) => s!"{slot} {size} {v}" | none => "none")
  | ["parse", "schedule", h] => do
    let bs ← parseHex h
    pure (match parseSchedule bs with
      | some (idx, sw, par, s) => s!"{idx} {sw} {par} {showSched s}"
      | none => "none")
  | ["c02judge", b, k, rc, sd, et, ev, p] => do
    let bs ← parseHex b
    let pl ← parseHex p
    let k ← k.toNat?; let rc ← rc.toNat?; let sd ← sd.toNat?; let et ← et.toNat?; let ev ← ev.toNat?
    if k < 256 ∧ rc < 256 ∧ sd < 256 ∧ et < 256 ∧ ev < 256 then
      pure (if C02.spec ⟨k.toUInt8, rc.toUInt8, sd.toUInt8, et.toUInt8, ev.toUInt8, pl⟩ bs then "pass" else "fail")
    else none
  | _ => none

def ip4Of : List Byte → Option IP4
  | [a, b, c, d] => some ⟨a, b, c, d⟩
  | _ => none

def flagOf (w : String) : Option Bool :=
  if w = "1" then some true else if w = "0" then some false else none

def byteOfWord (w : String) : Option Byte := do
  let n ← w.toNat?
  if n < 256 then some n.toUInt8 else none

def showFlag (b : Bool) : String := if b then "1" else "0"

def showNet (n : NetInfo) : String :=
  s!"{hexOfBytes (n.eth.ip.bytes ++ n.eth.netmask.bytes ++ n.eth.gateway.bytes)} {showFlag n.eth.status} " ++
  s!"{hexOfBytes (n.wlan.ip.bytes ++ n.wlan.netmask.bytes ++ n.wlan.gateway.bytes)} {showFlag n.wlan.status} " ++
  s!"{showHex n.wlan.ssid} {n.wlan.encryption.toNat} {n.wlan.signal.toNat} {showFlag n.server}"

def showVersion (v : VersionInfo) : String :=
  s!"{v.a} {v.b} {v.c} {showHex v.structTag} {v.structVersion} {showHex v.deviceId} {showHex v.processorSignature}"

def parsePyFrame : List String → Option (PyFrame String)
  | [cls, rc, sd, et, ev, m, d] => do
    let cls ← cls.toNat?
    let rc ← rc.toInt?; let sd ← sd.toInt?; let et ← et.toInt?; let ev ← ev.toInt?
    let m ← if m = "_" then some none else (parseHex m).map some
    pure ⟨cls, rc, sd, et, ev, m, if d = "_" then none else some d⟩
  | _ => none

def showPyFrame (x : PyFrame String) : String :=
  s!"{x.cls} {x.rcpt} {x.sender} {x.etype} {x.ever} " ++
  (match x.message with | none => "_" | some m => showHex m) ++ " " ++ (x.data.getD "_")

def codecOps : List String → Option String
  | ["net", "enc", eth, est, wlan, wst, ssid, enc, sig, srv] => do
    let e ← parseHex eth; let w ← parseHex wlan; let ssid ← parseHex ssid
    let eip ← ip4Of (e.take 4); let em ← ip4Of ((e.drop 4).take 4); let eg ← ip4Of (e.drop 8)
    let wip ← ip4Of (w.take 4); let wm ← ip4Of ((w.drop 4).take 4); let wg ← ip4Of (w.drop 8)
    let est ← flagOf est; let wst ← flagOf wst; let srv ← flagOf srv
    let enc ← byteOfWord enc; let sig ← byteOfWord sig
    pure (match Net.encode ⟨⟨eip, em, eg, est⟩, ⟨wip, wm, wg, wst, ssid, enc, sig⟩, srv⟩ with
      | some m => showHex m | none => "none")
  | ["net", "dec", h] => do
    let m ← parseHex h
    pure (match Net.decode m with | some n => showNet n | none => "none")
  | ["ver", "enc", a, b, c, tag, sv, dev, sig, sender] => do
    let a ← a.toNat?; let b ← b.toNat?; let c ← c.toNat?; let sv ← sv.toNat?; let sender ← sender.toNat?
    let tag ← parseHex tag; let dev ← parseHex dev; let sig ← parseHex sig
    pure (match Version.encode ⟨a, b, c, tag, sv, dev, sig⟩ sender with
      | some m => showHex m | none => "none")
  | ["ver", "dec", h] => do
    let m ← parseHex h
    pure (match Version.decode m with | some v => showVersion v | none => "none")
  | "pyeq" :: ws =>
    if ws.length = 14 then do
      let x ← parsePyFrame (ws.take 7); let y ← parsePyFrame (ws.drop 7)
      pure (if PyFrame.pyEq x y then "true" else "false")
    else none
  | "pyfill" :: which :: v :: ws => do
    let x ← parsePyFrame ws
    if which = "m" then do
      let m ← parseHex v
      pure (showPyFrame (PyFrame.fillMessage m x))
    else if which = "d" then pure (showPyFrame (PyFrame.fillData v x))
    else none
  | _ => none

end PlumVerif

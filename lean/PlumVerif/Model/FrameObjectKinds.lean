import PlumVerif.Model.FrameObject
import PlumVerif.Generated.FrameKinds
/-
`create_message` of EVERY frame kind, selected through the generated table `Gen.frameKinds`
(one row per `FrameType` member: class, whether the class defines `create_message` /
`decode_message` itself).

  * a kind whose class has no `create_message` of its own inherits `Request.create_message` /
    `Response.create_message` = `bytearray()`: the data dict is ignored ENTIRELY;
  * the parameterised requests are named by `builderOf` (FrameType name ↦ builder); a builder
    reads only its documented keys (`Builder.keys`) from the dict (`Builder.create`);
  * the encodable responses (device available, program version, UID) go through `createFor`.

`payloadOfKind` is what `Frame.message` returns for a frame of the kind built from a data dict;
`C02.payloadOfKind_eq_createFor` shows it is the same function as the code-indexed `createFor`
of Model/FrameObject.lean for all 33 rows.
-/
namespace PlumVerif.Req

/-- the payload builders of the parameterised requests the statement names -/
inductive Builder
  | range          -- [count, start]: ecoMAX / mixer / thermostat parameters request
  | alerts         -- [start, count]
  | setEcomax      -- [index, value]
  | setMixer       -- [mixer index, index, value]
  | setThermostat  -- [index + offset] ++ LE(value, size)
  | control        -- [on/off value]
  | schedule       -- [1, kind, switch, parameter] ++ bitmap
deriving Repr, DecidableEq

/-- which builder a frame kind (FrameType name) uses; `none` = not a parameterised request -/
def builderOf (name : String) : Option Builder :=
  if name = "REQUEST_ECOMAX_PARAMETERS" ∨ name = "REQUEST_MIXER_PARAMETERS"
      ∨ name = "REQUEST_THERMOSTAT_PARAMETERS" then some .range
  else if name = "REQUEST_ALERTS" then some .alerts
  else if name = "REQUEST_SET_ECOMAX_PARAMETER" then some .setEcomax
  else if name = "REQUEST_SET_MIXER_PARAMETER" then some .setMixer
  else if name = "REQUEST_SET_THERMOSTAT_PARAMETER" then some .setThermostat
  else if name = "REQUEST_ECOMAX_CONTROL" then some .control
  else if name = "REQUEST_SET_SCHEDULE" then some .schedule
  else none

/-- the documented keys of a builder: the ONLY keys of the data dict it may read -/
def Builder.keys : Builder → List String
  | .range => ["count", "start"]
  | .alerts => ["start", "count"]
  | .setEcomax => ["index", "value"]
  | .setMixer => ["device_index", "index", "value"]
  | .setThermostat => ["index", "value", "offset", "size"]
  | .control => ["value"]
  | .schedule => ["type", "switch", "parameter", "schedule"]

/-- `data[k]` used as a schedule-kind name / as a week of slots -/
def strAt (d : Dict) (k : String) : Except ObjErr (Option String) :=
  match d.get k with
  | Option.none => .ok Option.none
  | some (.str s) => .ok (some s)
  | some _ => .error .type

def schedAt (d : Dict) (k : String) : Except ObjErr (Option (List (List Bool))) :=
  match d.get k with
  | Option.none => .ok Option.none
  | some (.sched s) => .ok (some s)
  | some _ => .error .type

/-- `create_message(data)` of the builder: the payload functions of Model/Requests.lean applied to
the documented keys of the dict -/
def Builder.create (b : Builder) (d : Dict) : Except ObjErr (List Byte) :=
  match b with
  | .range => do liftBuild (rangePayload (← d.int? "count") (← d.int? "start"))
  | .alerts => do liftBuild (alertsPayload (← d.int? "start") (← d.int? "count"))
  | .setEcomax => do liftBuild (setEcomaxPayload (← d.int? "index") (← d.int? "value"))
  | .setMixer => do
    liftBuild (setMixerPayload (← d.int? "device_index") (← d.int? "index") (← d.int? "value"))
  | .setThermostat => do
    liftBuild (setThermostatPayload (← d.int? "index") (← d.int? "value") (← d.offset?) (← d.int? "size"))
  | .control => do liftBuild (controlPayload (← d.int? "value"))
  | .schedule => do
    let t ← strAt d "type"
    let s ← schedAt d "schedule"
    liftBuild (schedulePayload t (← d.int? "switch") (← d.int? "parameter") s)

/-- `Frame.message` of a frame of kind `k` built from the data dict `d` (header sender `sender`,
package version `sw`): empty when the class has no encoder of its own, whatever `d` holds -/
def payloadOfKind (sw : Nat × Nat × Nat) (k : Gen.FrameKind) (sender : Int) (d : Dict) :
    Except ObjErr (List Byte) :=
  if k.hasCreate then
    match builderOf k.name with
    | some b => b.create d
    | none => createFor sw k.code sender d
  else .ok []

/-- the frame-type codes for which the code-indexed `createFor` of Model/FrameObject.lean has an encoder branch -/
def encoderCodes : List Nat := [49, 50, 92, 61, 51, 52, 93, 59, 55, 176, 192]

/-- a table row agrees with `createFor`'s dispatch: a kind with a builder has an encoder and the code of that builder's
branch; any other kind without an encoder has none of `createFor`'s encoder codes -/
def rowAgrees (k : Gen.FrameKind) : Bool :=
  match builderOf k.name with
  | some .range => k.hasCreate && (k.code == 49 || k.code == 50 || k.code == 92)
  | some .alerts => k.hasCreate && k.code == 61
  | some .setEcomax => k.hasCreate && k.code == 51
  | some .setMixer => k.hasCreate && k.code == 52
  | some .setThermostat => k.hasCreate && k.code == 93
  | some .control => k.hasCreate && k.code == 59
  | some .schedule => k.hasCreate && k.code == 55
  | none => k.hasCreate || !encoderCodes.contains k.code

/-- the table row of a kind, by FrameType name -/
def kindNamed (name : String) : Option Gen.FrameKind := Gen.frameKinds.find? (·.name == name)

/-- the frame-object codec of a table row (only the encoding half is used by `message`, `bytes`, `len`) -/
def codecOfKind (sw : Nat × Nat × Nat) (k : Gen.FrameKind) : FrameCodec Dict :=
  ⟨payloadOfKind sw k, fun _ => .ok [], []⟩

end PlumVerif.Req

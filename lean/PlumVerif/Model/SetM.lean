import PlumVerif.Generated.Consts
/-
C08 — executable model of `Parameter.set` / `Parameter.update`
(pyplumio/helpers/parameter.py, after fix f71a033) at the granularity
"one external event, then run the loop to quiescence".

    async def set(self, value, retries=5, timeout=5.0):
        if (value := normalize(value)) == self.values.value: return True
        if value < min or value > max: raise ValueError
        self._previous_value = self._values.value
        self._values.value = value
        self._pending_update = True
        while self.pending_update:
            if retries <= 0: return False
            self._values.value = value                                   # re-assert (f71a033)
            await self.device.queue.put(await self.create_request())     # value captured when create_request() starts
            if not self.is_tracking_changes: await self.force_refresh()  # second construction + put
            await asyncio.sleep(timeout)
            retries -= 1
        return True

    def update(self, values):
        if self.pending_update and self._previous_value != values.value: self._pending_update = False
        self._values = values

Request construction (`Request.create` → `run_in_executor`) is a suspension point when the
executor does not answer synchronously (`hold = true`): the `built` event resumes it.
Time is an explicit `Nat` (milliseconds).  The machine owns the clock: `wait d` advances it
(never up to the pending wake-up: ties are excluded), `timer` jumps to the wake-up time.
Import-free apart from the generated constants.
-/
namespace PlumVerif.SetM

structure Triple where
  value : Nat
  min : Nat
  max : Nat
deriving Repr, DecidableEq, Inhabited

inductive Phase
  | idle          -- set() not called yet
  | buildSet      -- suspended in create_request()
  | buildRefresh  -- suspended in create_refresh_request()
  | sleeping      -- in asyncio.sleep(timeout)
  | done          -- set() has returned / raised
deriving Repr, DecidableEq, Inhabited

structure St where
  loc : Triple        -- `_values`
  prev : Nat          -- `_previous_value`
  pending : Bool      -- `_pending_update`
  req : Nat           -- local `value` of set()
  cap : Nat           -- value captured by the request under construction
  retries : Nat       -- local `retries` of set()
  timeout : Nat       -- local `timeout` of set(), ms
  phase : Phase
  tracking : Bool     -- `is_tracking_changes` (device.has_frame_version(<parameters request>)), evaluated once per attempt
  hold : Bool         -- request construction suspends (executor held by the harness)
  now : Nat           -- virtual clock, ms
  wake : Nat          -- due time of the pending sleep
deriving Repr, Inhabited

inductive Ev
  | call (v r T : Nat)   -- `set(v, retries=r, timeout=T ms)`
  | built                -- the executor answers: request construction resumes
  | report (t : Triple)  -- controller report for this parameter reaches `update`
  | wait (d : Nat)       -- the clock advances by `d` ms without reaching the wake-up time
  | timer                -- the clock jumps to the wake-up time, the sleep ends
  | setTracking (b : Bool)  -- `device.has_frame_version(<parameters request>)` becomes b (a frame-versions announcement)
deriving Repr, DecidableEq, Inhabited

inductive Out
  | txSet (v t : Nat)    -- set request carrying raw value `v` put on the write queue at `t`
  | txRefresh (t : Nat)  -- re-read request put on the write queue at `t`
  | ret (b : Bool) (t : Nat)
  | raise (t : Nat)      -- ValueError
deriving Repr, DecidableEq, Inhabited

def goSleep (s : St) : St := { s with phase := .sleeping, wake := s.now + s.timeout }

/-- `self._values.value = value` and the value captured by `create_request()` when it starts -/
def attempt (s : St) : St :=
  { s with loc := { s.loc with value := s.req }, cap := s.req }

/-- top of the `while` loop.  With a synchronous executor nothing suspends before the sleep:
the set request (and, when versions are not tracked, the re-read request) is queued at once. -/
def loopTop (s : St) : St × List Out :=
  if !s.pending then ({ s with phase := .done }, [.ret true s.now])
  else if s.retries = 0 then ({ s with phase := .done }, [.ret false s.now])
  else if s.hold then ({ attempt s with phase := .buildSet }, [])
  else if s.tracking then (goSleep (attempt s), [.txSet (attempt s).cap s.now])
  else (goSleep (attempt s), [.txSet (attempt s).cap s.now, .txRefresh s.now])

def update (s : St) (t : Triple) : St :=
  { s with pending := if s.pending && s.prev != t.value then false else s.pending, loc := t }

def step (s : St) : Ev → St × List Out
  | .call v r T =>
    if s.phase ≠ .idle then (s, [])
    else if v = s.loc.value then ({ s with phase := .done }, [.ret true s.now])
    else if v < s.loc.min ∨ v > s.loc.max then ({ s with phase := .done }, [.raise s.now])
    else loopTop { s with prev := s.loc.value, loc := { s.loc with value := v }, pending := true,
                          req := v, retries := r, timeout := T }
  | .built =>
    match s.phase with
    | .buildSet =>     -- the set request is queued; `if not self.is_tracking_changes: await self.force_refresh()`
      if s.tracking then (goSleep s, [.txSet s.cap s.now])
      else if s.hold then ({ s with phase := .buildRefresh }, [.txSet s.cap s.now])
      else (goSleep s, [.txSet s.cap s.now, .txRefresh s.now])
    | .buildRefresh => (goSleep s, [.txRefresh s.now])
    | _ => (s, [])
  | .report t => (update s t, [])
  | .wait d =>
    if s.phase = .sleeping ∧ s.wake ≤ s.now + d then (s, []) else ({ s with now := s.now + d }, [])
  | .timer =>
    if s.phase ≠ .sleeping then (s, [])
    else loopTop { s with now := s.wake, retries := s.retries - 1 }
  | .setTracking b => ({ s with tracking := b }, [])   -- read again at every attempt, after the set request is queued

/-- final state and all outputs, in order -/
def run (s : St) : List Ev → St × List Out
  | [] => (s, [])
  | e :: es => let r := step s e; let r' := run r.1 es; (r'.1, r.2 ++ r'.2)

/-- outputs grouped per event (what the harness compares) -/
def runGroups (s : St) : List Ev → List (List Out)
  | [] => []
  | e :: es => let r := step s e; r.2 :: runGroups r.1 es

/-- the outputs, each tagged with the value `is_tracking_changes` has during the step that produced it -/
def tagged (s : St) : List Ev → List (Out × Bool)
  | [] => []
  | e :: es => (step s e).2.map (fun o => (o, (step s e).1.tracking)) ++ tagged (step s e).1 es

def init (loc : Triple) (tracking hold : Bool) (now : Nat) : St :=
  { loc, prev := 0, pending := false, req := 0, cap := 0, retries := 0, timeout := 0,
    phase := .idle, tracking, hold, now, wake := 0 }

/-- one `set` call on an idle parameter followed by the history `es` -/
def trace (s0 : St) (v r T : Nat) (es : List Ev) : List Out :=
  (step s0 (.call v r T)).2 ++ (run (step s0 (.call v r T)).1 es).2

/-- `retries` as the loop sees it (`if retries <= 0: return False`): a negative budget is an exhausted budget.
(The statement of C08 speaks about "at most `retries`" transmissions, i.e. about budgets ≥ 0; the driver reads a
negative `retries` of a call token through this function.) -/
def budgetOf (r : Int) : Nat := r.toNat

/-- defaults of `Parameter.set` as read from the source by the translator -/
def defaultRetries : Nat := Gen.parameterSetRetries
def defaultTimeoutMs : Nat := Gen.parameterSetTimeoutMs

/- projections of an output list used by the property statements -/
def txVals : List Out → List Nat
  | [] => []
  | .txSet v _ :: r => v :: txVals r
  | _ :: r => txVals r

def txTimes : List Out → List Nat
  | [] => []
  | .txSet _ t :: r => t :: txTimes r
  | _ :: r => txTimes r

/-- `true` for a set request, `false` for a re-read request -/
def txKinds : List Out → List Bool
  | [] => []
  | .txSet _ _ :: r => true :: txKinds r
  | .txRefresh _ :: r => false :: txKinds r
  | _ :: r => txKinds r

def Out.isFinal : Out → Bool
  | .ret _ _ => true
  | .raise _ => true
  | _ => false

end PlumVerif.SetM

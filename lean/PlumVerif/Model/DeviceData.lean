import PlumVerif.Model.DecodeRegdata
import PlumVerif.Model.DecodeParams
import PlumVerif.Model.Versions
/-
C05 (extension) — what a sensor-data / regulator-data / schema / thermostat-parameters frame does
to the OWNING DEVICE: `EcoMAX.handle_frame` → `dispatch_nowait(name, value)` per top-level key →
the subscribed callbacks of devices/ecomax.py, mixer.py, thermostat.py → `device.data[name]`.

Modelled (after the loop is quiescent; dicts are unordered here, `assocSet` keeps some order):
  * `sensors` → `_handle_ecomax_sensors`: one event per sensor name, the callback returns True,
    so `data["sensors"]` becomes True;
  * `mixer_sensors` / `thermostat_sensors` → sub-devices created per index (`setdefault`), their
    sensor events, the ecoMAX-level value becomes True (non-empty) or False (empty);
  * `state` → value stored, `ecomax_control` switch (value = state != OFF, range 0..1);
  * `thermostats_available` is what the thermostat-PARAMETERS decoder later reads through
    `frame.handler` (structures/thermostat_parameters.py);
  * `regdata_schema` (schema response with at least one block) → held by the device, read by the
    regulator-data decoder; an empty schema response carries no key and changes nothing;
  * thermostat parameters → `thermostat_profile` number (or None), per-thermostat parameter objects
    by name (`THERMOSTAT_PARAMETERS[index].name`), values (value, min, max).
  * `frame_versions` → `update_frame_versions` (the C15 model `C15.process` on the decoded dict):
    when it raises (a known response / message code whose version is new) the dispatch of
    `frame_versions` dies, the key is not stored, and -- inside a sensor data frame -- the
    enclosing `sensors` dispatch dies with it (`data["sensors"]` is not set; the sibling sensor
    events are separate tasks and complete).
Not modelled here: the request queue itself (C15), `fuel_burned` (clock dependent),
parameter objects' scaling / set path (C06-C08, C17).  A frame whose payload does not decode
raises inside `handle_frame` before anything is dispatched: the state is unchanged (`none`).
-/
namespace PlumVerif
namespace DevD
open Wire

/-- `d.get(k)` -/
def assocGet {α : Type} : List (String × α) → String → Option α
  | [], _ => none
  | (k', v) :: r, k => if k' == k then some v else assocGet r k

def subGet (subs : List (Nat × VFields)) (i : Nat) : VFields :=
  match subs.lookup i with
  | some fs => fs
  | none => []

/-- `subs.setdefault(i, new)` then update its data -/
def subSet : List (Nat × VFields) → Nat → VFields → List (Nat × VFields)
  | [], i, fs => [(i, fs)]
  | (j, gs) :: r, i, fs => if j == i then (j, fs) :: r else (j, gs) :: subSet r i fs

structure Dev where
  data : VFields                       -- EcoMAX.data without the sub-device dicts
  mixers : List (Nat × VFields)        -- data["mixers"][i].data
  thermostats : List (Nat × VFields)   -- data["thermostats"][i].data
  schema : List (Nat × Regd.Ty)        -- data["regdata_schema"] as wire types
  ver : C15.St                         -- `_frame_versions` / `frame_errors` (C15 model)
  raised : Bool                        -- transient: a callback raised while handling the current frame

def Dev.init : Dev := ⟨[], [], [], [], C15.init, false⟩

def Dev.set (d : Dev) (k : String) (v : Val) : Dev := { d with data := assocSet d.data k v }

/-- `{index: {name: value}}` as decoded -/
def entriesOf : Val → List (Nat × VFields)
  | .list l => l.filterMap fun e =>
      match e with
      | .list [.int i, .record fs] => some (i.toNat, fs)
      | _ => none
  | _ => []

/-- `sub.dispatch(marker, fields)`: every field becomes an event of the sub-device, the callback
returns True -/
def subDispatch (subs : List (Nat × VFields)) (marker : String) (e : Nat × VFields) : List (Nat × VFields) :=
  subSet subs e.1 (assocSet (assocMerge (subGet subs e.1) e.2) marker (Val.bool true))

/-- a parameter object, seen through its values -/
def paramVal (t : P2.Triple) : Val :=
  Val.record [("value", Val.nat t.1), ("min", Val.nat t.2.1), ("max", Val.nat t.2.2)]

/-- `mode != DeviceState.OFF` -/
def controlOf : Val → Nat
  | .int i => if i == 0 then 0 else 1
  | _ => 1

/-- the `frame_versions` dict of a decoded message, in dict order -/
def versionsOfVal : Val → Option (List (Nat × Nat))
  | .list l => l.mapM fun e =>
      match e with
      | .list [.int k, .int v] => some (k.toNat, v.toNat)
      | _ => none
  | _ => none

/-- `dispatch("frame_versions", versions)`: the C15 callback walks the dict; if it raises the value
is not stored -/
def dispatchVersions (d : Dev) (v : Val) : Dev :=
  let r := C15.process d.ver ((versionsOfVal v).getD [])
  if r.raised then { d with ver := r.st, raised := true }
  else ({ d with ver := r.st }).set "frame_versions" v

/-- one `dispatch(name, value)` of `_handle_ecomax_sensors` -/
def stepField (d : Dev) (kv : String × Val) : Dev :=
  if kv.1 == "mixer_sensors" then
    let es := entriesOf kv.2
    if es.isEmpty then d.set kv.1 (Val.bool false)
    else ({ d with mixers := es.foldl (fun s e => subDispatch s "mixer_sensors" e) d.mixers }).set kv.1 (Val.bool true)
  else if kv.1 == "thermostat_sensors" then
    let es := entriesOf kv.2
    if es.isEmpty then d.set kv.1 (Val.bool false)
    else ({ d with thermostats := es.foldl (fun s e => subDispatch s "thermostat_sensors" e) d.thermostats }).set kv.1 (Val.bool true)
  else if kv.1 == "state" then
    (d.set kv.1 kv.2).set "ecomax_control" (paramVal (controlOf kv.2, 0, 1))
  else if kv.1 == "frame_versions" then dispatchVersions d kv.2
  else d.set kv.1 kv.2

/-- `_handle_ecomax_sensors` returns True (stored as the value of `sensors`) unless one of the
gathered dispatches raised -/
def handleSensorFields (d : Dev) (fs : VFields) : Dev :=
  let d1 := fs.foldl stepField { d with raised := false }
  if d1.raised then d1 else d1.set "sensors" (Val.bool true)

/-- SensorDataMessage handled by the device -/
def handleSensor (d : Dev) (msg : List Byte) : Option Dev :=
  match Sens.decodeSensorData msg with
  | some (.record [(_, .record fs)]) => some (handleSensorFields d fs)
  | _ => none

/-- `device.get_nowait(ATTR_THERMOSTATS_AVAILABLE, 0)` -/
def thermostatCount (d : Dev) : Nat :=
  match assocGet d.data "thermostats_available" with
  | some (.int n) => n.toNat
  | _ => 0

def thermoName (i : Nat) : String := ((Gen.thermostat[i]?).map (·.name)).getD "?"

def thermoParamFields (ps : P2.Params) : VFields := ps.map fun it => (thermoName it.1, paramVal it.2)

/-- what `_add_thermostat_profile_parameter` and `_handle_thermostat_parameters` leave behind -/
def applyThermo (d : Dev) : P2.ThermoVal → Dev
  | .unavailable => d.set "thermostat_parameters" (Val.bool false)
  | .val profile blocks =>
    let d1 := d.set "thermostat_profile" (match profile with | some t => paramVal t | none => Val.none)
    if blocks.isEmpty then d1.set "thermostat_parameters" (Val.bool false)
    else
      let ths := blocks.foldl
        (fun s b => subDispatch s "thermostat_parameters" (b.1, thermoParamFields b.2)) d1.thermostats
      ({ d1 with thermostats := ths }).set "thermostat_parameters" (Val.bool true)

/-- ThermostatParametersResponse handled by the device: the thermostat count is the device's -/
def handleThermo (d : Dev) (msg : List Byte) : Option Dev :=
  match P2.decodeThermo (some (thermostatCount d)) msg with
  | .ok (v, _) => some (applyThermo d v)
  | .error _ => none

/-- RegulatorDataSchemaResponse handled by the device -/
def handleSchema (d : Dev) (msg : List Byte) : Option Dev :=
  match Regd.decodeSchema msg with
  | some (.record [(k, v)], tys) => some ({ d with schema := tys }.set k v)
  | some (_, _) => some d          -- zero blocks: no key, nothing dispatched, an earlier schema stays
  | none => none

/-- RegulatorDataMessage handled by the device: decoded with the schema the device holds NOW -/
def handleRegdata (d : Dev) (msg : List Byte) : Option Dev :=
  match Regd.decodeRegdata d.schema msg with
  | some (.record fs) =>
    some (fs.foldl (fun acc kv => if kv.1 == "frame_versions" then dispatchVersions acc kv.2 else acc.set kv.1 kv.2)
      { d with raised := false })
  | _ => none

inductive Frame where
  | sensor (msg : List Byte)
  | thermo (msg : List Byte)
  | schema (msg : List Byte)
  | regdata (msg : List Byte)

def handle (d : Dev) : Frame → Option Dev
  | .sensor m => handleSensor d m
  | .thermo m => handleThermo d m
  | .schema m => handleSchema d m
  | .regdata m => handleRegdata d m

/-- a frame that does not decode leaves the device as it was -/
def step (d : Dev) (f : Frame) : Dev × Bool :=
  match handle d f with
  | some d' => (d', true)
  | none => (d, false)

def Dev.toVal (d : Dev) : Val :=
  Val.record [("data", Val.record d.data),
    ("mixers", Val.intDict (d.mixers.map fun s => (s.1, Val.record s.2))),
    ("thermostats", Val.intDict (d.thermostats.map fun s => (s.1, Val.record s.2)))]

/-! ### frame versions as C15 consumes them (task 2) -/

def sensorVersions (msg : List Byte) : Option (List (Nat × Nat)) :=
  match Sens.decodeSensorData msg with
  | some (.record [(_, .record fs)]) => (assocGet fs "frame_versions").bind versionsOfVal
  | _ => none

def regdataVersions (msg : List Byte) : Option (List (Nat × Nat)) :=
  match Regd.decodeRegdata [] msg with
  | some (.record fs) =>
    match assocGet fs "frame_versions" with
    | some v => versionsOfVal v
    | none => some []       -- other regdata version: nothing decoded, nothing announced
  | _ => none

end DevD
end PlumVerif

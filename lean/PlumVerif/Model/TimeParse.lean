import PlumVerif.Model.Schedule
/-
`datetime.strptime(s, "%H:%M")` of CPython as a function on STRINGS (the trusted primitive behind
`_get_time_range` of pyplumio/helpers/schedule.py), including the un-padded spellings it accepts.

`_strptime` compiles the format to the regular expression
    (?P<H>2[0-3]|[0-1]\d|\d):(?P<M>[0-5]\d|\d)
matches it at the START of the string (`re.match`: ordered alternatives, backtracking) and raises
ValueError when it does not match or when the match does not end at the end of the string
("unconverted data remains" — no backtracking at that point: "12:000" and "7:60" are errors).
`\d` of a `str` pattern also matches non-ASCII decimal digits (category Nd): on a string with a
non-ASCII character the specification DECLINES (`none`) — never a guess.  On ASCII strings it is
exact; validated against CPython exhaustively over all digit strings of the shapes d:d, d:dd, dd:d,
dd:dd and on the harness's malformed / oddly written times (harness/c18.py, driver op `s.parse`).
-/
namespace PlumVerif.Sched

def isDigit (c : Char) : Bool := '0' ≤ c ∧ c ≤ '9'
def digitVal (c : Char) : Nat := c.toNat - '0'.toNat

/-- the minute group and the end-of-string test: `[0-5]\d` first, else `\d`; then nothing may remain -/
def parseMinute : List Char → Option Nat
  | [a, b] => if isDigit a ∧ a ≤ '5' ∧ isDigit b then some (digitVal a * 10 + digitVal b) else none
  | [a] => if isDigit a then some (digitVal a) else none
  | _ :: _ :: _ :: _ => none   -- a two- or one-character minute may match: data remains either way
  | [] => none

/-- the hour group followed by the colon: `2[0-3]`, `[0-1]\d`, then `\d`; answers the hour and what follows the colon -/
def parseHour : List Char → Option (Nat × List Char)
  | a :: b :: ':' :: r =>
    if (a = '2' ∧ '0' ≤ b ∧ b ≤ '3') ∨ (('0' ≤ a ∧ a ≤ '1') ∧ isDigit b) then some (digitVal a * 10 + digitVal b, r) else none
  | a :: ':' :: r => if isDigit a then some (digitVal a, r) else none
  | _ => none

/-- `strptime(s, "%H:%M")` on the characters of an ASCII string: hour and minute, or `bad` (ValueError) -/
def parseChars (cs : List Char) : TimeArg :=
  match parseHour cs with
  | some (h, r) =>
    match parseMinute r with
    | some m => .hm h m
    | none => .bad
  | none => .bad

/-- `none` = declined (a non-ASCII character: `\d` is Unicode-aware) -/
def parseTime (s : String) : Option TimeArg :=
  if s.toList.all (fun c => c.toNat < 128) then some (parseChars s.toList) else none

/-- `ScheduleDay.set_state(state, start, end)` on time STRINGS -/
def setStateStr (day : List Bool) (state : String) (s e : String) : Option (List Bool × Outcome) :=
  match parseTime s, parseTime e with
  | some a, some b => some (setState day state a b)
  | _, _ => none

/-- the spellings of hour `h`, minute `m` that the format accepts: each number with or without its leading zero -/
def digitChar (n : Nat) : Char := Char.ofNat ('0'.toNat + n)
def two (n : Nat) : List Char := [digitChar (n / 10), digitChar (n % 10)]
def short (n : Nat) : List Char := if n < 10 then [digitChar n] else two n
def spellings (h m : Nat) : List (List Char) :=
  [two h ++ ':' :: two m, short h ++ ':' :: two m, two h ++ ':' :: short m, short h ++ ':' :: short m]

end PlumVerif.Sched

import PlumVerif.Model.Response
import PlumVerif.Model.FrameDriver
/- line-protocol front end: `respond <kind> <rc> <sd> <et> <ev> <payload hex>` -> bytes of the answer | none -/
namespace PlumVerif.Resp
open PlumVerif

def respOps : List String → Option String
  | ["respond", k, rc, sd, et, ev, p] => do
    let pl ← parseHex p
    let k ← k.toNat?; let rc ← rc.toNat?; let sd ← sd.toNat?; let et ← et.toNat?; let ev ← ev.toNat?
    if k < 256 ∧ rc < 256 ∧ sd < 256 ∧ et < 256 ∧ ev < 256 ∧ pl.length + 10 < 65536 then
      match respond ⟨k.toUInt8, rc.toUInt8, sd.toUInt8, et.toUInt8, ev.toUInt8, []⟩ pl with
      | some f => pure (showHex (encode f))
      | none => pure "none"
    else none
  | _ => none

end PlumVerif.Resp

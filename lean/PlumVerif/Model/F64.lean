/-
Exact model of the IEEE-754 binary64 arithmetic CPython performs on the computed floats of
the display <-> raw scaling (C17, C06).  Import-free (core Lean only).

A finite double is represented by an exact rational `num/den` (`den > 0`, not normalised).
Every operation computes the exact rational result and rounds it to the nearest
representable double, ties to even (`rne`): 53 significant bits in the normal range,
multiples of 2^-1074 below it (gradual underflow).  Overflow to infinity is NOT modelled
(inputs of the properties are far below 2^1023).

`pyround x p` is CPython's `round(float, p)` for `p >= 0`: `float_round` -> `double_round`
uses `_Py_dg_dtoa(x, 3, p)`, i.e. the decimal string with `p` fractional digits that is
correctly rounded (half-even on the EXACT binary value), then `_Py_dg_strtod`, which is the
correctly rounded double of that decimal.
-/
namespace PlumVerif.F64

structure Q where
  num : Int
  den : Nat
deriving Repr, DecidableEq, Inhabited

namespace Q
def mul (a b : Q) : Q := ⟨a.num * b.num, a.den * b.den⟩
def add (a b : Q) : Q := ⟨a.num * b.den + b.num * a.den, a.den * b.den⟩
/-- `a / b` for `b ≠ 0` (the sign is moved to the numerator) -/
def div (a b : Q) : Q :=
  if b.num < 0 then ⟨-(a.num * b.den), a.den * b.num.natAbs⟩ else ⟨a.num * b.den, a.den * b.num.natAbs⟩
def ofInt (i : Int) : Q := ⟨i, 1⟩
/-- `a ≤ b` for fractions with positive denominators -/
def le (a b : Q) : Bool := decide (a.num * b.den ≤ b.num * a.den)
/-- value equality of two fractions with positive denominators -/
def eqv (a b : Q) : Bool := a.num * b.den == b.num * a.den
end Q

/-- round-half-even of the non-negative rational `n/d` to an integer -/
def rhe (n d : Nat) : Nat :=
  let q := n / d
  let r := n % d
  if 2 * r < d then q else if 2 * r > d then q + 1 else if q % 2 = 0 then q else q + 1

/-- the fraction `m · 2^(-k)` -/
def scaled2 (k : Int) (m : Nat) : Q := if k ≥ 0 then ⟨m, 2 ^ k.toNat⟩ else ⟨m * 2 ^ (-k).toNat, 1⟩

/-- nearest double (ties to even) of the non-negative rational `n/d`, `d > 0` -/
def rneNat (n d : Nat) : Q :=
  if n = 0 then ⟨0, 1⟩ else
  let ln := Nat.log2 n
  let ld := Nat.log2 d
  -- find k with 2^52 ≤ n·2^k/d < 2^53 (k may be negative); first guess from the bit lengths
  let k0 : Int := 52 - ((ln : Int) - (ld : Int))
  let scaled (k : Int) : Nat × Nat := if k ≥ 0 then (n * 2 ^ k.toNat, d) else (n, d * 2 ^ (-k).toNat)
  let (a0, b0) := scaled k0
  let k1 : Int := if a0 / b0 ≥ 2 ^ 53 then k0 - 1 else if a0 / b0 < 2 ^ 52 then k0 + 1 else k0
  -- gradual underflow: the spacing of doubles never gets finer than 2^-1074
  let k : Int := if k1 > 1074 then 1074 else k1
  let (a, b) := scaled k
  scaled2 k (rhe a b)

def rne (q : Q) : Q :=
  if q.num < 0 then let r := rneNat q.num.natAbs q.den; ⟨-r.num, r.den⟩ else rneNat q.num.natAbs q.den

/-- Python `int -> float` conversion (correctly rounded) -/
def ofIntF (i : Int) : Q := rne (Q.ofInt i)

def fmul (a b : Q) : Q := rne (a.mul b)
def fadd (a b : Q) : Q := rne (a.add b)
def fdiv (a b : Q) : Q := rne (a.div b)

/-- Python `round(x, p)` on a float, `p ≥ 0` -/
def pyround (x : Q) (p : Nat) : Q :=
  let s := 10 ^ p
  let n := rhe (x.num.natAbs * s) x.den
  let r := rneNat n s
  if x.num < 0 then ⟨-r.num, r.den⟩ else r

/-- Python `int(float)`: truncation toward zero -/
def trunc (x : Q) : Int :=
  if x.num < 0 then -((x.num.natAbs / x.den : Nat) : Int) else ((x.num.natAbs / x.den : Nat) : Int)

end PlumVerif.F64

import PlumVerif.Model.TimeParse
import PlumVerif.Model.ScheduleDriver
/- line-protocol front end for the `%H:%M` specification: `s.parse <hex of the UTF-8 bytes>` -> `H:M` | `x` | `declined` -/
namespace PlumVerif
open PlumVerif.Sched

def timeParseOps : List String → Option String
  | ["s.parse", h] => do
    let s ← parseState h
    match parseTime s with
    | none => pure "declined"
    | some .bad => pure "x"
    | some (.hm h m) => pure s!"{h}:{m}"
  | ["s.setstr", day, st, a, b] => do
    let day ← parseBits day; let st ← parseState st; let a ← parseState a; let b ← parseState b
    match setStateStr day st a b with
    | none => pure "declined"
    | some r => pure s!"{showBits r.1} {r.2.tag}"
  | _ => none

end PlumVerif

import PlumVerif.Model.Producer
import PlumVerif.Model.FrameDriver
/- line-protocol front end for the producer machine

  prod <mode e|s> <fixed 0|1> <q> <stream hex> <cyc> …
      mode: e = the stream is followed by end of stream, s = by silence (reader timeout)
      q:    initial write queue, ids separated by "," or "-"
      cyc:  <puts>/<disc 0|1>/<wr ok|os|to>   one per loop cycle (missing ones: nothing put, no
            disconnect, write ok)
      -> one snapshot per quiescent point k = 0, 1, … (the loop parked in its k-th read(), or ended;
         nothing is printed after the loop has ended), separated by " ; ":
           sent enq unf wq run stop loss reads logged
         (sent: - | id:o|e|t,…; stop: - | readLost | readTimeout | writeError | writeTimeout | disconnected)
         followed by " | " and the frames on the read queue at the end
         (kind.rcpt.sender.etype.ever.payloadhex separated by ",", or "-")
-/
namespace PlumVerif.Producer

def WOut.tag : WOut → String
  | .ok => "o"
  | .osError => "e"
  | .timeout => "t"

def Stop.tag : Stop → String
  | .readLost => "readLost"
  | .readTimeout => "readTimeout"
  | .writeError => "writeError"
  | .writeTimeout => "writeTimeout"
  | .disconnected => "disconnected"

def showSt (s : St) : String :=
  let sent := if s.sent.isEmpty then "-" else String.intercalate "," (s.sent.map fun p => s!"{p.1}:{p.2.tag}")
  let stop := match s.stop with | some r => r.tag | none => "-"
  s!"{sent} {s.readQ.length} {s.wUnfinished} {s.writeQ.length} {if s.running then 1 else 0} {stop} {s.lossScheduled} {s.reads} {s.logged}"

def showFields (f : Fields) : String :=
  s!"{f.kind.toNat}.{f.rcpt.toNat}.{f.sender.toNat}.{f.etype.toNat}.{f.ever.toNat}.{showHex f.payload}"

def parseIds (w : String) : Option (List Nat) :=
  if w = "-" then some [] else (w.splitOn ",").mapM String.toNat?

def parseCyc (w : String) : Option Cyc :=
  match w.splitOn "/" with
  | [p, d, o] => do
    let puts ← parseIds p
    let disc ← if d = "1" then some true else if d = "0" then some false else none
    let wr ← match o with
      | "ok" => some WOut.ok | "os" => some WOut.osError | "to" => some WOut.timeout | _ => none
    pure { puts, disc, wr }
  | _ => none

/-- states at the quiescent points 0, 1, …, up to and including the first one at which the loop has ended -/
def snapshots (fixed : Bool) (q : List Nat) (script : List Cyc) (rds : List ROut) : List St :=
  let all := (List.range (rds.length + 1)).map fun k => run fixed (init q) script (rds.take k)
  let live := all.takeWhile (·.running)
  live ++ (all.drop live.length).take 1

def producerOps : List String → Option String
  | "prod" :: mode :: fixed :: q :: stream :: cycs => do
    let mode ← if mode = "e" then some EndMode.eof else if mode = "s" then some EndMode.silence else none
    let fixed ← if fixed = "1" then some true else if fixed = "0" then some false else none
    let q ← parseIds q
    let bytes ← parseHex stream
    let script ← cycs.mapM parseCyc
    let rds := readsOf mode bytes
    let snaps := snapshots fixed q script rds
    let final := run fixed (init q) script rds
    let enq := if final.readQ.isEmpty then "-" else String.intercalate "," (final.readQ.map showFields)
    pure (String.intercalate " ; " (snaps.map showSt) ++ " | " ++ enq)
  | _ => none

end PlumVerif.Producer

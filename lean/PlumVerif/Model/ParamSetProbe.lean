import PlumVerif.Model.ParamSet
import PlumVerif.Model.SetM
import PlumVerif.Generated.ParamProbe
/-
Reading of the probe tables the translator extracts from the real parameter classes
(`Generated/ParamProbe.lean`, tools/gen_tables.py `_param_probes`): which conversion code a class NAME stands for (the
only hand-written knowledge about the classes), the requested Python value, the outcome — and the predicates
"the model answers this probe row as the class did", for the front of `set()` (`ParamSet.decide`), the normalisation
(`Scaling.toRaw`), and the call + report chain (`ParamSet.stepM` / `update`, `SetM.step`).
-/
namespace PlumVerif.ParamProbe
open PlumVerif.Scaling PlumVerif.ParamSet

/-- the `set` / `value` code a parameter class runs -/
def clsOf (name : String) : Option Cls :=
  if name = "EcomaxNumber" ∨ name = "MixerNumber" then some .scaledOff
  else if name = "ThermostatNumber" then some .scaled
  else if name = "Number" ∨ name = "ScheduleNumber" then some .plain
  else if name = "Switch" ∨ name = "EcomaxSwitch" ∨ name = "MixerSwitch" ∨ name = "ThermostatSwitch" ∨ name = "ScheduleSwitch"
    then some .switch
  else none

def valOf (p : Gen.ProbeVal) : PyVal :=
  match p.kind with
  | 0 => .int p.a
  | 1 => .float ⟨p.a, p.b⟩
  | 2 => .bool (p.a == 1)
  | _ => .str p.s

def outcomeOf (r : Gen.SetProbe) : Option Outcome :=
  match r.outcome with
  | 0 => some .noop
  | 1 => some .reject
  | 2 => some (.transmit r.raw)
  | 3 => some .typeError
  | _ => none

/-- class of the `i`-th probed class NAME -/
def clsOfIdx (i : Nat) : Option Cls := (Gen.probeClasses[i]?).bind clsOf

def convOf (k : Cls) (r : Gen.SetProbe) : Conv := ⟨k, r.multNum, r.multDen, r.offset, r.precision⟩

/-- the front of `set()`: the model decides this probed call as the real class did -/
def agrees (k : Cls) (r : Gen.SetProbe) : Bool :=
  some (ParamSet.decide (convOf k r) ⟨r.value, r.min, r.max⟩ (valOf r.req)) == outcomeOf r

/-- the normalisation: what the real class turned the requested value into (on bounds that admit everything) -/
def rawAgrees (k : Cls) (r : Gen.SetProbe) : Bool :=
  match r.outcome, toRaw (convOf k r) (valOf r.req) with
  | 2, .ok raw => raw == r.raw
  | 3, .error .typeError => true
  | _, _ => false

/-- call + report chain on the report/set machine: the (accepted) call leaves the triple / pending flag the class had,
the report then clears the pending flag exactly when the class did and replaces the whole triple -/
def confirmAgrees (k : Cls) (r : Gen.ConfirmProbe) : Bool :=
  let c : Conv := ⟨k, 1, 1, 0, 0⟩
  let s0 : MState := { held := ⟨r.v0, r.lo0, r.hi0⟩ }
  let s1 := if r.called then
      (stepM c s0 (.set (if k = .switch then .bool (r.requested == 1) else .int r.requested) 2)).1
    else s0
  let s2 := (stepM c s1 (.report ⟨r.rv, r.rlo, r.rhi⟩)).1
  s1.held == ⟨r.v1, r.lo1, r.hi1⟩ && s1.pending == r.pendingBefore &&
  s2.held == ⟨r.v2, r.lo2, r.hi2⟩ && s2.pending == r.pendingAfter

/-- the same chain on the C08 machine `SetM` (raw values; the probe grid is non-negative) -/
def confirmAgreesSetM (r : Gen.ConfirmProbe) : Bool :=
  let s0 := SetM.init ⟨r.v0.toNat, r.lo0.toNat, r.hi0.toNat⟩ true false 0
  let s1 := if r.called then (SetM.step s0 (.call r.requested.toNat 2 1000000)).1 else s0
  let s2 := (SetM.step s1 (.report ⟨r.rv.toNat, r.rlo.toNat, r.rhi.toNat⟩)).1
  s1.loc == ⟨r.v1.toNat, r.lo1.toNat, r.hi1.toNat⟩ && s1.pending == r.pendingBefore &&
  s2.loc == ⟨r.v2.toNat, r.lo2.toNat, r.hi2.toNat⟩ && s2.pending == r.pendingAfter

def nonneg (r : Gen.ConfirmProbe) : Bool :=
  [r.v0, r.lo0, r.hi0, r.requested, r.v1, r.lo1, r.hi1, r.rv, r.rlo, r.rhi, r.v2, r.lo2, r.hi2].all (fun x => decide (0 ≤ x))

/-- a predicate holds of every row, read with the class its class NAME stands for (the name is looked at once per class) -/
def allByClass {α : Type} (clsIdx : α → Nat) (rows : List α) (p : Cls → α → Bool) : Bool :=
  rows.all (fun r => decide (clsIdx r < Gen.probeClasses.length)) &&
  (List.range Gen.probeClasses.length).all fun i =>
    match clsOfIdx i with
    | none => false
    | some k => rows.all fun r => clsIdx r != i || p k r

end PlumVerif.ParamProbe

import PlumVerif.Model.DeviceData
/-
Line-protocol front end for the device-level model of C05.
  c05d-run <frame>*     frame = S:<hex> (sensor data) | T:<hex> (thermostat parameters)
                              | K:<hex> (regulator data schema) | R:<hex> (regulator data)
      -> one token per frame: `1<json of the device state>` (handled) or `0<json>` (payload does not
         decode: state unchanged), space separated (`.` for no frames)
  c05-versions sensors|regdata <hex>
      -> the decoded `frame_versions` dict as a C15 announcement event `a<k>:<v>,…` / `a-`
         (dict order, last duplicate wins, unknown codes kept), or ERR
-/
namespace PlumVerif
namespace DevD

def parseFrame (s : String) : Option Frame :=
  match s.splitOn ":" with
  | [k, h] => do
    let bs ← parseHex h
    if k == "S" then some (.sensor bs) else if k == "T" then some (.thermo bs)
    else if k == "K" then some (.schema bs) else if k == "R" then some (.regdata bs) else none
  | _ => none

def runFrames : Dev → List Frame → List String
  | _, [] => []
  | d, f :: fs =>
    let r := step d f
    ((if r.2 then "1" else "0") ++ r.1.toVal.toJson) :: runFrames r.1 fs

def showAnnouncement (vs : List (Nat × Nat)) : String :=
  if vs.isEmpty then "a-" else "a" ++ String.intercalate "," (vs.map fun kv => s!"{kv.1}:{kv.2}")

def deviceOps : List String → Option String
  | "c05d-run" :: ws => do
    let fs ← ws.mapM parseFrame
    pure (if fs.isEmpty then "." else String.intercalate " " (runFrames Dev.init fs))
  | ["c05-versions", kind, h] => do
    let bs ← parseHex h
    let r ← if kind == "sensors" then some (sensorVersions bs)
            else if kind == "regdata" then some (regdataVersions bs) else none
    pure (match r with | some vs => showAnnouncement vs | none => "ERR")
  | _ => none

end DevD
end PlumVerif

import PlumVerif.Model.DecodeRegdata
import PlumVerif.Model.DecodeSensorsDriver
/-
Line-protocol front end for the regulator data model.
  c05r-encode <flat ints>       -> "<schema hex> <regdata hex> <schema json> <json with schema> <json without device>"
  c05r-schema <hex>             -> json of the decoded schema message, or ERR
  c05r-decode <schema hex|none> <hex> -> json of the regulator data decoded by a device holding that schema, or ERR
Flat int format: hdr0 hdr1  nV (type ver)*  nItems item*
  item: 0 id <sval>   |   1 n id*n  k byte*k
  sval: 0 alt | 1..4 sign mag (i8 i16 i32 i64) | 5..8 v (u8 u16 u32 u64) | 9 bits32 | 10 bits64
        | 11 alt n byte*n | 12 a b c d | 13 byte*16
-/
namespace PlumVerif
namespace Regd
open Wire Sens

def pInt : P Int := do
  let s ← pBound 2
  let m ← pNat
  pure (if s == 0 then Int.ofNat m else -Int.ofNat m)

def pLenBytes : P (List Byte) := do
  let n ← pNat
  pMany pByte n

def pSVal : P SVal := do
  let t ← pNat
  match t with
  | 0 => do let a ← pBound 2; pure (.undefined (a == 1))
  | 1 => do let v ← pInt; pure (.i8 v)
  | 2 => do let v ← pInt; pure (.i16 v)
  | 3 => do let v ← pInt; pure (.i32 v)
  | 4 => do let v ← pInt; pure (.i64 v)
  | 5 => do let v ← pNat; pure (.u8 v)
  | 6 => do let v ← pNat; pure (.u16 v)
  | 7 => do let v ← pNat; pure (.u32 v)
  | 8 => do let v ← pNat; pure (.u64 v)
  | 9 => do let v ← pF32; pure (.f32 v)
  | 10 => do let v ← pBound 18446744073709551616; pure (.f64 (UInt64.ofNat v))
  | 11 => do let a ← pBound 2; let bs ← pLenBytes; pure (.str (a == 1) bs)
  | 12 => do let a ← pByte; let b ← pByte; let c ← pByte; let d ← pByte; pure (.ipv4 a b c d)
  | 13 => do let bs ← pMany pByte 16; pure (.ipv6 bs)
  | _ => failure

def pItem : P Item := do
  let t ← pBound 2
  if t == 0 then do
    let id ← pNat; let v ← pSVal
    pure (.scalar id v)
  else do
    let n ← pNat
    let ids ← pMany pNat n
    let bs ← pLenBytes
    pure (.bits ids bs)

def pRegMsg : P RegMsg := do
  let h0 ← pByte; let h1 ← pByte
  let versions ← pCounted (do let t ← pByte; let v ← pNat; pure (t, v))
  let n ← pNat
  let items ← pMany pItem n
  pure ⟨h0, h1, versions, items⟩

def regdataOps : List String → Option String
  | "c05r-encode" :: ws => do
    let ns ← parseNats ws
    let (m, rest) ← pRegMsg.run ns
    if rest.isEmpty && m.wf && (schemaIdsOf m.items).length < 65536 then
      let sch := schemaIdsOf m.items
      pure (showHex (encodeSchema sch) ++ " " ++ showHex (encodeRegdata m) ++ " " ++
        (if sch.isEmpty then Val.record [] else Val.record [("regdata_schema", schemaValSpec sch)]).toJson ++ " " ++
        (valOfRegdata m).toJson ++ " " ++ (valOfRegdataNoSchema m).toJson)
    else none
  | ["c05r-schema", h] => do
    let bs ← parseHex h
    pure (match decodeSchema bs with | some (v, _) => v.toJson | none => "ERR")
  | ["c05r-decode", sh, h] => do
    let bs ← parseHex h
    let schema ← if sh == "none" then some [] else do
      let sb ← parseHex sh
      let (_, tys) ← decodeSchema sb
      pure tys
    pure (match decodeRegdata schema bs with | some v => v.toJson | none => "ERR")
  | _ => none

end Regd
end PlumVerif

import PlumVerif.Generated.Consts
import PlumVerif.Model.Frame
import PlumVerif.Model.NetVersion
/-
C09 — pool machine for the receive pipeline of `AsyncProtocol` (protocol.py):
`frame_producer` puts every frame the reader hands out on the read queue
(`put_nowait`, which counts it as unfinished), `n` `frame_consumer` tasks take frames off the
queue, obtain the device entry, call `device.handle_frame(frame)` and acknowledge the frame
(`task_done`) — after fix e8d48dc inside `try / except Exception / finally`.

What a frame does when it is handled (devices/__init__.py, devices/ecomax.py,
frames/requests.py):
  * the device entry for the sender is obtained (raises if the address has no device class),
  * EcoMAX only: a `Request` whose `response(...)` is non-empty gets that response queued for
    writing BEFORE anything is decoded — ProgramVersionRequest → ProgramVersionResponse,
    CheckDeviceRequest → DeviceAvailableResponse carrying the configured network info,
    both addressed to the request's sender,
  * `frame.data` is decoded (lazily, here) and every item is dispatched on the device.
Whether obtaining the entry or decoding raises is an INPUT BIT of the frame (`raises`), taken
from the implementation run: which payloads raise is C05's business, what the pipeline does
then is C09's.  The automatic replies are modelled down to their BYTES with the encoders of
Model/NetVersion.lean (proved in Props/C02, C03): building the reply may itself raise (an
SSID longer than 255 bytes, a version number that does not fit 16 bits — this is what the
development-build version string did before fix 5104319); that, too, is contained, and the
request then stays unanswered.  A request handled by the EcoMAX device cannot raise otherwise:
the device entry exists and `Request.decode_message` returns `{}`.

Consumers are symmetric, so the machine keeps the multiset of frames "in hand" instead of
named consumers: `alive` consumer tasks exist, `inHand` frames are being handled, a parked
consumer exists iff `inHand.length < alive`.  Any interleaving of arrivals, takes and finishes
is a schedule (`List Mv`); handling one frame may be split from taking it by any number of
other moves (in the code: while the device entry is being created).

`contain = true` is the code as it is now; `contain = false` is the consumer loop before the
fix (a raising frame ends the consumer task and is never acknowledged), kept to show the model
tells the difference.
-/
namespace PlumVerif.Pool

inductive Cls
  | data        -- response / message: carries data for the device
  | pvReq       -- ProgramVersionRequest (64)
  | cdReq       -- CheckDeviceRequest (48)
  | otherReq    -- any other request kind (no automatic reply)
deriving Repr, DecidableEq

structure Frame where
  id : Nat            -- position in the received sequence
  cls : Cls
  sender : Byte       -- address byte of the sender
  controller : Bool   -- the sender's device answers requests (it is the ecoMAX controller)
  items : Nat         -- number of data items the decoder yields (0: nothing to deliver)
  raises : Bool       -- handling raises (input bit from the implementation run)
deriving Repr, DecidableEq

/-- what the protocol object was configured with / what the code's defaults are -/
structure Cfg where
  net : NetInfo           -- `AsyncProtocol._network` (ethernet / wireless parameters given by the user)
  ver : VersionInfo       -- `VersionInfo()` defaults incl. SOFTWARE_VERSION
deriving Repr, DecidableEq

/-- the library's own address (DeviceType.ECONET), default sender of every frame it builds -/
def ownAddress : Byte := ((Gen.deviceTypes.lookup "ECONET").getD 0).toUInt8

def frameCode (name : String) : Byte := ((Gen.frameTypes.lookup name).getD 0).toUInt8

/-- the frame `Request.response()` builds: kind, recipient = the request's sender, sender = the
library, the default econet type / version, and the payload -/
def replyFrame (kind : Byte) (f : Frame) (payload : List Byte) : Fields :=
  ⟨kind, f.sender, ownAddress, Gen.econetType.toUInt8, Gen.econetVersion.toUInt8, payload⟩

inductive Reply
  | none                   -- not a request that is answered automatically
  | raises                 -- building the reply raises (`len(response)` serialises it)
  | frame (r : Fields)     -- the reply queued for writing
deriving Repr, DecidableEq

/-- `EcoMAX.handle_frame` + `Request.response`: the automatic reply to a frame handled by the
controller's device -/
def replyOf (cfg : Cfg) (f : Frame) : Reply :=
  match f.cls with
  | .pvReq =>
    match Version.encode cfg.ver ownAddress.toNat with
    | some m => .frame (replyFrame (frameCode "RESPONSE_PROGRAM_VERSION") f m)
    | none => .raises
  | .cdReq =>
    match Net.encode cfg.net with
    | some m => .frame (replyFrame (frameCode "RESPONSE_DEVICE_AVAILABLE") f m)
    | none => .raises
  | _ => .none

/-- how handling a frame ends: it raised (contained by the consumer), or it completed having
queued these replies -/
inductive Handling
  | raised
  | done (replies : List Fields)
deriving Repr, DecidableEq

def handle (cfg : Cfg) (f : Frame) : Handling :=
  if f.controller && f.cls != .data then
    -- a request handled by the EcoMAX device: reply first, then `frame.data` = {} (cannot raise)
    match replyOf cfg f with
    | .raises => .raised
    | .none => .done []
    | .frame r => .done [r]
  else if f.raises then .raised else .done []

/-- handling ended without raising -/
def ok (cfg : Cfg) (f : Frame) : Bool :=
  match handle cfg f with
  | .raised => false
  | .done _ => true

def repliesOf (cfg : Cfg) (f : Frame) : List Fields :=
  match handle cfg f with
  | .raised => []
  | .done rs => rs

structure St where
  queue : List Frame          -- read queue, head = oldest
  unfinished : Nat            -- `queues.read._unfinished_tasks`
  alive : Nat                 -- consumer tasks that have not ended
  inHand : List Frame         -- frames taken off the queue whose handling has not ended
  finished : List Frame       -- (ghost) frames whose handling ended, most recent first
  delivered : List Nat        -- ids of frames handed to their device, most recent first
  responses : List Fields     -- replies queued for writing, most recent first
deriving Repr, DecidableEq

def init (n : Nat) : St :=
  { queue := [], unfinished := 0, alive := n, inHand := [], finished := [], delivered := [], responses := [] }

inductive Mv
  | arrive (f : Frame)   -- the producer puts a received frame on the read queue
  | take                 -- a parked consumer takes the oldest queued frame
  | finish (f : Frame)   -- the consumer holding `f` finishes handling it
deriving Repr, DecidableEq

def step (contain : Bool) (cfg : Cfg) (s : St) : Mv → St
  | .arrive f => { s with queue := s.queue ++ [f], unfinished := s.unfinished + 1 }
  | .take =>
    match s.queue with
    | [] => s
    | f :: q => if s.inHand.length < s.alive then { s with queue := q, inHand := f :: s.inHand } else s
  | .finish f =>
    if f ∈ s.inHand then
      let s' := { s with inHand := s.inHand.erase f, finished := f :: s.finished }
      match handle cfg f with
      | .raised =>
        if contain then { s' with unfinished := s'.unfinished - 1 }   -- except Exception … finally task_done()
        else { s' with alive := s'.alive - 1 }                        -- the exception ends the task, no task_done
      | .done rs =>
        { s' with unfinished := s'.unfinished - 1,                     -- finally: task_done()
                  delivered := f.id :: s'.delivered,
                  responses := rs ++ s'.responses }
    else s

def run (contain : Bool) (cfg : Cfg) (s : St) : List Mv → St
  | [] => s
  | m :: ms => run contain cfg (step contain cfg s m) ms

/-- the frames received along a schedule, in order -/
def arrivals : List Mv → List Frame
  | [] => []
  | .arrive f :: ms => f :: arrivals ms
  | _ :: ms => arrivals ms

/-- nothing queued, nothing in hand -/
def quiescent (s : St) : Bool := s.queue.isEmpty && s.inHand.isEmpty

/-! ### replay of a harness run: frames arrive in batches, the loop runs to quiescence (FIFO) -/

/-- handle everything that can be handled, oldest first (`fuel` bounds the recursion) -/
def drain (contain : Bool) (cfg : Cfg) : Nat → St → List Mv → St × List Mv
  | 0, s, acc => (s, acc)
  | fuel + 1, s, acc =>
    match s.inHand.getLast? with
    | some f => drain contain cfg fuel (step contain cfg s (.finish f)) (.finish f :: acc)
    | none =>
      match s.queue with
      | [] => (s, acc)
      | _ :: _ =>
        if s.inHand.length < s.alive then drain contain cfg fuel (step contain cfg s .take) (.take :: acc)
        else (s, acc)

/-- one batch: all frames arrive (the producer does not yield while data is buffered), then
the consumers run until nothing more can happen -/
def batch (contain : Bool) (cfg : Cfg) (s : St) (fs : List Frame) : St × List Mv :=
  let s1 := fs.foldl (fun s f => step contain cfg s (.arrive f)) s
  let (s2, acc) := drain contain cfg (2 * (s1.queue.length + s1.inHand.length) + 2) s1 []
  (s2, fs.map .arrive ++ acc.reverse)

/-- a batch that arrives while the consumers cannot finish anything (the device entry is
still being created): the frames arrive, parked consumers take what they can, nothing ends -/
def takeAll (contain : Bool) (cfg : Cfg) : Nat → St → List Mv → St × List Mv
  | 0, s, acc => (s, acc)
  | fuel + 1, s, acc =>
    match s.queue with
    | [] => (s, acc)
    | _ :: _ =>
      if s.inHand.length < s.alive then takeAll contain cfg fuel (step contain cfg s .take) (.take :: acc)
      else (s, acc)

def holdBatch (contain : Bool) (cfg : Cfg) (s : St) (fs : List Frame) : St × List Mv :=
  let s1 := fs.foldl (fun s f => step contain cfg s (.arrive f)) s
  let (s2, acc) := takeAll contain cfg s1.queue.length s1 []
  (s2, fs.map .arrive ++ acc.reverse)

/-- what the harness sees after a batch -/
structure Snap where
  delivered : List Nat     -- ids of delivered frames that carry data, oldest first
  responses : List Fields  -- oldest first
  unfinished : Nat
  alive : Nat
deriving Repr, DecidableEq

def observe (frames : List Frame) (s : St) : Snap :=
  { delivered := s.delivered.reverse.filter fun i => frames.any fun f => f.id == i && decide (0 < f.items)
    responses := s.responses.reverse
    unfinished := s.unfinished
    alive := s.alive }

/-- batches are (held?, frames) -/
def replayH (contain : Bool) (cfg : Cfg) (n : Nat) (batches : List (Bool × List Frame)) : List Snap :=
  let all := (batches.map (·.2)).flatten
  (batches.foldl (fun (acc : St × List Snap) b =>
      let s := (if b.1 then holdBatch contain cfg acc.1 b.2 else batch contain cfg acc.1 b.2).1
      (s, observe all s :: acc.2)) (init n, [])).2.reverse

def replay (contain : Bool) (cfg : Cfg) (n : Nat) (batches : List (List Frame)) : List Snap :=
  replayH contain cfg n (batches.map fun fs => (false, fs))

end PlumVerif.Pool

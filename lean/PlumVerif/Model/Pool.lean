import PlumVerif.Generated.Consts
/-
C09 — pool machine for the receive pipeline of `AsyncProtocol` (protocol.py):
`frame_producer` puts every frame the reader hands out on the read queue
(`put_nowait`, which counts it as unfinished), `n` `frame_consumer` tasks take frames off the
queue, obtain the device entry, call `device.handle_frame(frame)` and acknowledge the frame
(`task_done`) — after fix e8d48dc inside `try / except Exception / finally`.

What a frame does when it is handled (devices/__init__.py, devices/ecomax.py,
frames/requests.py):
  * the device entry for the sender is obtained (raises if the address has no device class),
  * EcoMAX only: a `Request` whose `response(...)` is non-empty gets that response queued for
    writing BEFORE anything is decoded — ProgramVersionRequest → ProgramVersionResponse,
    CheckDeviceRequest → DeviceAvailableResponse carrying the configured network info,
    both addressed to the request's sender,
  * `frame.data` is decoded (lazily, here) and every item is dispatched on the device.
Whether this raises is an INPUT BIT of the frame (`raises`), taken from the implementation
run: which payloads raise is C05's business, what the pipeline does then is C09's.

Consumers are symmetric, so the machine keeps the multiset of frames "in hand" instead of
named consumers: `alive` consumer tasks exist, `inHand` frames are being handled, a parked
consumer exists iff `inHand.length < alive`.  Any interleaving of arrivals, takes and finishes
is a schedule (`List Mv`); handling one frame may be split from taking it by any number of
other moves (in the code: while the device entry is being created).

`contain = true` is the code as it is now; `contain = false` is the consumer loop before the
fix (a raising frame ends the consumer task and is never acknowledged), kept to show the model
tells the difference.
-/
namespace PlumVerif.Pool

inductive Cls
  | data        -- response / message: carries data for the device
  | pvReq       -- ProgramVersionRequest (64)
  | cdReq       -- CheckDeviceRequest (48)
  | otherReq    -- any other request kind (no automatic reply)
deriving Repr, DecidableEq

structure Frame where
  id : Nat            -- position in the received sequence
  cls : Cls
  sender : Nat        -- address byte of the sender
  controller : Bool   -- the sender's device answers requests (it is the ecoMAX controller)
  items : Nat         -- number of data items the decoder yields (0: nothing to deliver)
  raises : Bool       -- handling raises (input bit from the implementation run)
deriving Repr, DecidableEq

inductive RKind
  | programVersion    -- ProgramVersionResponse (192)
  | deviceAvailable   -- DeviceAvailableResponse (176)
deriving Repr, DecidableEq

def RKind.code : RKind → Nat
  | .programVersion => (Gen.frameTypes.lookup "RESPONSE_PROGRAM_VERSION").getD 0
  | .deviceAvailable => (Gen.frameTypes.lookup "RESPONSE_DEVICE_AVAILABLE").getD 0

structure Resp where
  kind : RKind
  rcpt : Nat          -- recipient address
  net : Nat           -- which network information it carries (0 = none, not applicable)
deriving Repr, DecidableEq

/-- `EcoMAX.handle_frame` + `Request.response`: the automatic reply to a frame -/
def respOf (cfg : Nat) (f : Frame) : Option Resp :=
  if f.controller then
    match f.cls with
    | .pvReq => some ⟨.programVersion, f.sender, 0⟩
    | .cdReq => some ⟨.deviceAvailable, f.sender, cfg⟩
    | _ => none
  else none

structure St where
  queue : List Frame          -- read queue, head = oldest
  unfinished : Nat            -- `queues.read._unfinished_tasks`
  alive : Nat                 -- consumer tasks that have not ended
  inHand : List Frame         -- frames taken off the queue whose handling has not ended
  finished : List Frame       -- (ghost) frames whose handling ended, most recent first
  delivered : List Nat        -- ids of frames handed to their device, most recent first
  responses : List Resp       -- replies queued for writing, most recent first
deriving Repr, DecidableEq

def init (n : Nat) : St :=
  { queue := [], unfinished := 0, alive := n, inHand := [], finished := [], delivered := [], responses := [] }

inductive Mv
  | arrive (f : Frame)   -- the producer puts a received frame on the read queue
  | take                 -- a parked consumer takes the oldest queued frame
  | finish (f : Frame)   -- the consumer holding `f` finishes handling it
deriving Repr, DecidableEq

def step (contain : Bool) (cfg : Nat) (s : St) : Mv → St
  | .arrive f => { s with queue := s.queue ++ [f], unfinished := s.unfinished + 1 }
  | .take =>
    match s.queue with
    | [] => s
    | f :: q => if s.inHand.length < s.alive then { s with queue := q, inHand := f :: s.inHand } else s
  | .finish f =>
    if f ∈ s.inHand then
      let s' := { s with inHand := s.inHand.erase f, finished := f :: s.finished }
      if f.raises then
        if contain then { s' with unfinished := s'.unfinished - 1 }   -- except Exception … finally task_done()
        else { s' with alive := s'.alive - 1 }                        -- the exception ends the task, no task_done
      else
        { s' with unfinished := s'.unfinished - 1,                     -- finally: task_done()
                  delivered := f.id :: s'.delivered,
                  responses := (respOf cfg f).toList ++ s'.responses }
    else s

def run (contain : Bool) (cfg : Nat) (s : St) : List Mv → St
  | [] => s
  | m :: ms => run contain cfg (step contain cfg s m) ms

/-- the frames received along a schedule, in order -/
def arrivals : List Mv → List Frame
  | [] => []
  | .arrive f :: ms => f :: arrivals ms
  | _ :: ms => arrivals ms

/-- nothing queued, nothing in hand -/
def quiescent (s : St) : Bool := s.queue.isEmpty && s.inHand.isEmpty

/-! ### replay of a harness run: frames arrive in batches, the loop runs to quiescence (FIFO) -/

/-- handle everything that can be handled, oldest first (`fuel` bounds the recursion) -/
def drain (contain : Bool) (cfg : Nat) : Nat → St → List Mv → St × List Mv
  | 0, s, acc => (s, acc)
  | fuel + 1, s, acc =>
    match s.inHand.getLast? with
    | some f => drain contain cfg fuel (step contain cfg s (.finish f)) (.finish f :: acc)
    | none =>
      match s.queue with
      | [] => (s, acc)
      | _ :: _ =>
        if s.inHand.length < s.alive then drain contain cfg fuel (step contain cfg s .take) (.take :: acc)
        else (s, acc)

/-- one batch: all frames arrive (the producer does not yield while data is buffered), then
the consumers run until nothing more can happen -/
def batch (contain : Bool) (cfg : Nat) (s : St) (fs : List Frame) : St × List Mv :=
  let s1 := fs.foldl (fun s f => step contain cfg s (.arrive f)) s
  let (s2, acc) := drain contain cfg (2 * (s1.queue.length + s1.inHand.length) + 2) s1 []
  (s2, fs.map .arrive ++ acc.reverse)

/-- a batch that arrives while the consumers cannot finish anything (the device entry is
still being created): the frames arrive, parked consumers take what they can, nothing ends -/
def takeAll (contain : Bool) (cfg : Nat) : Nat → St → List Mv → St × List Mv
  | 0, s, acc => (s, acc)
  | fuel + 1, s, acc =>
    match s.queue with
    | [] => (s, acc)
    | _ :: _ =>
      if s.inHand.length < s.alive then takeAll contain cfg fuel (step contain cfg s .take) (.take :: acc)
      else (s, acc)

def holdBatch (contain : Bool) (cfg : Nat) (s : St) (fs : List Frame) : St × List Mv :=
  let s1 := fs.foldl (fun s f => step contain cfg s (.arrive f)) s
  let (s2, acc) := takeAll contain cfg s1.queue.length s1 []
  (s2, fs.map .arrive ++ acc.reverse)

/-- what the harness sees after a batch -/
structure Snap where
  delivered : List Nat     -- ids of delivered frames that carry data, oldest first
  responses : List Resp    -- oldest first
  unfinished : Nat
  alive : Nat
deriving Repr, DecidableEq

def observe (frames : List Frame) (s : St) : Snap :=
  { delivered := s.delivered.reverse.filter fun i => frames.any fun f => f.id == i && decide (0 < f.items)
    responses := s.responses.reverse
    unfinished := s.unfinished
    alive := s.alive }

/-- batches are (held?, frames) -/
def replayH (contain : Bool) (cfg : Nat) (n : Nat) (batches : List (Bool × List Frame)) : List Snap :=
  let all := (batches.map (·.2)).flatten
  (batches.foldl (fun (acc : St × List Snap) b =>
      let s := (if b.1 then holdBatch contain cfg acc.1 b.2 else batch contain cfg acc.1 b.2).1
      (s, observe all s :: acc.2)) (init n, [])).2.reverse

def replay (contain : Bool) (cfg : Nat) (n : Nat) (batches : List (List Frame)) : List Snap :=
  replayH contain cfg n (batches.map fun fs => (false, fs))

end PlumVerif.Pool

import PlumVerif.Model.PyPrelude
/-
Semantic prelude of the code translator, second part: what the payload decoders of
`pyplumio/structures/*.py` need beyond the byte-level core (round 8).  Import-free apart from
PyPrelude; compiled into the native driver; validated against CPython by `harness/pycode.py`.

* **Instances.**  A method that reads or assigns attributes of `self` is translated as a function
  that takes the instance `v_self` (an `obj`) and returns `(result, instance after the call)`;
  `self.x` is `getattr`, `self.x = e` is `setattr`.  Aliasing is not modelled: the translator
  rejects every use of `self` other than `self.<attr>` / `self.<method>(…)`.
* **Generators.**  A generator function is translated EAGERLY, as a function returning the list of
  the values it yields (`yield_` appends).  This is the meaning of `list(g(…))` / `dict(g(…))`,
  which consume the generator completely and at once; the translator accepts a call of a
  generator function nowhere else.
* **Module-level instances of data classes** (`THERMOSTAT_PARAMETERS[i]`) are folded from their
  constructor calls; a field whose value is outside the value domain (a float multiplier, a
  string enum) is left out and the object carries the marker key `"*"`: reading a field that is
  not there answers `unsupported` (never a guess), `AttributeError` only on a complete object.
* TRUSTED primitive contracts: `device.get_nowait(name, default)` of the owning device
  (`EventManager.get_nowait`) is `data.get(name, default)` on the device's data dict.
* Round 8, fourth leg (temperatures, statuses, outputs, lambda sensor, frame versions):
  - `d[k] = v` (`setitem`) on a dict is a VALUE operation (the new dict is rebound to the name); the mutation seen
    through other references to the same object (the caller's `data`) is not modelled — same stance as `|=`;
  - `enumerate(seq)` is the list of `(i, item)` pairs of an already evaluated sequence (iterating a value raises nothing);
  - TRUSTED `int(math.pow(2, i))` (`int_math_pow`): the C `pow` is exact on powers of two, so the value is `2 ^ i` for
    `0 ≤ i ≤ 1023`, `0` for `i < 0` (a float in (0, 1) truncates to 0), OverflowError for `i > 1023`; any other
    base is declined (`unsupported`);
  - TRUSTED `a / b` on ints (`truediv`): CPython answers the float NEAREST to the exact quotient (correctly rounded,
    `long_true_divide`); it is modelled as the exact rational `ratioV a b` (an `obj "float"` with `num` / `den`, the
    denominator positive, NOT reduced: `123 / 10` is `ratioV 123 10`); `b = 0` is ZeroDivisionError, reported as
    `unsupported` (the class is not in `PyErr`); nothing but `/` produces one and no operation consumes one;
  - `with suppress(E…): S` is `try: S  except (E…): pass` (S one statement).
-/
namespace PlumVerif.Py

/-- reading a local variable that no path to this point has assigned -/
def unboundLocal : PyM V := throw .UnboundLocalError

/-- `o.name` on an instance (see the header for the marker key `"*"`) -/
def getattr (o : V) (name : String) : PyM V :=
  match o with
  | .obj _ ks vs =>
    match lookup ks vs name with
    | some v => pure v
    | Option.none => if ks.contains "*" then throw .unsupported else throw .AttributeError
  | .none => throw .AttributeError
  | .int _ => throw .unsupported        -- ints have attributes (`real`, `numerator`, …): not modelled
  | .bool _ => throw .unsupported
  | _ => throw .unsupported

/-- `o.name = v` on an instance (`__slots__` restrictions are not modelled: the translator only
emits this for `self.<attr>` of the class under translation) -/
def setattr (o : V) (name : String) (v : V) : PyM V :=
  match o with
  | .obj c ks vs => let r := dictSet ks vs name v; pure (.obj c r.1 r.2)
  | _ => throw .unsupported

/-- `yield v` in an eagerly translated generator: append to the list of yielded values -/
def yield_ (acc v : V) : PyM V :=
  match acc with
  | .list xs => pure (.list (xs ++ [v]))
  | _ => throw .unsupported

/-- `list(it)` -/
def list_ (it : V) : PyM V := do pure (.list (← iter it))

/-- `d[k] = v` on a dict with arbitrary (scalar) keys: an existing key keeps its position -/
def mapSet (ks vs : List V) (k v : V) : PyM (List V × List V) :=
  match ks, vs with
  | k' :: ks', v' :: vs' => do
    if ← eqB k' k then pure (k' :: ks', v :: vs')
    else do let r ← mapSet ks' vs' k v; pure (k' :: r.1, v' :: r.2)
  | _, _ => pure ([k], [v])

def strKeys : List V → Option (List String)
  | [] => some []
  | .str s :: r => (strKeys r).map (s :: ·)
  | _ => Option.none

/-- one element of the iterable given to `dict(…)`: a pair -/
def dictStep (acc : List V × List V) (x : V) : PyM (List V × List V) :=
  match x with
  | .tuple [k, v] | .list [k, v] => mapSet acc.1 acc.2 k v
  | .tuple _ | .list _ => throw .ValueError
  | .bytes _ | .str _ => throw .unsupported
  | _ => throw .TypeError

/-- `dict(it)` of an iterable of pairs: later pairs overwrite earlier ones with an equal key; the
result is a `dict` when every key is a string, a `map` otherwise -/
def dict_ (it : V) : PyM V := do
  match it with
  | .dict ks vs => pure (.dict ks vs)
  | .map ks vs => pure (.map ks vs)
  | _ =>
    let xs ← iter it
    let r ← xs.foldlM dictStep ([], [])
    match strKeys r.1 with
    | some ks => pure (.dict ks r.2)
    | Option.none => pure (.map r.1 r.2)

/-- TRUSTED: `device.get_nowait(name, default)` — the owning device as its data dict -/
def device_get_nowait (dev name dflt : V) : PyM V :=
  match dev, name with
  | .dict ks vs, .str k => pure ((lookup ks vs k).getD dflt)
  | .none, _ => throw .AttributeError
  | _, _ => throw .unsupported

/-! ### wire types (helpers/data_types.py) as primitives of the structure decoders -/

/-- the one-field little-endian struct formats: (size, signed, float) -/
def wireFmt (fmt : String) : Option (Nat × Bool × Bool) :=
  if fmt = "<b" then some (1, true, false) else if fmt = "<B" then some (1, false, false)
  else if fmt = "<h" then some (2, true, false) else if fmt = "<H" then some (2, false, false)
  else if fmt = "<i" then some (4, true, false) else if fmt = "<I" then some (4, false, false)
  else if fmt = "<q" then some (8, true, false) else if fmt = "<Q" then some (8, false, false)
  else if fmt = "<f" then some (4, false, true) else if fmt = "<d" then some (8, false, true)
  else Option.none

/-- what the decoders observe of a wire-type instance: `.value` and `.size` (any other attribute: `unsupported`) -/
def wireObj (cls : String) (value : V) (size : Nat) : V :=
  mkobj cls [("value", value), ("size", .int size), ("*", .none)]

/-- TRUSTED: `X.from_bytes(data, offset)` of a struct-backed wire type `X` (`_struct = struct.Struct(fmt)`, the
format folded from the SOURCE by the translator): `data[offset:]` (lenient slice), then `struct.unpack_from`
(`struct.error` when fewer than `size` bytes are left); the result as its observable `.value` / `.size`.  A float is
carried as its bit pattern.  Contract = what `Props/TieTypes.lean` proves about the translated classes
(`X_from_bytes_eq`, `X_value_eq`, `X_size_eq`). -/
def wire_from_bytes (cls fmt : String) (data off : V) : PyM V := do
  match wireFmt fmt with
  | Option.none => throw .unsupported
  | some (size, signed, isFloat) =>
    match ← slice data off .none with
    | .bytes b =>
      if b.length < size then throw .StructError
      else
        let n := decodeLE (b.take size)
        if isFloat then pure (wireObj cls (.float size n) size)
        else if signed then
          pure (wireObj cls (.int (if n < 256 ^ size / 2 then (n : Int) else (n : Int) - (256 ^ size : Nat))) size)
        else pure (wireObj cls (.int n) size)
    | _ => throw .unsupported

/-- `math.isnan(x)`: a wire float by its bit pattern; an int is never NaN (ints too large for a float: OverflowError,
not modelled) -/
def math_isnan (x : V) : PyM V :=
  match x with
  | .float w bits => do pure (.bool (← floatIsNaN w bits))
  | .int i => if i.natAbs < 2 ^ 1000 then pure (.bool false) else throw .unsupported
  | .bool _ => pure (.bool false)
  | _ => throw .TypeError

/-! ### schedules (structures/schedules.py): comprehensions with several `for` clauses, own lists, `tuple.index`, `int(x)` -/

/-- the lists produced by the inner clauses of `[e for x in a for y in b]`, one after another -/
def flatten (v : V) : PyM V :=
  match v with
  | .list xss => do
    let r ← xss.foldlM (fun (acc : List V) xs => match xs with
      | .list ys => pure (acc ++ ys)
      | _ => throw .unsupported) []
    pure (.list r)
  | _ => throw .unsupported

/-- one item of the generator expression given to `bytearray(…)` / `bytes(…)`: the constructor consumes the generator
item by item, so an item that is no byte raises (ValueError / TypeError) BEFORE the next item is computed -/
def byteItem (x : V) : PyM V := do pure (byteV (← byteOfV x))

/-- `xs.append(v)` on a list the function created itself and has not handed out (the translator checks that) -/
def list_append (xs v : V) : PyM V :=
  match xs with
  | .list l => pure (.list (l ++ [v]))
  | _ => throw .unsupported

def seqIndexFrom (x : V) : List V → Nat → PyM V
  | [], _ => throw .ValueError
  | y :: ys, i => do if ← eqB y x then pure (.int i) else seqIndexFrom x ys (i + 1)

/-- `seq.index(x)` on a tuple / list: position of the first equal element, ValueError when there is none -/
def seq_index (s x : V) : PyM V :=
  match s with
  | .tuple xs | .list xs => seqIndexFrom x xs 0
  | _ => throw .unsupported

/-- `int(x)` of an int / bool (text, floats and objects with `__int__`: declined) -/
def int_ (x : V) : PyM V :=
  match x with
  | .int i => pure (.int i)
  | .bool b => pure (.int (if b then 1 else 0))
  | .none | .list _ | .tuple _ | .dict .. | .map .. => throw .TypeError
  | _ => throw .unsupported

/-! ### fourth leg: item assignment, `enumerate`, `int(math.pow(2, i))`, true division -/

/-- `d[k] = v` on a dict (value operation, see the header): an existing key keeps its position; a key that is no string
turns a string-keyed dict into a `map` -/
def setitem (d k v : V) : PyM V :=
  match d, k with
  | .dict ks vs, .str s => let r := dictSet ks vs s v; pure (.dict r.1 r.2)
  | .dict ks vs, .int i => do let r ← mapSet (ks.map .str) vs (.int i) v; pure (.map r.1 r.2)
  | .map ks vs, .int i => do let r ← mapSet ks vs (.int i) v; pure (.map r.1 r.2)
  | .map ks vs, .str s => do let r ← mapSet ks vs (.str s) v; pure (.map r.1 r.2)
  | .none, _ => throw .TypeError
  | .int _, _ => throw .TypeError
  | _, _ => throw .unsupported

def enumFrom : Nat → List V → List V
  | _, [] => []
  | i, x :: xs => .tuple [.int i, x] :: enumFrom (i + 1) xs

/-- `enumerate(seq)` of an evaluated sequence: the pairs `(i, item)` -/
def enumerate (it : V) : PyM V := do pure (.list (enumFrom 0 (← iter it)))

/-- TRUSTED `int(math.pow(a, b))` (see the header): only base 2 -/
def int_math_pow (a b : V) : PyM V :=
  match a, b with
  | .int 2, .int i =>
    if i < 0 then pure (.int 0)
    else if i ≤ 1023 then pure (.int ((2 ^ i.toNat : Nat) : Int))
    else throw .OverflowError
  | .int _, .int _ => throw .unsupported
  | .none, _ | _, .none => throw .TypeError
  | _, _ => throw .unsupported

/-- the exact rational `a / b` (`b > 0`) as a Python float value (see the header) -/
def ratioV (a : Int) (b : Nat) : V := mkobj "float" [("num", .int a), ("den", .int b), ("*", .none)]

/-- TRUSTED `a / b` on ints (see the header) -/
def truediv (a b : V) : PyM V :=
  match a, b with
  | .int x, .int y =>
    if y = 0 then throw .unsupported
    else if y > 0 then pure (ratioV x y.toNat) else pure (ratioV (-x) (-y).toNat)
  | .none, _ | _, .none => throw .TypeError
  | _, _ => throw .unsupported

end PlumVerif.Py

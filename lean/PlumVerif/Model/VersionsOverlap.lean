import PlumVerif.Model.Versions
/-
C15, overlapping announcements.  `update_frame_versions` checks an entry
(`has_frame_version`), then AWAITS `Request.create` (the handler class is imported through
`run_in_executor`), and only after it resumes queues the request and records the version.
Between check and record other announcement tasks can run: two announcements in flight
(sensor data and regulator data back to back) can both pass the check and both queue a refresh.
The statement of C15 quantifies over histories (one announcement at a time); this machine
describes what the code does beyond that.

Each announcement is a task over the decoded dict.  A move of a task runs it to its next
suspension: resuming from `Request.create` (queue + record, or TypeError for a known
response/message code), then scanning on for the next entry that needs a refresh.
-/
namespace PlumVerif.C15.Overlap
open PlumVerif.C15

inductive Phase where
  | absent
  | created                                   -- dispatched, the callback has not started
  | awaiting (e : Entry) (rest : List Entry)  -- suspended in `Request.create` for `e`
  | done
  | raised                                    -- the callback ended with TypeError
  deriving DecidableEq, Repr, Inhabited

structure Task where
  entries : List Entry      -- the decoded announcement
  ph : Phase
  queued : List Nat         -- ghost: the kinds this task queued, in order
  deriving Repr, Inhabited

structure OSt where
  core : St                 -- recorded versions, unsupported kinds
  queue : List Nat          -- kinds of the request frames on the device queue, in order
  updates : List Entry      -- ghost: every time a recorded version CHANGED: (kind, new version)
  owners : List (Nat × Nat) -- ghost: (task, kind) for every element of `queue`, in the same order
  t : Nat → Task
  nt : Nat

def upd {α : Type} (f : Nat → α) (i : Nat) (v : α) : Nat → α := fun j => if j = i then v else f j

def init : OSt := ⟨C15.init, [], [], [], fun _ => ⟨[], .absent, []⟩, 0⟩

/-- walk on through the dict until an entry needs a refresh (then suspend in `Request.create`) -/
def scan (s : St) : List Entry → Phase
  | [] => .done
  | e :: r => if needs s e then .awaiting e r else scan s r

inductive Ev where
  | announce (wire : List Entry)   -- a frame carrying versions is handled: a new callback task
  | errors (ks : List Nat)
  | move (a : Nat)                 -- task `a` runs until it suspends or ends
  deriving Repr

/-- `Request.create` returned: the request is queued, the version recorded, the loop goes on -/
def resumeOk (s : OSt) (a : Nat) (e : Entry) (rest : List Entry) : OSt :=
  { s with core := record s.core e.1 e.2, queue := s.queue ++ [e.1], owners := s.owners ++ [(a, e.1)],
           updates := (if recorded s.core e.1 == some e.2 then s.updates else s.updates ++ [e]),
           t := upd s.t a { s.t a with ph := scan (record s.core e.1 e.2) rest, queued := (s.t a).queued ++ [e.1] } }

/-- `Request.create` raised TypeError (known response / message code) -/
def resumeFail (s : OSt) (a : Nat) : OSt :=
  { s with t := upd s.t a { s.t a with ph := .raised } }

def move (s : OSt) (a : Nat) : OSt :=
  match (s.t a).ph with
  | .created => { s with t := upd s.t a { s.t a with ph := scan s.core (s.t a).entries } }
  | .awaiting e rest => if creatable e.1 then resumeOk s a e rest else resumeFail s a
  | _ => s

def step (s : OSt) : Ev → OSt
  | .announce w => { s with t := upd s.t s.nt ⟨dictOf w, .created, []⟩, nt := s.nt + 1 }
  | .errors ks => { s with core := { s.core with unsupported := ks } }
  | .move a => move s a

def run (s : OSt) : List Ev → OSt
  | [] => s
  | e :: es => run (step s e) es

end PlumVerif.C15.Overlap

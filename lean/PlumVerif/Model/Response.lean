import PlumVerif.Model.Frame
import PlumVerif.Generated.Consts
/-
`Request.response()`: the answer the library gives to a request of the controller
(check-device -> device-available, program-version -> program-version response).
Which requests are answered and where each header byte of the answer comes from is the
GENERATED table `Gen.answers` (obtained by calling `response()` on a probe request).
-/
namespace PlumVerif.Resp
open PlumVerif

/-- a header byte of the answer: copied from the request (1..4) or a constant (1000 + c) -/
def origin (req : Fields) (o : Nat) : Option Byte :=
  if o = 1 then some req.rcpt
  else if o = 2 then some req.sender
  else if o = 3 then some req.etype
  else if o = 4 then some req.ever
  else if 1000 ≤ o ∧ o < 1256 then some (o - 1000).toUInt8
  else none

def respondWith (table : List (Nat × Nat × Nat × Nat × Nat × Nat)) (req : Fields) (payload : List Byte) : Option Fields :=
  match table.find? (fun r => r.1 = req.kind.toNat) with
  | none => none
  | some (_, k, rc, sd, et, ev) =>
    if k < 256 then do
      let rc ← origin req rc
      let sd ← origin req sd
      let et ← origin req et
      let ev ← origin req ev
      pure { kind := k.toUInt8, rcpt := rc, sender := sd, etype := et, ever := ev, payload := payload }
    else none

/-- the answer to `req` carrying `payload` (the payload is the response structure's own encoding) -/
def respond (req : Fields) (payload : List Byte) : Option Fields := respondWith Gen.answers req payload

end PlumVerif.Resp

import PlumVerif.Model.Basic
import PlumVerif.Generated.PyCode
/-
Line-protocol front end for the GENERATED definitions of Generated/PyCode.lean (translated from the
Python source text by tools/py2lean.py): `py <function> <fuel> <stream> <args…>` evaluates the translated
function, so that harness/pycode.py can compare it with the real Python function on the same input
(value or exception class) — the validation of the translator and of the semantic prelude.

Argument atoms (no spaces): `n` None, `t` / `f` booleans, `i<decimal>` int, `b<hex>` bytes (`b-` empty),
`s<hex of the UTF-8 text>` str (`s-` empty), `L<atom>,<atom>…` list (`L` empty), `T…` tuple,
`D<keyhex>=<atom>,…` dict with string keys.  Containers hold scalars only.  `S…` / `H…`: the instance of a
stateful method (see `parseArg`, `parseArg'`); a stateful method answers its result only.
Answer: `ok <value> <rest of the stream>` or `err <exception class> <rest of the stream>`.
-/
namespace PlumVerif.PyCode
open PlumVerif.Py

def parseStr (h : String) : Option String := do
  let bs ← parseHex h
  String.fromUTF8? ⟨bs.toArray⟩

def parseScalar (a : String) : Option V :=
  if a = "n" then some .none
  else if a = "t" then some (.bool true)
  else if a = "f" then some (.bool false)
  else match a.toList with
    | 'i' :: r => (String.ofList r).toInt?.map .int
    | 'b' :: r => (parseHex (String.ofList r)).map .bytes
    | 's' :: r => (parseStr (String.ofList r)).map .str
    | _ => none

def parseItems (s : String) : Option (List V) :=
  if s = "" then some [] else (s.splitOn ",").mapM parseScalar

def parseArg (a : String) : Option V :=
  match a.toList with
  | 'L' :: r => (parseItems (String.ofList r)).map .list
  | 'T' :: r => (parseItems (String.ofList r)).map .tuple
  | 'D' :: r => do
    let s := String.ofList r
    let kvs ← (if s = "" then some [] else (s.splitOn ",").mapM fun kv =>
      match kv.splitOn "=" with
      | [k, v] => do pure ((← parseStr k), (← parseScalar v))
      | _ => none)
    pure (.dict (kvs.map (·.1)) (kvs.map (·.2)))
  -- the instance of a stateful method: `S<attr>=<scalar>,…` (plain attribute names; `S` alone: no attribute yet)
  | 'S' :: r => do
    let s := String.ofList r
    let kvs ← (if s = "" then some [] else (s.splitOn ",").mapM fun kv =>
      match kv.splitOn "=" with
      | [k, v] => do pure (k, (← parseScalar v))
      | _ => none)
    pure (mkobj "self" kvs)
  | _ => parseScalar a

/-- nested values, `J<value>`: `[v;v;…]` list, `(v;v;…)` tuple, `{<keyhex>:v;…}` dict with string keys, scalars as above
(the characters `[](){};:` occur in no scalar atom) -/
partial def parseNested : List Char → Option (V × List Char)
  | '[' :: r => do let (xs, r) ← items r ']'; pure (.list xs, r)
  | '(' :: r => do let (xs, r) ← items r ')'; pure (.tuple xs, r)
  | '{' :: r => do
    let (kvs, r) ← fields r
    pure (.dict (kvs.map (·.1)) (kvs.map (·.2)), r)
  | cs =>
    let a := cs.takeWhile fun c => !(c == ';' || c == ']' || c == ')' || c == '}' || c == ':')
    (parseScalar (String.ofList a)).map fun v => (v, cs.drop a.length)
where
  items (cs : List Char) (close : Char) : Option (List V × List Char) :=
    match cs with
    | c :: r => if c == close then some ([], r) else do
      let (v, r) ← parseNested (if c == ';' then r else cs)
      let (vs, r) ← items r close
      pure (v :: vs, r)
    | [] => none
  fields (cs : List Char) : Option (List (String × V) × List Char) :=
    match cs with
    | '}' :: r => some ([], r)
    | c :: r => do
      let cs := if c == ';' then r else cs
      let k := cs.takeWhile (· != ':')
      let key ← parseStr (String.ofList k)
      let (v, r) ← parseNested (cs.drop (k.length + 1))
      let (kvs, r) ← fields r
      pure ((key, v) :: kvs, r)
    | [] => none

/-- `H<atom>`: the instance of a structure whose `frame.handler` is the atom (`n`, or the owning device as the dict
of its data `D…`) -/
def parseArg' (a : String) : Option V :=
  match a.toList with
  | 'H' :: r => do
    let h ← parseArg (String.ofList r)
    pure (mkobj "self" [("frame", mkobj "FrameRef" [("handler", h)])])
  | 'J' :: r => do
    let (v, rest) ← parseNested r
    if rest.isEmpty then pure v else none
  | _ => parseArg a

def hexStr (s : String) : String := showHex s.toUTF8.toList

partial def showV : V → String
  | .none => "None"
  | .int i => toString i
  | .bool b => if b then "True" else "False"
  | .bytes b => "b" ++ showHex b
  | .str s => "s" ++ hexStr s
  | .list xs => "[" ++ ",".intercalate (xs.map showV) ++ "]"
  | .tuple xs => "(" ++ ",".intercalate (xs.map showV) ++ ")"
  | .dict ks vs => "{" ++ ",".intercalate ((ks.zip vs).map fun (k, v) => hexStr k ++ "=" ++ showV v) ++ "}"
  | .obj c ks vs => c ++ "{" ++ ",".intercalate ((ks.zip vs).map fun (k, v) => k ++ "=" ++ showV v) ++ "}"
  | .map ks vs => "{" ++ ",".intercalate ((ks.zip vs).map fun (k, v) => showV k ++ "=" ++ showV v) ++ "}"
  | .float w bits => match floatIsNaN w bits with
    | .ok true => "Fnan"
    | _ => s!"F{w}:{bits}"

def errName (e : PyErr) : String := (reprStr e).replace "PlumVerif.Py.PyErr." ""

def pyOps : List String → Option String
  | "py" :: name :: fuel :: stream :: args => do
    let fuel ← fuel.toNat?
    let s ← parseHex stream
    let vs ← args.mapM parseArg'
    let m ← call name fuel vs
    match m s with
    | (.ok v, rest) => pure s!"ok {showV v} {showHex rest}"
    | (.error e, rest) => pure s!"err {errName e} {showHex rest}"
  | ["py-functions"] => some (" ".intercalate functions)
  | ["py-stateful"] => some (" ".intercalate statefulFunctions)
  | _ => none

end PlumVerif.PyCode

import PlumVerif.Model.Dataset
/-
C07 — histories in which the controller RE-REPORTS its UID, possibly with another product type (ecoMAX P <-> I).

`EcoMAX.handle_frame(<UID response>)` dispatches `product`: `device.data["product"]` is replaced, nothing else happens.
The parameter handlers read the product when they run (`await self.get(ATTR_PRODUCT)`): handlers parked before the FIRST
UID resume with that first product; every later response is applied with the product type in force when it is handled.
So a history with product reports is the machine `Dataset.step` run with a product type that the history itself sets.
-/
namespace PlumVerif.Dataset

inductive PEvent where
  /-- a UID response announcing product type `pt` -/
  | product (pt : Product)
  | ev (e : Event)
deriving Repr, Inhabited

structure PWorld where
  pt : Product := .P      -- product type in force (meaningless until `w.known`)
  w : World := {}
deriving Inhabited

def stepP (s : PWorld) : PEvent → PWorld × List Out
  | .product pt =>
    if s.w.known then ({ s with pt := pt }, [])                       -- data["product"] replaced, nothing re-applied
    else ({ pt := pt, w := (step pt s.w .uid).1 }, (step pt s.w .uid).2)   -- the parked handlers resume with THIS product
  | .ev .uid => (s, [])                                               -- (a bare `uid` has no meaning here: use `product`)
  | .ev e => ({ s with w := (step s.pt s.w e).1 }, (step s.pt s.w e).2)

def runP : PWorld → List PEvent → PWorld × List Out
  | s, [] => (s, [])
  | s, e :: rest =>
    let r := stepP s e
    let r' := runP r.1 rest
    (r'.1, r.2 ++ r'.2)

/-- the one-product history behind a history whose product reports all announce `pt` -/
def erase : List PEvent → List Event
  | [] => []
  | .product _ :: rest => .uid :: erase rest
  | .ev .uid :: rest => erase rest
  | .ev e :: rest => e :: erase rest

def PEvent.announces (pt : Product) : PEvent → Bool
  | .product q => q == pt
  | .ev _ => true

end PlumVerif.Dataset

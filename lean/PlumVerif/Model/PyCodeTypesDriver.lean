import PlumVerif.Model.PyCodeDriver
import PlumVerif.Generated.PyCodeTypes
/-
Line-protocol front end for the GENERATED definitions of Generated/PyCodeTypes.lean (classes translated from the
Python source text by tools/py2lean_types.py): `pyt <function> <fuel> <args…>` evaluates the translated
function / method so that harness/pycode_types.py can compare it with the real Python code on the same input.

Argument atoms: those of PyCodeDriver (`n t f i… b… s… L… T… D…`) and, one level deep,
`O<class>:<slot>=<atom>;<slot>=<atom>…` an instance (`~` as atom: slot never assigned),
`F<bytes>_<bits>` a float carried as its IEEE pattern, `X<hex>` the text of an IPv6 address, `E<hex key>/<scalar>+…` a dict of scalars.
Answer: `ok <value>` or `err <exception class>`; a method answers the tuple `(result,instance afterwards)`.
-/
namespace PlumVerif.PyCodeTypes
open PlumVerif.Py PlumVerif.PyCode

def parseAtomT (a : String) : Option V :=
  match a.toList with
  | 'F' :: r =>
    match (String.ofList r).splitOn "_" with
    | [k, n] => do pure (PyT.floatBits (← k.toNat?) (← n.toNat?))
    | _ => none
  | 'X' :: r => (parseHex (String.ofList r)).map PyT.ipv6Text
  | ['~'] => some PyT.unset
  | 'E' :: r => do
    -- a dict of scalars that can stand inside an instance: `E<hex key>/<scalar>+<hex key>/<scalar>…`
    let s := String.ofList r
    let kvs ← (if s = "" then some [] else (s.splitOn "+").mapM fun kv =>
      match kv.splitOn "/" with
      | [k, v] => do pure ((← parseStr k), (← parseScalar v))
      | _ => none)
    pure (.dict (kvs.map (·.1)) (kvs.map (·.2)))
  | _ => parseArg a

def parseArgT (a : String) : Option V :=
  match a.toList with
  | 'O' :: r =>
    match (String.ofList r).splitOn ":" with
    | [cls, body] => do
      let kvs ← (if body = "" then some [] else (body.splitOn ";").mapM fun kv =>
        match kv.splitOn "=" with
        | [k, v] => do pure (k, (← parseAtomT v))
        | _ => none)
      pure (.obj cls (kvs.map (·.1)) (kvs.map (·.2)))
    | _ => none
  | _ => parseAtomT a

partial def showT : V → String
  | .obj "<unset>" [] [] => "~"
  | .obj "float" ["bytes", "bits"] [.int k, .int n] => s!"F{k}_{n}"
  | .obj "ipv6text" ["packed"] [.bytes b] => "X" ++ showHex b
  | .obj "NotImplementedType" [] [] => "NotImplemented"
  | .obj c ks vs => c ++ "{" ++ ",".intercalate ((ks.zip vs).map fun (k, v) => k ++ "=" ++ showT v) ++ "}"
  | .list xs => "[" ++ ",".intercalate (xs.map showT) ++ "]"
  | .tuple xs => "(" ++ ",".intercalate (xs.map showT) ++ ")"
  | .dict ks vs => "{" ++ ",".intercalate ((ks.zip vs).map fun (k, v) => hexStr k ++ "=" ++ showT v) ++ "}"
  | v => showV v

def pytOps : List String → Option String
  | "pyt" :: name :: fuel :: args => do
    let fuel ← fuel.toNat?
    let vs ← args.mapM parseArgT
    let m ← call name fuel vs
    match m with
    | .ok v => pure s!"ok {showT v}"
    | .error e => pure s!"err {errName e}"
  | ["pyt-functions"] => some (" ".intercalate functions)
  | ["pyt-table", name] =>
    if name = "DATA_TYPES" then some (" ".intercalate t_DATA_TYPES) else none
  | _ => none

end PlumVerif.PyCodeTypes

import PlumVerif.Model.Frame
/-
One `FrameReader` object used across calls that end abnormally.

A call of `read()` that cannot complete on the bytes that have arrived so far is abandoned
(its own READER_TIMEOUT fires, or the caller cancels it).  What the abandoned call took from
the stream is gone; the stream position is where it stopped -- and NOTHING ELSE is remembered:
the next call on the same reader object is `readFrame` on what the stream holds from there.
(pyplumio/stream.py: the assembly buffer is a local of `read()`; `StreamReader.read(1)` takes
the delimiter, `readexactly(n)` takes nothing until n bytes are there.)
-/
namespace PlumVerif

/-- bytes a call has taken from the stream `s` (everything that has arrived, no end of
stream) when it still waits for more; `none` when the call completes on `s`. -/
def blockedTaken (s : List Byte) : Option Nat :=
  match scan s with
  | none => some s.length                         -- still hunting for a start delimiter
  | some r =>
    match r with
    | l0 :: l1 :: _ :: _ :: _ :: _ :: r1 =>
      let len := l0.toNat + 256 * l1.toNat
      if len > Gen.maxFrameLength ∨ len < Gen.minFrameLength then none
      else if r1.length < len - Gen.headerSize then some (s.length - r1.length)   -- header taken, body awaited
      else none
    | _ => some (s.length - r.length)             -- delimiter taken, rest of the header awaited

/-- calls made one after the other on the available bytes until one cannot complete and is
abandoned: (completed calls, bytes the abandoned call took, what the stream still holds) -/
def completedFuel : Nat → List Byte → List (Outcome × Nat) × Nat × List Byte
  | 0, s => ([], 0, s)
  | fuel + 1, s =>
    match blockedTaken s with
    | some n => ([], n, s.drop n)
    | none =>
      let rf := readFrame s
      let rec_ := completedFuel fuel rf.2
      ((rf.1, s.length - rf.2.length) :: rec_.1, rec_.2.1, rec_.2.2)

def completed (s : List Byte) := completedFuel (s.length + 1) s

inductive SEv
  | call (o : Outcome) (taken : Nat)
  | abandoned (taken : Nat)
deriving Repr, DecidableEq

/-- a session on one reader object: after each chunk the caller reads until a call blocks and
abandons that call; after the last chunk the stream ends and is read to the end. -/
def sessionFrom (pending : List Byte) : List (List Byte) → List SEv
  | [] => (readAll pending).map fun p => .call p.1 p.2
  | c :: cs =>
    let r := completed (pending ++ c)
    r.1.map (fun p => SEv.call p.1 p.2) ++ [.abandoned r.2.1] ++ sessionFrom r.2.2 cs

def session (chunks : List (List Byte)) : List SEv := sessionFrom [] chunks

/-! ### sessions whose calls may also be abandoned at the LAST await of `read()`

`FrameReader.read` has a fourth await point after the three of the stream: `await Frame.create(…)`
(class lookup, executor hop of helpers/factory.py).  A call that is abandoned THERE (its own
READER_TIMEOUT, the caller's `wait_for`, cancellation) has consumed its whole frame and has passed
every gate; nothing is delivered.  The next call is again `readFrame` on what the stream holds. -/

/-- the caller's steps on one reader object -/
inductive Step
  | feed (c : List Byte)      -- bytes arrive
  | calls                     -- `read()` again and again until a call blocks on the bytes that have arrived; that call is abandoned
  | callAbandonedAtCreate     -- ONE call, abandoned if it gets as far as building the frame object (else it completes / blocks as usual)
deriving Repr, DecidableEq

/-- one call that is abandoned at `Frame.create` if it reaches it: events and what the stream still holds -/
def callAtCreate (s : List Byte) : List SEv × List Byte :=
  match blockedTaken s with
  | some n => ([.abandoned n], s.drop n)
  | none =>
    let rf := readFrame s
    match rf.1 with
    | .delivered _ => ([.abandoned (s.length - rf.2.length)], rf.2)     -- consumed, every gate passed, never handed out
    | .connLost => ([], s)                                              -- cannot occur: end of stream is not signalled inside a session
    | o => ([.call o (s.length - rf.2.length)], rf.2)

def sessionX (pending : List Byte) : List Step → List SEv
  | [] => (readAll pending).map fun p => .call p.1 p.2
  | .feed c :: st => sessionX (pending ++ c) st
  | .calls :: st =>
    let r := completed pending
    r.1.map (fun p => SEv.call p.1 p.2) ++ [.abandoned r.2.1] ++ sessionX r.2.2 st
  | .callAbandonedAtCreate :: st =>
    let r := callAtCreate pending
    r.1 ++ sessionX r.2 st

end PlumVerif

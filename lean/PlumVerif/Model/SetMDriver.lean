import PlumVerif.Model.SetM
import PlumVerif.Spec.C08
/-
line-protocol front end for the C08 set/confirm/retry machine

  c08 <hold 0|1> <tracking 0|1> <value> <min> <max> <start ms> <event>*
      -> <group>|<group>|…;<final clock>;<value>:<min>:<max>      (one group per event, `-` = no output)
  c08judge <tracking 0|1> <value> <min> <max> <event>=<out>,<out>… *
      -> pass | fail@<index of the first item that violates the statement>

events:  c:<v>:<retries>:<timeout ms>   b   r:<value>:<min>:<max>   w:<ms>   t   k:<0|1> (tracking flag becomes)
outputs: S:<v>:<t>  R:<t>  T:<t>  F:<t>  E:<t>
-/
namespace PlumVerif
open PlumVerif.SetM

namespace SetM

def parseNats (ws : List String) : Option (List Nat) := ws.mapM (·.toNat?)

def parseBool : String → Option Bool
  | "0" => some false
  | "1" => some true
  | _ => none

def parseEv (tok : String) : Option Ev :=
  match tok.splitOn ":" with
  | ["c", v, r, T] => do pure (.call (← v.toNat?) (SetM.budgetOf (← r.toInt?)) (← T.toNat?))
  | ["b"] => some .built
  | ["r", v, lo, hi] => do pure (.report ⟨← v.toNat?, ← lo.toNat?, ← hi.toNat?⟩)
  | ["w", d] => do pure (.wait (← d.toNat?))
  | ["t"] => some .timer
  | ["k", "0"] => some (.setTracking false)
  | ["k", "1"] => some (.setTracking true)
  | _ => none

def parseOut (tok : String) : Option Out :=
  match tok.splitOn ":" with
  | ["S", v, t] => do pure (.txSet (← v.toNat?) (← t.toNat?))
  | ["R", t] => do pure (.txRefresh (← t.toNat?))
  | ["T", t] => do pure (.ret true (← t.toNat?))
  | ["F", t] => do pure (.ret false (← t.toNat?))
  | ["E", t] => do pure (.raise (← t.toNat?))
  | _ => none

def Out.show : Out → String
  | .txSet v t => s!"S:{v}:{t}"
  | .txRefresh t => s!"R:{t}"
  | .ret true t => s!"T:{t}"
  | .ret false t => s!"F:{t}"
  | .raise t => s!"E:{t}"

def showGroup (g : List Out) : String :=
  if g.isEmpty then "-" else String.intercalate "," (g.map Out.show)

def parseItem (tok : String) : Option C08.Item :=
  match tok.splitOn "=" with
  | [e, os] => do
    let ev ← parseEv e
    let outs ← if os = "-" then some [] else (os.splitOn ",").mapM parseOut
    pure ⟨ev, outs⟩
  | _ => none

end SetM

def setOps : List String → Option String
  | "c08" :: h :: tr :: v :: lo :: hi :: start :: evs => do
    let hold ← SetM.parseBool h
    let tracking ← SetM.parseBool tr
    let v ← v.toNat?; let lo ← lo.toNat?; let hi ← hi.toNat?; let start ← start.toNat?
    let es ← evs.mapM SetM.parseEv
    let s0 := init ⟨v, lo, hi⟩ tracking hold start
    let groups := runGroups s0 es
    let sf := (run s0 es).1
    pure (String.intercalate "|" (groups.map SetM.showGroup) ++ s!";{sf.now};{sf.loc.value}:{sf.loc.min}:{sf.loc.max}")
  | "c08judge" :: tr :: v :: lo :: hi :: items => do
    let tracking ← SetM.parseBool tr
    let v ← v.toNat?; let lo ← lo.toNat?; let hi ← hi.toNat?
    let its ← items.mapM SetM.parseItem
    pure (match C08.firstBad (C08.Mon.init tracking ⟨v, lo, hi⟩) 0 its with
      | none => "pass"
      | some k => s!"fail@{k}")
  | _ => none

end PlumVerif

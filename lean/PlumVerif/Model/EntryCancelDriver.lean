import PlumVerif.Model.EntryCancel
import PlumVerif.Model.EntryDriver
/- line-protocol front end for the entry machine with cancellations

  c10c <consumers> <cr> <ev> …
      ev = F<a>:<m> | U<a> (user get_device_entry) | G<a> | R | XU (cancel the most recent user call) |
           XT (cancel_tasks + connection established again) | C (reconnect)
      -> one snapshot per event, separated by " ; ":  held created setups disp handled gets ; `reject` as for c10
-/
namespace PlumVerif.Entry

def SnapC.show (o : SnapC) : String :=
  let gets := showList (o.gets.map fun g => match g with | some d => toString d | none => "w")
  s!"{o.held} {o.created} {o.setups} {showPairs o.dispatched} {showPairs o.handled} {gets}"

def parseEvC (w : String) : Option EvC :=
  if w = "R" then some .release
  else if w = "C" then some .reconnect
  else if w = "XU" then some .cancelUser
  else if w = "XT" then some .cancelTasks
  else if w.startsWith "U" then (w.drop 1).toNat?.map .user
  else if w.startsWith "G" then (w.drop 1).toNat?.map .get
  else if w.startsWith "F" then
    match (w.drop 1).toString.splitOn ":" with
    | [a, m] => do
      let a ← a.toNat?; let m ← m.toNat?
      if m = 0 then none else pure (.feed a m)
    | _ => none
  else none

def entryCancelOps : List String → Option String
  | "c10c" :: n :: cr :: evs => do
    let n ← n.toNat?
    let cr ← parseList cr String.toNat?
    let evs ← evs.mapM parseEvC
    if evs.isEmpty then none
    pure (String.intercalate " ; " ((replayC n (fun a => cr.contains a) evs).map fun
      | some o => o.show
      | none => "reject"))
  | _ => none

end PlumVerif.Entry

import PlumVerif.Model.Frame
import PlumVerif.Spec.C01
import PlumVerif.Model.ReaderSession
import PlumVerif.Model.ReaderChunks
import PlumVerif.Model.ReaderSched
/- line-protocol front end for the frame envelope model -/
namespace PlumVerif

def PErr.tag : PErr → String
  | .incompleteHeader => "incompleteHeader"
  | .badLength => "badLength"
  | .incompleteFrame => "incompleteFrame"
  | .unknownDevice => "unknownDevice"
  | .checksum => "checksum"
  | .unknownFrame => "unknownFrame"

def Outcome.show : Outcome × Nat → String
  | (.delivered f, n) =>
    s!"D {f.kind.toNat} {f.rcpt.toNat} {f.sender.toNat} {f.etype.toNat} {f.ever.toNat} {showHex f.payload} {n}"
  | (.ignored, n) => s!"I {n}"
  | (.protoErr e, n) => s!"E {e.tag} {n}"
  | (.connLost, n) => s!"L {n}"

def frameOps : List String → Option String
  | ["read", h] => do
    let bs ← parseHex h
    pure (String.intercalate ";" ((readAll bs).map Outcome.show))
  | ["session", chunks] => do
    -- chunks joined by '+': after each chunk calls are made until one blocks and is abandoned; then the stream ends
    let cs ← (chunks.splitOn "+").mapM parseHex
    pure (String.intercalate ";" ((session cs).map fun
      | .call o n => Outcome.show (o, n)
      | .abandoned n => s!"A {n}"))
  | ["sessionx", steps] => do
    -- steps joined by ',': f<hex> bytes arrive | c calls until one blocks (abandoned) | x one call, abandoned at Frame.create if it gets there
    let st ← (steps.splitOn ",").mapM fun w =>
      if w = "c" then some Step.calls
      else if w = "x" then some Step.callAbandonedAtCreate
      else if w.startsWith "f" then (parseHex (String.ofList (w.toList.drop 1))).map Step.feed
      else none
    pure (String.intercalate ";" ((sessionX [] st).map fun
      | .call o n => Outcome.show (o, n)
      | .abandoned n => s!"A {n}"))
  | ["readchunks", eager, chunks] => do
    -- chunks joined by '+' ('-' = an empty chunk); eager: '-' or comma-separated numbers of chunks that have arrived before call i.
    -- answer per call: outcome, consumed, '@', the suspensions of that call (S|H|B + bytes buffered while it waits)
    let cs ← (chunks.splitOn "+").mapM parseHex
    let eg ← if eager = "-" then some [] else (eager.splitOn ",").mapM String.toNat?
    let outs := readChunks eg cs
    let trs := traceChunksFuel (cs.flatten.length + 1) false eg [] cs
    let showTr (t : List (RState × Nat)) : String :=
      if t.isEmpty then "-" else String.intercalate "," (t.map fun p =>
        (match p.1 with | .scanning => "S" | .header => "H" | .body .. => "B") ++ toString p.2 ++ "/" ++ toString (p.1.demand p.2))
    pure (String.intercalate ";" ((outs.zip trs).map fun p => Outcome.show p.1 ++ " @ " ++ showTr p.2))
  | ["sched", moves, chunks] => do
    -- the reader and the arriving chunks as one system: moves 'a' (next chunk / end of stream arrives) and 'r' (the reader runs
    -- to completion of its call or to its next suspension) in the given order.  Answer: completed calls '@' state buffered finished
    let cs ← (chunks.splitOn "+").mapM parseHex
    let ms ← moves.toList.mapM fun c => if c = 'a' then some Move.arrive else if c = 'r' then some Move.run else none
    let s := (Sys.init cs).run ms
    let tag := match s.st with | .scanning => "S" | .header => "H" | .body .. => "B"
    pure ((if s.outs.isEmpty then "-" else String.intercalate ";" (s.outs.map Outcome.show)) ++ " @ " ++ tag ++ " " ++
      toString s.buf.length ++ " " ++ (if s.finished then "1" else "0"))
  | ["encode", k, rc, sd, et, ev, p] => do
    let pl ← parseHex p
    let k ← k.toNat?; let rc ← rc.toNat?; let sd ← sd.toNat?; let et ← et.toNat?; let ev ← ev.toNat?
    if k < 256 ∧ rc < 256 ∧ sd < 256 ∧ et < 256 ∧ ev < 256 ∧ pl.length + 10 < 65536 then
      pure (showHex (encode ⟨k.toUInt8, rc.toUInt8, sd.toUInt8, et.toUInt8, ev.toUInt8, pl⟩))
    else none
  | ["c01judge", consumed, k, rc, sd, et, ev, p] => do
    let cs ← parseHex consumed
    let pl ← parseHex p
    let k ← k.toNat?; let rc ← rc.toNat?; let sd ← sd.toNat?; let et ← et.toNat?; let ev ← ev.toNat?
    if k < 256 ∧ rc < 256 ∧ sd < 256 ∧ et < 256 ∧ ev < 256 then
      pure (if C01.spec cs (some ⟨k.toUInt8, rc.toUInt8, sd.toUInt8, et.toUInt8, ev.toUInt8, pl⟩) then "pass" else "fail")
    else none
  | _ => none

end PlumVerif

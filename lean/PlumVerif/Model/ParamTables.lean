import PlumVerif.Generated.Params
import PlumVerif.Generated.Scaling
import PlumVerif.Model.Scaling
/-
Which conversion applies to which row of which generated table (the class is chosen by the
device code: `EcomaxSwitch if isinstance(description, EcomaxSwitchDescription) else EcomaxNumber`
and likewise for mixers, thermostats and schedules).
-/
namespace PlumVerif.Scaling
open PlumVerif

/-- where a description lives -/
inductive TKind where
  | ecomax | mixer | thermostat | schedule | control | profile
deriving Repr, DecidableEq, Inhabited

def TKind.numCls : TKind → Cls
  | .ecomax => .scaledOff
  | .mixer => .scaledOff
  | .thermostat => .scaled
  | .schedule => .plain
  | .control => .switch
  | .profile => .scaledOff

/-- conversion of a table row -/
def convOf (k : TKind) (d : Gen.Desc) : Conv :=
  let cls := if d.switch then Cls.switch else k.numCls
  ⟨cls, d.multNum, d.multDen, if cls == .scaledOff then d.offset else 0, d.precision⟩

def Combo.conv (c : Gen.Combo) : Conv :=
  ⟨if c.useOffset then .scaledOff else .scaled, c.multNum, c.multDen, c.offset, c.precision⟩

/-- combination of a scaled number row -/
def comboOf (k : TKind) (d : Gen.Desc) : Gen.Combo :=
  ⟨k.numCls == .scaledOff, d.multNum, d.multDen, if k.numCls == .scaledOff then d.offset else 0, d.precision, d.size⟩

/-- every (table kind, row) pair the properties range over -/
def allRows : List (TKind × Gen.Desc) :=
  Gen.ecomaxP.map (fun d => (TKind.ecomax, d)) ++ Gen.ecomaxI.map (fun d => (TKind.ecomax, d)) ++
  Gen.mixerP.map (fun d => (TKind.mixer, d)) ++ Gen.mixerI.map (fun d => (TKind.mixer, d)) ++
  Gen.thermostat.map (fun d => (TKind.thermostat, d)) ++
  Gen.scheduleParams.map (fun d => (TKind.schedule, d)) ++
  [(TKind.control, Gen.ecomaxControl), (TKind.profile, Gen.thermostatProfile)]

/-- rows whose `set`/`value` go through the float scaling -/
def isScaled (k : TKind) (d : Gen.Desc) : Bool :=
  !d.switch && (k.numCls == .scaledOff || k.numCls == .scaled)

end PlumVerif.Scaling

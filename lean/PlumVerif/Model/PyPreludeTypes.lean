import PlumVerif.Model.PyPrelude
/-
Semantic prelude, second part: the Python primitives used by the CLASSES translated by
`tools/py2lean_types.py` (wire types of helpers/data_types.py, network / version structures, the
frame object).  Import-free apart from PyPrelude; compiled into the native driver and validated against
CPython by `harness/pycode_types.py`.  TRUSTED together with PyPrelude.lean.

* An INSTANCE of a class with `__slots__` is `V.obj cls slots vals`: the slots declared along the
  base-class chain, in declaration order (base first), every slot present from `__new__` on; a slot that
  was never assigned holds the marker `unset` (not a Python value).  `self.x = e` REPLACES the slot's
  value (a name that is not a declared slot: AttributeError, as `__slots__` classes do); objects are
  values — aliasing is not modelled, the translator rejects programs that would observe it.
  A method is translated to a function `self → args → PyM (result × self')`.
* `struct.Struct(fmt).pack / unpack_from / size` for the ten one-field little-endian formats
  `<b <B <h <H <i <I <q <Q <f <d`.  A Python `float` that came out of `<f` / `<d` is carried as the
  bit pattern it was read from (`floatBits k n`): IEEE conversion inside `struct` is TRUSTED to be the
  identity on patterns (NaN payloads: see harness/pycode_types.py), arithmetic on floats is not modelled.
* Text: `str.encode()` is Lean's UTF-8 encoding of a `String` (sequences of Unicode scalar values;
  lone surrogates cannot be written down); `bytes.decode("utf-8", "replace")` is defined on VALID
  UTF-8 only, an invalid sequence answers `unsupported` (the replacement algorithm is not modelled —
  never guessed).  `socket.inet_ntoa` formats four bytes as dotted decimal; `socket.inet_aton` is defined
  on exactly those canonical texts (CPython accepts more spellings: `unsupported`).  IPv6 texts are
  carried as the 16 bytes they denote (`ipv6Text`), `inet_pton ∘ inet_ntop = id` TRUSTED.
-/
namespace PlumVerif.PyT
open PlumVerif.Py

/-! ### objects with slots -/

/-- the content of a slot that was never assigned -/
def unset : V := .obj "<unset>" [] []

def isUnset : V → Bool
  | .obj "<unset>" [] [] => true
  | _ => false

/-- `object.__new__(cls)` for a class whose slots (along the base chain) are `slots` -/
def newobj (cls : String) (slots : List String) : V := .obj cls slots (slots.map fun _ => unset)

def setSlot (ks : List String) (vs : List V) (k : String) (x : V) : Option (List V) :=
  match ks, vs with
  | k' :: ks, v :: vs => if k' = k then some (x :: vs) else (setSlot ks vs k x).map (v :: ·)
  | _, _ => Option.none

/-- `o.k = x` -/
def setattr (o : V) (k : String) (x : V) : PyM V :=
  match o with
  | .obj c ks vs =>
    match setSlot ks vs k x with
    | some vs' => pure (.obj c ks vs')
    | Option.none => throw .AttributeError
  | _ => throw .AttributeError

/-- `o.k` for a slot / data-class field `k` -/
def getattr (o : V) (k : String) : PyM V :=
  match o with
  | .obj _ ks vs =>
    match lookup ks vs k with
    | some x => if isUnset x then throw .AttributeError else pure x
    | Option.none => throw .AttributeError
  | _ => throw .AttributeError

/-- `hasattr(o, k)` for a slot name `k` (class attributes and methods are resolved by the translator) -/
def hasattr (o : V) (k : String) : V :=
  match o with
  | .obj _ ks vs =>
    match lookup ks vs k with
    | some x => .bool (!isUnset x)
    | Option.none => .bool false
  | _ => .bool false

/-- `isinstance(o, C)` where `classes` are the names of `C` and of its subclasses in the translated modules -/
def isinstanceOf (o : V) (classes : List String) : V :=
  match o with
  | .obj c _ _ => .bool (classes.contains c)
  | _ => .bool false

/-- `type(a) is type(b)`: objects of the translated classes only -/
def sameType (a b : V) : PyM V :=
  match a, b with
  | .obj c _ _, .obj d _ _ => pure (.bool (c == d))
  | _, _ => throw .unsupported

/-- the singleton `NotImplemented` -/
def notImplemented : V := .obj "NotImplementedType" [] []

/-- `a == b` where the operands may be containers of scalars (`Py.eq` declines those) -/
def eqDeep (a b : V) : PyM V :=
  match a, b with
  | .obj .., _ => throw .unsupported
  | _, .obj .. => throw .unsupported
  | .tuple xs, .tuple ys | .list xs, .list ys =>
    if xs.length != ys.length then pure (.bool false)
    else do
      let rs ← (xs.zip ys).mapM fun (x, y) => Py.eqB x y
      pure (.bool (rs.all id))
  | .tuple _, .list _ | .list _, .tuple _ => pure (.bool false)
  | _, _ => Py.eq a b

/-! ### `struct` with one-field little-endian formats -/

structure Fmt where
  size : Nat
  signed : Bool
  float : Bool

def fmtInfo (fmt : String) : Option Fmt :=
  if fmt = "<b" then some ⟨1, true, false⟩ else if fmt = "<B" then some ⟨1, false, false⟩
  else if fmt = "<h" then some ⟨2, true, false⟩ else if fmt = "<H" then some ⟨2, false, false⟩
  else if fmt = "<i" then some ⟨4, true, false⟩ else if fmt = "<I" then some ⟨4, false, false⟩
  else if fmt = "<q" then some ⟨8, true, false⟩ else if fmt = "<Q" then some ⟨8, false, false⟩
  else if fmt = "<f" then some ⟨4, false, true⟩ else if fmt = "<d" then some ⟨8, false, true⟩
  else Option.none

/-- a Python float read from a `k`-byte IEEE field with bit pattern `n` -/
def floatBits (k : Nat) (n : Nat) : V := .obj "float" ["bytes", "bits"] [.int k, .int n]

/-- `struct.Struct(fmt).size` -/
def struct_size (fmt : String) : PyM V :=
  match fmtInfo fmt with
  | some f => pure (.int f.size)
  | Option.none => throw .unsupported

/-- `struct.Struct(fmt).pack(x)`: `struct.error` for a value that is not an integer or is out of range -/
def struct_pack (fmt : String) (x : V) : PyM V :=
  match fmtInfo fmt with
  | Option.none => throw .unsupported
  | some f =>
    if f.float then
      match x with
      | .obj "float" ["bytes", "bits"] [.int k, .int n] =>
        if k = f.size ∧ 0 ≤ n ∧ n.toNat < 256 ^ f.size then pure (.bytes (encodeLE n.toNat f.size))
        else throw .unsupported      -- a float of the other width: conversion not modelled
      | .int _ | .bool _ => throw .unsupported      -- int → float conversion not modelled
      | _ => throw .StructError
    else
      match asInt? x with
      | Option.none => throw .StructError
      | some v =>
        let m : Int := (256 ^ f.size : Nat)
        if f.signed then
          if -(m / 2) ≤ v ∧ v < m / 2 then pure (.bytes (encodeLE (if v < 0 then (v + m).toNat else v.toNat) f.size))
          else throw .StructError
        else
          if 0 ≤ v ∧ v < m then pure (.bytes (encodeLE v.toNat f.size)) else throw .StructError

/-- `struct.Struct(fmt).unpack_from(buf)`: a 1-tuple; `struct.error` when the buffer is too short -/
def struct_unpack_from (fmt : String) (buf : V) : PyM V :=
  match fmtInfo fmt with
  | Option.none => throw .unsupported
  | some f =>
    match buf with
    | .bytes b =>
      if b.length < f.size then throw .StructError
      else
        let n := decodeLE (b.take f.size)
        if f.float then pure (.tuple [floatBits f.size n])
        else if f.signed then
          pure (.tuple [.int (if n < 256 ^ f.size / 2 then (n : Int) else (n : Int) - (256 ^ f.size : Nat))])
        else pure (.tuple [.int n])
    | _ => throw .TypeError

/-! ### text -/

/-- `s.encode()` (UTF-8) -/
def str_encode (s : V) : PyM V :=
  match s with
  | .str s => pure (.bytes s.toUTF8.data.toList)
  | _ => throw .AttributeError

/-- `b.decode("utf-8", "replace")`: defined on valid UTF-8 -/
def bytes_decode_replace (b : V) : PyM V :=
  match b with
  | .bytes b =>
    match String.fromUTF8? ⟨b.toArray⟩ with
    | some s => pure (.str s)
    | Option.none => throw .unsupported
  | .str _ => throw .AttributeError
  | _ => throw .AttributeError

def splitAt1 (b : List UInt8) (sep : UInt8) : List (List UInt8) :=
  let pre := b.takeWhile (· != sep)
  if pre.length < b.length then [pre, b.drop (pre.length + 1)] else [pre]

/-- `b.split(sep, 1)` for a one-byte separator -/
def bytes_split1 (b sep : V) : PyM V :=
  match b, sep with
  | .bytes b, .bytes [s] => pure (.list ((splitAt1 b s).map .bytes))
  | .bytes _, .bytes _ => throw .unsupported
  | _, _ => throw .unsupported

/-- `b"\0" * n` and friends: repetition of a byte string -/
def bytes_repeat (b n : V) : PyM V :=
  match b, n with
  | .bytes b, .int n => pure (.bytes ((List.replicate n.toNat b).flatten))
  | _, _ => throw .unsupported

/-- `int(x)` on ints and bools -/
def int_of (x : V) : PyM V :=
  match asInt? x with
  | some i => pure (.int i)
  | Option.none => throw .unsupported

/-! ### addresses -/

def digitsOf (n : Nat) : List Char := (Nat.repr n).toList

/-- `socket.inet_ntoa(packed)`: dotted decimal; a buffer that is not 4 bytes long: OSError -/
def inet_ntoa (p : V) : PyM V :=
  match p with
  | .bytes [a, b, c, d] =>
    pure (.str (String.ofList (digitsOf a.toNat ++ '.' :: digitsOf b.toNat ++ '.' :: digitsOf c.toNat ++ '.' :: digitsOf d.toNat)))
  | .bytes _ => throw .OSError
  | _ => throw .TypeError

/-- decimal number without sign; `none` for an empty string or a non-digit -/
def readDec : List Char → Option Nat
  | [] => Option.none
  | cs => cs.foldl (fun acc c => match acc with
      | some n => if c.isDigit then some (n * 10 + (c.toNat - 48)) else Option.none
      | Option.none => Option.none) (some 0)

/-- one component of a canonical dotted-decimal text: what `inet_ntoa` writes for a byte -/
def readComp (cs : List Char) : Option UInt8 :=
  match readDec cs with
  | some n => if n < 256 ∧ digitsOf n = cs then some n.toUInt8 else Option.none
  | Option.none => Option.none

/-- the components between the dots -/
def splitDots : List Char → List (List Char)
  | [] => [[]]
  | c :: r =>
    if c = '.' then [] :: splitDots r
    else match splitDots r with
      | h :: t => (c :: h) :: t
      | [] => [[c]]

/-- `socket.inet_aton(text)` on canonical dotted-decimal texts (`unsupported` for every other spelling) -/
def inet_aton (s : V) : PyM V :=
  match s with
  | .str s =>
    match (splitDots s.toList).map readComp with
    | [some a, some b, some c, some d] => pure (.bytes [a, b, c, d])
    | _ => throw .unsupported
  | _ => throw .TypeError

/-- the text form of an IPv6 address, carried as the 16 bytes it denotes -/
def ipv6Text (p : List UInt8) : V := .obj "ipv6text" ["packed"] [.bytes p]

/-- `socket.inet_ntop(AF_INET6, packed)`: ValueError for a buffer that is not 16 bytes long -/
def inet_ntop6 (p : V) : PyM V :=
  match p with
  | .bytes b => if b.length = 16 then pure (ipv6Text b) else throw .ValueError
  | _ => throw .TypeError

/-- `socket.inet_pton(AF_INET6, text)` -/
def inet_pton6 (s : V) : PyM V :=
  match s with
  | .obj "ipv6text" ["packed"] [.bytes b] => pure (.bytes b)
  | .str _ => throw .unsupported
  | _ => throw .TypeError

/-! ### abstract methods, multi-field `struct`, byte arrays (frame object) -/

/-- the ABSTRACT methods / class variables of a base class as seen from the translated base-class code: a parameter of
every translated method of such a class.  `env name (self :: args)` is the result of `self.name(args)` (`self.name` for a
class variable); the callee is assumed not to assign slots of `self` (true of every `create_message` /
`decode_message` in the repository; the translator cannot check it, the harness does on the kinds it drives). -/
abbrev Env := String → List V → PyM V

/-- the environment the validation harness uses (harness/pycode_types.py defines the same subclass of `Frame`):
`create_message(data)` = `data.get("m", b"")` (ValueError when it is not bytes), `decode_message(m)` = `{"m": bytes(m)}`
(ValueError on a leading 0xEE), `frame_type` = 49 -/
def testEnv : Env := fun name args =>
  match name, args with
  | "create_message", [_, .dict ks vs] =>
    match lookup ks vs "m" with
    | some (.bytes b) => pure (.bytes b)
    | some _ => throw .ValueError
    | Option.none => pure (.bytes [])
  | "decode_message", [_, .bytes b] =>
    match b with
    | 0xEE :: _ => throw .ValueError
    | _ => pure (.dict ["m"] [.bytes b])
  | "frame_type", [_] => pure (.int 49)
  | _, _ => throw .unsupported

/-- field widths of a little-endian format of unsigned fields (`B` 1 byte, `H` 2 bytes, with repeat counts):
`"<BH4B"` ↦ `[1, 2, 1, 1, 1, 1]` -/
def fmtFieldsAux : List Char → Nat → Option (List Nat)
  | [], 0 => some []
  | [], _ => Option.none
  | c :: r, k =>
    if c.isDigit then fmtFieldsAux r (k * 10 + (c.toNat - 48))
    else
      let w := if c = 'B' then some 1 else if c = 'H' then some 2 else Option.none
      match w, fmtFieldsAux r 0 with
      | some w, some rest => some (List.replicate (if k = 0 then 1 else k) w ++ rest)
      | _, _ => Option.none

def fmtFields (fmt : String) : Option (List Nat) :=
  match fmt.toList with
  | '<' :: r => fmtFieldsAux r 0
  | _ => Option.none

/-- the packed fields, `struct.error` for a value that is not an integer or is out of range -/
def packFields : List Nat → List V → PyM (List UInt8)
  | [], [] => pure []
  | w :: ws, x :: xs =>
    match asInt? x with
    | some v =>
      if 0 ≤ v ∧ v < (256 ^ w : Nat) then do
        let rest ← packFields ws xs
        pure (encodeLE v.toNat w ++ rest)
      else throw .StructError
    | Option.none => throw .StructError
  | _, _ => throw .StructError

/-- `struct.Struct(fmt).pack_into(buffer, offset, *args)` for formats of unsigned byte / short fields: the buffer
afterwards (`struct.error` when the fields do not fit into the buffer at that offset) -/
def struct_pack_into (fmt : String) (buf off : V) (args : List V) : PyM V :=
  match fmtFields fmt, buf, off with
  | some ws, .bytes b, .int o =>
    if o < 0 then throw .unsupported
    else do
      let packed ← packFields ws args
      if o.toNat + packed.length ≤ b.length then
        pure (.bytes (b.take o.toNat ++ packed ++ b.drop (o.toNat + packed.length)))
      else throw .StructError
  | _, _, _ => throw .unsupported

/-- `buf.append(x)` on a bytearray: the buffer afterwards (ValueError for a value outside 0..255) -/
def bytearray_append (buf x : V) : PyM V :=
  match buf with
  | .bytes b => do let y ← byteOfV x; pure (.bytes (b ++ [y]))
  | _ => throw .AttributeError

end PlumVerif.PyT

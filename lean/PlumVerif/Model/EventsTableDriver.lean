import PlumVerif.Model.EventsTable
/-
Line-protocol front end for the event table machine (C13, `Model/EventsTable.lean`).

  c13ev <word>*     -> the snapshots taken at the `snap` words, ` | `-joined (`.` when none)
  word : ce:<n> | se:<n> | st:<n>:<v> | ld:<n>=<v>,<n>=<v>.. (or ld:-) | w:<n>:<t|u>:<g|w> | rs:<j> | ex:<j> | ca:<j> | rsall | exall | snap
         (`rsall`: every woken waiter resumes, oldest first; `exall`: every timed wait still waiting times out)
  snapshot : E<n>:<id>:<0|1>,.. ; D<n>=<v>,.. ; W<ph>,<ph>,..       names 0..3;  ph: w | r<v> | rN | K | T | C | ?
-/
namespace PlumVerif.C13T

def parseOp (w : String) : Option (List Op ⊕ Unit) :=
  match w.splitOn ":" with
  | ["ce", n] => n.toNat?.map fun n => .inl [.createEvent n]
  | ["se", n] => n.toNat?.map fun n => .inl [.setEvent n]
  | ["st", n, v] => do pure (.inl [.store (← n.toNat?) (← v.toNat?)])
  | ["ld", "-"] => some (.inl [.load []])
  | ["ld", kvs] => do
    let items ← (kvs.splitOn ",").mapM fun kv =>
      match kv.splitOn "=" with
      | [k, v] => do pure ((← k.toNat?), (← v.toNat?))
      | _ => none
    pure (.inl [.load items])
  | ["w", n, t, g] =>
    if (t = "t" || t = "u") && (g = "g" || g = "w") then n.toNat?.map fun n => .inl [.wait n (t = "t") (g = "g")] else none
  | ["rs", j] => j.toNat?.map fun j => .inl [.resume j]
  | ["ex", j] => j.toNat?.map fun j => .inl [.expire j]
  | ["ca", j] => j.toNat?.map fun j => .inl [.cancel j]
  | ["snap"] => some (.inr ())
  | _ => none

def showPh : WPh → String
  | .waiting _ => "w"
  | .woken => "?"
  | .returned (some v) => s!"r{v}"
  | .returned none => "rN"
  | .keyError => "K"
  | .timedOut => "T"
  | .cancelled => "C"

def showSnap (s : St) : String :=
  let ev := (eventsView s 4).map fun (n, i, b) => s!"{n}:{i}:{if b then 1 else 0}"
  let da := (List.range 4).filterMap fun n => (s.data n).map fun v => s!"{n}={v}"
  "E" ++ String.intercalate "," ev ++ ";D" ++ String.intercalate "," da ++ ";W" ++ String.intercalate "," (s.ws.map fun w => showPh w.ph)

def tableOps : List String → Option String
  | "c13ev" :: ws => do
    let step1 (acc : St × List String) (w : String) : Option (St × List String) :=
      if w = "rsall" then some ((List.range acc.1.ws.length).foldl (fun s j => step s (.resume j)) acc.1, acc.2)
      else if w = "exall" then some ((List.range acc.1.ws.length).foldl (fun s j => step s (.expire j)) acc.1, acc.2)
      else match parseOp w with
        | some (.inl ops) => some (run acc.1 ops, acc.2)
        | some (.inr ()) => some (acc.1, acc.2 ++ [showSnap acc.1])
        | none => none
    let r ← ws.foldlM step1 (init, [])
    pure (if r.2.isEmpty then "." else String.intercalate " | " r.2)
  | _ => none

end PlumVerif.C13T

import PlumVerif.Model.Basic
/-
C13 — event dispatch (`pyplumio/helpers/event_manager.py`, `task_manager.py`) as an
interleaving machine.

* A *subscription* (`Sub`) is one entry of a per-name callback list: the callback function
  `cb`, whether it is a `subscribe_once` wrapper, and a unique instance number `sid` (a
  ghost: two subscriptions of the same function are different entries; a `subscribe_once`
  wrapper is a fresh closure object, so its `sid` is its identity).
* Callback functions are scripted (`Script`): how many times the body suspends before it
  returns (each suspension is an await on something outside — the scheduler decides when it
  resumes) and what it returns (`keep` = None, `add c` = the value plus c).
* A dispatch task (`DTask`) takes a snapshot of the live list when it first runs
  (`list(callbacks)`), then walks it: a plain entry is awaited; a once-wrapper first
  unsubscribes itself from the LIVE list and awaits the callback only if that succeeded (code
  after fix ee9b4d5).  When the snapshot is exhausted the value is stored and the waiters of
  the name are woken.
* A waiter task (`WTask`) is `get`/`wait_for`: returns at once when a value exists, else
  waits for the (lazily created, never cleared) per-name event with an optional deadline.
* `step` executes one event: an API call, "task i moves" (runs until its next suspension), or
  the clock advancing.  A schedule is any list of events; disabled moves are no-ops.

Ghost fields (`snapshot`, `startedAt`, `trail`, `removed`, `clock`, `t0`, `sid`) do not
influence behaviour; they are what the theorems speak about.
-/
namespace PlumVerif.C13

structure Sub where
  sid : Nat
  cb : Nat
  once : Bool
  deriving DecidableEq, Repr, Inhabited

inductive Ret where
  | keep
  | add (c : Nat)
  deriving DecidableEq, Repr, Inhabited

def Ret.apply : Ret → Nat → Nat
  | .keep, v => v
  | .add c, v => v + c

structure Script where
  susp : Nat
  ret : Ret
  deriving Repr, Inhabited

/-- one awaited callback: by which dispatch task, through which subscription, with which value -/
structure LogE where
  task : Nat
  sub : Sub
  val : Nat
  deriving DecidableEq, Repr

inductive DPhase where
  | absent
  | created                                                  -- task exists, has not run yet
  | running                                                  -- executing right now (only inside a step)
  | inCb (rest : List Sub) (sub : Sub) (left : Nat) (val : Nat)  -- suspended inside `sub`'s callback
  | done (final : Nat)
  deriving DecidableEq, Repr, Inhabited

structure DTask where
  name : Nat
  init : Nat
  ph : DPhase
  snapshot : List Sub                  -- ghost: the list copied when the task first ran
  startedAt : Nat                      -- ghost: event counter when it first ran
  trail : List (Sub × Option Nat)      -- ghost: snapshot entries handled so far: awaited with v / skipped
  spawnedAt : Nat                      -- ghost: event counter when the task was created
  subsAtSpawn : Nat → Nat              -- ghost: per callback function, how many plain subscriptions to the
                                       --   task's name had been made when it was created
  deriving Inhabited

inductive WPhase where
  | absent
  | created
  | waiting (deadline : Option Nat)
  | woken                              -- the event was set; the task has not resumed yet
  | returned (v : Nat) (at_ : Nat)
  | timedOut (at_ : Nat)
  deriving DecidableEq, Repr, Inhabited

structure WTask where
  name : Nat
  timeout : Option Nat
  ph : WPhase
  t0 : Nat                             -- ghost: clock reading when it started to wait
  had : Bool                           -- ghost: a value existed when the task started
  deriving Repr, Inhabited

structure St where
  subs : Nat → List Sub                -- `_callbacks[name]`
  data : Nat → Option Nat              -- `data[name]`
  d : Nat → DTask
  nd : Nat
  w : Nat → WTask
  nw : Nat
  log : List LogE                      -- awaited callbacks, oldest first
  removed : List (Nat × Nat)           -- ghost: (sid, event counter) of every removal from a live list
  subscribed : List (Nat × Sub)        -- ghost: every subscription ever made, with its name, in order
  nSub : Nat → Nat → Nat               -- ghost: per (name, function): plain `subscribe` calls so far
  nUnsub : Nat → Nat → Nat             -- ghost: per (name, function): `unsubscribe(name, function)` calls so far
  nextSid : Nat
  clock : Nat                          -- ghost: number of events executed
  now : Nat                            -- virtual time (ticks)

def upd {α : Type} (f : Nat → α) (i : Nat) (v : α) : Nat → α := fun j => if j = i then v else f j

def init : St :=
  { subs := fun _ => [], data := fun _ => none,
    d := fun _ => ⟨0, 0, .absent, [], 0, [], 0, fun _ => 0⟩, nd := 0,
    w := fun _ => ⟨0, none, .absent, 0, false⟩, nw := 0,
    log := [], removed := [], subscribed := [], nSub := fun _ _ => 0, nUnsub := fun _ _ => 0,
    nextSid := 0, clock := 0, now := 0 }

/-- count one more call for (name, function) -/
def bump (f : Nat → Nat → Nat) (n cb : Nat) : Nat → Nat → Nat :=
  fun n' cb' => if n' = n ∧ cb' = cb then f n' cb' + 1 else f n' cb'

/-- number of plain (not once) entries of the function `cb` in a callback list -/
def plainCount (l : List Sub) (cb : Nat) : Nat := (l.filter fun u => !u.once && u.cb == cb).length

inductive Ev where
  | subscribe (n cb : Nat)
  | subscribeOnce (n cb : Nat)
  | unsubCb (n cb : Nat)               -- unsubscribe(name, <the function>)
  | unsubOnce (n sid : Nat)            -- unsubscribe(name, <the wrapper subscribe_once returned>)
  | spawnDispatch (n v : Nat)          -- dispatch_nowait / a task awaiting dispatch()
  | spawnWait (n : Nat) (timeout : Option Nat)   -- a task awaiting get() / wait_for()
  | stepD (i : Nat)                    -- dispatch task i moves
  | stepW (j : Nat)                    -- waiter task j moves
  | advance (t : Nat)                  -- the clock reaches t
  deriving Repr

/-- `set_event(name)`: every task waiting on the name's event is made ready -/
def wake (w : Nat → WTask) (n : Nat) : Nat → WTask := fun j =>
  match (w j).ph with
  | .waiting _ => if (w j).name = n then { w j with ph := .woken } else w j
  | _ => w j

/-- remove the entry with this instance number from a live list -/
def dropSid (l : List Sub) (sid : Nat) : List Sub := l.filter (·.sid != sid)

/-- the once-wrapper `u` finds itself no longer in the live list of `name` -/
def gone (s : St) (name : Nat) (u : Sub) : Bool := u.once && !(s.subs name).any (·.sid == u.sid)

/-- … and returns None without awaiting the callback -/
def skipSt (s : St) (i : Nat) (u : Sub) : St :=
  { s with d := upd s.d i { s.d i with trail := (s.d i).trail ++ [(u, none)] } }

/-- the callback of `u` is awaited with `val` (a once-wrapper first removes itself) -/
def invokeSt (s : St) (i name : Nat) (u : Sub) (val : Nat) : St :=
  { s with subs := if u.once then upd s.subs name (dropSid (s.subs name) u.sid) else s.subs,
           removed := if u.once then s.removed ++ [(u.sid, s.clock)] else s.removed,
           log := s.log ++ [⟨i, u, val⟩],
           d := upd s.d i { s.d i with trail := (s.d i).trail ++ [(u, some val)] } }

/-- the callback suspends: the task waits inside it -/
def suspendSt (s : St) (i : Nat) (rest : List Sub) (u : Sub) (k val : Nat) : St :=
  { s with d := upd s.d i { s.d i with ph := .inCb rest u k val } }

/-- snapshot exhausted: `data[name] = value; set_event(name)` -/
def storeSt (s : St) (i name val : Nat) : St :=
  { s with data := upd s.data name (some val), w := wake s.w name,
           d := upd s.d i { s.d i with ph := .done val } }

/-- dispatch task `i` (for `name`) walks the rest of its snapshot with current value `val`
until a callback suspends or the snapshot is exhausted -/
def walk (sc : Nat → Script) (i name : Nat) : St → List Sub → Nat → St
  | s, [], val => storeSt s i name val
  | s, u :: rest, val =>
    if gone s name u then walk sc i name (skipSt s i u) rest val
    else match (sc u.cb).susp with
      | 0 => walk sc i name (invokeSt s i name u val) rest ((sc u.cb).ret.apply val)
      | k + 1 => suspendSt (invokeSt s i name u val) i rest u k val

def stepD (sc : Nat → Script) (s : St) (i : Nat) : St :=
  match (s.d i).ph with
  | .created =>
    let snap := s.subs (s.d i).name
    walk sc i (s.d i).name
      { s with d := upd s.d i { s.d i with snapshot := snap, startedAt := s.clock, ph := .running } } snap (s.d i).init
  | .inCb rest u (k + 1) val => { s with d := upd s.d i { s.d i with ph := .inCb rest u k val } }
  | .inCb rest u 0 val =>
    walk sc i (s.d i).name { s with d := upd s.d i { s.d i with ph := .running } } rest ((sc u.cb).ret.apply val)
  | _ => s

def stepW (s : St) (j : Nat) : St :=
  match (s.w j).ph with
  | .created =>
    match s.data (s.w j).name with
    | some v => { s with w := upd s.w j { s.w j with ph := .returned v s.now, t0 := s.now, had := true } }
    | none =>
      match (s.w j).timeout with
      | some 0 => { s with w := upd s.w j { s.w j with ph := .timedOut s.now, t0 := s.now } }   -- wait_for(…, 0)
      | to => { s with w := upd s.w j { s.w j with ph := .waiting (to.map (s.now + ·)), t0 := s.now } }
  | .woken => { s with w := upd s.w j { s.w j with ph := .returned ((s.data (s.w j).name).getD 0) s.now } }
  | _ => s

/-- a wait whose deadline has come by `t` raises TimeoutError, at its deadline -/
def expire (t : Nat) (x : WTask) : WTask :=
  match x.ph with
  | .waiting (some dl) => if dl ≤ t then { x with ph := .timedOut dl } else x
  | _ => x

/-- the clock reaches `t` -/
def advance (s : St) (t : Nat) : St :=
  if t ≤ s.now then s else { s with now := t, w := fun j => expire t (s.w j) }

/-- first plain (not once) entry of the function `cb` -/
def findCb (l : List Sub) (cb : Nat) : Option Sub := l.find? fun u => !u.once && u.cb == cb

def apply (sc : Nat → Script) (s : St) : Ev → St
  | .subscribe n cb =>
    { s with subs := upd s.subs n (s.subs n ++ [⟨s.nextSid, cb, false⟩]), nextSid := s.nextSid + 1,
             subscribed := s.subscribed ++ [(n, ⟨s.nextSid, cb, false⟩)], nSub := bump s.nSub n cb }
  | .subscribeOnce n cb =>
    { s with subs := upd s.subs n (s.subs n ++ [⟨s.nextSid, cb, true⟩]), nextSid := s.nextSid + 1,
             subscribed := s.subscribed ++ [(n, ⟨s.nextSid, cb, true⟩)] }
  | .unsubCb n cb =>
    match findCb (s.subs n) cb with
    | some u => { s with subs := upd s.subs n (dropSid (s.subs n) u.sid), removed := s.removed ++ [(u.sid, s.clock)],
                         nUnsub := bump s.nUnsub n cb }
    | none => { s with nUnsub := bump s.nUnsub n cb }
  | .unsubOnce n sid =>
    if (s.subs n).any (fun u => u.once && u.sid == sid) then
      { s with subs := upd s.subs n (dropSid (s.subs n) sid), removed := s.removed ++ [(sid, s.clock)] }
    else s
  | .spawnDispatch n v =>
    { s with d := upd s.d s.nd ⟨n, v, .created, [], 0, [], s.clock, fun cb => s.nSub n cb⟩, nd := s.nd + 1 }
  | .spawnWait n to => { s with w := upd s.w s.nw ⟨n, to, .created, 0, false⟩, nw := s.nw + 1 }
  | .stepD i => stepD sc s i
  | .stepW j => stepW s j
  | .advance t => advance s t

/-- one event: its effect, then the event counter ticks -/
def step (sc : Nat → Script) (s : St) (e : Ev) : St :=
  { apply sc s e with clock := s.clock + 1 }

def run (sc : Nat → Script) (s : St) : List Ev → St
  | [] => s
  | e :: es => run sc (step sc s e) es

end PlumVerif.C13

import PlumVerif.Model.SetL
import PlumVerif.Model.SetMDriver
import PlumVerif.Spec.C08L
import PlumVerif.Spec.C06L
/-
line-protocol front end for the parameter-lifetime machine (several set() calls)

  c08l <hold 0|1> <tracking 0|1> <value> <min> <max> <start ms> <event>*
      -> <group>|<group>|…;<final clock>;<value>:<min>:<max>;<pending 0|1>:<previous>
         set / re-read requests as in `c08` (no call number), returns carry the call number: T:<id>:<t> F:<id>:<t> E:<id>:<t>
  c08ljudge <tracking 0|1> <value> <min> <max> <event>=<out>,<out>… *      -> pass | fail@<index>
  c06ljudge <hold 0|1> <tracking 0|1> <value> <min> <max> <start ms> <event>=<out>,<out>… *
      -> pass | f7@<index>:<value>:<min>:<max> | violation@<index>:<value>:<min>:<max> | refusal@<index>
         (C06 over a lifetime with overlapping calls: `C06L.judge`)
-/
namespace PlumVerif
open PlumVerif.SetM

namespace SetL

def showOut (x : LOut) : String :=
  match x.o with
  | .txSet v t => s!"S:{v}:{t}"
  | .txRefresh t => s!"R:{t}"
  | .ret true t => s!"T:{x.id}:{t}"
  | .ret false t => s!"F:{x.id}:{t}"
  | .raise t => s!"E:{x.id}:{t}"

def showGroup (g : List LOut) : String :=
  if g.isEmpty then "-" else String.intercalate "," (g.map showOut)

def parseOOut (tok : String) : Option C08L.OOut :=
  match tok.splitOn ":" with
  | ["S", v, t] => do pure ⟨none, .txSet (← v.toNat?) (← t.toNat?)⟩
  | ["R", t] => do pure ⟨none, .txRefresh (← t.toNat?)⟩
  | ["T", i, t] => do pure ⟨some (← i.toNat?), .ret true (← t.toNat?)⟩
  | ["F", i, t] => do pure ⟨some (← i.toNat?), .ret false (← t.toNat?)⟩
  | ["E", i, t] => do pure ⟨some (← i.toNat?), .raise (← t.toNat?)⟩
  | _ => none

def parseItem (tok : String) : Option C08L.Item :=
  match tok.splitOn "=" with
  | [e, os] => do
    let ev ← SetM.parseEv e
    let outs ← if os = "-" then some [] else (os.splitOn ",").mapM parseOOut
    pure ⟨ev, outs⟩
  | _ => none

end SetL

def setLOps : List String → Option String
  | "c08l" :: h :: tr :: v :: lo :: hi :: start :: evs => do
    let hold ← SetM.parseBool h
    let tracking ← SetM.parseBool tr
    let v ← v.toNat?; let lo ← lo.toNat?; let hi ← hi.toNat?; let start ← start.toNat?
    let es ← evs.mapM SetM.parseEv
    let s0 := SetL.init ⟨v, lo, hi⟩ tracking hold start
    let groups := SetL.runGroups s0 es
    let sf := (SetL.run s0 es).1
    pure (String.intercalate "|" (groups.map SetL.showGroup) ++
      s!";{sf.g.now};{sf.g.loc.value}:{sf.g.loc.min}:{sf.g.loc.max};{if sf.g.pending then 1 else 0}:{sf.g.prev}")
  | "c08ljudge" :: tr :: v :: lo :: hi :: items => do
    let tracking ← SetM.parseBool tr
    let v ← v.toNat?; let lo ← lo.toNat?; let hi ← hi.toNat?
    let its ← items.mapM SetL.parseItem
    pure (match C08L.firstBadL (C08L.LMon.init tracking ⟨v, lo, hi⟩) 0 its with
      | none => "pass"
      | some k => s!"fail@{k}")
  | "c06ljudge" :: h :: tr :: v :: lo :: hi :: start :: items => do
    let hold ← SetM.parseBool h
    let tracking ← SetM.parseBool tr
    let v ← v.toNat?; let lo ← lo.toNat?; let hi ← hi.toNat?; let start ← start.toNat?
    let its ← items.mapM SetL.parseItem
    pure (match C06L.judge hold tracking ⟨v, lo, hi⟩ start its with
      | .pass => "pass"
      | .f7 x => s!"f7@{x.k}:{x.v}:{x.lo}:{x.hi}"
      | .violation x => s!"violation@{x.k}:{x.v}:{x.lo}:{x.hi}"
      | .refusal k => s!"refusal@{k}")
  | _ => none

end PlumVerif

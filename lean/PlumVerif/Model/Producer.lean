import PlumVerif.Model.Frame
/-
C09 / C14 — `AsyncProtocol.frame_producer` (protocol.py) as it is now, including fix 7e0d3a8
(`frame = await queues.write.get(); try: await writer.write(frame) finally: queues.write.task_done()`).

    while self.connected.is_set():
        try:
            if not queues.write.empty():           -- write phase: at most ONE queued frame
                frame = await queues.write.get()
                try:     await writer.write(frame)  -- ok | OSError | TimeoutError (WRITER_TIMEOUT)
                finally: queues.write.task_done()
            if response := await reader.read():    -- read phase: one call of FrameReader.read()
                queues.read.put_nowait(response)
        except ProtocolError:  log, continue
        except (OSError, asyncio.TimeoutError):  self.create_task(self.connection_lost()); break
        except Exception:  log, continue

One CYCLE of the machine = one iteration of that loop.  Its inputs are
  * `Cyc`: what the environment does at the cycle boundary — frames other tasks put on the
    write queue (`puts`), whether somebody else cleared `connected` before the loop test
    (`disc`), and the outcome of this cycle's write if one is attempted (`wr`) — the
    write-fault script is the list of these;
  * `ROut`: the outcome of this cycle's `read()`: one of the reader model's outcomes
    (`Outcome` of Model/Frame.lean), the READER_TIMEOUT, or any other exception.
`readsOf` derives the list of read outcomes from a byte stream with the reader model
(`readAll`), so the machine composes with the theorems about `readFrame` / `readAll`.

Frames on the write queue are abstract ids (`Nat`).  `fixed = false` is the loop before fix
7e0d3a8 (no `task_done` when the write fails), kept to show the model tells the difference.
-/
namespace PlumVerif.Producer

/-- outcome of `FrameWriter.write` (`writer.write(bytes)`, then `await drain()` under WRITER_TIMEOUT) -/
inductive WOut
  | ok
  | osError
  | timeout
deriving Repr, DecidableEq

/-- outcome of one `await reader.read()` -/
inductive ROut
  | frame (o : Outcome)   -- an outcome of the reader model (delivered / ignored / protocol error / connection lost)
  | timeout               -- READER_TIMEOUT: nothing (more) arrived in time
  | other                 -- any other exception: logged, the loop continues
deriving Repr, DecidableEq

/-- why the loop ended -/
inductive Stop
  | readLost       -- read(): OSError (end of stream)
  | readTimeout    -- read(): asyncio.TimeoutError
  | writeError     -- write(): OSError
  | writeTimeout   -- write(): asyncio.TimeoutError
  | disconnected   -- `connected` was cleared by somebody else (shutdown / a loss handled elsewhere)
deriving Repr, DecidableEq

/-- the environment at one cycle boundary -/
structure Cyc where
  puts : List Nat := []   -- frames queued for writing by other tasks before this cycle's write phase
  disc : Bool := false    -- `connected` cleared by somebody else before this cycle's loop test
  wr : WOut := .ok        -- outcome of this cycle's write, if one is attempted
deriving Repr, DecidableEq

structure St where
  writeQ : List Nat            -- write queue, head = oldest
  wUnfinished : Nat            -- `queues.write._unfinished_tasks`
  readQ : List Fields          -- frames put on the read queue, oldest first
  connected : Bool
  running : Bool               -- the producer loop has not ended
  stop : Option Stop
  sent : List (Nat × WOut)     -- frames handed to the writer, oldest first, with the write's outcome
  putLog : List Nat            -- (ghost) every frame ever put on the write queue, in order
  cycles : Nat                 -- loop iterations begun (loop test passed)
  reads : Nat                  -- read() calls made
  logged : Nat                 -- exceptions logged and survived (protocol errors, others)
  lossScheduled : Nat          -- `create_task(self.connection_lost())` calls
deriving Repr, DecidableEq

/-- the state `connection_established` leaves behind: the start-master request (id 0) queued -/
def init (q : List Nat) : St :=
  { writeQ := q, wUnfinished := q.length, readQ := [], connected := true, running := true, stop := none,
    sent := [], putLog := q, cycles := 0, reads := 0, logged := 0, lossScheduled := 0 }

/-- leave the loop through `except (OSError, TimeoutError)`: schedule connection_lost (which
clears `connected`), break -/
def lose (s : St) (r : Stop) : St :=
  { s with running := false, stop := some r, lossScheduled := s.lossScheduled + 1, connected := false }

/-- other tasks put frames on the write queue -/
def enqueue (s : St) (puts : List Nat) : St :=
  { s with writeQ := s.writeQ ++ puts, wUnfinished := s.wUnfinished + puts.length, putLog := s.putLog ++ puts }

/-- `try: await writer.write(frame) finally: queues.write.task_done()` for a frame already taken -/
def finishWrite (fixed : Bool) (s : St) : WOut → St
  | .ok => { s with wUnfinished := s.wUnfinished - 1 }
  | .osError => lose { s with wUnfinished := if fixed then s.wUnfinished - 1 else s.wUnfinished } .writeError
  | .timeout => lose { s with wUnfinished := if fixed then s.wUnfinished - 1 else s.wUnfinished } .writeTimeout

/-- `if not queues.write.empty(): …` — at most one frame -/
def sendOne (fixed : Bool) (s : St) (wr : WOut) : St :=
  match s.writeQ with
  | [] => s
  | f :: q => finishWrite fixed { s with writeQ := q, sent := s.sent ++ [(f, wr)] } wr

/-- cycle boundary, loop test and write phase -/
def writePhase (fixed : Bool) (s : St) (c : Cyc) : St :=
  if s.running then
    let s1 := enqueue s c.puts
    if c.disc then { s1 with connected := false, running := false, stop := some .disconnected }
    else sendOne fixed { s1 with cycles := s1.cycles + 1 } c.wr
  else s

/-- read phase -/
def readOne (s : St) : ROut → St
  | .frame (.delivered f) => { s with readQ := s.readQ ++ [f] }
  | .frame .ignored => s
  | .frame (.protoErr _) => { s with logged := s.logged + 1 }
  | .frame .connLost => lose s .readLost
  | .timeout => lose s .readTimeout
  | .other => { s with logged := s.logged + 1 }

def readPhase (s : St) (rd : ROut) : St :=
  if s.running then readOne { s with reads := s.reads + 1 } rd else s

def nextCyc : List Cyc → Cyc × List Cyc
  | [] => ({}, [])
  | c :: t => (c, t)

/-- run the loop over the read outcomes `rds`; when they are used up the loop is parked in
`read()` (its write phase done) -/
def run (fixed : Bool) : St → List Cyc → List ROut → St
  | s, script, [] => writePhase fixed s (nextCyc script).1
  | s, script, rd :: rds =>
    run fixed (readPhase (writePhase fixed s (nextCyc script).1) rd) (nextCyc script).2 rds

/-! ### read outcomes of a byte stream -/

/-- what follows the last byte of the stream -/
inductive EndMode
  | eof       -- the peer closes: the reader sees end of stream
  | silence   -- nothing more arrives: the reader's timeout fires
deriving Repr, DecidableEq

/-- outcomes that exist only because the stream ended (Proofs/FrameStream: `Outcome.eofCaused`) -/
def endCaused : Outcome → Bool
  | .connLost => true
  | .protoErr .incompleteHeader => true
  | .protoErr .incompleteFrame => true
  | _ => false

/-- without an end of stream the first call that would run into it waits, and times out -/
def silenced : List Outcome → List ROut
  | [] => []
  | o :: os => if endCaused o then [.timeout] else .frame o :: silenced os

def readsOf (mode : EndMode) (s : List Byte) : List ROut :=
  match mode with
  | .eof => (readAll s).map fun p => .frame p.1
  | .silence => silenced ((readAll s).map (·.1))

/-- the producer on a byte stream -/
def runStream (fixed : Bool) (mode : EndMode) (q : List Nat) (script : List Cyc) (s : List Byte) : St :=
  run fixed (init q) script (readsOf mode s)

def deliveredOf : List ROut → List Fields
  | [] => []
  | .frame (.delivered f) :: t => f :: deliveredOf t
  | _ :: t => deliveredOf t

/-- a read outcome that ends the loop -/
def ROut.stops : ROut → Bool
  | .frame .connLost => true
  | .timeout => true
  | _ => false

end PlumVerif.Producer

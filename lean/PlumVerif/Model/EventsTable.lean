import PlumVerif.Model.Basic
/-
C13 — the per-name event table and the stored data of `EventManager` (event_manager.py), with EVERY public
entry point that touches them: `create_event`, `set_event`, the `events` and `data` attributes, `wait_for`,
`get`, `get_nowait`, `__getattr__`, `load` / `load_nowait`, and the tail of `dispatch` (`data[name] = value;
set_event(name)`).  The callback walk of a dispatch is `Model/Events.lean`; here a dispatch is its outcome
(`store`), so that the identity and lifetime of the `asyncio.Event` objects — which the interleaving machine
abstracts into `wake` — are explicit:

* `create_event(name)` returns the Event already in the table, or makes a new one and puts it there.  Nothing
  ever removes or replaces an entry: not a wait that timed out, not a cancelled one, not `set_event`.
* `wait_for(name, timeout)`: returns at once when `name in data`; otherwise waits on `create_event(name)`.
  An Event that is already set (someone called the public `set_event` / `create_event(name).set()` without a
  value) lets the wait through, and `get` then raises KeyError — it never invents a value.
* `set_event(name)` sets the Event in the table if there is one; Events are never cleared.

Event objects are identified by the order of their creation (`id`); `created`, `stores` are ghosts.
-/
namespace PlumVerif.C13T

structure EvObj where
  id : Nat
  isSet : Bool
  deriving DecidableEq, Repr

inductive WPh where
  | waiting (timed : Bool)        -- suspended in `event.wait()` (under `asyncio.wait_for` when timed)
  | woken                         -- its Event was set; the task has not resumed yet
  | returned (v : Option Nat)     -- `get` returned the value / `wait_for` returned None
  | keyError                      -- `get`: the wait came through but there is no value
  | timedOut
  | cancelled
  deriving DecidableEq, Repr

structure Waiter where
  name : Nat
  getter : Bool                   -- `get` (reads `data[name]` afterwards) or `wait_for`
  ev : Nat                        -- id of the Event object it holds (meaningful when it had to wait)
  ph : WPh
  deriving DecidableEq, Repr

structure St where
  events : Nat → Option EvObj     -- `_events`
  data : Nat → Option Nat         -- `data`
  ws : List Waiter
  nextId : Nat
  created : List (Nat × Nat)      -- ghost: (name, id) of every Event ever made, oldest first
  stores : List (Nat × Nat)       -- ghost: every (name, value) a dispatch / load stored, oldest first

def init : St := ⟨fun _ => none, fun _ => none, [], 0, [], []⟩

inductive Op where
  | createEvent (n : Nat)                      -- the public `create_event(name)`
  | setEvent (n : Nat)                         -- the public `set_event(name)`
  | store (n v : Nat)                          -- a dispatch is through its callbacks with final value v
  | load (kvs : List (Nat × Nat))              -- `load(data)` on names without subscribers: one store per item, in order
  | wait (n : Nat) (timed getter : Bool)       -- a task starts `wait_for` / `get` and runs to its first suspension
  | resume (j : Nat)                           -- a woken waiter runs on
  | expire (j : Nat)                           -- the deadline of a timed wait comes: `asyncio.wait_for` raises
  | cancel (j : Nat)                           -- the waiting task is cancelled
  deriving Repr

def upd {α : Type} (f : Nat → α) (i : Nat) (v : α) : Nat → α := fun j => if j = i then v else f j

/-- `create_event(name)`: the table's Event, made on first use -/
def ensureEvent (s : St) (n : Nat) : St × EvObj :=
  match s.events n with
  | some e => (s, e)
  | none =>
    ({ s with events := upd s.events n (some ⟨s.nextId, false⟩), nextId := s.nextId + 1,
              created := s.created ++ [(n, s.nextId)] }, ⟨s.nextId, false⟩)

/-- `Event.set()` on the Event with this id: every task waiting on THAT OBJECT becomes ready -/
def wakeHolders (ws : List Waiter) (id : Nat) : List Waiter :=
  ws.map fun w => match w.ph with
    | .waiting _ => if w.ev = id then { w with ph := .woken } else w
    | _ => w

/-- `set_event(name)` -/
def setEvent (s : St) (n : Nat) : St :=
  match s.events n with
  | some e => { s with events := upd s.events n (some { e with isSet := true }), ws := wakeHolders s.ws e.id }
  | none => s

/-- `data[name] = value; set_event(name)` -/
def store (s : St) (n v : Nat) : St :=
  setEvent { s with data := upd s.data n (some v), stores := s.stores ++ [(n, v)] } n

/-- what a waiter does when its wait is over -/
def finish (s : St) (w : Waiter) : Waiter :=
  if w.getter then
    match s.data w.name with
    | some v => { w with ph := .returned (some v) }
    | none => { w with ph := .keyError }
  else { w with ph := .returned none }

def modifyAt (ws : List Waiter) (j : Nat) (f : Waiter → Waiter) : List Waiter :=
  ws.mapIdx fun i w => if i = j then f w else w

def step (s : St) : Op → St
  | .createEvent n => (ensureEvent s n).1
  | .setEvent n => setEvent s n
  | .store n v => store s n v
  | .load kvs => kvs.foldl (fun s kv => store s kv.1 kv.2) s
  | .wait n timed getter =>
    match s.data n with
    | some _ => { s with ws := s.ws ++ [finish s ⟨n, getter, 0, .woken⟩] }
    | none =>
      let (s', e) := ensureEvent s n
      if e.isSet then { s' with ws := s'.ws ++ [finish s' ⟨n, getter, e.id, .woken⟩] }
      else { s' with ws := s'.ws ++ [⟨n, getter, e.id, .waiting timed⟩] }
  | .resume j => { s with ws := modifyAt s.ws j fun w => match w.ph with | .woken => finish s w | _ => w }
  | .expire j => { s with ws := modifyAt s.ws j fun w => match w.ph with | .waiting true => { w with ph := .timedOut } | _ => w }
  | .cancel j => { s with ws := modifyAt s.ws j fun w => match w.ph with | .waiting _ => { w with ph := .cancelled } | _ => w }

def run (s : St) : List Op → St
  | [] => s
  | o :: os => run (step s o) os

/-- `get_nowait(name, default)` / `__getattr__(name)` / `data[name]`: the stored value or nothing — no waiting, no
Event is made -/
def getNowait (s : St) (n : Nat) : Option Nat := s.data n

/-- the `events` attribute: which names have an Event, which object, set or not (names below `k`) -/
def eventsView (s : St) (k : Nat) : List (Nat × Nat × Bool) :=
  (List.range k).filterMap fun n => (s.events n).map fun e => (n, e.id, e.isSet)

end PlumVerif.C13T

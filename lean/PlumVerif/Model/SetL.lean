import PlumVerif.Model.SetM
/-
C08 — the LIFETIME of one parameter: any number of `set()` calls, one after the other or
overlapping, on top of the one-call machine `SetM`.

Every running call is a coroutine with its own locals (`value`, `retries`, `timeout`, where it is
suspended) — a `SetM.St` whose call-local fields are meaningful — while `_values`,
`_previous_value`, `_pending_update` (and the clock, the tracking flag) are shared by all of them
(`g`).  A call takes a step exactly as the one-call machine does, on the shared state as it is at
that moment (`sync`), and writes the shared part back (`back`):

  * `call v r T`   a new coroutine starts `set(v, r, T)`: no-op / out of range → it ends at once and
                   nothing is touched; otherwise it re-captures `_previous_value`, overwrites
                   `_values.value`, sets `_pending_update` and enters its loop — also when another
                   call is still in its loop (both loops then run on, sharing the three fields);
  * `built`        the executor answers the oldest outstanding request construction;
  * `timer`        the earliest pending sleep ends (ties never happen in the harness; first by number);
  * `report`, `wait`, `setTracking`  act on the shared part (a `wait` never reaches a pending wake-up).

After a call has returned the parameter keeps whatever `_pending_update`, `_previous_value` and
triple it has: `_pending_update` stays True after a False return until a report with a value
different from `_previous_value` arrives.
-/
namespace PlumVerif.SetL
open PlumVerif.SetM

structure LSt where
  g : St                      -- shared part (loc, prev, pending, tracking, hold, now); phase = idle, call-local fields unused
  calls : Nat → Option St     -- running calls by number; the shared fields of an entry are stale
  nextId : Nat                -- number of `set()` calls made so far
  builds : List Nat           -- calls suspended in request construction, oldest first

/-- an output of call number `id` -/
structure LOut where
  id : Nat
  o : Out
deriving Repr, DecidableEq, Inhabited

/-- the call's view of the parameter right now -/
def sync (g c : St) : St :=
  { c with loc := g.loc, prev := g.prev, pending := g.pending, tracking := g.tracking, hold := g.hold, now := g.now }

/-- what a step of a call leaves in the shared part -/
def back (g m : St) : St := { g with loc := m.loc, prev := m.prev, pending := m.pending, now := m.now }

def isBuild : Phase → Bool
  | .buildSet => true
  | .buildRefresh => true
  | _ => false

/-- call `id` (locals `c`) takes the step `ev`; `rest` = the build queue without it -/
def act (s : LSt) (id : Nat) (c : St) (ev : Ev) (rest : List Nat) : LSt × List LOut :=
  let r := step (sync s.g c) ev
  ({ s with g := back s.g r.1,
            calls := fun j => if j = id then (if r.1.phase = .done then none else some r.1) else s.calls j,
            builds := if isBuild r.1.phase then rest ++ [id] else rest },
   r.2.map (LOut.mk id))

/-- the sleeping call that wakes first (lowest number among equals), looking at numbers < n -/
def earliest (calls : Nat → Option St) : Nat → Option (Nat × St)
  | 0 => none
  | n + 1 =>
    match calls n with
    | some c =>
      if c.phase = .sleeping then
        match earliest calls n with
        | some (j, d) => if d.wake ≤ c.wake then some (j, d) else some (n, c)
        | none => some (n, c)
      else earliest calls n
    | none => earliest calls n

/-- some pending sleep would end by `t` -/
def wakesBy (calls : Nat → Option St) (t : Nat) : Nat → Bool
  | 0 => false
  | n + 1 =>
    (match calls n with
     | some c => c.phase = .sleeping && decide (c.wake ≤ t)
     | none => false) || wakesBy calls t n

def step (s : LSt) : Ev → LSt × List LOut
  | .call v r T =>
    act { s with nextId := s.nextId + 1 } s.nextId { s.g with phase := .idle } (.call v r T) s.builds
  | .built =>
    match s.builds with
    | [] => (s, [])
    | id :: rest =>
      match s.calls id with
      | none => ({ s with builds := rest }, [])
      | some c => act s id c .built rest
  | .timer =>
    match earliest s.calls s.nextId with
    | none => (s, [])
    | some (id, c) => act s id c .timer s.builds
  | .report t => ({ s with g := update s.g t }, [])
  | .wait d =>
    if wakesBy s.calls (s.g.now + d) s.nextId then (s, []) else ({ s with g := { s.g with now := s.g.now + d } }, [])
  | .setTracking b => ({ s with g := { s.g with tracking := b } }, [])

def run (s : LSt) : List Ev → LSt × List LOut
  | [] => (s, [])
  | e :: es => let r := step s e; let r' := run r.1 es; (r'.1, r.2 ++ r'.2)

def runGroups (s : LSt) : List Ev → List (List LOut)
  | [] => []
  | e :: es => let r := step s e; r.2 :: runGroups r.1 es

def init (loc : Triple) (tracking hold : Bool) (now : Nat) : LSt :=
  { g := SetM.init loc tracking hold now, calls := fun _ => none, nextId := 0, builds := [] }

/-- the arguments of the `n`-th `set()` call of a history (counting from 0) -/
def callArgs : List Ev → Nat → Option (Nat × Nat × Nat)
  | [], _ => none
  | .call v r T :: _, 0 => some (v, r, T)
  | .call _ _ _ :: es, n + 1 => callArgs es n
  | _ :: es, n => callArgs es n

end PlumVerif.SetL

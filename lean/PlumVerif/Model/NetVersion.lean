import PlumVerif.Generated.Consts
import PlumVerif.Model.Basic
/-
Byte-level model of `NetworkInfoStructure.encode/decode` (pyplumio/structures/network_info.py,
used by DeviceAvailableResponse with offset 1) and `ProgramVersionStructure.encode/decode`
(pyplumio/structures/program_version.py, used by ProgramVersionResponse).

IPv4 addresses are their four bytes, the SSID is its UTF-8 bytes, the software version is a
triple of numbers; the text forms (`socket.inet_aton/ntoa`, `str.encode/decode`,
`"a.b.c".split`, `int`, `str`) are Python's and trusted.  `none` = the call raises.
-/
namespace PlumVerif

structure IP4 where
  a : Byte
  b : Byte
  c : Byte
  d : Byte
deriving Repr, DecidableEq

def IP4.bytes (ip : IP4) : List Byte := [ip.a, ip.b, ip.c, ip.d]

structure EthParams where
  ip : IP4
  netmask : IP4
  gateway : IP4
  status : Bool
deriving Repr, DecidableEq

structure WlanParams where
  ip : IP4
  netmask : IP4
  gateway : IP4
  status : Bool
  ssid : List Byte
  encryption : Byte
  signal : Byte
deriving Repr, DecidableEq

structure NetInfo where
  eth : EthParams
  wlan : WlanParams
  server : Bool
deriving Repr, DecidableEq

namespace Net

/-- `bool.to_bytes(length=1, byteorder="little")` -/
def flag (b : Bool) : Byte := if b then 1 else 0

/-- `EncryptionType(int(b))` succeeds -/
def encOk (b : Byte) : Bool := Gen.encryptionTypes.any (·.2 == b.toNat)

/-- `NetworkInfoStructure.encode`; `VarString.pack` raises (struct.error) when the SSID is
longer than 255 bytes -/
def encode (n : NetInfo) : Option (List Byte) :=
  if n.wlan.ssid.length < 256 then
    some ([1] ++ n.eth.ip.bytes ++ n.eth.netmask.bytes ++ n.eth.gateway.bytes ++ [flag n.eth.status]
      ++ n.wlan.ip.bytes ++ n.wlan.netmask.bytes ++ n.wlan.gateway.bytes
      ++ [flag n.server, n.wlan.encryption, n.wlan.signal, flag n.wlan.status]
      ++ [0, 0, 0, 0]
      ++ [n.wlan.ssid.length.toUInt8] ++ n.wlan.ssid)
  else none

/-- `IPv4.from_bytes(message, offset)`: `inet_ntoa(message[offset:][:4])` needs exactly 4 bytes -/
def ip4At (m : List Byte) (off : Nat) : Option IP4 :=
  match (m.drop off).take 4 with
  | [a, b, c, d] => some ⟨a, b, c, d⟩
  | _ => none

/-- `message[i]` (IndexError when out of range) -/
def at? (m : List Byte) (i : Nat) : Option Byte := m[i]?

/-- `VarString.from_bytes(message, offset)`: `data[0]` must exist, the slice is lenient -/
def varStringAt (m : List Byte) (off : Nat) : Option (List Byte) :=
  match m.drop off with
  | [] => none
  | n :: r => some (r.take n.toNat)

/-- `NetworkInfoStructure.decode(message, offset)` -/
def decodeAt (m : List Byte) (off : Nat) : Option NetInfo := do
  let eip ← ip4At m off
  let emask ← ip4At m (off + 4)
  let egw ← ip4At m (off + 8)
  let est ← at? m (off + 12)
  let wip ← ip4At m (off + 13)
  let wmask ← ip4At m (off + 17)
  let wgw ← ip4At m (off + 21)
  let enc ← at? m (off + 26)
  if ¬ encOk enc then none else
  let sig ← at? m (off + 27)
  let wst ← at? m (off + 28)
  let ssid ← varStringAt m (off + 33)
  let srv ← at? m (off + 25)
  pure ⟨⟨eip, emask, egw, est != 0⟩, ⟨wip, wmask, wgw, wst != 0, ssid, enc, sig⟩, srv != 0⟩

/-- `DeviceAvailableResponse.decode_message` -/
def decode (m : List Byte) : Option NetInfo := decodeAt m 1

end Net

structure VersionInfo where
  /-- `software = "a.b.c"` -/
  a : Nat
  b : Nat
  c : Nat
  structTag : List Byte
  structVersion : Nat
  deviceId : List Byte
  processorSignature : List Byte
deriving Repr, DecidableEq

namespace Version

/-- struct format `Ns`: the bytes are truncated or padded with NULs to exactly `n` -/
def fit (n : Nat) (xs : List Byte) : List Byte := (xs ++ List.replicate n 0).take n

/-- `struct.Struct("<2sB2s3s3HB").pack_into(...)`; `none` = struct.error (a number out of range) -/
def encode (v : VersionInfo) (sender : Nat) : Option (List Byte) :=
  if v.a < 65536 ∧ v.b < 65536 ∧ v.c < 65536 ∧ v.structVersion < 256 ∧ sender < 256 then
    some (fit 2 v.structTag ++ [v.structVersion.toUInt8] ++ fit 2 v.deviceId ++ fit 3 v.processorSignature
      ++ encodeLE v.a 2 ++ encodeLE v.b 2 ++ encodeLE v.c 2 ++ [sender.toUInt8])
  else none

/-- `unpack_from(message)` (offset 0; needs 15 bytes); the trailing address byte is dropped -/
def decode (m : List Byte) : Option VersionInfo :=
  if m.length < 15 then none
  else some {
    structTag := m.take 2
    structVersion := (m.getD 2 0).toNat
    deviceId := (m.drop 3).take 2
    processorSignature := (m.drop 5).take 3
    a := decodeLE ((m.drop 8).take 2)
    b := decodeLE ((m.drop 10).take 2)
    c := decodeLE ((m.drop 12).take 2) }

end Version

/-! ### Python-level frame objects and `Frame.__eq__`

`type(self)`, recipient, sender, econet type, econet version, the cached `_message`
(None or bytes) and the cached `_data` (None or a dict, here any type `δ` with decidable
equality standing for the dict's value) are what `__eq__` compares, as a tuple. -/

structure PyFrame (δ : Type) where
  cls : Nat
  rcpt : Int
  sender : Int
  etype : Int
  ever : Int
  message : Option (List Byte)
  data : Option δ
deriving Repr, DecidableEq

namespace PyFrame
variable {δ : Type} [DecidableEq δ]

/-- `Frame.__eq__`: equality of the two 7-tuples, i.e. the conjunction of the component `==` -/
def pyEq (x y : PyFrame δ) : Bool :=
  x.cls == y.cls && x.rcpt == y.rcpt && x.sender == y.sender && x.etype == y.etype
    && x.ever == y.ever && x.message == y.message && decide (x.data = y.data)

/-- reading `.message` / `.bytes` / `len()`: a missing message is created from the data and cached -/
def fillMessage (m : List Byte) (x : PyFrame δ) : PyFrame δ :=
  match x.message with
  | none => { x with message := some m }
  | some _ => x

/-- reading `.data`: a missing data dict is decoded from the message and cached -/
def fillData (d : δ) (x : PyFrame δ) : PyFrame δ :=
  match x.data with
  | none => { x with data := some d }
  | some _ => x

end PyFrame

end PlumVerif

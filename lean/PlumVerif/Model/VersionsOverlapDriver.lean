import PlumVerif.Model.VersionsOverlap
import PlumVerif.Model.VersionsCancel
import PlumVerif.Model.VersionsDriver
/-
Line-protocol front end for overlapping announcements (C15).

  c15o <event>*   -> after every event `<queue kinds , or ->/<recorded k:v,… or ->/<task phases>`, `;`-joined
  event : a<k>:<v>,…  (announcement handled: a new callback task)  | e<k>,…  (frame_errors)  | m<a> (task a moves)
  c15h <event>*   -> the same for histories with device shutdowns: event `k` = device.shutdown() (live callback tasks cancelled: phase x)
  task phase : c (not started) | w<kind> (suspended in Request.create for kind) | d (done) | x (raised)
-/
namespace PlumVerif.C15.Overlap
open PlumVerif.C15

def parseEv (s : String) : Option Ev :=
  match s.toList with
  | 'm' :: r => (String.ofList r).toNat?.map .move
  | _ => match C15.parseEv s with
    | some (.announce w) => some (.announce w)
    | some (.errors ks) => some (.errors ks)
    | none => none

def showPhase : Phase → String
  | .absent => "?"
  | .created => "c"
  | .awaiting e _ => s!"w{e.1}"
  | .done => "d"
  | .raised => "x"

def showSt (s : OSt) : String :=
  let q := if s.queue.isEmpty then "-" else String.intercalate "," (s.queue.map toString)
  let ks := (s.core.versions.map (·.1)).eraseDups
  let rec_ := ks.filterMap fun k => (recorded s.core k).map fun v => (k, v)
  let sorted := rec_.mergeSort (fun a b => a.1 ≤ b.1)
  let r := if sorted.isEmpty then "-" else String.intercalate "," (sorted.map fun p => s!"{p.1}:{p.2}")
  let t := String.intercalate "," ((List.range s.nt).map fun a => showPhase (s.t a).ph)
  s!"{q}/{r}/{if s.nt = 0 then "-" else t}"

def runShow (s : OSt) : List Ev → List String
  | [] => []
  | e :: es => showSt (step s e) :: runShow (step s e) es

def parseHEv (s : String) : Option HEv :=
  if s == "k" then some .shutdown else (parseEv s).map .ev

def hrunShow (s : OSt) : List HEv → List String
  | [] => []
  | e :: es => showSt (hstep s e) :: hrunShow (hstep s e) es

def overlapOps : List String → Option String
  | "c15o" :: evs => do
    let es ← evs.mapM parseEv
    let out := runShow init es
    pure (if out.isEmpty then "." else String.intercalate ";" out)
  | "c15h" :: evs => do
    let es ← evs.mapM parseHEv
    let out := hrunShow init es
    pure (if out.isEmpty then "." else String.intercalate ";" out)
  | _ => none

end PlumVerif.C15.Overlap

import PlumVerif.Model.Scaling
/-
The front of `Parameter.set` (helpers/parameter.py:187-199) after the subclass's display -> raw
conversion, and the transmissions of one call when no controller report arrives during it
(reports during a call are C08's subject).

    if (value := _normalize_parameter_value(value)) == self.values.value: return True
    if value < self.values.min_value or value > self.values.max_value: raise ValueError
    self._previous_value = self._values.value ; self._values.value = value ; pending = True
    while pending:  if retries <= 0: return False
                    self._values.value = value ; queue.put(create_request()) ; [refresh] ; sleep ; retries -= 1
-/
namespace PlumVerif.ParamSet
open PlumVerif.Scaling

/-- raw (value, min, max) as last reported by the controller -/
structure Triple where
  value : Int
  min : Int
  max : Int
deriving Repr, DecidableEq, Inhabited

inductive Outcome where
  | noop                 -- equal to the current raw value: returns True, nothing happens
  | reject               -- ValueError
  | typeError            -- TypeError from the conversion (str passed to a scaled number)
  | otherError           -- int('abc') ... (not generated)
  | transmit (raw : Int) -- accepted: local value becomes `raw`, requests carry `raw`
deriving Repr, DecidableEq, Inhabited

/-- decision taken by `X.set(v)` on a parameter holding `t` -/
def decide (c : Conv) (t : Triple) (v : PyVal) : Outcome :=
  match toRaw c v with
  | .error .typeError => .typeError
  | .error .other => .otherError
  | .ok r =>
    if r = t.value then .noop
    else if r < t.min ∨ r > t.max then .reject
    else .transmit r

/-- what one call leaves behind: the triple held afterwards and the raw values of the set
requests put on the device queue, in order (no controller report during the call) -/
structure Effect where
  outcome : Outcome
  after : Triple
  tx : List Int
deriving Repr, DecidableEq, Inhabited

def set (c : Conv) (t : Triple) (v : PyVal) (retries : Nat) : Effect :=
  match decide c t v with
  | .transmit r => ⟨.transmit r, { t with value := r }, List.replicate retries r⟩
  | o => ⟨o, t, []⟩

/-! ### controller reports in the model: the report / set machine

`Parameter.update(values)` (helpers/parameter.py:217-222) runs for every controller report of the
parameter, whether or not a set is pending:

    if self.pending_update and self._previous_value != values.value: self._pending_update = False
    self._values = values

so the triple held is ALWAYS the last reported one (with the value possibly overwritten by an
accepted `set` since).  `Parameter.set` checks the range ONCE, when it is called; every retry
re-asserts the requested value (fix f71a033) and transmits it without looking at the bounds again:

    self._previous_value = self._values.value ; self._values.value = value ; pending = True
    while pending:  if retries <= 0: return False
                    self._values.value = value ; queue.put(create_request()) ; [refresh] ; sleep(timeout) ; retries -= 1
    return True

Events: a controller report, a `set` call (its decision and first attempt happen at once), and
`tick`: the sleep of the call in flight is over (next loop head). -/

/-- a call in flight: requested raw value, attempts left, and (ghost) the bounds held when it was accepted -/
structure Call where
  r : Int
  left : Nat
  lo : Int
  hi : Int
deriving Repr, DecidableEq, Inhabited

structure MState where
  held : Triple
  pending : Bool := false
  previous : Int := 0      -- `_previous_value`
  call : Option Call := none
deriving Repr, DecidableEq, Inhabited

inductive MEvent where
  | report (t : Triple)
  | set (v : PyVal) (retries : Nat)
  | tick
deriving Repr, Inhabited

inductive MOut where
  | decided (o : Outcome)
  /-- a set request carrying `r`; ghost: bounds held when the call was accepted (`lo`,`hi`) and
  bounds held now, i.e. last reported (`curLo`,`curHi`) -/
  | tx (r lo hi curLo curHi : Int)
  | returned (b : Bool)
deriving Repr, DecidableEq, Inhabited

def update (s : MState) (t : Triple) : MState :=
  { s with held := t, pending := if s.pending && s.previous != t.value then false else s.pending }

/-- the loop head of the call in flight -/
def attempt (s : MState) : MState × List MOut :=
  match s.call with
  | none => (s, [])
  | some c =>
    if s.pending = false then ({ s with call := none }, [.returned true])
    else if c.left = 0 then ({ s with call := none }, [.returned false])
    else ({ s with held := { s.held with value := c.r }, call := some { c with left := c.left - 1 } },
          [.tx c.r c.lo c.hi s.held.min s.held.max])

def stepM (c : Conv) (s : MState) : MEvent → MState × List MOut
  | .report t => (update s t, [])
  | .tick => attempt s
  | .set v n =>
    match s.call with
    | some _ =>
      -- a second call while one is in flight: a call that is refused, a no-op or a conversion error returns at
      -- once and touches nothing; an ACCEPTED overlapping call is outside this machine (C08's multi-call machine)
      match decide c s.held v with
      | .transmit _ => (s, [])
      | o => (s, [.decided o])
    | none =>
      match decide c s.held v with
      | .transmit r =>
        let s1 : MState := { held := { s.held with value := r }, pending := true, previous := s.held.value,
                             call := some ⟨r, n, s.held.min, s.held.max⟩ }
        let (s2, o) := attempt s1
        (s2, .decided (.transmit r) :: o)
      | o => (s, [.decided o])

def runM (c : Conv) : MState → List MEvent → MState × List MOut
  | s, [] => (s, [])
  | s, ev :: rest =>
    let (s1, o) := stepM c s ev
    let (s2, os) := runM c s1 rest
    (s2, o ++ os)

/-- the last report of a history -/
def lastReport : List MEvent → Option Triple
  | [] => none
  | .report t :: rest => (lastReport rest).orElse (fun _ => some t)
  | _ :: rest => lastReport rest

end PlumVerif.ParamSet

import PlumVerif.Model.Scaling
/-
The front of `Parameter.set` (helpers/parameter.py:187-199) after the subclass's display -> raw
conversion, and the transmissions of one call when no controller report arrives during it
(reports during a call are C08's subject).

    if (value := _normalize_parameter_value(value)) == self.values.value: return True
    if value < self.values.min_value or value > self.values.max_value: raise ValueError
    self._previous_value = self._values.value ; self._values.value = value ; pending = True
    while pending:  if retries <= 0: return False
                    self._values.value = value ; queue.put(create_request()) ; [refresh] ; sleep ; retries -= 1
-/
namespace PlumVerif.ParamSet
open PlumVerif.Scaling

/-- raw (value, min, max) as last reported by the controller -/
structure Triple where
  value : Int
  min : Int
  max : Int
deriving Repr, DecidableEq, Inhabited

inductive Outcome where
  | noop                 -- equal to the current raw value: returns True, nothing happens
  | reject               -- ValueError
  | typeError            -- TypeError from the conversion (str passed to a scaled number)
  | otherError           -- int('abc') ... (not generated)
  | transmit (raw : Int) -- accepted: local value becomes `raw`, requests carry `raw`
deriving Repr, DecidableEq, Inhabited

/-- decision taken by `X.set(v)` on a parameter holding `t` -/
def decide (c : Conv) (t : Triple) (v : PyVal) : Outcome :=
  match toRaw c v with
  | .error .typeError => .typeError
  | .error .other => .otherError
  | .ok r =>
    if r = t.value then .noop
    else if r < t.min ∨ r > t.max then .reject
    else .transmit r

/-- what one call leaves behind: the triple held afterwards and the raw values of the set
requests put on the device queue, in order (no controller report during the call) -/
structure Effect where
  outcome : Outcome
  after : Triple
  tx : List Int
deriving Repr, DecidableEq, Inhabited

def set (c : Conv) (t : Triple) (v : PyVal) (retries : Nat) : Effect :=
  match decide c t v with
  | .transmit r => ⟨.transmit r, { t with value := r }, List.replicate retries r⟩
  | o => ⟨o, t, []⟩

end PlumVerif.ParamSet

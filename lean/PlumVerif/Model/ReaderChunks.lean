import PlumVerif.Model.Frame
/-
The frame reader as a RESUMABLE machine over a stream that arrives in chunks.

`Model/Frame.lean` gives `readFrame` the complete byte sequence that will ever arrive.  Here the
bytes arrive in chunks, the reader runs on what has arrived, BLOCKS at an await point when the
`StreamReader` primitive it called cannot complete, and is resumed when the next chunk (or the
end of the stream) arrives.  The contract of the two primitives the reader uses
(asyncio.StreamReader; the same contract `Model/PyPrelude.lean` states for the complete stream):

* `read(1)`          buffer non-empty: takes its first byte.  Buffer empty: waits for data; at
                     the end of the stream returns `b""`.
* `readexactly(n)`   at least `n` bytes buffered: takes exactly `n`.  Fewer: takes NOTHING and
                     waits; at the end of the stream raises IncompleteReadError and the buffer
                     is cleared.

`FrameReader.read` (pyplumio/stream.py) has three await points, hence three resumable states.
Nothing but the state below survives a suspension (the assembly buffer of `read()` holds the
start delimiter, then the header bytes).
-/
namespace PlumVerif

/-- where a suspended call of `FrameReader.read()` stands -/
inductive RState
  | scanning                                  -- `while buffer := await self._reader.read(1)`
  | header                                    -- delimiter taken: `await readexactly(HEADER_SIZE - 1)`
  | body (l0 l1 rc sd et ev : Byte)           -- header taken, length accepted: `await readexactly(len - HEADER_SIZE)`
deriving Repr, DecidableEq

inductive RRes
  | done (o : Outcome) (buf : List Byte)      -- the call completed; what the stream buffer still holds
  | blocked (st : RState) (buf : List Byte)   -- the call waits in `st`; the buffer as the primitive left it
deriving Repr, DecidableEq

/-- everything after the body has been read: the three gates, the checksum, the result.
`body` are the `len - 7` bytes of `readexactly`. -/
def gates (l0 l1 rc sd et ev : Byte) (body : List Byte) : Outcome :=
  let len := l0.toNat + 256 * l1.toNat
  let kind := body.headD 0
  let payload := (body.drop 1).take (len - Gen.headerSize - 3)
  let crc := body.getD (len - Gen.headerSize - 2) 0
  let pre := [startByte, l0, l1, rc, sd, et, ev] ++ body.take (len - Gen.headerSize - 2)
  if ¬ isForUs rc then .ignored
  else if ¬ knownDevice sd then .protoErr .unknownDevice
  else if bcc pre ≠ crc then .protoErr .checksum
  else if ¬ knownFrame kind then .protoErr .unknownFrame
  else .delivered ⟨kind, rc, sd, et, ev, payload⟩

/-- `await readexactly(len - 7)` on the buffered bytes, then the gates -/
def runBody (l0 l1 rc sd et ev : Byte) (buf : List Byte) : RRes :=
  let n := l0.toNat + 256 * l1.toNat - Gen.headerSize
  if buf.length < n then .blocked (.body l0 l1 rc sd et ev) buf
  else .done (gates l0 l1 rc sd et ev (buf.take n)) (buf.drop n)

/-- `await readexactly(6)`, the length gate, then the body -/
def runHeader (buf : List Byte) : RRes :=
  match buf with
  | l0 :: l1 :: rc :: sd :: et :: ev :: r1 =>
    let len := l0.toNat + 256 * l1.toNat
    if len > Gen.maxFrameLength ∨ len < Gen.minFrameLength then .done (.protoErr .badLength) r1
    else runBody l0 l1 rc sd et ev r1
  | _ => .blocked .header buf

/-- the delimiter hunt: one `read(1)` per byte -/
def runScan : List Byte → RRes
  | [] => .blocked .scanning []
  | b :: r => if b = startByte then runHeader r else runScan r

/-- run (or resume) a call on the bytes buffered so far, up to completion or the next suspension -/
def resume : RState → List Byte → RRes
  | .scanning, buf => runScan buf
  | .header, buf => runHeader buf
  | .body l0 l1 rc sd et ev, buf => runBody l0 l1 rc sd et ev buf

/-- a suspended call when the stream ENDS: `read(1)` returns `b""` (→ OSError), `readexactly`
raises IncompleteReadError (→ ReadError) and the buffer is cleared -/
def atEof : RState → Outcome
  | .scanning => .connLost
  | .header => .protoErr .incompleteHeader
  | .body .. => .protoErr .incompleteFrame

/-- run from a state on a buffer that is all that will ever arrive -/
def finish (st : RState) (s : List Byte) : Outcome × List Byte :=
  match resume st s with
  | .done o b => (o, b)
  | .blocked st' _ => (atEof st', [])

/-- ONE call over a chunked stream: run on the buffer; when the call blocks, the next chunk is
appended to the buffer and the call is resumed FROM ITS STATE (it does not start again); with no
chunk left the stream ends.  Result: outcome, buffer afterwards, chunks not yet arrived. -/
def callChunks : RState → List Byte → List (List Byte) → Outcome × List Byte × List (List Byte)
  | st, buf, [] =>
    match resume st buf with
    | .done o b => (o, b, [])
    | .blocked st' _ => (atEof st', [], [])
  | st, buf, c :: cs =>
    match resume st buf with
    | .done o b => (o, b, c :: cs)
    | .blocked st' b => callChunks st' (b ++ c) cs

/-- the suspensions of that call: (state, bytes sitting in the buffer while it waits) -/
def callTrace : RState → List Byte → List (List Byte) → List (RState × Nat)
  | st, buf, [] =>
    match resume st buf with
    | .done _ _ => []
    | .blocked st' b => [(st', b.length)]
  | st, buf, c :: cs =>
    match resume st buf with
    | .done _ _ => []
    | .blocked st' b => (st', b.length) :: callTrace st' (b ++ c) cs

/-- calls until the connection is reported lost.  `eager`: before the i-th call `eager[i]`
further chunks have ALREADY arrived (arrival is not tied to the reader being blocked); chunks
that arrive while a call is blocked wake it one at a time — several at once is the same as one
longer chunk, and the theorems quantify over all chunk lists. -/
def readChunksFuel : Nat → List Nat → List Byte → List (List Byte) → List (Outcome × Nat)
  | 0, _, _, _ => []
  | fuel + 1, eager, buf, cs =>
    let k := eager.headD 0
    let r := callChunks .scanning (buf ++ (cs.take k).flatten) (cs.drop k)
    let n := (buf ++ cs.flatten).length - (r.2.1 ++ r.2.2.flatten).length
    match r.1 with
    | .connLost => [(r.1, n)]
    | _ => (r.1, n) :: readChunksFuel fuel eager.tail r.2.1 r.2.2

def readChunks (eager : List Nat) (cs : List (List Byte)) : List (Outcome × Nat) :=
  readChunksFuel (cs.flatten.length + 1) eager [] cs

/-- did that call run into the END of the stream (it was suspended with no chunk left)? -/
def callHitEof : RState → List Byte → List (List Byte) → Bool
  | st, buf, [] =>
    match resume st buf with
    | .done _ _ => false
    | .blocked _ _ => true
  | st, buf, c :: cs =>
    match resume st buf with
    | .done _ _ => false
    | .blocked st' b => callHitEof st' (b ++ c) cs

/-- all suspensions of all calls, per call.  Once the end of the stream has been signalled a
later call is not suspended any more (the primitives answer at once): its trace is empty. -/
def traceChunksFuel : Nat → Bool → List Nat → List Byte → List (List Byte) → List (List (RState × Nat))
  | 0, _, _, _, _ => []
  | fuel + 1, eof, eager, buf, cs =>
    let k := eager.headD 0
    let b0 := buf ++ (cs.take k).flatten
    let r := callChunks .scanning b0 (cs.drop k)
    let t := if eof then [] else callTrace .scanning b0 (cs.drop k)
    match r.1 with
    | .connLost => [t]
    | _ => t :: traceChunksFuel fuel (eof || callHitEof .scanning b0 (cs.drop k)) eager.tail r.2.1 r.2.2

/-- bytes the suspended primitive still needs before it can complete -/
def RState.demand : RState → Nat → Nat
  | .scanning, _ => 1
  | .header, buffered => (Gen.headerSize - 1) - buffered
  | .body l0 l1 _ _ _ _, buffered => (l0.toNat + 256 * l1.toNat - Gen.headerSize) - buffered

/-- bytes the call has taken from the stream since (and including) the start delimiter it found -/
def RState.taken : RState → Nat
  | .scanning => 0
  | .header => 1
  | .body .. => Gen.headerSize

/-- the length field a `body` state carries has passed the length gate -/
def RState.ok : RState → Prop
  | .body l0 l1 _ _ _ _ => Gen.minFrameLength ≤ l0.toNat + 256 * l1.toNat ∧ l0.toNat + 256 * l1.toNat ≤ Gen.maxFrameLength
  | _ => True

end PlumVerif

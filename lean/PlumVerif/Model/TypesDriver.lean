import PlumVerif.Model.Types
/- line-protocol front end for the primitive wire type model (C19) -/
namespace PlumVerif
open PlumVerif.Types

def parseIntTy : String → Option IntTy
  | "i8" => some .i8 | "u8" => some .u8 | "i16" => some .i16 | "u16" => some .u16
  | "i32" => some .i32 | "u32" => some .u32 | "i64" => some .i64 | "u64" => some .u64
  | _ => none

def showPacked (r : Option (List Byte)) (size : Nat) : String :=
  match r with
  | some bs => s!"{showHex bs} {size}"
  | none => "err"

def parseField (s : String) : Option Field :=
  if s = "b" then some .bit
  else match s.toList with
    | 'o' :: r => (String.ofList r).toNat?.map Field.other
    | _ => none

def Slot.show : Slot → String
  | .bitVal v => if v then "1" else "0"
  | .startsAt o => s!"@{o}"

def typesOps : List String → Option String
  | ["t.int", ty, "pack", v] => do
    let t ← parseIntTy ty; let v ← v.toInt?
    pure (showPacked ((intCodec t).pack v) ((intCodec t).size v))
  | ["t.int", ty, "unpack", h] => do
    let t ← parseIntTy ty; let d ← parseHex h
    pure (match (intCodec t).unpack d with | some (v, n) => s!"{v} {n}" | none => "err")
  | ["t.bits", k, "pack", v] => do
    let k ← k.toNat?; let v ← v.toNat?
    if k = 4 ∨ k = 8 then pure (showPacked ((bitsCodec k).pack v) ((bitsCodec k).size v)) else none
  | ["t.bits", k, "unpack", h] => do
    let k ← k.toNat?; let d ← parseHex h
    if k = 4 ∨ k = 8 then
      pure (match (bitsCodec k).unpack d with | some (v, n) => s!"{v} {n}" | none => "err")
    else none
  | ["t.addr", k, "pack", h] => do
    let k ← k.toNat?; let a ← parseHex h
    if k = 4 ∨ k = 16 then pure (showPacked ((addrCodec k).pack a) ((addrCodec k).size a)) else none
  | ["t.addr", k, "unpack", h] => do
    let k ← k.toNat?; let d ← parseHex h
    if k = 4 ∨ k = 16 then
      pure (match (addrCodec k).unpack d with | some (v, n) => s!"{showHex v} {n}" | none => "err")
    else none
  | ["t.str", "pack", h] => do
    let v ← parseHex h
    pure (showPacked (stringCodec.pack v) (stringCodec.size v))
  | ["t.str", "unpack", h] => do
    let d ← parseHex h
    pure (match stringCodec.unpack d with | some (v, n) => s!"{showHex v} {n}" | none => "err")
  | ["t.var", "pack", h] => do
    let v ← parseHex h
    pure (showPacked (varCodec.pack v) (varCodec.size v))
  | ["t.var", "unpack", h] => do
    let d ← parseHex h
    pure (match varCodec.unpack d with | some (v, n) => s!"{showHex v} {n}" | none => "err")
  | ["t.bit", idx, h] => do
    let idx ← idx.toNat?; let d ← parseHex h
    pure (match bitUnpack d with
      | some b => s!"{if bitValue b idx then 1 else 0} {bitSize idx} {bitNext idx} {showHex (bitPack b)}"
      | none => "err")
  | "t.fields" :: h :: off :: fs => do
    let msg ← parseHex h; let off ← off.toNat?
    let fs ← fs.mapM parseField
    pure (match runFields msg fs ⟨off, 0⟩ with
      | some (ss, c) => String.intercalate " " (ss.map Slot.show) ++ s!" ; {c.off} {c.bit}"
      | none => "err")
  | _ => none

end PlumVerif

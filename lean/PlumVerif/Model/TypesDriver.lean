import PlumVerif.Model.Types
/- line-protocol front end for the primitive wire type model (C19) -/
namespace PlumVerif
open PlumVerif.Types

def parseIntTy : String → Option IntTy
  | "i8" => some .i8 | "u8" => some .u8 | "i16" => some .i16 | "u16" => some .u16
  | "i32" => some .i32 | "u32" => some .u32 | "i64" => some .i64 | "u64" => some .u64
  | _ => none

def showPacked (r : Option (List Byte)) (size : Nat) : String :=
  match r with
  | some bs => s!"{showHex bs} {size}"
  | none => "err"

def parseField (s : String) : Option Field :=
  if s = "b" then some .bit
  else match s.toList with
    | 'o' :: r => (String.ofList r).toNat?.map Field.other
    | _ => none

def Slot.show : Slot → String
  | .bitVal v => if v then "1" else "0"
  | .startsAt o => s!"@{o}"

/-- operation sequences on one instance.  ops: `new:<value>` | `new` | `pack` | `unpack:<hex>` |
`size` | `value`; observations: `.` | `b:<hex>` | `s:<n>` | `v:<value>` | `!` -/
def seqOps {α : Type} (c : InstCodec α) (parseV : String → Option α) (showV : α → String)
    (toks : List String) : Option String := do
  let ops : List (Op α) ← toks.mapM fun t =>
    match t.splitOn ":" with
    | ["new"] => some (Op.construct (none : Option α))
    | ["new", v] => (parseV v).map fun v => Op.construct (some v)
    | ["pack"] => some Op.toBytes
    | ["unpack", h] => (parseHex h).map Op.unpack
    | ["size"] => some Op.size
    | ["value"] => some Op.value
    | _ => none
  match ops with
  | Op.construct v :: rest =>
    let outs := (Inst.run c (Inst.new c v) rest).2
    pure (String.intercalate " " ("." :: outs.map fun o => match o with
      | .done => "." | .bytes b => "b:" ++ showHex b | .size n => s!"s:{n}" | .value v => "v:" ++ showV v
      | .raised => "!"))
  | _ => none

def bitSeqOps (toks : List String) : Option String := do
  let ops ← toks.mapM fun t =>
    match t.splitOn ":" with
    | ["new", v, i] => do
      let i ← i.toNat?
      let v ← (if v = "-" then some none else if v = "1" then some (some true) else if v = "0" then some (some false) else none)
      pure (BitOp.construct v i)
    | ["unpack", h] => (parseHex h).map BitOp.unpack
    | ["next", i] => i.toNat?.map BitOp.next
    | ["value"] => some BitOp.value
    | ["size"] => some BitOp.size
    | ["pack"] => some BitOp.toBytes
    | _ => none
  let outs := (BitInst.run ⟨none, 0⟩ ops).2
  pure (String.intercalate " " (outs.map fun o => match o with
    | .done => "." | .nextIs k => s!"n:{k}" | .value v => if v then "v:1" else "v:0" | .size n => s!"s:{n}"
    | .bytes b => "b:" ++ showHex b | .raised => "!"))

def typesOps : List String → Option String
  | ["t.int", ty, "pack", v] => do
    let t ← parseIntTy ty; let v ← v.toInt?
    pure (showPacked ((intCodec t).pack v) ((intCodec t).size v))
  | ["t.int", ty, "unpack", h] => do
    let t ← parseIntTy ty; let d ← parseHex h
    pure (match (intCodec t).unpack d with | some (v, n) => s!"{v} {n}" | none => "err")
  | ["t.bits", k, "pack", v] => do
    let k ← k.toNat?; let v ← v.toNat?
    if k = 4 ∨ k = 8 then pure (showPacked ((bitsCodec k).pack v) ((bitsCodec k).size v)) else none
  | ["t.bits", k, "unpack", h] => do
    let k ← k.toNat?; let d ← parseHex h
    if k = 4 ∨ k = 8 then
      pure (match (bitsCodec k).unpack d with | some (v, n) => s!"{v} {n}" | none => "err")
    else none
  | ["t.addr", k, "pack", h] => do
    let k ← k.toNat?; let a ← parseHex h
    if k = 4 ∨ k = 16 then pure (showPacked ((addrCodec k).pack a) ((addrCodec k).size a)) else none
  | ["t.addr", k, "unpack", h] => do
    let k ← k.toNat?; let d ← parseHex h
    if k = 4 ∨ k = 16 then
      pure (match (addrCodec k).unpack d with | some (v, n) => s!"{showHex v} {n}" | none => "err")
    else none
  | ["t.str", "pack", h] => do
    let v ← parseHex h
    pure (showPacked (stringCodec.pack v) (stringCodec.size v))
  | ["t.str", "unpack", h] => do
    let d ← parseHex h
    pure (match stringCodec.unpack d with | some (v, n) => s!"{showHex v} {n}" | none => "err")
  | ["t.var", "pack", h] => do
    let v ← parseHex h
    pure (showPacked (varCodec.pack v) (varCodec.size v))
  | ["t.var", "unpack", h] => do
    let d ← parseHex h
    pure (match varCodec.unpack d with | some (v, n) => s!"{showHex v} {n}" | none => "err")
  | ["t.bit", idx, h] => do
    let idx ← idx.toNat?; let d ← parseHex h
    pure (match bitUnpack d with
      | some b => s!"{if bitValue b idx then 1 else 0} {bitSize idx} {bitNext idx} {showHex (bitPack b)}"
      | none => "err")
  | "t.fields" :: h :: off :: fs => do
    let msg ← parseHex h; let off ← off.toNat?
    let fs ← fs.mapM parseField
    pure (match runFields msg fs ⟨off, 0⟩ with
      | some (ss, c) => String.intercalate " " (ss.map Slot.show) ++ s!" ; {c.off} {c.bit}"
      | none => "err")
  | "t.seq" :: kind :: toks =>
    match kind.splitOn ":" with
    | ["int", ty] => do
      let t ← parseIntTy ty
      seqOps (intInst t) String.toInt? toString toks
    | ["bits", k] => do
      let k ← k.toNat?
      if k = 4 ∨ k = 8 then seqOps (bitsInst k) String.toNat? toString toks else none
    | ["addr", k] => do
      let k ← k.toNat?
      if k = 4 ∨ k = 16 then seqOps (addrInst k) parseHex showHex toks else none
    | ["str"] => seqOps stringInst parseHex showHex toks
    | ["var"] => seqOps varInst parseHex showHex toks
    | ["bit"] => bitSeqOps toks
    | _ => none
  | _ => none

end PlumVerif

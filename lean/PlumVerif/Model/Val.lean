import PlumVerif.Model.Basic
/-
Generic decoded-value type for the payload decoders (C05, sensor data / regulator data half).
Small on purpose.  Python objects are rendered as:
  int / IntEnum            -> int
  bool                     -> bool
  str                      -> str  (the characters as bytes: latin-1 for `chr(b)`, raw wire bytes
                                    for strings that Python decodes as UTF-8 -- the harness applies
                                    Python's own codec, which is trusted)
  float from `<f` / `<d`   -> f32 / f64 (opaque bit patterns)
  None                     -> none
  list / tuple             -> list
  dict with str keys, dataclass -> record (insertion order kept)
  dict with int keys       -> list of two-element lists [key, value] (insertion order kept)
  int / 10 (true division) -> `Val.ratio n 10`: the binary64 nearest to n/10
-/
namespace PlumVerif

inductive Val where
  | int (i : Int)
  | bool (b : Bool)
  | str (bytes : List UInt8)
  | f32 (bits : UInt32)
  | f64 (bits : UInt64)
  | none
  | list (l : List Val)
  | record (fields : List (String × Val))
deriving Inhabited

abbrev VFields := List (String × Val)

namespace Val

def nat (n : Nat) : Val := .int (Int.ofNat n)

/-- the correctly rounded binary64 quotient `n / d` (Python `int / int`) -/
def ratio (n d : Nat) : Val := .record [("ratio_num", .nat n), ("ratio_den", .nat d)]

def ascii (s : String) : Val := .str (s.toList.map fun c => c.toNat.toUInt8)

end Val

/-! ### Python dict semantics on association lists (insertion order, update in place) -/

/-- `d[k] = v` -/
def assocSet {κ α : Type} [BEq κ] : List (κ × α) → κ → α → List (κ × α)
  | [], k, v => [(k, v)]
  | (k', v') :: r, k, v => if k' == k then (k', v) :: r else (k', v') :: assocSet r k v

/-- `d |= e`, also `d | dict(pairs)` and `dict(pairs)` when `d = []` -/
def assocMerge {κ α : Type} [BEq κ] (d e : List (κ × α)) : List (κ × α) :=
  e.foldl (fun acc kv => assocSet acc kv.1 kv.2) d

/-- `dict(pairs)` -/
def assocOf {κ α : Type} [BEq κ] (pairs : List (κ × α)) : List (κ × α) := assocMerge [] pairs

/-- a dict with int keys as a value -/
def Val.intDict (d : List (Nat × Val)) : Val := .list (d.map fun kv => .list [.nat kv.1, kv.2])

/-! ### decimal rendering (`str(int)`) -/

def natDigits (n : Nat) : List Char := (Nat.toDigits 10 n)

def natToDec (n : Nat) : String := String.ofList (natDigits n)

/-! ### canonical text (JSON) for the line protocol -/

def jsonStr (s : String) : String := "\"" ++ s ++ "\""   -- keys are plain identifiers

mutual
  def Val.toJson : Val → String
    | .int i => toString i
    | .bool b => if b then "true" else "false"
    | .str bs => "{\"s\":\"" ++ hexOfBytes bs ++ "\"}"
    | .f32 b => "{\"f\":" ++ toString b.toNat ++ "}"
    | .f64 b => "{\"d\":" ++ toString b.toNat ++ "}"
    | .none => "null"
    | .list l => "[" ++ Val.listToJson l ++ "]"
    | .record fs => "{\"r\":[" ++ Val.fieldsToJson fs ++ "]}"
  def Val.listToJson : List Val → String
    | [] => ""
    | [v] => v.toJson
    | v :: r => v.toJson ++ "," ++ Val.listToJson r
  def Val.fieldsToJson : List (String × Val) → String
    | [] => ""
    | [(k, v)] => "[" ++ jsonStr k ++ "," ++ v.toJson ++ "]"
    | (k, v) :: r => "[" ++ jsonStr k ++ "," ++ v.toJson ++ "]," ++ Val.fieldsToJson r
end

end PlumVerif

import PlumVerif.Model.Schedule
import PlumVerif.Model.ScheduleHeap
import PlumVerif.Spec.C18
/- line-protocol front end for the schedule model (C18) -/
namespace PlumVerif
open PlumVerif.Sched

def parseBits (s : String) : Option (List Bool) :=
  if s = "-" then some [] else
  s.toList.mapM fun c => if c = '0' then some false else if c = '1' then some true else none

def showBits (bs : List Bool) : String :=
  if bs.isEmpty then "-" else String.ofList (bs.map fun b => if b then '1' else '0')

def parseTimeArg (s : String) : Option TimeArg :=
  if s = "x" then some .bad else
  match s.splitOn ":" with
  | [h, m] => do
    let h ← h.toNat?; let m ← m.toNat?
    if h < 24 ∧ m < 60 then some (.hm h m) else none
  | _ => none

/-- state strings travel as the hex of their UTF-8 bytes -/
def parseState (s : String) : Option String := do
  let bs ← parseHex s
  String.fromUTF8? (ByteArray.mk bs.toArray)

def parseWeekday : String → Option Weekday
  | "sunday" => some .sunday | "monday" => some .monday | "tuesday" => some .tuesday
  | "wednesday" => some .wednesday | "thursday" => some .thursday | "friday" => some .friday
  | "saturday" => some .saturday | _ => none

def Sched.Outcome.tag : Sched.Outcome → String
  | .ok => "ok" | .valueError => "ValueError" | .keyError => "KeyError" | .indexError => "IndexError"

def parseEdit (s : String) : Option Edit :=
  match s.splitOn "," with
  | [idx, day, st, a, b] => do
    let idx ← idx.toNat?; let day ← parseWeekday day; let st ← parseState st
    let a ← parseTimeArg a; let b ← parseTimeArg b
    pure ⟨idx, day, st, a, b⟩
  | _ => none

def showTable (t : List (List Bool)) : String := String.intercalate "/" (t.map showBits)

def Entry.show (e : Entry) : String :=
  s!"{e.idx} {e.switch} {match e.param with | some p => toString p | none => "-"} {showTable e.table}"

/-- run-length encoding of a list of answers (consecutive equal ones are merged) -/
def rleRuns {α : Type} [DecidableEq α] (xs : List α) : List (Nat × α) :=
  xs.foldr (fun x acc => match acc with
    | (n, y) :: rest => if x = y then (n + 1, y) :: rest else (1, x) :: acc
    | [] => [(1, x)]) []

/-- minutes after midnight (< 1440) as the parsed time `strptime` returns -/
def minuteArg (m : Nat) : TimeArg := .hm (m / 60) (m % 60)

/-- `s.setsweep <day> <state> <start minute> all|<e1,e2,...>`: `set_state(state, start, end)` on a fresh copy
of the day for every end minute of the list (all 1440 for `all`), in order; the answers `<day> <outcome>`
run-length encoded as `<count>*<day>:<outcome>` -/
def setSweep (day : List Bool) (st : String) (s : Nat) (ends : List Nat) : String :=
  let rs := ends.map fun e => setState day st (minuteArg s) (minuteArg e)
  String.intercalate " " ((rleRuns rs).map fun (n, r) => s!"{n}*{showBits r.1}:{r.2.tag}")

def scheduleOps : List String → Option String
  | ["s.setsweep", day, st, s, ends] => do
    let day ← parseBits day; let st ← parseState st; let s ← s.toNat?
    let ends ← if ends = "all" then some (List.range 1440) else (ends.splitOn ",").mapM String.toNat?
    if s < 1440 ∧ ends.all (· < 1440) then pure (setSweep day st s ends) else none
  | ["s.set", day, st, a, b] => do
    let day ← parseBits day; let st ← parseState st; let a ← parseTimeArg a; let b ← parseTimeArg b
    let r := setState day st a b
    pure s!"{showBits r.1} {r.2.tag}"
  | ["s.split", b] => do
    let b ← b.toNat?
    if b < 256 then pure (showBits (splitByte b.toUInt8)) else none
  | ["s.join", bs] => do
    let bs ← parseBits bs
    if bs.length = 0 then none else pure (toString (joinBits bs))
  | ["s.decode", h] => do
    let bm ← parseHex h
    pure (showTable (decodeWeek bm))
  | ["s.encode", t] => do
    let days ← (t.splitOn "/").mapM parseBits
    if days.all (fun d => d.length = 48) then pure (showHex (encodeWeek days)) else none
  | ["s.resp", h] => do
    let msg ← parseHex h
    pure (match decodeResponse msg with
      | some es => if es.isEmpty then "none" else String.intercalate ";" (es.map Entry.show)
      | none => "err")
  | "s.commit" :: resps :: idx :: edits => do
    let msgs ← (resps.splitOn "+").mapM parseHex
    let idx ← idx.toNat?
    let edits ← edits.mapM parseEdit
    match msgs.foldlM (fun d m => Device.receive d m) Device.init with
    | none => pure "err"
    | some dev =>
      let (dev, outs) := edits.foldl (fun (acc : Device × List String) e =>
        let r := acc.1.edit e; (r.1, acc.2 ++ [r.2.tag])) (dev, [])
      let payload := match dev.commit idx with | some p => showHex p | none => "KeyError"
      pure (String.intercalate "," ("edits" :: outs) ++ " " ++ payload)
  -- event histories with a write queue: r:<hex> | e:<edit> | c:<idx> | d
  | "s.sys" :: evs => do
    let evs ← evs.mapM fun t =>
      if t = "d" then some Ev.drain
      else match t.splitOn ":" with
        | ["r", h] => (parseHex h).map Ev.receive
        | ["c", i] => i.toNat?.map Ev.commit
        | "e" :: rest => (parseEdit (String.intercalate ":" rest)).map Ev.edit
        | _ => none
    let outs := (Sys.run ⟨Device.init, []⟩ evs).2
    pure (String.intercalate " " (outs.map fun o => match o with
      | .received => "received" | .decodeError => "err" | .edited o => o.tag | .queued => "queued"
      | .keyError => "KeyError" | .tx p => showHex p | .idle => "idle"))
  -- the heap machine (object identity): r:<hex> | k:<idx> | e:<edit> | c:<idx> | he:<h>,<day>,<state>,<a>,<b> | hc:<h> | d
  | "s.heap" :: evs => do
    let evs ← evs.mapM fun t =>
      if t = "d" then some HEv.drain
      else match t.splitOn ":" with
        | ["r", h] => (parseHex h).map HEv.receive
        | ["k", i] => i.toNat?.map HEv.keep
        | ["c", i] => i.toNat?.map HEv.commit
        | ["hc", h] => h.toNat?.map HEv.hcommit
        | "e" :: rest => (parseEdit (String.intercalate ":" rest)).map HEv.edit
        | "he" :: rest => (parseEdit (String.intercalate ":" rest)).map fun e => HEv.hedit e.idx e.toDayEdit
        | _ => none
    let outs := (HSys.run HSys.init evs).2
    pure (String.intercalate " " (outs.map fun o => match o with
      | .received => "received" | .decodeError => "err" | .handle h => s!"h{h}" | .edited o => o.tag
      | .queued => "queued" | .keyError => "KeyError" | .tx p => showHex p | .idle => "idle"))
  -- judges (Spec/C18.lean) applied to what the implementation did
  | ["s.judgeset", before, valid, on, i, j, raised, after] => do
    let before ← parseBits before; let after ← parseBits after
    let valid ← valid.toNat?; let on ← on.toNat?; let raised ← raised.toNat?
    let i ← i.toNat?; let j ← j.toNat?
    if i < 48 ∧ j < 48 then
      pure (if C18.specSet before (valid == 1) (on == 1) i j (raised == 1) after then "pass" else "fail")
    else none
  | ["s.judgecommit", idx, sw, par, table, payload] => do
    let idx ← idx.toNat?; let sw ← sw.toNat?; let par ← par.toNat?
    let rows ← (table.splitOn "/").mapM parseBits
    let payload ← parseHex payload
    pure (if C18.specCommit idx sw par (fun d i => (rows.getD d []).getD i false) payload then "pass" else "fail")
  -- s.judgeslots <idx> <sw> <par> <received bitmap hex> <payload hex> [day,valid,on,i,j ...]: the
  -- statement's slot-level expectation (theorem C18.holds_commit_slots)
  | "s.judgeslots" :: idx :: sw :: par :: bm :: payload :: edits => do
    let idx ← idx.toNat?; let sw ← sw.toNat?; let par ← par.toNat?
    let bm ← parseHex bm; let payload ← parseHex payload
    let edits ← edits.mapM fun t => match (t.splitOn ",").mapM String.toNat? with
      | some [d, v, o, i, j] => if d < 7 ∧ i < 48 ∧ j < 48 then some (C18.SlotEdit.mk d (v == 1) (o == 1) i j) else none
      | _ => none
    if bm.length = 42 then
      pure (if C18.specCommit idx sw par (C18.expectedSlot (C18.slotBit bm) edits) payload then "pass" else "fail")
    else none
  | _ => none

end PlumVerif

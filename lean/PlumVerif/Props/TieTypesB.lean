import PlumVerif.Props.TieTypes
import PlumVerif.Proofs.DecodeSensors
/-
Tie: the Lean definitions translated from the SOURCE TEXT of `BitArray` (`pyplumio/helpers/data_types.py`:
`unpack`, `value`, `size`, `next`, `pack` / `to_bytes`, `from_bytes`; Generated/PyCodeTypes.lean) equal the model's
`bitUnpack`, `bitValue`, `bitSize`, `bitNext`, `bitPack` (Model/Types.lean) for ALL buffers, offsets, raw bytes,
indexes and slot states — so `C19.bit_value`, `bit_size_next`, `bit_run_values`, `bit_run` (which are stated with
these functions) speak about the translated code.

WHAT THE HYPOTHESES EXCLUDE (audit round 8): offsets and bit indexes are `Nat` (`BitArray_{size,next,value}_eq (idx : Nat)`;
negative indexes / offsets: no theorem); the raw-byte slot holds `Option UInt8` (`BitArray(300)` outside).  There is no
`BitInst.step / run` simulation: the methods are tied one by one.
-/
namespace PlumVerif.TieTypesB
open PlumVerif PlumVerif.Py PlumVerif.Types PlumVerif.TieTypes
set_option linter.unusedSimpArgs false

/-- a bit-array instance: raw byte slot (as the int `UnsignedChar` left there), size slot, index slot -/
def bobj (raw : Option Int) (s : Int) (idx : Int) : V :=
  .obj "BitArray" ["_value", "_size", "_index"] [slotV (raw.map .int), .int s, .int idx]

section slotsB
variable (c : String) (a b d x : V)
@[simp] theorem setB_value : PyT.setattr (.obj c ["_value", "_size", "_index"] [a, b, d]) "_value" x
    = .ok (.obj c ["_value", "_size", "_index"] [x, b, d]) := by simp [PyT.setattr, PyT.setSlot]
@[simp] theorem setB_index : PyT.setattr (.obj c ["_value", "_size", "_index"] [a, b, d]) "_index" x
    = .ok (.obj c ["_value", "_size", "_index"] [a, b, x]) := by simp [PyT.setattr, PyT.setSlot]
@[simp] theorem getB_value : PyT.getattr (.obj c ["_value", "_size", "_index"] [a, b, d]) "_value"
    = if PyT.isUnset a then .error .AttributeError else .ok a := by simp [PyT.getattr, Py.lookup]
@[simp] theorem getB_index : PyT.getattr (.obj c ["_value", "_size", "_index"] [a, b, d]) "_index"
    = if PyT.isUnset d then .error .AttributeError else .ok d := by simp [PyT.getattr, Py.lookup]
@[simp] theorem hasB_value : PyT.hasattr (.obj c ["_value", "_size", "_index"] [a, b, d]) "_value"
    = .bool (!PyT.isUnset a) := by simp [PyT.hasattr, Py.lookup]
end slotsB

/-- `BitArray.unpack(data)`: the first byte of the buffer, as `bitUnpack`; the position is not touched -/
theorem BitArray_unpack_eq (raw : Option Int) (s idx : Int) (d : List UInt8) :
    PyCodeTypes.BitArray_unpack (bobj raw s idx) (.bytes d)
      = (match bitUnpack d with
        | some b => .ok (.none, bobj (some b.toNat) s idx)
        | none => .error .StructError) := by
  unfold PyCodeTypes.BitArray_unpack
  have hs : Py.slice (.bytes d) .none (.int 1) = .ok (.bytes (d.take 1)) := by
    simp [Py.slice, Py.bound, asInt?, sliceList]
  rw [hs]
  simp only [ok_bind]
  have h := UnsignedChar_from_bytes_eq (d.take 1) 0
  simp only [Int.natCast_zero, Int.ofNat_zero, List.drop_zero] at h
  rw [h]
  cases d with
  | nil => rfl
  | cons b r =>
    simp [bitUnpack, intCodec, IntTy.size, IntTy.ofWire, IntTy.signed, decodeLE, UnsignedChar_value_eq, bobj, slotV]


@[simp] theorem add_int (a b : Int) : Py.add (.int a) (.int b) = .ok (.int (a + b)) := rfl

theorem lshift_one (idx : Nat) : Py.lshift (.int 1) (.int (idx : Int)) = .ok (.int ((2 ^ idx : Nat) : Int)) := by
  have h : ¬ ((idx : Int) < 0) := by omega
  have e : ((1 : Int) <<< idx) = ((1 <<< idx : Nat) : Int) := Py.shl_natCast 1 idx
  simp [Py.lshift, asInt?, h, e, Nat.one_shiftLeft]

theorem and_nat (a b : Nat) : Py.and (.int (a : Int)) (.int (b : Int)) = .ok (.int ((a &&& b : Nat) : Int)) := by
  simp [Py.and, bothBool?, asInt?]

/-- `BitArray.value`: bit `idx` of the raw byte (`bitValue`); ValueError when nothing was unpacked -/
theorem BitArray_value_eq (raw : Option UInt8) (s : Int) (idx : Nat) :
    PyCodeTypes.BitArray_value (bobj (raw.map fun b => (b.toNat : Int)) s idx)
      = (match raw with
        | some b => .ok (.bool (bitValue b idx), bobj (some b.toNat) s idx)
        | none => .error .ValueError) := by
  cases raw with
  | none => simp [PyCodeTypes.BitArray_value, bobj, slotV, Py.truthy]
  | some b =>
    have h := Wire.and_two_pow_ne_zero b.toNat idx
    simp only [PyCodeTypes.BitArray_value, bobj, slotV, Option.map, hasB_value, getB_value, getB_index, isUnset_int,
      Bool.not_false, Py.truthy, pure_eq_ok, ok_bind, if_true, Bool.false_eq_true, if_false, lshift_one, and_nat,
      Py.bool, bitValue]
    rw [← h]
    simp only [bne, Except.ok.injEq, Prod.mk.injEq, V.bool.injEq, and_true]
    congr 1
    rw [Bool.eq_iff_iff]
    simp only [beq_iff_eq]
    omega

/-- `BitArray.size`: the shared byte is released after bit 7 (`bitSize`) -/
theorem BitArray_size_eq (raw : Option Int) (s : Int) (idx : Nat) :
    PyCodeTypes.BitArray_size (bobj raw s idx) = .ok (.int (bitSize idx), bobj raw s idx) := by
  have hl : Gen.bitarrayLastIndex = 7 := rfl
  by_cases h : idx = 7
  · subst h; simp [PyCodeTypes.BitArray_size, bobj, PyCodeTypes.c_BITARRAY_LAST_INDEX, Py.eq, Py.eqB, asInt?, Py.truthy, bitSize, hl]
  · have h' : ¬ ((idx : Int) = 7) := by omega
    simp [PyCodeTypes.BitArray_size, bobj, PyCodeTypes.c_BITARRAY_LAST_INDEX, Py.eq, Py.eqB, asInt?, Py.truthy, bitSize, hl, h, h']

/-- `BitArray.next(i)`: selects bit `i`, answers the index for the following bit field (`bitNext`) -/
theorem BitArray_next_eq (raw : Option Int) (s idx : Int) (i : Nat) :
    PyCodeTypes.BitArray_next (bobj raw s idx) (.int i) = .ok (.int (bitNext i), bobj raw s i) := by
  have hl : Gen.bitarrayLastIndex = 7 := rfl
  by_cases h : i = 7
  · subst h; simp [PyCodeTypes.BitArray_next, bobj, PyCodeTypes.c_BITARRAY_LAST_INDEX, Py.eq, Py.eqB, asInt?, Py.truthy, bitNext, hl]
  · have h' : ¬ ((i : Int) = 7) := by omega
    simp [PyCodeTypes.BitArray_next, bobj, PyCodeTypes.c_BITARRAY_LAST_INDEX, Py.eq, Py.eqB, asInt?, Py.truthy, bitNext, hl, h, h']

/-- `BitArray.from_bytes(data, off)`: index 0, the byte at `off` -/
theorem BitArray_from_bytes_eq (d : List UInt8) (off : Nat) :
    PyCodeTypes.BitArray_from_bytes (.bytes d) (.int off)
      = (match bitUnpack (d.drop off) with
        | some b => .ok (bobj (some b.toNat) 0 0)
        | none => .error .StructError) := by
  have hn : PyCodeTypes.BitArray_new .none (.int 0) = .ok (bobj none 0 0) := by
    simp [PyCodeTypes.BitArray_new, PyCodeTypes.BitArray_init, PyCodeTypes.BitArray_init_via_DataType, PyT.newobj,
      Py.isNotNone, Py.truthy, bobj, slotV]
    simp [PyT.setattr, PyT.setSlot]
  unfold PyCodeTypes.BitArray_from_bytes
  simp only [hn, ok_bind, slice_bytes_from, BitArray_unpack_eq]
  cases bitUnpack (d.drop off) <;> rfl

/-- `BitArray.to_bytes()` after an unpack: the whole shared byte (`bitPack`); nothing unpacked: empty -/
theorem BitArray_to_bytes_eq (raw : Option UInt8) (s idx : Int) :
    PyCodeTypes.BitArray_to_bytes (bobj (raw.map fun b => (b.toNat : Int)) s idx)
      = .ok (.bytes (match raw with | some b => bitPack b | none => []), bobj (raw.map fun b => (b.toNat : Int)) s idx) := by
  cases raw with
  | none => simp [PyCodeTypes.BitArray_to_bytes, PyCodeTypes.BitArray_pack, bobj, slotV, Py.truthy]
  | some b =>
    have hn := UnsignedChar_new_eq (some (b.toNat : Int))
    simp only [argV] at hn
    have hp : (intCodec .u8).pack (b.toNat : Int) = some [b] := by
      have hb := b.toNat_lt
      have h1 : IntTy.u8.inRange (b.toNat : Int) = true := by
        simp [IntTy.inRange, IntTy.signed, IntTy.modulus, IntTy.size]; omega
      have h2 : (b.toNat % 256).toUInt8 = b := by
        apply UInt8.toNat_inj.mp; simp [Nat.toUInt8, UInt8.toNat_ofNat']
      simp only [intCodec, h1, if_true, IntTy.toWire, IntTy.signed, Bool.false_eq_true, if_false, IntTy.size,
        Int.toNat_natCast, encodeLE, h2]
    simp only [PyCodeTypes.BitArray_to_bytes, PyCodeTypes.BitArray_pack, bobj, slotV, Option.map, hasB_value, getB_value,
      isUnset_int, Bool.not_false, Py.truthy, pure_eq_ok, ok_bind, if_true, Bool.false_eq_true, if_false, hn,
      UnsignedChar_to_bytes_eq, hp, bitPack]

/-! ### non-vacuity -/
example : PyCodeTypes.BitArray_from_bytes (.bytes [9, 0x80]) (.int 1) = .ok (bobj (some 128) 0 0) :=
  (BitArray_from_bytes_eq [9, 0x80] 1).trans rfl
example : PyCodeTypes.BitArray_value (bobj (some 128) 0 7) = .ok (.bool true, bobj (some 128) 0 7) :=
  (BitArray_value_eq (some 128) 0 7).trans rfl
example : PyCodeTypes.BitArray_next (bobj none 0 0) (.int 7) = .ok (.int 0, bobj none 0 7) :=
  (BitArray_next_eq none 0 0 7).trans rfl

end PlumVerif.TieTypesB

import PlumVerif.Model.FrameObject
import PlumVerif.Proofs.Envelope
/-
C02, frame OBJECT and writer: what a re-used frame object serialises after ANY sequence of
reads and writes of its `data` / `message` properties, and what `FrameWriter` hands to the
transport.  Generic in the kind's codec (`create_message` / `decode_message`), so the theorems
hold for every frame class, whatever its encoder does or raises.
-/
namespace PlumVerif.C02
open PlumVerif PlumVerif.Obj

section object
variable {δ : Type} (c : FrameCodec δ)

/-- the `message` getter in terms of the payload the state stands for -/
theorem ensureMessage_eq (x : PyFrame δ) :
    ensureMessage c x = match payloadOf c x with
      | .ok m => .ok ({ x with message := some m }, m)
      | .error e => .error e := by
  unfold ensureMessage payloadOf
  cases hm : x.message with
  | some m => cases x; simp_all
  | none => simp only; cases c.create x.sender (x.data.getD c.empty) <;> rfl

/-- the state after an operation that fills the message cache (`message`, `bytes`, `len()`) -/
def fillMsg (x : PyFrame δ) : PyFrame δ :=
  match payloadOf c x with
  | .ok m => { x with message := some m }
  | .error _ => x

theorem step_getMessage_state (x : PyFrame δ) : (step c x .getMessage).1 = fillMsg c x := by
  simp only [step, ensureMessage_eq, fillMsg]; cases payloadOf c x <;> rfl
theorem step_bytes_state (x : PyFrame δ) : (step c x .bytes).1 = fillMsg c x := by
  simp only [step, ensureMessage_eq, fillMsg]
  cases payloadOf c x with
  | error e => rfl
  | ok m => simp only; split <;> rfl
theorem step_len_state (x : PyFrame δ) : (step c x .len).1 = fillMsg c x := by
  simp only [step, ensureMessage_eq, fillMsg]; cases payloadOf c x <;> rfl

/-- the `data` getter either leaves the state alone or fills the data cache -/
theorem step_getData_state (x : PyFrame δ) :
    (step c x .getData).1 = x ∨ (x.data = none ∧ ∃ d, (step c x .getData).1 = { x with data := some d }) := by
  simp only [step, ensureData]
  cases hd : x.data with
  | some d => simp
  | none =>
    cases hm : x.message with
    | none => right; exact ⟨rfl, c.empty, rfl⟩
    | some m =>
      simp only
      cases c.decode m with
      | error e => left; rfl
      | ok d => right; exact ⟨trivial, d, rfl⟩

theorem fillMsg_header (x : PyFrame δ) :
    (fillMsg c x).cls = x.cls ∧ (fillMsg c x).rcpt = x.rcpt ∧ (fillMsg c x).sender = x.sender
      ∧ (fillMsg c x).etype = x.etype ∧ (fillMsg c x).ever = x.ever ∧ (fillMsg c x).data = x.data := by
  unfold fillMsg; cases payloadOf c x <;> simp

theorem fillMsg_payload (x : PyFrame δ) : payloadOf c (fillMsg c x) = payloadOf c x := by
  unfold fillMsg
  cases hp : payloadOf c x with
  | error e => exact hp
  | ok m => simp [payloadOf]

/-- no operation touches class, addressing or versions -/
theorem step_header (x : PyFrame δ) (op : Op δ) :
    let y := (step c x op).1
    y.cls = x.cls ∧ y.rcpt = x.rcpt ∧ y.sender = x.sender ∧ y.etype = x.etype ∧ y.ever = x.ever := by
  have hf := fillMsg_header c x
  cases op with
  | getData =>
    rcases step_getData_state c x with h | ⟨_, d, h⟩ <;> simp [h]
  | getMessage => simp only [step_getMessage_state]; exact ⟨hf.1, hf.2.1, hf.2.2.1, hf.2.2.2.1, hf.2.2.2.2.1⟩
  | bytes => simp only [step_bytes_state]; exact ⟨hf.1, hf.2.1, hf.2.2.1, hf.2.2.2.1, hf.2.2.2.2.1⟩
  | len => simp only [step_len_state]; exact ⟨hf.1, hf.2.1, hf.2.2.1, hf.2.2.2.1, hf.2.2.2.2.1⟩
  | setData d => simp [step]
  | setMessage m => simp [step]

theorem run_header (x : PyFrame δ) (ops : List (Op δ)) :
    let y := (run c x ops).1
    y.cls = x.cls ∧ y.rcpt = x.rcpt ∧ y.sender = x.sender ∧ y.etype = x.etype ∧ y.ever = x.ever := by
  induction ops generalizing x with
  | nil => simp [run]
  | cons op ops ih =>
    have h1 := step_header c x op
    have h2 := ih (step c x op).1
    simp only [run] at h2 ⊢
    simp only at h1
    exact ⟨h2.1.trans h1.1, h2.2.1.trans h1.2.1, h2.2.2.1.trans h1.2.2.1, h2.2.2.2.1.trans h1.2.2.2.1,
      h2.2.2.2.2.trans h1.2.2.2.2⟩

/-- reading (`data`, `message`, `bytes`, `len`) never changes the payload the object stands for -/
theorem getter_keeps_payload (x : PyFrame δ) (op : Op δ) (hg : op.isGetter = true) :
    payloadOf c (step c x op).1 = payloadOf c x := by
  cases op with
  | getData =>
    rcases step_getData_state c x with h | ⟨hd, d, h⟩
    · rw [h]
    · rw [h]
      -- filling the data cache: with a message the payload is the message; without one the
      -- filled value is `{}`, which is what a missing data dict is encoded as
      simp only [step, ensureData, hd] at h
      cases hm : x.message with
      | some m => simp [payloadOf, hm]
      | none =>
        simp only [hm] at h
        have : d = c.empty := by
          have := congrArg PyFrame.data h
          simpa using this.symm
        simp [payloadOf, hm, hd, this]
  | getMessage => rw [step_getMessage_state]; exact fillMsg_payload c x
  | bytes => rw [step_bytes_state]; exact fillMsg_payload c x
  | len => rw [step_len_state]; exact fillMsg_payload c x
  | setData d => simp [Op.isGetter] at hg
  | setMessage m => simp [Op.isGetter] at hg

/-- the setters define the payload: the encoder image of the data set / the message set -/
theorem setData_payload (x : PyFrame δ) (d : δ) :
    payloadOf c (step c x (.setData d)).1 = c.create x.sender d := by
  simp [step, payloadOf]

theorem setMessage_payload (x : PyFrame δ) (m : List Byte) :
    payloadOf c (step c x (.setMessage m)).1 = .ok m := by
  simp [step, payloadOf]

/-- `lastPayload` only looks at the payload and the sender of the starting state -/
theorem lastPayload_congr (x y : PyFrame δ) (ops : List (Op δ))
    (hp : payloadOf c x = payloadOf c y) (hs : x.sender = y.sender) :
    lastPayload c x ops = lastPayload c y ops := by
  induction ops generalizing x y with
  | nil => simpa [lastPayload] using hp
  | cons op ops ih =>
    cases op with
    | setData d => simp only [lastPayload]; exact ih _ _ (by simp [payloadOf, hs]) hs
    | setMessage m => simp only [lastPayload]; exact ih _ _ (by simp [payloadOf]) hs
    | getData => simp only [lastPayload]; exact ih _ _ hp hs
    | getMessage => simp only [lastPayload]; exact ih _ _ hp hs
    | bytes => simp only [lastPayload]; exact ih _ _ hp hs
    | len => simp only [lastPayload]; exact ih _ _ hp hs

/-- after ANY operation sequence the object stands for the payload of the last
content-defining operation -/
theorem run_payload (x : PyFrame δ) (ops : List (Op δ)) :
    payloadOf c (run c x ops).1 = lastPayload c x ops := by
  induction ops generalizing x with
  | nil => simp [run, lastPayload]
  | cons op ops ih =>
    simp only [run]
    rw [ih]
    have hh := (step_header c x op).2.2.1
    cases op with
    | setData d => simp only [lastPayload, step]
    | setMessage m => simp only [lastPayload, step]
    | getData => simp only [lastPayload]; exact lastPayload_congr c _ _ ops (getter_keeps_payload c x _ rfl) hh
    | getMessage => simp only [lastPayload]; exact lastPayload_congr c _ _ ops (getter_keeps_payload c x _ rfl) hh
    | bytes => simp only [lastPayload]; exact lastPayload_congr c _ _ ops (getter_keeps_payload c x _ rfl) hh
    | len => simp only [lastPayload]; exact lastPayload_congr c _ _ ops (getter_keeps_payload c x _ rfl) hh

/-- `bytesOut` only looks at the header -/
theorem bytesOut_congr (x y : PyFrame δ) (p : Except ObjErr (List Byte))
    (h : y.cls = x.cls ∧ y.rcpt = x.rcpt ∧ y.sender = x.sender ∧ y.etype = x.etype ∧ y.ever = x.ever) :
    bytesOut y p = bytesOut x p := by
  cases p <;> simp [bytesOut, toFields, h.1, h.2.1, h.2.2.1, h.2.2.2.1, h.2.2.2.2]

/-- in any state `bytes` is the envelope of the header around the payload the state stands for
(or the exception of the encoder / of packing the header) -/
theorem bytes_of_state (x : PyFrame δ) : (step c x .bytes).2 = bytesOut x (payloadOf c x) := by
  simp only [step, ensureMessage_eq, bytesOut]
  cases payloadOf c x with
  | error e => rfl
  | ok m =>
    have : toFields ({ x with message := some m } : PyFrame δ) m = toFields x m := rfl
    simp only [this]; split <;> simp_all

/-- **bytes_reflect_last_content**: after ANY sequence of operations on one frame object,
`bytes` is `encode` of the (unchanged) header with the payload of the LAST content-defining
operation — the encoder image of the last data set, or the last message set; with no setter in
the sequence, of what the frame was constructed from.  Stale caches are impossible. -/
theorem bytes_reflect_last_content (x : PyFrame δ) (ops : List (Op δ)) :
    (step c (run c x ops).1 .bytes).2 = bytesOut x (lastPayload c x ops) := by
  rw [bytes_of_state, run_payload]
  exact bytesOut_congr x _ _ (run_header c x ops)

/-- the concrete reading of `bytesOut`: when it is bytes, they are the C02 envelope of the
header fields around exactly that payload -/
theorem bytesOut_spec (x : PyFrame δ) (m b : List Byte) (h : bytesOut x (.ok m) = .bytes b) :
    ∃ f, toFields x m = some f ∧ f.payload = m ∧ f.kind.toNat = x.cls ∧ (f.rcpt.toNat : Int) = x.rcpt
      ∧ (f.sender.toNat : Int) = x.sender ∧ (f.etype.toNat : Int) = x.etype ∧ (f.ever.toNat : Int) = x.ever
      ∧ b = encode f ∧ spec f b = true := by
  simp only [bytesOut] at h
  split at h
  · rename_i f hf
    cases h
    refine ⟨f, hf, ?_⟩
    unfold toFields at hf
    split at hf
    · rename_i rc sd et ev h1 h2 h3 h4
      split at hf
      · rename_i hr
        cases hf
        have e : ∀ (v : Int) (b : Byte), byteField v = some b → (b.toNat : Int) = v := by
          intro v b hb
          unfold byteField at hb
          split at hb
          · rename_i hv
            cases hb
            have : v.toNat < 256 := by omega
            simp [Nat.toUInt8, UInt8.toNat_ofNat']; omega
          · cases hb
        refine ⟨rfl, ?_, e _ _ h1, e _ _ h2, e _ _ h3, e _ _ h4, rfl, spec_encode _ (by simpa using hr.2)⟩
        simp [Nat.toUInt8, UInt8.toNat_ofNat']; omega
      · cases hf
    · cases hf
  · cases h

/-- **length_consistent**: whenever `bytes` returns bytes, `len()` (= `length`) returns their
number and the little-endian length field inside them says the same -/
theorem length_consistent (x : PyFrame δ) (b : List Byte) (h : (step c x .bytes).2 = .bytes b) :
    (step c x .len).2 = .len b.length ∧ (b.getD 1 0).toNat + 256 * (b.getD 2 0).toNat = b.length := by
  rw [bytes_of_state] at h
  have hl : (step c x .len).2 = match payloadOf c x with | .ok m => .len (m.length + 10) | .error e => .raised e := by
    simp only [step, ensureMessage_eq]; cases payloadOf c x <;> rfl
  cases hp : payloadOf c x with
  | error e => rw [hp] at h; simp [bytesOut] at h
  | ok m =>
    rw [hp] at h hl
    obtain ⟨f, hf, hfm, _, _, _, _, _, hb, hs⟩ := bytesOut_spec x m b h
    subst hb
    have hlen : (encode f).length = m.length + 10 := by rw [encode, encodeWith_length, hfm]
    refine ⟨by rw [hl, hlen], ?_⟩
    unfold spec at hs
    simp only [Bool.and_eq_true, beq_iff_eq, decide_eq_true_eq] at hs
    exact hs.1.1.1.1.1.1.1.1.2

/-- `len()` does not depend on what is cached: it is the length of the payload the object stands for + 10 -/
theorem len_of_state (x : PyFrame δ) :
    (step c x .len).2 = match payloadOf c x with | .ok m => .len (m.length + 10) | .error e => .raised e := by
  simp only [step, ensureMessage_eq]; cases payloadOf c x <;> rfl

/-- **getters_pure**: reading `data`, `message`, `bytes` or `len()` at any point never changes
what `bytes` returns later, whatever operations follow -/
theorem getters_pure (x : PyFrame δ) (g : Op δ) (hg : g.isGetter = true) (ops : List (Op δ)) :
    (step c (run c (step c x g).1 ops).1 .bytes).2 = (step c (run c x ops).1 .bytes).2 := by
  rw [bytes_reflect_last_content, bytes_reflect_last_content]
  rw [lastPayload_congr c _ x ops (getter_keeps_payload c x g hg) (step_header c x g).2.2.1]
  exact bytesOut_congr x _ _ (step_header c x g)

theorem getMessage_out (x : PyFrame δ) :
    (step c x .getMessage).2 = match payloadOf c x with | .ok m => .message m | .error e => .raised e := by
  simp only [step, ensureMessage_eq]; cases payloadOf c x <;> rfl

/-- … and reading twice returns the same thing (the caches are transparent) -/
theorem getter_idempotent (x : PyFrame δ) (g : Op δ) (hg : g.isGetter = true) :
    (step c (step c x g).1 g).2 = (step c x g).2 := by
  cases g with
  | getMessage => rw [getMessage_out, getMessage_out, step_getMessage_state, fillMsg_payload]
  | len => rw [len_of_state, len_of_state, step_len_state, fillMsg_payload]
  | bytes =>
    rw [bytes_of_state, bytes_of_state, step_bytes_state, fillMsg_payload]
    have h := fillMsg_header c x
    exact bytesOut_congr x _ _ ⟨h.1, h.2.1, h.2.2.1, h.2.2.2.1, h.2.2.2.2.1⟩
  | getData =>
    simp only [step, ensureData]
    cases hd : x.data with
    | some d => simp [hd]
    | none =>
      cases hm : x.message with
      | none => simp
      | some m =>
        simp only
        cases hdec : c.decode m with
        | error e => simp [hd, hm, hdec]
        | ok d => simp
  | setData d => simp [Op.isGetter] at hg
  | setMessage m => simp [Op.isGetter] at hg

/-! #### header fields re-assigned between serialisations -/

theorem setHdr_payload_of_ne (x : PyFrame δ) (f : HdrField) (v : Int) (hf : f ≠ .sender) :
    payloadOf c (setHdr x f v) = payloadOf c x := by
  cases f <;> first | rfl | exact absurd rfl hf

theorem setHdr_payload_senderFree (hc : senderFree c) (x : PyFrame δ) (f : HdrField) (v : Int) :
    payloadOf c (setHdr x f v) = payloadOf c x := by
  cases f
  · rfl
  · simp only [setHdr, payloadOf]; cases x.message <;> simp [hc v x.sender]
  · rfl
  · rfl

/-- for a codec that does not look at the sender, `lastPayload` only looks at the payload of the
starting state -/
theorem lastPayload_congr_senderFree (hc : senderFree c) (x y : PyFrame δ) (ops : List (Op δ))
    (hp : payloadOf c x = payloadOf c y) : lastPayload c x ops = lastPayload c y ops := by
  induction ops generalizing x y with
  | nil => simpa [lastPayload] using hp
  | cons op ops ih =>
    cases op with
    | setData d => simp only [lastPayload]; exact ih _ _ (by simp [payloadOf, hc x.sender y.sender])
    | setMessage m => simp only [lastPayload]; exact ih _ _ (by simp [payloadOf])
    | getData => simp only [lastPayload]; exact ih _ _ hp
    | getMessage => simp only [lastPayload]; exact ih _ _ hp
    | bytes => simp only [lastPayload]; exact ih _ _ hp
    | len => simp only [lastPayload]; exact ih _ _ hp

/-- one content operation in front of a sequence -/
theorem lastPayload_step (x : PyFrame δ) (o : Op δ) (ops : List (Op δ)) :
    lastPayload c (step c x o).1 ops = lastPayload c x (o :: ops) := by
  have hh := (step_header c x o).2.2.1
  cases o with
  | setData d => simp only [lastPayload, step]
  | setMessage m => simp only [lastPayload, step]
  | getData => simp only [lastPayload]; exact lastPayload_congr c _ _ ops (getter_keeps_payload c x _ rfl) hh
  | getMessage => simp only [lastPayload]; exact lastPayload_congr c _ _ ops (getter_keeps_payload c x _ rfl) hh
  | bytes => simp only [lastPayload]; exact lastPayload_congr c _ _ ops (getter_keeps_payload c x _ rfl) hh
  | len => simp only [lastPayload]; exact lastPayload_congr c _ _ ops (getter_keeps_payload c x _ rfl) hh

/-- the header of the object after ANY sequence is the constructed header with the assignments
applied in order (the last assignment of a field wins); no other operation touches it -/
theorem runH_header (x : PyFrame δ) (ops : List (HOp δ)) :
    let y := (runH c x ops).1
    let h := hdrAfter x ops
    y.cls = h.cls ∧ y.rcpt = h.rcpt ∧ y.sender = h.sender ∧ y.etype = h.etype ∧ y.ever = h.ever := by
  induction ops generalizing x with
  | nil => simp [runH, hdrAfter]
  | cons o ops ih =>
    cases o with
    | hdr f v => simpa [runH, stepH, hdrAfter] using ih (setHdr x f v)
    | op o =>
      have h1 := step_header c x o
      have h2 := ih (step c x o).1
      simp only [runH, stepH, hdrAfter] at h2 ⊢
      -- `hdrAfter` only reads the header of its starting state
      have hcongr : ∀ (a b : PyFrame δ) (l : List (HOp δ)),
          (a.cls = b.cls ∧ a.rcpt = b.rcpt ∧ a.sender = b.sender ∧ a.etype = b.etype ∧ a.ever = b.ever) →
          ((hdrAfter a l).cls = (hdrAfter b l).cls ∧ (hdrAfter a l).rcpt = (hdrAfter b l).rcpt ∧
           (hdrAfter a l).sender = (hdrAfter b l).sender ∧ (hdrAfter a l).etype = (hdrAfter b l).etype ∧
           (hdrAfter a l).ever = (hdrAfter b l).ever) := by
        intro a b l
        induction l generalizing a b with
        | nil => intro h; simpa [hdrAfter] using h
        | cons o l ihl =>
          intro h
          cases o with
          | op _ => simpa [hdrAfter] using ihl a b h
          | hdr f v =>
            simp only [hdrAfter]
            apply ihl
            cases f <;> simp [setHdr, h.1, h.2.1, h.2.2.1, h.2.2.2.1, h.2.2.2.2]
      have hc' := hcongr (step c x o).1 x ops h1
      exact ⟨h2.1.trans hc'.1, h2.2.1.trans hc'.2.1, h2.2.2.1.trans hc'.2.2.1, h2.2.2.2.1.trans hc'.2.2.2.1,
        h2.2.2.2.2.trans hc'.2.2.2.2⟩

/-- the payload the object stands for after ANY sequence with header assignments: that of the
last content-defining operation -- assignments to the header do not change it (sender-free codec) -/
theorem runH_payload (hc : senderFree c) (x : PyFrame δ) (ops : List (HOp δ)) :
    payloadOf c (runH c x ops).1 = lastPayload c x (contentOps ops) := by
  induction ops generalizing x with
  | nil => simp [runH, contentOps, lastPayload]
  | cons o ops ih =>
    cases o with
    | op o =>
      simp only [runH, stepH, contentOps]
      rw [ih, lastPayload_step]
    | hdr f v =>
      simp only [runH, stepH, contentOps]
      rw [ih]
      exact lastPayload_congr_senderFree c hc _ _ _ (setHdr_payload_senderFree c hc x f v)

/-- **bytes_reflect_last_content, header fields included**: after ANY sequence of reads, content
assignments and assignments to recipient / sender / econet type / econet version on one frame
object, `bytes` is the envelope of the LAST assigned header values around the payload of the
LAST content-defining operation.  A serialisation memoised across a header assignment is
impossible.  (Sender-free codecs: every kind but the program-version response, see below.) -/
theorem bytes_reflect_last_content_hdr (hc : senderFree c) (x : PyFrame δ) (ops : List (HOp δ)) :
    (step c (runH c x ops).1 .bytes).2 = bytesOut (hdrAfter x ops) (lastPayload c x (contentOps ops)) := by
  rw [bytes_of_state, runH_payload c hc]
  exact bytesOut_congr _ _ _ (runH_header c x ops)

/-- without assignments to the sender the same holds for EVERY codec -/
theorem bytes_reflect_last_content_hdr_noSender (x : PyFrame δ) (ops : List (HOp δ))
    (hns : ∀ v, HOp.hdr .sender v ∉ ops) :
    (step c (runH c x ops).1 .bytes).2 = bytesOut (hdrAfter x ops) (lastPayload c x (contentOps ops)) := by
  rw [bytes_of_state]
  have hp : payloadOf c (runH c x ops).1 = lastPayload c x (contentOps ops) := by
    induction ops generalizing x with
    | nil => simp [runH, contentOps, lastPayload]
    | cons o ops ih =>
      have hns' : ∀ v, HOp.hdr .sender v ∉ ops := fun v h => hns v (List.mem_cons_of_mem _ h)
      cases o with
      | op o =>
        simp only [runH, stepH, contentOps]
        rw [ih _ hns', lastPayload_step]
      | hdr f v =>
        simp only [runH, stepH, contentOps]
        rw [ih _ hns']
        have hf : f ≠ .sender := by
          intro h; subst h; exact hns v (List.mem_cons_self)
        refine lastPayload_congr c _ _ _ (setHdr_payload_of_ne c x f v hf) ?_
        cases f <;> first | rfl | exact absurd rfl hf
  rw [hp]
  exact bytesOut_congr _ _ _ (runH_header c x ops)

/-- what a `bytes` call returned, as the argument of the writer model -/
def bytesResult : Out δ → Except ObjErr (List Byte)
  | .bytes b => .ok b
  | .raised e => .error e
  | _ => .error .struct

/-- **written_reflects_last_content**: handing ONE frame object to `FrameWriter.write` again and
again, with reads, content assignments and header assignments in between (earlier writes are
`bytes` reads: they leave nothing behind but the filled message cache), puts on the transport,
at every write, the envelope of the header values and the payload the object has AT THAT WRITE --
or nothing at all when serialising raises.  A writer that remembers an earlier serialisation of
the same object is impossible. -/
theorem written_reflects_last_content (hc : senderFree c) (x : PyFrame δ) (ops : List (HOp δ)) (d : Option Writer.Exc) :
    Writer.write (bytesResult (step c (runH c x ops).1 .bytes).2) d
      = Writer.write (bytesResult (bytesOut (hdrAfter x ops) (lastPayload c x (contentOps ops)))) d := by
  rw [bytes_reflect_last_content_hdr c hc]

end object

/-- the same object written, re-addressed, written again: two different frames reach the transport -/
example :
    let c := codecOf (0, 0, 0) 51
    let x := construct 51 69 86 48 5 none (some [("index", .int 1), ("value", .int 2)])
    (Writer.write (bytesResult (step c (runH c x [.op .bytes, .hdr .rcpt 0]).1 .bytes).2) none).1
      = [.write (encode ⟨51, 0, 86, 48, 5, [1, 2]⟩), .drain] := by decide

/-- every modelled kind except the program-version response has a sender-free codec -/
theorem codecOf_senderFree (sw : Nat × Nat × Nat) (code : Nat) (h : code ≠ 192) :
    senderFree (codecOf sw code) := by
  intro s s' d
  simp only [codecOf, createFor, h, if_false]

/-- the exception, stated: a program-version response whose message was produced (cached) under
one sender keeps that payload when the sender attribute is re-assigned -- the header shows the
new sender, the payload still carries the old one.  (pyplumio: ProgramVersionStructure packs
`self.frame.sender` into the message; `_message` is not invalidated by `frame.sender = …`.) -/
example :
    (runH (codecOf (1, 2, 3) 192) (construct 192 86 69 48 5 none (some []))
      [.op .bytes, .hdr .sender 0, .op .getMessage]).2.getLast?
    = (runH (codecOf (1, 2, 3) 192) (construct 192 86 69 48 5 none (some [])) [.op .getMessage]).2.getLast? := by
  decide

/-- a set-ecoMAX-parameter request serialised, re-addressed and given another version byte, serialised again -/
example :
    (runH (codecOf (0, 0, 0) 51) (construct 51 69 86 48 5 none (some [("index", .int 1), ("value", .int 2)]))
      [.op .bytes, .hdr .rcpt 0, .hdr .ever 7, .op .bytes]).2
    = [.bytes (encode ⟨51, 69, 86, 48, 5, [1, 2]⟩), .done, .done, .bytes (encode ⟨51, 0, 86, 48, 7, [1, 2]⟩)] := by
  decide

/-! concrete instance: a set-ecoMAX-parameter request re-used for three values -/
example :
    (run (codecOf (0, 0, 0) 51) (construct 51 69 86 48 5 none (some [("index", .int 1), ("value", .int 2)]))
      [.bytes, .setData [("index", .int 1), ("value", .int 3)], .len, .getData, .bytes]).2
    = [.bytes (encode ⟨51, 69, 86, 48, 5, [1, 2]⟩), .done, .len 12,
       .data [("index", .int 1), ("value", .int 3)], .bytes (encode ⟨51, 69, 86, 48, 5, [1, 3]⟩)] := by
  decide +kernel
/-- an empty received payload is a payload, not "unset" (what seeded change C01-m3 breaks) -/
example : (step (codecOf (0, 0, 0) 49) (construct 49 86 69 48 5 (some []) none) .getMessage).2 = .message [] := by
  decide +kernel

/-! ### FrameWriter -/
open Writer

/-- the transport receives exactly `frame.bytes`, then one drain; nothing if serialising raised -/
theorem write_hands_over_bytes (b : List Byte) (d : Option Exc) :
    (write (.ok b) d).1 = [.write b, .drain] ∧ written (write (.ok b) d).1 = b
      ∧ (write (.ok b) d).2 = (match d with | none => .ok | some e => .raised e) := by
  cases d <;> simp [write, written]

theorem write_nothing_on_frame_error (e : ObjErr) (d : Option Exc) : write (.error e) d = ([], .frameError e) := rfl

/-- a session of writes: one write + one drain per frame, in order, and the byte stream on the
transport is the concatenation of the frames' bytes -/
theorem writeAll_events (bs : List (List Byte)) :
    writeAll bs = bs.flatMap (fun b => [.write b, .drain]) ∧ written (writeAll bs) = bs.flatten := by
  induction bs with
  | nil => simp [writeAll, written]
  | cons b r ih =>
    refine ⟨by simp [writeAll, write, ih.1], ?_⟩
    simp only [writeAll, write, List.cons_append, List.nil_append, written, ih.2, List.flatten_cons]

/-- `close()`: close, then wait_closed unless close itself raised; OSError / TimeoutError never escape -/
theorem close_events (ce we : Option Exc) :
    (close ce we).1 = (if ce.isSome then [.close] else [.close, .waitClosed])
      ∧ ((close ce we).2 = .ok ∨ (close ce we).2 = .raised .other)
      ∧ (ce ≠ some .other → (ce.isSome ∨ we ≠ some .other) → (close ce we).2 = .ok) := by
  cases ce with
  | some e => cases e <;> simp [close]
  | none =>
    cases we with
    | none => simp [close]
    | some e => cases e <;> simp [close]

end PlumVerif.C02

import PlumVerif.Spec.C09
import PlumVerif.Proofs.Pool
/-
C09 — no received frame stalls the pipeline; controller requests are always answered.
Property theorems only; the machine is Model/Pool.lean, the invariant Proofs/Pool.lean.

Every theorem about the contained machine (`run true`, the code as it is now) holds for EVERY
number `n` of consumer tasks, EVERY schedule `ms : List Mv` — which fixes both the sequence of
received frames (`arrivals ms`: any mix of valid data frames, controller requests and frames
whose handling raises, in any order and number, in particular more raising frames than
consumers) and the interleaving of the consumers' moves with the arrivals.
-/
namespace PlumVerif.C09
open PlumVerif PlumVerif.Pool

/-- the frame codes of the statement are those of the repository's frame table -/
theorem codes :
    Gen.frameTypes.lookup "REQUEST_PROGRAM_VERSION" = some 64 ∧
    Gen.frameTypes.lookup "REQUEST_CHECK_DEVICE" = some 48 ∧
    RKind.code .programVersion = 192 ∧ RKind.code .deviceAvailable = 176 ∧
    Gen.deviceTypes.lookup "ECOMAX" = some 69 := by decide

/-- **conservation**: at every moment no consumer has died, the unfinished counter is exactly
the number of frames queued or in hand, and the frames finished, in hand and queued are —
as a multiset — exactly the frames received: nothing is lost, nothing is duplicated. -/
theorem conservation (n cfg : Nat) (ms : List Mv) :
    let s := run true cfg (init n) ms
    s.alive = n ∧ s.unfinished = s.queue.length + s.inHand.length ∧ s.inHand.length ≤ n ∧
      (s.finished ++ s.inHand ++ s.queue).Perm (arrivals ms) := by
  have h := inv_run n cfg [] (init n) ms (inv_init n cfg)
  simp only [List.nil_append] at h
  exact ⟨h.alive, h.bal, h.cap, h.perm⟩

/-- no consumer dies — whatever is received, including more raising frames than consumers -/
theorem no_consumer_dies (n cfg : Nat) (ms : List Mv) : (run true cfg (init n) ms).alive = n :=
  (conservation n cfg ms).1

theorem finished_perm {n cfg : Nat} {ms : List Mv} (hq : quiescent (run true cfg (init n) ms) = true) :
    (run true cfg (init n) ms).finished.Perm (arrivals ms) := by
  obtain ⟨_, _, _, hp⟩ := conservation n cfg ms
  simp only [quiescent, Bool.and_eq_true, List.isEmpty_iff] at hq
  simpa [hq.1, hq.2] using hp

/-- **delivered exactly once**: at quiescence the frames handed to their device are — as a
multiset — exactly the received frames whose handling does not raise. -/
theorem delivered_exactly_once (n cfg : Nat) (ms : List Mv)
    (hq : quiescent (run true cfg (init n) ms) = true) :
    (run true cfg (init n) ms).delivered.Perm (((arrivals ms).filter ok).map (·.id)) := by
  have h := inv_run n cfg [] (init n) ms (inv_init n cfg)
  rw [h.deliv]
  exact ((finished_perm hq).filter ok).map _

/-- … so with distinct frame ids each non-raising frame is delivered exactly once and each
raising frame never -/
theorem delivered_count (n cfg : Nat) (ms : List Mv)
    (hq : quiescent (run true cfg (init n) ms) = true)
    (hid : ((arrivals ms).map (·.id)).Nodup) (f : Frame) (hf : f ∈ arrivals ms) :
    (run true cfg (init n) ms).delivered.count f.id = if f.raises then 0 else 1 := by
  rw [(delivered_exactly_once n cfg ms hq).count_eq]
  have hnd : (((arrivals ms).filter ok).map (·.id)).Nodup :=
    (List.filter_sublist.map _).nodup hid
  rw [hnd.count]
  cases hr : f.raises with
  | false =>
    have : f.id ∈ ((arrivals ms).filter ok).map (·.id) :=
      List.mem_map.mpr ⟨f, List.mem_filter.mpr ⟨hf, by simp [ok, hr]⟩, rfl⟩
    simp [this]
  | true =>
    have : f.id ∉ ((arrivals ms).filter ok).map (·.id) := by
      intro hmem
      obtain ⟨g, hg, hgi⟩ := List.mem_map.mp hmem
      obtain ⟨hg1, hg2⟩ := List.mem_filter.mp hg
      -- g and f share an id, ids are distinct, so g = f, but g does not raise
      have : g = f := eq_of_id_eq hid hf hg1 hgi
      subst this
      simp [ok, hr] at hg2
    simp [this]

/-- what an automatic reply looks like: only a program-version / check-device request from
the controller is answered, with the matching kind, addressed to the requester, and the
device-available reply carries the configured network information -/
theorem reply_matches (cfg : Nat) (f : Frame) (r : Resp) (h : respOf cfg f = some r) :
    f.controller = true ∧ r.rcpt = f.sender ∧
      ((f.cls = .pvReq ∧ r.kind = .programVersion) ∨
       (f.cls = .cdReq ∧ r.kind = .deviceAvailable ∧ r.net = cfg)) := by
  unfold respOf at h
  split at h
  · rename_i hc
    split at h
    · cases h; exact ⟨hc, rfl, .inl ⟨by assumption, rfl⟩⟩
    · cases h; exact ⟨hc, rfl, .inr ⟨by assumption, rfl, rfl⟩⟩
    · cases h
  · cases h

/-- **requests answered**: at quiescence the replies queued for writing are — as a multiset —
exactly one `respOf` per received request whose handling did not raise; nothing else. -/
theorem requests_answered (n cfg : Nat) (ms : List Mv)
    (hq : quiescent (run true cfg (init n) ms) = true) :
    (run true cfg (init n) ms).responses.Perm
      (((arrivals ms).filter ok).flatMap fun f => (respOf cfg f).toList) := by
  have h := inv_run n cfg [] (init n) ms (inv_init n cfg)
  rw [h.resp]
  exact ((finished_perm hq).filter ok).flatMap_right _

/-- **balanced**: at quiescence the read queue's unfinished count is 0 — `Queue.join()` in
`shutdown()` returns -/
theorem balanced_at_quiescence (n cfg : Nat) (ms : List Mv)
    (hq : quiescent (run true cfg (init n) ms) = true) :
    (run true cfg (init n) ms).unfinished = 0 := by
  obtain ⟨_, hb, _, _⟩ := conservation n cfg ms
  simp only [quiescent, Bool.and_eq_true, List.isEmpty_iff] at hq
  simp [hb, hq.1, hq.2]

/-- **never stalls**: with at least one consumer, after ANY schedule the consumers alone can
bring the pipeline to quiescence — no sequence of frames wedges it. -/
theorem never_stalls (n cfg : Nat) (hn : 0 < n) (ms : List Mv) :
    ∃ more, arrivals more = [] ∧ quiescent (run true cfg (init n) (ms ++ more)) = true := by
  have h := inv_run n cfg [] (init n) ms (inv_init n cfg)
  obtain ⟨more, hi, hqz⟩ := can_quiesce n cfg hn _ _ _ (Nat.le_refl _) h
  exact ⟨more, hi, by rw [run_append]; exact hqz⟩

/-- replies of the machine = replies the statement demands, when no controller request raises -/
theorem replies_eq_demanded (cfg : Nat) (frames : List Frame)
    (hreq : ∀ f ∈ frames, f.raises = true → demanded cfg f = none) :
    ((frames.filter ok).flatMap fun f => (respOf cfg f).toList) = frames.filterMap (demanded cfg) := by
  have same : (fun f => (respOf cfg f).toList) = fun f => (demanded cfg f).toList := by
    funext g
    unfold respOf demanded
    cases g.controller <;> cases g.cls <;> rfl
  rw [same]
  induction frames with
  | nil => rfl
  | cons f fs ih =>
    have ih' := ih (fun g hg => hreq g (List.mem_cons_of_mem _ hg))
    cases hr : f.raises with
    | true =>
      have := hreq f (List.mem_cons_self ..) hr
      simp [ok, hr, this, ih']
    | false =>
      simp only [List.filter_cons, ok, hr, Bool.not_false, if_true, List.flatMap_cons, List.filterMap_cons, ih']
      cases demanded cfg f <;> simp

/-- **C09.holds**: for every number of consumers, every received sequence with distinct ids in
which no controller request raises, and every schedule that ends in quiescence, what the
machine shows satisfies the statement's predicate `spec` (the predicate the driver evaluates
on what the implementation showed). -/
theorem holds (n cfg : Nat) (ms : List Mv)
    (hq : quiescent (run true cfg (init n) ms) = true)
    (hid : ((arrivals ms).map (·.id)).Nodup)
    (hreq : ∀ f ∈ arrivals ms, f.raises = true → demanded cfg f = none) :
    spec n cfg (arrivals ms) (Obs.ofSnap (observe (arrivals ms) (run true cfg (init n) ms))) = true := by
  have hcount := delivered_count n cfg ms hq hid
  have hdel := delivered_exactly_once n cfg ms hq
  have hresp := requests_answered n cfg ms hq
  have hbal := balanced_at_quiescence n cfg ms hq
  have halive := no_consumer_dies n cfg ms
  generalize run true cfg (init n) ms = s at *
  generalize arrivals ms = frames at *
  have visible : ∀ f ∈ frames, 0 < f.items →
      (frames.any fun g => g.id == f.id && decide (0 < g.items)) = true := by
    intro f hf hi
    exact List.any_eq_true.mpr ⟨f, hf, by simp [hi]⟩
  unfold spec
  simp only [Bool.and_eq_true]
  refine ⟨⟨⟨?_, ?_⟩, ?_⟩, ?_⟩
  case refine_4 => simp [balanced, Obs.ofSnap, observe, hbal, halive]
  all_goals simp only [deliveredOnce, onlyValid, answered, Obs.ofSnap, observe, List.all_eq_true]
  · intro f hf
    cases hr : f.raises with
    | true => simp
    | false =>
      by_cases hi : f.items = 0
      · simp [hi]
      · have hpos : 0 < f.items := Nat.pos_of_ne_zero hi
        have := hcount f hf
        simp only [hr] at this
        simp only [Bool.false_or, Bool.or_eq_true, beq_iff_eq]
        right
        rw [List.count_filter (p := fun i => frames.any fun g => g.id == i && decide (0 < g.items))
          (visible f hf hpos), List.count_reverse]
        simpa using this
  · intro i hi
    obtain ⟨hi1, hi2⟩ := List.mem_filter.mp hi
    rw [List.mem_reverse] at hi1
    have : i ∈ (frames.filter ok).map (·.id) := hdel.mem_iff.mp hi1
    obtain ⟨f, hf, rfl⟩ := List.mem_map.mp this
    obtain ⟨hf1, hf2⟩ := List.mem_filter.mp hf
    obtain ⟨g, hg, hgp⟩ := List.any_eq_true.mp hi2
    simp only [Bool.and_eq_true, beq_iff_eq, decide_eq_true_eq] at hgp
    have : g = f := eq_of_id_eq hid hf1 hg hgp.1
    subst this
    exact List.any_eq_true.mpr ⟨g, hg, by simp [hgp.2]; simpa [ok] using hf2⟩
  · rw [List.isPerm_iff, ← replies_eq_demanded cfg frames hreq]
    exact (List.reverse_perm _).trans hresp

/-- the driver's replay of a harness run is a run of the machine: draining is a schedule of
consumer moves … -/
theorem drain_is_run (c : Bool) (cfg : Nat) (fuel : Nat) (s : St) (acc : List Mv) :
    ∃ ms, arrivals ms = [] ∧ (drain c cfg fuel s acc).1 = run c cfg s ms ∧
      (drain c cfg fuel s acc).2 = ms.reverse ++ acc := by
  induction fuel generalizing s acc with
  | zero => exact ⟨[], rfl, rfl, rfl⟩
  | succ k ih =>
    unfold drain
    split
    · rename_i f _
      obtain ⟨ms, h1, h2, h3⟩ := ih (step c cfg s (.finish f)) (.finish f :: acc)
      exact ⟨.finish f :: ms, by simpa [arrivals] using h1, by simpa [run] using h2, by simp [h3]⟩
    · split
      · exact ⟨[], rfl, rfl, rfl⟩
      · split
        · obtain ⟨ms, h1, h2, h3⟩ := ih (step c cfg s .take) (.take :: acc)
          exact ⟨.take :: ms, by simpa [arrivals] using h1, by simpa [run] using h2, by simp [h3]⟩
        · exact ⟨[], rfl, rfl, rfl⟩

/-- … and a batch is the schedule it reports: the batch's frames arrive, then consumer moves -/
theorem batch_is_run (c : Bool) (cfg : Nat) (s : St) (fs : List Frame) :
    (batch c cfg s fs).1 = run c cfg s (batch c cfg s fs).2 ∧ arrivals (batch c cfg s fs).2 = fs := by
  have arr : ∀ (fs : List Frame) (s : St),
      fs.foldl (fun s f => step c cfg s (.arrive f)) s = run c cfg s (fs.map .arrive) := by
    intro fs
    induction fs with
    | nil => intro s; rfl
    | cons f fs ih => intro s; simpa [run] using ih _
  have arrmap : ∀ fs : List Frame, arrivals (fs.map Mv.arrive) = fs := by
    intro fs; induction fs with
    | nil => rfl
    | cons f fs ih => simp [arrivals, ih]
  unfold batch
  simp only []
  obtain ⟨ms, h1, h2, h3⟩ := drain_is_run c cfg
    (2 * ((fs.foldl (fun s f => step c cfg s (.arrive f)) s).queue.length +
      (fs.foldl (fun s f => step c cfg s (.arrive f)) s).inHand.length) + 2)
    (fs.foldl (fun s f => step c cfg s (.arrive f)) s) []
  rw [h2, h3]
  simp [run_append, arr, arrivals_append, arrmap, h1]

/-- … also when the batch arrives while the consumers are held up: arrivals, then takes -/
theorem hold_is_run (c : Bool) (cfg : Nat) (s : St) (fs : List Frame) :
    (holdBatch c cfg s fs).1 = run c cfg s (holdBatch c cfg s fs).2 ∧ arrivals (holdBatch c cfg s fs).2 = fs := by
  have arr : ∀ (fs : List Frame) (s : St),
      fs.foldl (fun s f => step c cfg s (.arrive f)) s = run c cfg s (fs.map .arrive) := by
    intro fs
    induction fs with
    | nil => intro s; rfl
    | cons f fs ih => intro s; simpa [run] using ih _
  have arrmap : ∀ fs : List Frame, arrivals (fs.map Mv.arrive) = fs := by
    intro fs; induction fs with
    | nil => rfl
    | cons f fs ih => simp [arrivals, ih]
  have tk : ∀ (fuel : Nat) (s : St) (acc : List Mv), ∃ ms, arrivals ms = [] ∧
      (takeAll c cfg fuel s acc).1 = run c cfg s ms ∧ (takeAll c cfg fuel s acc).2 = ms.reverse ++ acc := by
    intro fuel
    induction fuel with
    | zero => intro s acc; exact ⟨[], rfl, rfl, rfl⟩
    | succ k ih =>
      intro s acc
      unfold takeAll
      split
      · exact ⟨[], rfl, rfl, rfl⟩
      · split
        · obtain ⟨ms, h1, h2, h3⟩ := ih (step c cfg s .take) (.take :: acc)
          exact ⟨.take :: ms, by simpa [arrivals] using h1, by simpa [run] using h2, by simp [h3]⟩
        · exact ⟨[], rfl, rfl, rfl⟩
  unfold holdBatch
  simp only []
  obtain ⟨ms, h1, h2, h3⟩ := tk (fs.foldl (fun s f => step c cfg s (.arrive f)) s).queue.length
    (fs.foldl (fun s f => step c cfg s (.arrive f)) s) []
  rw [h2, h3]
  simp [run_append, arr, arrivals_append, arrmap, h1]

/-- the model can tell the difference: the SAME machine without containment (`run false`, the
consumer loop before fix e8d48dc) with three consumers is wedged for good by three raising
frames — all consumers dead, four frames unacknowledged, the valid frame never delivered, and
no consumer move changes anything any more. -/
theorem uncontained_counterexample :
    let bad (i : Nat) : Frame := ⟨i, .data, 69, true, 0, true⟩
    let good : Frame := ⟨3, .data, 69, true, 1, false⟩
    let s := run false 1 (init 3)
      [.arrive (bad 0), .arrive (bad 1), .arrive (bad 2), .arrive good,
       .take, .take, .take, .finish (bad 0), .finish (bad 1), .finish (bad 2)]
    s.alive = 0 ∧ s.unfinished = 4 ∧ s.queue = [good] ∧ s.delivered = [] ∧
      step false 1 s .take = s ∧ ∀ f, step false 1 s (.finish f) = s := by
  refine ⟨by decide, by decide, by decide, by decide, by decide, ?_⟩
  intro f
  simp [run, step, init]

/-- non-vacuity: the same frames and schedule on the contained machine, continued by one take
and one finish, end quiescent with the valid frame delivered, three consumers alive, balance 0 -/
example :
    let bad (i : Nat) : Frame := ⟨i, .data, 69, true, 0, true⟩
    let good : Frame := ⟨3, .data, 69, true, 1, false⟩
    let s := run true 1 (init 3)
      [.arrive (bad 0), .arrive (bad 1), .arrive (bad 2), .arrive good,
       .take, .take, .take, .finish (bad 0), .finish (bad 1), .finish (bad 2), .take, .finish good]
    quiescent s = true ∧ s.alive = 3 ∧ s.unfinished = 0 ∧ s.delivered = [3] := by decide

/-- non-vacuity of `holds` / the replay: five raising frames (more than the two consumers), a
check-device and a program-version request from the controller (69) and a valid frame, in two
batches -/
example :
    let fs : List Frame := [⟨0, .data, 69, true, 0, true⟩, ⟨1, .data, 69, true, 0, true⟩, ⟨2, .data, 69, true, 0, true⟩,
      ⟨3, .cdReq, 69, true, 0, false⟩, ⟨4, .data, 69, true, 0, true⟩, ⟨5, .data, 69, true, 0, true⟩]
    let gs : List Frame := [⟨6, .pvReq, 69, true, 0, false⟩, ⟨7, .data, 69, true, 2, false⟩]
    (replay true 7 2 [fs, gs]).getLast? =
      some { delivered := [7], responses := [⟨.deviceAvailable, 69, 7⟩, ⟨.programVersion, 69, 0⟩],
             unfinished := 0, alive := 2 } ∧
    ((replay true 7 2 [fs, gs]).getLast?.map fun o => spec 2 7 (fs ++ gs) (Obs.ofSnap o)) = some true := by
  decide

/-- a held batch: five frames arrive while the two consumers are held up in device creation —
two in hand, three queued, five unacknowledged; the next (empty) batch handles them all -/
example :
    let fs : List Frame := [⟨0, .data, 69, true, 0, true⟩, ⟨1, .data, 69, true, 0, true⟩, ⟨2, .data, 69, true, 0, true⟩,
      ⟨3, .cdReq, 69, true, 0, false⟩, ⟨4, .data, 69, true, 1, false⟩]
    replayH true 7 2 [(true, fs), (false, [])] =
      [{ delivered := [], responses := [], unfinished := 5, alive := 2 },
       { delivered := [4], responses := [⟨.deviceAvailable, 69, 7⟩], unfinished := 0, alive := 2 }] := by decide

/-- the predicate is not trivially true: the uncontained replay of the same input fails it -/
example :
    let fs : List Frame := [⟨0, .data, 69, true, 0, true⟩, ⟨1, .data, 69, true, 0, true⟩, ⟨2, .data, 69, true, 2, false⟩]
    ((replay false 7 2 [fs]).getLast?.map fun o => spec 2 7 fs (Obs.ofSnap o)) = some false := by decide

end PlumVerif.C09

import PlumVerif.Spec.C09
import PlumVerif.Proofs.Pool
import PlumVerif.Props.C02
import PlumVerif.Props.C03
/-
C09 — no received frame stalls the pipeline; controller requests are always answered.
Property theorems only; the machine is Model/Pool.lean, the invariant Proofs/Pool.lean.

Every theorem about the contained machine (`run true`, the code as it is now) holds for EVERY
number `n` of consumer tasks, EVERY configuration `cfg` and EVERY schedule `ms : List Mv` —
which fixes both the sequence of received frames (`arrivals ms`: any mix of valid data frames,
controller requests and frames whose handling raises, in any order and number, in particular
more raising frames than consumers) and the interleaving of the consumers' moves with the
arrivals.
-/
namespace PlumVerif.C09
open PlumVerif PlumVerif.Pool

/-- the frame codes / addresses of the statement are those of the repository's tables -/
theorem codes :
    Gen.frameTypes.lookup "REQUEST_PROGRAM_VERSION" = some 64 ∧
    Gen.frameTypes.lookup "REQUEST_CHECK_DEVICE" = some 48 ∧
    frameCode "RESPONSE_PROGRAM_VERSION" = 192 ∧ frameCode "RESPONSE_DEVICE_AVAILABLE" = 176 ∧
    Gen.deviceTypes.lookup "ECOMAX" = some 69 ∧ ownAddress = 86 ∧
    Gen.econetType = 48 ∧ Gen.econetVersion = 5 := by decide

/-- **conservation**: at every moment no consumer has died, the unfinished counter is exactly
the number of frames queued or in hand, and the frames finished, in hand and queued are —
as a multiset — exactly the frames received: nothing is lost, nothing is duplicated. -/
theorem conservation (n : Nat) (cfg : Cfg) (ms : List Mv) :
    let s := run true cfg (init n) ms
    s.alive = n ∧ s.unfinished = s.queue.length + s.inHand.length ∧ s.inHand.length ≤ n ∧
      (s.finished ++ s.inHand ++ s.queue).Perm (arrivals ms) := by
  have h := inv_run n cfg [] (init n) ms (inv_init n cfg)
  simp only [List.nil_append] at h
  exact ⟨h.alive, h.bal, h.cap, h.perm⟩

/-- no consumer dies — whatever is received, including more raising frames than consumers -/
theorem no_consumer_dies (n : Nat) (cfg : Cfg) (ms : List Mv) : (run true cfg (init n) ms).alive = n :=
  (conservation n cfg ms).1

theorem finished_perm {n : Nat} {cfg : Cfg} {ms : List Mv} (hq : quiescent (run true cfg (init n) ms) = true) :
    (run true cfg (init n) ms).finished.Perm (arrivals ms) := by
  obtain ⟨_, _, _, hp⟩ := conservation n cfg ms
  simp only [quiescent, Bool.and_eq_true, List.isEmpty_iff] at hq
  simpa [hq.1, hq.2] using hp

/-- **delivered exactly once**: at quiescence the frames handed to their device are — as a
multiset — exactly the received frames whose handling does not raise (`ok`). -/
theorem delivered_exactly_once (n : Nat) (cfg : Cfg) (ms : List Mv)
    (hq : quiescent (run true cfg (init n) ms) = true) :
    (run true cfg (init n) ms).delivered.Perm (((arrivals ms).filter (ok cfg)).map (·.id)) := by
  have h := inv_run n cfg [] (init n) ms (inv_init n cfg)
  rw [h.deliv]
  exact ((finished_perm hq).filter (ok cfg)).map _

/-- … so with distinct frame ids each frame whose handling does not raise is delivered exactly
once and each raising frame never -/
theorem delivered_count (n : Nat) (cfg : Cfg) (ms : List Mv)
    (hq : quiescent (run true cfg (init n) ms) = true)
    (hid : ((arrivals ms).map (·.id)).Nodup) (f : Frame) (hf : f ∈ arrivals ms) :
    (run true cfg (init n) ms).delivered.count f.id = if ok cfg f then 1 else 0 := by
  rw [(delivered_exactly_once n cfg ms hq).count_eq]
  have hnd : (((arrivals ms).filter (ok cfg)).map (·.id)).Nodup :=
    (List.filter_sublist.map _).nodup hid
  rw [hnd.count]
  cases hr : ok cfg f with
  | true =>
    have : f.id ∈ ((arrivals ms).filter (ok cfg)).map (·.id) :=
      List.mem_map.mpr ⟨f, List.mem_filter.mpr ⟨hf, hr⟩, rfl⟩
    simp [this]
  | false =>
    have : f.id ∉ ((arrivals ms).filter (ok cfg)).map (·.id) := by
      intro hmem
      obtain ⟨g, hg, hgi⟩ := List.mem_map.mp hmem
      obtain ⟨hg1, hg2⟩ := List.mem_filter.mp hg
      have : g = f := eq_of_id_eq hid hf hg1 hgi
      subst this
      rw [hr] at hg2; cases hg2
    simp [this]

/-- a data frame (or any frame not handled as a request by the controller's device) raises
exactly when its input bit says so -/
theorem ok_data (cfg : Cfg) (f : Frame) (h : f.cls = .data) : ok cfg f = !f.raises := by
  unfold ok handle
  cases f.controller <;> cases hr : f.raises <;> simp [h, hr]

/-- **reply bytes (check device)**: the frame queued for a check-device request from the
controller (sender `s`) is exactly `⟨176, s, 86, 48, 5, Net.encode (configured network info)⟩`,
i.e. on the wire the bytes `encode` of it (C02.envelope / C02.net_layout describe those bytes) -/
theorem reply_bytes_check_device (cfg : Cfg) (f : Frame) (m : List Byte)
    (hc : f.controller = true) (hk : f.cls = .cdReq) (hm : Net.encode cfg.net = some m) :
    handle cfg f = .done [⟨176, f.sender, 86, 48, 5, m⟩] ∧
      (repliesOf cfg f).map encode = [encode ⟨176, f.sender, 86, 48, 5, m⟩] := by
  have h1 : handle cfg f = .done [⟨176, f.sender, 86, 48, 5, m⟩] := by
    have c := codes
    simp only [handle, hc, hk, replyOf, hm, replyFrame, c.2.2.2.1, c.2.2.2.2.2.1, c.2.2.2.2.2.2.1, c.2.2.2.2.2.2.2]
    rfl
  exact ⟨h1, by simp [repliesOf, h1]⟩

/-- **reply bytes (program version)**: … and for a program-version request it is
`⟨192, s, 86, 48, 5, Version.encode (version info) 86⟩` (C02.version_layout) -/
theorem reply_bytes_program_version (cfg : Cfg) (f : Frame) (m : List Byte)
    (hc : f.controller = true) (hk : f.cls = .pvReq) (hm : Version.encode cfg.ver 86 = some m) :
    handle cfg f = .done [⟨192, f.sender, 86, 48, 5, m⟩] ∧
      (repliesOf cfg f).map encode = [encode ⟨192, f.sender, 86, 48, 5, m⟩] := by
  have h1 : handle cfg f = .done [⟨192, f.sender, 86, 48, 5, m⟩] := by
    have c := codes
    simp only [handle, hc, hk, replyOf, replyFrame, c.2.2.1, c.2.2.2.2.2.1, c.2.2.2.2.2.2.1, c.2.2.2.2.2.2.2]
    rw [show (86 : UInt8).toNat = 86 from rfl, hm]
    rfl
  exact ⟨h1, by simp [repliesOf, h1]⟩

/-- a configuration whose replies can be built: the SSID fits its length byte, the version
numbers fit 16 bits, the structure version a byte -/
def Buildable (cfg : Cfg) : Prop :=
  cfg.net.wlan.ssid.length ≤ 255 ∧ cfg.ver.a < 65536 ∧ cfg.ver.b < 65536 ∧ cfg.ver.c < 65536 ∧
    cfg.ver.structVersion < 256

/-- **building a reply never raises** with the current encoders and a buildable configuration
(C03.net_encode_ok, C03.version_encode_ok): every frame handled as a request by the
controller's device completes — whatever its input bit says -/
theorem request_never_raises (cfg : Cfg) (hb : Buildable cfg) (f : Frame)
    (hc : f.controller = true) (hk : f.cls ≠ .data) : ok cfg f = true := by
  obtain ⟨hs, ha, hbb, hcc, hv⟩ := hb
  obtain ⟨m1, hm1⟩ := C03.net_encode_ok cfg.net hs
  obtain ⟨m2, hm2⟩ := C03.version_encode_ok cfg.ver 86 ha hbb hcc hv (by omega)
  have h86 : ownAddress.toNat = 86 := by rw [codes.2.2.2.2.2.1]; rfl
  unfold ok handle
  cases hcls : f.cls with
  | data => exact absurd hcls hk
  | pvReq => simp [hc, replyOf, hcls, h86, hm2]
  | cdReq => simp [hc, replyOf, hcls, hm1]
  | otherReq => simp [hc, replyOf, hcls]

/-- … and when it does raise (a configuration that cannot be encoded — what the development
build's version string did before fix 5104319) the failure is contained like any other: the
frame's handling ends as `raised`, the request stays unanswered, nothing else changes
(`conservation`, `no_consumer_dies`, `never_stalls` hold for every configuration). -/
theorem unbuildable_reply_contained (cfg : Cfg) (f : Frame) (hc : f.controller = true) (hk : f.cls = .pvReq)
    (hm : Version.encode cfg.ver 86 = none) : handle cfg f = .raised ∧ repliesOf cfg f = [] := by
  have h86 : ownAddress.toNat = 86 := by rw [codes.2.2.2.2.2.1]; rfl
  have h1 : handle cfg f = .raised := by simp [handle, hc, hk, replyOf, h86, hm]
  exact ⟨h1, by simp [repliesOf, h1]⟩

/-- **requests answered**: at quiescence the replies queued for writing are — as a multiset —
exactly the replies of the received frames whose handling did not raise; nothing else. -/
theorem requests_answered (n : Nat) (cfg : Cfg) (ms : List Mv)
    (hq : quiescent (run true cfg (init n) ms) = true) :
    (run true cfg (init n) ms).responses.Perm (((arrivals ms).filter (ok cfg)).flatMap (repliesOf cfg)) := by
  have h := inv_run n cfg [] (init n) ms (inv_init n cfg)
  rw [h.resp]
  exact ((finished_perm hq).filter (ok cfg)).flatMap_right _

/-- **balanced**: at quiescence the read queue's unfinished count is 0 — `Queue.join()` on the
read queue in `shutdown()` returns -/
theorem balanced_at_quiescence (n : Nat) (cfg : Cfg) (ms : List Mv)
    (hq : quiescent (run true cfg (init n) ms) = true) :
    (run true cfg (init n) ms).unfinished = 0 := by
  obtain ⟨_, hb, _, _⟩ := conservation n cfg ms
  simp only [quiescent, Bool.and_eq_true, List.isEmpty_iff] at hq
  simp [hb, hq.1, hq.2]

/-- **never stalls**: with at least one consumer, after ANY schedule the consumers alone can
bring the pipeline to quiescence — no sequence of frames wedges it. -/
theorem never_stalls (n : Nat) (cfg : Cfg) (hn : 0 < n) (ms : List Mv) :
    ∃ more, arrivals more = [] ∧ quiescent (run true cfg (init n) (ms ++ more)) = true := by
  have h := inv_run n cfg [] (init n) ms (inv_init n cfg)
  obtain ⟨more, hi, hqz⟩ := can_quiesce n cfg hn _ _ _ (Nat.le_refl _) h
  exact ⟨more, hi, by rw [run_append]; exact hqz⟩

/-! ### inevitability: not only CAN the consumers reach quiescence — whatever they do, they DO

`never_stalls` is a possibility statement (some continuation reaches quiescence).  The following
three theorems give the inevitability form.  `measure s = 2·|queue| + |inHand|`; a consumer move is
*enabled* when it is a real move (`take`: a frame is queued and a consumer is parked; `finish f`:
`f` is in hand).  (1) every enabled consumer move lowers the measure by exactly one, (2) as long as
the pipeline is not quiescent some consumer move is enabled (no deadlock), (3) hence EVERY run of
enabled consumer moves has at most `measure` moves, and every such run of exactly `measure` moves —
i.e. every maximal one, every fair schedule of the consumers — ends in quiescence: the pool is
empty after `measure` real moves whichever consumers make them in whichever order. -/

def measure (s : St) : Nat := 2 * s.queue.length + s.inHand.length

/-- the move is a real move of a consumer in state `s` -/
def enabled (s : St) : Mv → Bool
  | .arrive _ => false
  | .take => !s.queue.isEmpty && decide (s.inHand.length < s.alive)
  | .finish f => decide (f ∈ s.inHand)

/-- every move of the list is enabled at its moment -/
def enabledAll (cfg : Cfg) : St → List Mv → Bool
  | _, [] => true
  | s, m :: ms => enabled s m && enabledAll cfg (step true cfg s m) ms

/-- **(1) every enabled consumer move lowers the measure by exactly one** (whether or not the
handling raises) -/
theorem enabled_step_measure (cfg : Cfg) (s : St) (m : Mv) (h : enabled s m = true) :
    measure (step true cfg s m) + 1 = measure s := by
  cases m with
  | arrive f => simp [enabled] at h
  | take =>
    simp only [enabled, Bool.and_eq_true, Bool.not_eq_true', decide_eq_true_eq] at h
    cases hq : s.queue with
    | nil => simp [hq] at h
    | cons f q =>
      simp only [step, hq, h.2, ↓reduceIte, measure, List.length_cons]
      omega
  | finish f =>
    simp only [enabled, decide_eq_true_eq] at h
    have hl := List.length_erase_of_mem h
    have hpos : 0 < s.inHand.length := List.length_pos_of_mem h
    have hq : (step true cfg s (.finish f)).queue = s.queue := by
      simp only [step, h, if_true]; cases handle cfg f <;> rfl
    have hi : (step true cfg s (.finish f)).inHand.length = s.inHand.length - 1 := by
      simp only [step, h, if_true]; cases handle cfg f <;> simpa using hl
    simp only [measure, hq, hi]
    omega

/-- the contained machine never loses a consumer, from any state -/
theorem step_alive (cfg : Cfg) (s : St) (m : Mv) : (step true cfg s m).alive = s.alive := by
  cases m with
  | arrive f => rfl
  | take =>
    simp only [step]
    split
    · rfl
    · split <;> rfl
  | finish f =>
    simp only [step]
    split
    · cases handle cfg f <;> rfl
    · rfl

/-- **(2) no deadlock**: with a live consumer, a pipeline that is not quiescent always has an
enabled consumer move -/
theorem not_quiescent_enabled (s : St) (ha : 0 < s.alive) (hq : quiescent s = false) :
    ∃ m, enabled s m = true := by
  cases hh : s.inHand with
  | cons f hand => exact ⟨.finish f, by simp [enabled, hh]⟩
  | nil =>
    cases hqq : s.queue with
    | nil => simp [quiescent, hh, hqq] at hq
    | cons f q => exact ⟨.take, by simp [enabled, hqq, hh, ha]⟩

/-- a run of enabled consumer moves lowers the measure by its length -/
theorem enabled_run_measure (cfg : Cfg) (s : St) (ms : List Mv) (h : enabledAll cfg s ms = true) :
    measure (run true cfg s ms) + ms.length = measure s := by
  induction ms generalizing s with
  | nil => simp [run]
  | cons m ms ih =>
    simp only [enabledAll, Bool.and_eq_true] at h
    have h1 := enabled_step_measure cfg s m h.1
    have h2 := ih _ h.2
    simp only [run, List.length_cons]
    omega

/-- **(3a) bounded**: no run of enabled consumer moves is longer than the measure — the consumers
cannot go on for ever without new frames -/
theorem enabled_run_bounded (cfg : Cfg) (s : St) (ms : List Mv) (h : enabledAll cfg s ms = true) :
    ms.length ≤ measure s := by
  have := enabled_run_measure cfg s ms h; omega

/-- **(3b) inevitably quiescent**: after ANY schedule `ms` from the start, EVERY run `more` of
`measure` enabled consumer moves — whichever consumers move, in whichever order — ends in
quiescence; by (2) a shorter run can always be continued, by (3a) none is longer: every maximal
run of the consumers empties the pool. -/
theorem inevitably_quiescent (n : Nat) (cfg : Cfg) (ms more : List Mv)
    (hen : enabledAll cfg (run true cfg (init n) ms) more = true)
    (hlen : more.length = measure (run true cfg (init n) ms)) :
    quiescent (run true cfg (init n) (ms ++ more)) = true := by
  have h := enabled_run_measure cfg _ more hen
  rw [run_append]
  have h0 : measure (run true cfg (run true cfg (init n) ms) more) = 0 := by omega
  simp only [measure] at h0
  have h1 : (run true cfg (run true cfg (init n) ms) more).queue.length = 0 := by omega
  have h2 : (run true cfg (run true cfg (init n) ms) more).inHand.length = 0 := by omega
  simp [quiescent, List.length_eq_zero_iff.mp h1, List.length_eq_zero_iff.mp h2]

/-- … and a run that is not yet quiescent can be continued (so "maximal" is reached): after any
schedule and any run of enabled consumer moves, if the pool is not empty another move is enabled -/
theorem can_always_continue (n : Nat) (cfg : Cfg) (hn : 0 < n) (ms : List Mv)
    (hq : quiescent (run true cfg (init n) ms) = false) : ∃ m, enabled (run true cfg (init n) ms) m = true :=
  not_quiescent_enabled _ (by rw [no_consumer_dies]; exact hn) hq

/-- what the statement's `describe` sees in the machine's replies is what the statement
`demanded` — for a buildable configuration whose encryption kind is in the table.  The
device-available clause goes through `C03.net_roundtrip`: the DECODED payload is the configured
network information. -/
theorem replies_as_demanded (cfg : Cfg) (hb : Buildable cfg) (henc : Net.encOk cfg.net.wlan.encryption = true)
    (f : Frame) : (if ok cfg f then (repliesOf cfg f).map (describe cfg.net) else []) = (demanded f).toList := by
  obtain ⟨hs, ha, hbb, hcc, hv⟩ := hb
  obtain ⟨m1, hm1⟩ := C03.net_encode_ok cfg.net hs
  obtain ⟨m2, hm2⟩ := C03.version_encode_ok cfg.ver 86 ha hbb hcc hv (by omega)
  have hdec : Net.decode m1 = some cfg.net := C03.net_roundtrip cfg.net hm1 henc
  cases hc : f.controller with
  | false =>
    have : handle cfg f = if f.raises then .raised else .done [] := by simp [handle, hc]
    cases hr : f.raises <;> simp [ok, repliesOf, this, hr, demanded, hc]
  | true =>
    cases hcls : f.cls with
    | data =>
      have : handle cfg f = if f.raises then .raised else .done [] := by simp [handle, hc, hcls]
      cases hr : f.raises <;> simp [ok, repliesOf, this, hr, demanded, hc, hcls]
    | otherReq =>
      have : handle cfg f = .done [] := by simp [handle, hc, hcls, replyOf]
      simp [ok, repliesOf, this, demanded, hc, hcls]
    | cdReq =>
      have h1 := (reply_bytes_check_device cfg f m1 hc hcls hm1).1
      simp [ok, repliesOf, h1, demanded, hc, hcls, describe, hdec]
    | pvReq =>
      have h1 := (reply_bytes_program_version cfg f m2 hc hcls hm2).1
      simp [ok, repliesOf, h1, demanded, hc, hcls, describe]

/-- **C09.holds**: for every number of consumers, every buildable configuration, every received
sequence with distinct ids (requests carrying no data items: `Request.decode_message` is `{}`)
and every schedule that ends in quiescence, what the machine shows satisfies the statement's
predicate `spec` — the predicate the driver evaluates on what the implementation showed.
There is no hypothesis about which frames raise. -/
theorem holds (n : Nat) (cfg : Cfg) (ms : List Mv)
    (hq : quiescent (run true cfg (init n) ms) = true)
    (hid : ((arrivals ms).map (·.id)).Nodup)
    (hb : Buildable cfg) (henc : Net.encOk cfg.net.wlan.encryption = true)
    (hitems : ∀ f ∈ arrivals ms, f.cls ≠ .data → f.items = 0) :
    spec n cfg.net (arrivals ms) (Obs.ofSnap (observe (arrivals ms) (run true cfg (init n) ms))) = true := by
  have hcount := delivered_count n cfg ms hq hid
  have hdel := delivered_exactly_once n cfg ms hq
  have hresp := requests_answered n cfg ms hq
  have hbal := balanced_at_quiescence n cfg ms hq
  have halive := no_consumer_dies n cfg ms
  generalize run true cfg (init n) ms = s at *
  generalize arrivals ms = frames at *
  -- a frame with data items is a data frame, so it is handled iff its input bit allows
  have ok_of_items : ∀ f ∈ frames, 0 < f.items → ok cfg f = !f.raises := by
    intro f hf hi
    apply ok_data
    cases hcls : f.cls with
    | data => rfl
    | _ => have := hitems f hf (by simp [hcls]); omega
  have visible : ∀ f ∈ frames, 0 < f.items →
      (frames.any fun g => g.id == f.id && decide (0 < g.items)) = true := by
    intro f hf hi
    exact List.any_eq_true.mpr ⟨f, hf, by simp [hi]⟩
  unfold spec
  simp only [Bool.and_eq_true]
  refine ⟨⟨⟨?_, ?_⟩, ?_⟩, ?_⟩
  case refine_4 => simp [balanced, Obs.ofSnap, observe, hbal, halive]
  all_goals simp only [deliveredOnce, onlyValid, answered, Obs.ofSnap, observe, List.all_eq_true]
  · intro f hf
    cases hr : f.raises with
    | true => simp
    | false =>
      by_cases hi : f.items = 0
      · simp [hi]
      · have hpos : 0 < f.items := Nat.pos_of_ne_zero hi
        have := hcount f hf
        rw [ok_of_items f hf hpos, hr] at this
        simp only [Bool.false_or, Bool.or_eq_true, beq_iff_eq]
        right
        rw [List.count_filter (p := fun i => frames.any fun g => g.id == i && decide (0 < g.items))
          (visible f hf hpos), List.count_reverse]
        simpa using this
  · intro i hi
    obtain ⟨hi1, hi2⟩ := List.mem_filter.mp hi
    rw [List.mem_reverse] at hi1
    have : i ∈ (frames.filter (ok cfg)).map (·.id) := hdel.mem_iff.mp hi1
    obtain ⟨f, hf, rfl⟩ := List.mem_map.mp this
    obtain ⟨hf1, hf2⟩ := List.mem_filter.mp hf
    obtain ⟨g, hg, hgp⟩ := List.any_eq_true.mp hi2
    simp only [Bool.and_eq_true, beq_iff_eq, decide_eq_true_eq] at hgp
    have : g = f := eq_of_id_eq hid hf1 hg hgp.1
    subst this
    have hnr : g.raises = false := by
      have := ok_of_items g hg hgp.2
      rw [hf2] at this; simpa using this.symm
    exact List.any_eq_true.mpr ⟨g, hg, by simp [hgp.2, hnr]⟩
  · rw [List.isPerm_iff]
    have h1 : (s.responses.reverse.map (describe cfg.net)).Perm
        (((frames.filter (ok cfg)).flatMap (repliesOf cfg)).map (describe cfg.net)) :=
      ((List.reverse_perm _).trans hresp).map _
    refine h1.trans (List.Perm.of_eq ?_)
    clear h1 hresp hdel hcount ok_of_items visible hitems hid
    induction frames with
    | nil => rfl
    | cons f fs ih =>
      have := replies_as_demanded cfg hb henc f
      cases hok : ok cfg f with
      | true =>
        simp only [hok, if_true] at this
        simp only [List.filter_cons, hok, if_true, List.flatMap_cons, List.map_append, this, ih, List.filterMap_cons]
        cases demanded f <;> simp
      | false =>
        simp only [hok] at this
        have hd : demanded f = none := by
          cases h : demanded f with
          | none => rfl
          | some d => rw [h] at this; simp at this
        simp [List.filter_cons, hok, List.filterMap_cons, hd, ih]

/-- the driver's replay of a harness run is a run of the machine: draining is a schedule of
consumer moves … -/
theorem drain_is_run (c : Bool) (cfg : Cfg) (fuel : Nat) (s : St) (acc : List Mv) :
    ∃ ms, arrivals ms = [] ∧ (drain c cfg fuel s acc).1 = run c cfg s ms ∧
      (drain c cfg fuel s acc).2 = ms.reverse ++ acc := by
  induction fuel generalizing s acc with
  | zero => exact ⟨[], rfl, rfl, rfl⟩
  | succ k ih =>
    unfold drain
    split
    · rename_i f _
      obtain ⟨ms, h1, h2, h3⟩ := ih (step c cfg s (.finish f)) (.finish f :: acc)
      exact ⟨.finish f :: ms, by simpa [arrivals] using h1, by simpa [run] using h2, by simp [h3]⟩
    · split
      · exact ⟨[], rfl, rfl, rfl⟩
      · split
        · obtain ⟨ms, h1, h2, h3⟩ := ih (step c cfg s .take) (.take :: acc)
          exact ⟨.take :: ms, by simpa [arrivals] using h1, by simpa [run] using h2, by simp [h3]⟩
        · exact ⟨[], rfl, rfl, rfl⟩

/-- … and a batch is the schedule it reports: the batch's frames arrive, then consumer moves -/
theorem batch_is_run (c : Bool) (cfg : Cfg) (s : St) (fs : List Frame) :
    (batch c cfg s fs).1 = run c cfg s (batch c cfg s fs).2 ∧ arrivals (batch c cfg s fs).2 = fs := by
  have arr : ∀ (fs : List Frame) (s : St),
      fs.foldl (fun s f => step c cfg s (.arrive f)) s = run c cfg s (fs.map .arrive) := by
    intro fs
    induction fs with
    | nil => intro s; rfl
    | cons f fs ih => intro s; simpa [run] using ih _
  have arrmap : ∀ fs : List Frame, arrivals (fs.map Mv.arrive) = fs := by
    intro fs; induction fs with
    | nil => rfl
    | cons f fs ih => simp [arrivals, ih]
  unfold batch
  simp only []
  obtain ⟨ms, h1, h2, h3⟩ := drain_is_run c cfg
    (2 * ((fs.foldl (fun s f => step c cfg s (.arrive f)) s).queue.length +
      (fs.foldl (fun s f => step c cfg s (.arrive f)) s).inHand.length) + 2)
    (fs.foldl (fun s f => step c cfg s (.arrive f)) s) []
  rw [h2, h3]
  simp [run_append, arr, arrivals_append, arrmap, h1]

/-- … also when the batch arrives while the consumers are held up: arrivals, then takes -/
theorem hold_is_run (c : Bool) (cfg : Cfg) (s : St) (fs : List Frame) :
    (holdBatch c cfg s fs).1 = run c cfg s (holdBatch c cfg s fs).2 ∧ arrivals (holdBatch c cfg s fs).2 = fs := by
  have arr : ∀ (fs : List Frame) (s : St),
      fs.foldl (fun s f => step c cfg s (.arrive f)) s = run c cfg s (fs.map .arrive) := by
    intro fs
    induction fs with
    | nil => intro s; rfl
    | cons f fs ih => intro s; simpa [run] using ih _
  have arrmap : ∀ fs : List Frame, arrivals (fs.map Mv.arrive) = fs := by
    intro fs; induction fs with
    | nil => rfl
    | cons f fs ih => simp [arrivals, ih]
  have tk : ∀ (fuel : Nat) (s : St) (acc : List Mv), ∃ ms, arrivals ms = [] ∧
      (takeAll c cfg fuel s acc).1 = run c cfg s ms ∧ (takeAll c cfg fuel s acc).2 = ms.reverse ++ acc := by
    intro fuel
    induction fuel with
    | zero => intro s acc; exact ⟨[], rfl, rfl, rfl⟩
    | succ k ih =>
      intro s acc
      unfold takeAll
      split
      · exact ⟨[], rfl, rfl, rfl⟩
      · split
        · obtain ⟨ms, h1, h2, h3⟩ := ih (step c cfg s .take) (.take :: acc)
          exact ⟨.take :: ms, by simpa [arrivals] using h1, by simpa [run] using h2, by simp [h3]⟩
        · exact ⟨[], rfl, rfl, rfl⟩
  unfold holdBatch
  simp only []
  obtain ⟨ms, h1, h2, h3⟩ := tk (fs.foldl (fun s f => step c cfg s (.arrive f)) s).queue.length
    (fs.foldl (fun s f => step c cfg s (.arrive f)) s) []
  rw [h2, h3]
  simp [run_append, arr, arrivals_append, arrmap, h1]

/-- a concrete configuration: no ethernet, wireless "tests" with WPA2, version 0.1.0 -/
def exampleCfg : Cfg :=
  { net := ⟨⟨⟨0, 0, 0, 0⟩, ⟨255, 255, 255, 0⟩, ⟨0, 0, 0, 0⟩, false⟩,
            ⟨⟨10, 0, 0, 5⟩, ⟨255, 0, 0, 0⟩, ⟨10, 0, 0, 1⟩, true, [0x74, 0x65, 0x73, 0x74, 0x73], 4, 63⟩, true⟩
    ver := ⟨0, 1, 0, [0xff, 0xff], 5, [0x7a, 0], [0, 0, 0]⟩ }

/-- the model can tell the difference: the SAME machine without containment (`run false`, the
consumer loop before fix e8d48dc) with three consumers is wedged for good by three raising
frames — all consumers dead, four frames unacknowledged, the valid frame never delivered, and
no consumer move changes anything any more. -/
theorem uncontained_counterexample :
    let bad (i : Nat) : Frame := ⟨i, .data, 69, true, 0, true⟩
    let good : Frame := ⟨3, .data, 69, true, 1, false⟩
    let s := run false exampleCfg (init 3)
      [.arrive (bad 0), .arrive (bad 1), .arrive (bad 2), .arrive good,
       .take, .take, .take, .finish (bad 0), .finish (bad 1), .finish (bad 2)]
    s.alive = 0 ∧ s.unfinished = 4 ∧ s.queue = [good] ∧ s.delivered = [] ∧
      step false exampleCfg s .take = s ∧ ∀ f, step false exampleCfg s (.finish f) = s := by
  refine ⟨by decide, by decide, by decide, by decide, by decide, ?_⟩
  intro f
  simp [run, step, init, handle]

/-- non-vacuity: the same frames and schedule on the contained machine, continued by one take
and one finish, end quiescent with the valid frame delivered, three consumers alive, balance 0 -/
example :
    let bad (i : Nat) : Frame := ⟨i, .data, 69, true, 0, true⟩
    let good : Frame := ⟨3, .data, 69, true, 1, false⟩
    let s := run true exampleCfg (init 3)
      [.arrive (bad 0), .arrive (bad 1), .arrive (bad 2), .arrive good,
       .take, .take, .take, .finish (bad 0), .finish (bad 1), .finish (bad 2), .take, .finish good]
    quiescent s = true ∧ s.alive = 3 ∧ s.unfinished = 0 ∧ s.delivered = [3] := by decide

/-- non-vacuity of `holds` / the replay: five raising frames (more than the two consumers), a
check-device and a program-version request from the controller (69) and a valid frame, in two
batches: the last snapshot shows the two reply frames, byte for byte, and passes `spec` -/
example :
    let fs : List Frame := [⟨0, .data, 69, true, 0, true⟩, ⟨1, .data, 69, true, 0, true⟩, ⟨2, .data, 69, true, 0, true⟩,
      ⟨3, .cdReq, 69, true, 0, false⟩, ⟨4, .data, 69, true, 0, true⟩, ⟨5, .data, 69, true, 0, true⟩]
    let gs : List Frame := [⟨6, .pvReq, 69, true, 0, false⟩, ⟨7, .data, 69, true, 2, false⟩]
    ((replay true exampleCfg 2 [fs, gs]).getLast?.map fun o => (o.delivered, o.responses.map (·.kind), o.unfinished, o.alive)) =
      some ([7], [176, 192], 0, 2) ∧
    ((replay true exampleCfg 2 [fs, gs]).getLast?.map fun o => o.responses.map (·.payload)) =
      some [[1, 0, 0, 0, 0, 255, 255, 255, 0, 0, 0, 0, 0, 0, 10, 0, 0, 5, 255, 0, 0, 0, 10, 0, 0, 1, 1, 4, 63, 1,
             0, 0, 0, 0, 5, 0x74, 0x65, 0x73, 0x74, 0x73],
            [0xff, 0xff, 5, 0x7a, 0, 0, 0, 0, 0, 0, 1, 0, 0, 0, 86]] ∧
    ((replay true exampleCfg 2 [fs, gs]).getLast?.map fun o => spec 2 exampleCfg.net (fs ++ gs) (Obs.ofSnap o)) = some true := by
  decide +kernel

/-- a version that does not fit (what D9 was): the program-version request stays unanswered —
contained, the pipeline goes on, but the statement's predicate fails -/
example :
    let cfg : Cfg := { exampleCfg with ver := { exampleCfg.ver with c := 70000 } }
    let fs : List Frame := [⟨0, .pvReq, 69, true, 0, false⟩, ⟨1, .data, 69, true, 1, false⟩]
    ((replay true cfg 2 [fs]).getLast?.map fun o => (o.delivered, o.responses.length, o.unfinished, o.alive)) = some ([1], 0, 0, 2) ∧
    ((replay true cfg 2 [fs]).getLast?.map fun o => spec 2 cfg.net fs (Obs.ofSnap o)) = some false := by
  decide +kernel

/-- a held batch: five frames arrive while the two consumers are held up in device creation —
two in hand, three queued, five unacknowledged; the next (empty) batch handles them all -/
example :
    let fs : List Frame := [⟨0, .data, 69, true, 0, true⟩, ⟨1, .data, 69, true, 0, true⟩, ⟨2, .data, 69, true, 0, true⟩,
      ⟨3, .cdReq, 69, true, 0, false⟩, ⟨4, .data, 69, true, 1, false⟩]
    (replayH true exampleCfg 2 [(true, fs), (false, [])]).map (fun o => (o.delivered, o.responses.length, o.unfinished, o.alive)) =
      [([], 0, 5, 2), ([4], 1, 0, 2)] := by decide +kernel

/-- the predicate is not trivially true: the uncontained replay of the same input fails it -/
example :
    let fs : List Frame := [⟨0, .data, 69, true, 0, true⟩, ⟨1, .data, 69, true, 0, true⟩, ⟨2, .data, 69, true, 2, false⟩]
    ((replay false exampleCfg 2 [fs]).getLast?.map fun o => spec 2 exampleCfg.net fs (Obs.ofSnap o)) = some false := by decide

/-- non-vacuity: two frames queued, one in hand (measure 5): five real moves, then quiescent -/
example : let cfg := exampleCfg
    let f := fun i => (⟨i, .data, 69, true, 1, false⟩ : Frame)
    let ms := [Mv.arrive (f 0), .arrive (f 1), .arrive (f 2), .take]
    measure (run true cfg (init 2) ms) = 5 ∧
    enabledAll cfg (run true cfg (init 2) ms) [.take, .finish (f 1), .finish (f 0), .take, .finish (f 2)] = true ∧
    quiescent (run true cfg (init 2) (ms ++ [.take, .finish (f 1), .finish (f 0), .take, .finish (f 2)])) = true := by
  decide

end PlumVerif.C09

import PlumVerif.Model.VersionsCancel
import PlumVerif.Proofs.Versions
/-
C15 over histories of one device object with shutdowns (Model/VersionsCancel.lean): announcements handled by callback
tasks that suspend in `Request.create`, moved in ANY order, `frame_errors`, and `device.shutdown()` cancelling the live
tasks at any point — after which the same device object handles further announcements (a reconnect keeps the devices).

* `recorded_has_request` — whatever the schedule and wherever the shutdowns fall: a version is on record for a kind only
  if a request of that kind was queued ("one refresh request is queued AND the new version is recorded" never comes apart:
  a cancelled refresh records nothing).
* `record_changes_le_requests` — every CHANGE of a recorded version has its own queued request of that kind.
* `shutdown_keeps_records` / `nothing_moves_after_shutdown` — a shutdown queues and records nothing, and none of the
  cancelled callbacks does anything later.
* `cancelled_then_announced_again` — the entry a cancelled callback was waiting for is still "a version different from the
  recorded one": the next announcement of it, handled alone, queues the refresh and records it.
-/
namespace PlumVerif.C15.Overlap
open PlumVerif.C15

theorem hrun_append (s : OSt) (a b : List HEv) : hrun s (a ++ b) = hrun (hrun s a) b := by
  induction a generalizing s with
  | nil => rfl
  | cons e es ih => simp [hrun, ih]

/-- a version on record has a queued request of its kind -/
def RecQ (s : OSt) : Prop := ∀ k v, recorded s.core k = some v → k ∈ s.queue

/-- the record changes of a kind are at most the queued requests of that kind -/
def UpdQ (s : OSt) : Prop := ∀ k, (s.updates.filter (·.1 == k)).length ≤ s.queue.count k

theorem recQ_resumeOk (s : OSt) (a : Nat) (e : Entry) (rest : List Entry) (h : RecQ s) : RecQ (resumeOk s a e rest) := by
  intro k v hk
  simp only [resumeOk, recorded_record] at hk
  show k ∈ s.queue ++ [e.1]
  by_cases hke : (k == e.1) = true
  · have : k = e.1 := by simpa using hke
    simp [this]
  · simp only [hke] at hk
    exact List.mem_append_left _ (h k v hk)

theorem updQ_resumeOk (s : OSt) (a : Nat) (e : Entry) (rest : List Entry) (h : UpdQ s) : UpdQ (resumeOk s a e rest) := by
  intro k
  have hk := h k
  show ((if recorded s.core e.1 == some e.2 then s.updates else s.updates ++ [e]).filter (·.1 == k)).length
      ≤ (s.queue ++ [e.1]).count k
  rw [List.count_append]
  by_cases hr : (recorded s.core e.1 == some e.2) = true
  · simp only [hr, if_true]; omega
  · simp only [hr, Bool.false_eq_true, if_false]
    rw [List.filter_append, List.length_append]
    by_cases hke : (e.1 == k) = true
    · simp [List.filter_cons, hke, List.count_cons]; omega
    · simp [List.filter_cons, hke, List.count_cons]; omega

theorem inv_move (s : OSt) (a : Nat) (h1 : RecQ s) (h2 : UpdQ s) : RecQ (move s a) ∧ UpdQ (move s a) := by
  unfold move
  split
  · exact ⟨h1, h2⟩
  · split
    · exact ⟨recQ_resumeOk s a _ _ h1, updQ_resumeOk s a _ _ h2⟩
    · exact ⟨h1, h2⟩
  · exact ⟨h1, h2⟩

theorem inv_hstep (s : OSt) (e : HEv) (h1 : RecQ s) (h2 : UpdQ s) : RecQ (hstep s e) ∧ UpdQ (hstep s e) := by
  cases e with
  | shutdown => exact ⟨h1, h2⟩
  | ev e =>
    cases e with
    | announce w => exact ⟨h1, h2⟩
    | errors ks => exact ⟨h1, h2⟩
    | move a => exact inv_move s a h1 h2

theorem inv_hrun (evs : List HEv) (s : OSt) (h1 : RecQ s) (h2 : UpdQ s) : RecQ (hrun s evs) ∧ UpdQ (hrun s evs) := by
  induction evs generalizing s with
  | nil => exact ⟨h1, h2⟩
  | cons e es ih => exact ih _ (inv_hstep s e h1 h2).1 (inv_hstep s e h1 h2).2

/-- **recorded_has_request**: over every history of one device — announcements, `frame_errors`, callback tasks resumed in any
order, shutdowns at any point, announcements after them — a version is on record for a kind only if a request of that kind
was queued -/
theorem recorded_has_request (evs : List HEv) (k v : Nat) (h : recorded (hrun init evs).core k = some v) :
    k ∈ (hrun init evs).queue :=
  (inv_hrun evs init (fun _ _ h => by simp [init, C15.init, recorded] at h) (fun _ => by simp [init])).1 k v h

/-- **record_changes_le_requests**: … and every change of the recorded version of a kind has its own queued request -/
theorem record_changes_le_requests (evs : List HEv) (k : Nat) :
    ((hrun init evs).updates.filter (·.1 == k)).length ≤ (hrun init evs).queue.count k :=
  (inv_hrun evs init (fun _ _ h => by simp [init, C15.init, recorded] at h) (fun _ => by simp [init])).2 k

/-- a shutdown queues nothing and records nothing -/
theorem shutdown_keeps_records (s : OSt) :
    (shutdown s).core = s.core ∧ (shutdown s).queue = s.queue ∧ (shutdown s).updates = s.updates := ⟨rfl, rfl, rfl⟩

/-- after a shutdown no callback task of before does anything: moving any of them changes nothing -/
theorem nothing_moves_after_shutdown (s : OSt) (a : Nat) : move (shutdown s) a = shutdown s := by
  unfold move
  have hph : ((shutdown s).t a).ph = (cancelTask (s.t a)).ph := rfl
  rw [hph]
  unfold cancelTask
  cases h : (s.t a).ph <;> simp [h]

/-- the announcement after the shutdown sees the records of before it: an entry needs a refresh after the shutdown iff it
did before -/
theorem needs_after_shutdown (s : OSt) (e : Entry) : needs (shutdown s).core e = needs s.core e := rfl

/-- **cancelled_then_announced_again** (kind 49 = a request kind; version 1): announced, the callback suspended in
`Request.create`, the device shut down — nothing queued, nothing on record; the same version announced again to the same
device object and handled: one request queued, version recorded.  And a further announcement of it queues nothing. -/
theorem cancelled_then_announced_again :
    let s1 := hrun init [.ev (.announce [(49, 1)]), .ev (.move 0), .shutdown]
    let s2 := hrun s1 [.ev (.announce [(49, 1)]), .ev (.move 1), .ev (.move 1)]
    let s3 := hrun s2 [.ev (.announce [(49, 1)]), .ev (.move 2), .ev (.move 2), .ev (.move 0)]
    (s1.queue = [] ∧ recorded s1.core 49 = none) ∧ (s2.queue = [49] ∧ recorded s2.core 49 = some 1) ∧
    (s3.queue = [49] ∧ recorded s3.core 49 = some 1) := by decide

/-- non-vacuity of `recorded_has_request`: a version IS recorded in a history with a shutdown in the middle -/
example : recorded (hrun init [.ev (.announce [(49, 1), (50, 2)]), .ev (.move 0), .ev (.move 0), .shutdown,
    .ev (.announce [(50, 2)]), .ev (.move 1), .ev (.move 1)]).core 50 = some 2 := by decide

end PlumVerif.C15.Overlap

import PlumVerif.Generated.PyCodeTypes
import PlumVerif.Proofs.PyLemmas
import PlumVerif.Model.NetVersion
/-
Tie: the Lean definitions translated from the SOURCE TEXT of `pyplumio/structures/program_version.py`
(`ProgramVersionStructure.decode`; Generated/PyCodeTypes.lean, rewritten by tools/py2lean_types.py on every run) equal the
byte-level model `Version.decode` of Model/NetVersion.lean for ALL messages, offsets and structure instances: the struct
layout `<2sB2s3s3HB`, which field goes where, the dropped trailing address byte, the `'.'.join(map(str, …))` text of the
software triple, the offset arithmetic.  So C03 `version_roundtrip` / C02 `version_layout` (statements about
`Version.decode`) speak about the decoder's source.  (`encode`: Props/TieNetVersionEnc.lean; the network-information structure:
Props/TieNetInfo.lean, TieNetInfoEnc.lean.)
-/
namespace PlumVerif.TieNetVersion
open PlumVerif PlumVerif.Py

/-- the text `'a.b.c'` of a software triple -/
def softwareText (a b c : Nat) : String := String.intercalate "." [PyT.intText a, PyT.intText b, PyT.intText c]

/-- the `VersionInfo` data-class instance a model value stands for -/
def versionV (v : VersionInfo) : V :=
  Py.mkobj "VersionInfo" [("software", .str (softwareText v.a v.b v.c)), ("struct_tag", .bytes v.structTag),
    ("struct_version", .int v.structVersion), ("device_id", .bytes v.deviceId), ("processor_signature", .bytes v.processorSignature)]

theorem fmt_version : PyT.sfmtFields "<2sB2s3s3HB"
    = some [.str 2, .num 1, .str 2, .str 3, .num 2, .num 2, .num 2, .num 1] := by
  simp [PyT.sfmtFields, PyT.sfmtAux, List.replicate]

theorem decodeLE_eq (bs : List UInt8) : Py.decodeLE bs = PlumVerif.decodeLE bs := by
  induction bs with
  | nil => rfl
  | cons b r ih => simp [Py.decodeLE, PlumVerif.decodeLE, ih]

theorem decodeLE1 (m : List UInt8) (h : 2 < m.length) : Py.decodeLE ((m.drop 2).take 1) = (m[2]?.getD 0).toNat := by
  match m, h with
  | _ :: _ :: c :: _, _ => simp [Py.decodeLE]

/-- **`ProgramVersionStructure.decode`** (as called by `ProgramVersionResponse.decode_message`: no data dict yet) = `Version.decode`:
the decoded `VersionInfo` under the key "version" and the offset advanced by 15; a message shorter than 15 bytes is `struct.error` -/
theorem ProgramVersionStructure_decode_eq (self : V) (m : List UInt8) (off : Int) :
    PyCodeTypes.ProgramVersionStructure_decode self (.bytes m) (.int off) .none
      = (match Version.decode m with
        | some v => .ok (.tuple [.dict ["version"] [versionV v], .int (off + 15)], self)
        | none => .error .StructError) := by
  unfold PyCodeTypes.ProgramVersionStructure_decode Version.decode
  by_cases hl : m.length < 15
  · simp [PyT.struct_unpack_from_s, fmt_version, PyT.SField.size, hl]
  · have h2 : 2 < m.length := by omega
    simp [PyT.struct_unpack_from_s, fmt_version, PyT.SField.size, hl, PyT.sunpackFields, PyT.unpack_list, Py.unpackN, Py.iter,
      PyT.nth, PyT.map_str, PyT.str_join, PyCodeTypes.ensure_dict, Py.isNotNone, Py.truthy, Py.forLoop, Py.or, Py.add, asInt?,
      PyCodeTypes.c_VERSION_INFO_SIZE, versionV, softwareText, Py.mkobj, List.drop_drop, decodeLE1 m h2, Py.dictMerge, Py.dictSet, decodeLE_eq]

example : PyCodeTypes.ProgramVersionStructure_decode .none (.bytes [0xff, 0xff, 5, 0x7a, 0, 0, 0, 0, 1, 0, 2, 0, 3, 0, 0x56]) (.int 0) .none
    = .ok (.tuple [.dict ["version"] [versionV ⟨1, 2, 3, [0xff, 0xff], 5, [0x7a, 0], [0, 0, 0]⟩], .int 15], .none) := by
  rw [ProgramVersionStructure_decode_eq]; rfl

end PlumVerif.TieNetVersion

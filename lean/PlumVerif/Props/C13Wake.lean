import PlumVerif.Props.C13Table
/-
C13, "stores the final value and wakes EVERY waiter", over all histories of the event table machine
(Model/EventsTable.lean: create_event / set_event / stores / loads / waits that start, resume, time out, are cancelled).

A waiter suspended in `event.wait()` holds an Event OBJECT.  `set_event(name)` sets the object that is in the table NOW.
The store wakes every waiter of the name only because a suspended waiter always holds the table's current object
(`waiters_hold_the_current_event`, an invariant of every history — it rests on `event_identity`: nothing replaces an entry).
`store_wakes_every_waiter`: after any history, a store for a name leaves no waiter of that name suspended.
-/
namespace PlumVerif.C13T

def isWaiting (w : Waiter) : Bool := match w.ph with | .waiting _ => true | _ => false

/-- the waiter holds the Event object that is in the table under its name -/
def Holds (s : St) (w : Waiter) : Prop := ∃ e, s.events w.name = some e ∧ w.ev = e.id

def WaitOk (s : St) : Prop := ∀ w ∈ s.ws, isWaiting w = true → Holds s w

/-- every suspended waiter of `s'` is a suspended waiter of `s` (same name, same Event object) -/
def Sub (s s' : St) : Prop :=
  ∀ w' ∈ s'.ws, isWaiting w' = true → ∃ w ∈ s.ws, isWaiting w = true ∧ w.name = w'.name ∧ w.ev = w'.ev

theorem Sub.refl' (s s' : St) (h : s'.ws = s.ws) : Sub s s' := fun w' hw hq => ⟨w', h ▸ hw, hq, rfl, rfl⟩

theorem Sub.trans {a b c : St} (h1 : Sub a b) (h2 : Sub b c) : Sub a c := by
  intro w' hw hq
  obtain ⟨w1, hw1, hq1, hn1, he1⟩ := h2 w' hw hq
  obtain ⟨w0, hw0, hq0, hn0, he0⟩ := h1 w1 hw1 hq1
  exact ⟨w0, hw0, hq0, by omega, by omega⟩

theorem ensureEvent_ws (s : St) (n : Nat) : (ensureEvent s n).1.ws = s.ws := by
  unfold ensureEvent; cases s.events n <;> rfl

theorem wakeHolders_sub (ws : List Waiter) (id : Nat) (w' : Waiter) (h : w' ∈ wakeHolders ws id)
    (hq : isWaiting w' = true) : w' ∈ ws ∧ w'.ev ≠ id := by
  unfold wakeHolders at h
  obtain ⟨w, hw, rfl⟩ := List.mem_map.mp h
  cases hp : w.ph <;> simp only [hp] at hq ⊢
  case waiting t =>
    by_cases he : w.ev = id
    · simp [he, isWaiting] at hq
    · simp only [he, if_false]; exact ⟨hw, he⟩
  all_goals (simp [isWaiting, hp] at hq)

theorem setEvent_sub (s : St) (n : Nat) : Sub s (setEvent s n) := by
  unfold setEvent
  cases h : s.events n with
  | none => exact Sub.refl' _ _ rfl
  | some e =>
    intro w' hw hq
    have := wakeHolders_sub s.ws e.id w' hw hq
    exact ⟨w', this.1, hq, rfl, rfl⟩

theorem store_sub (s : St) (n v : Nat) : Sub s (store s n v) := by
  intro w' hw hq
  exact setEvent_sub { s with data := upd s.data n (some v), stores := s.stores ++ [(n, v)] } n w' hw hq

theorem load_sub (kvs : List (Nat × Nat)) (s : St) : Sub s (kvs.foldl (fun s kv => store s kv.1 kv.2) s) := by
  induction kvs generalizing s with
  | nil => exact Sub.refl' _ _ rfl
  | cons kv r ih => exact Sub.trans (store_sub s kv.1 kv.2) (ih _)

theorem finish_not_waiting (s : St) (w : Waiter) : isWaiting (finish s w) = false := by
  unfold finish
  split
  · split <;> rfl
  · rfl

theorem modifyAt_sub (ws : List Waiter) (j : Nat) (f : Waiter → Waiter)
    (hf : ∀ w, f w = w ∨ isWaiting (f w) = false) (w' : Waiter) (h : w' ∈ modifyAt ws j f) (hq : isWaiting w' = true) :
    w' ∈ ws := by
  unfold modifyAt at h
  obtain ⟨i, hi, rfl⟩ := List.mem_mapIdx.mp h
  by_cases hij : i = j
  · simp only [hij, if_true] at hq ⊢
    rcases hf ws[i] with h1 | h1
    · subst hij; rw [h1]; exact List.getElem_mem hi
    · subst hij; rw [h1] at hq; exact absurd hq (by decide)
  · simp only [hij, if_false]; exact List.getElem_mem hi

theorem step_wait_none (s : St) (n : Nat) (timed getter : Bool) (hd : s.data n = none) :
    step s (.wait n timed getter) =
      if (ensureEvent s n).2.isSet then
        { (ensureEvent s n).1 with ws := (ensureEvent s n).1.ws ++ [finish (ensureEvent s n).1 ⟨n, getter, (ensureEvent s n).2.id, .woken⟩] }
      else { (ensureEvent s n).1 with ws := (ensureEvent s n).1.ws ++ [⟨n, getter, (ensureEvent s n).2.id, .waiting timed⟩] } := by
  simp only [step, hd]

/-- what a step does to the suspended waiters: they are suspended waiters of before, or the one waiter that just
started waiting on the table's Event of its name -/
theorem step_waiters (s : St) (o : Op) (w' : Waiter) (hw : w' ∈ (step s o).ws) (hq : isWaiting w' = true) :
    (∃ w ∈ s.ws, isWaiting w = true ∧ w.name = w'.name ∧ w.ev = w'.ev) ∨ Holds (step s o) w' := by
  cases o with
  | createEvent n => exact .inl (Sub.refl' s _ (ensureEvent_ws s n) w' hw hq)
  | setEvent n => exact .inl (setEvent_sub s n w' hw hq)
  | store n v => exact .inl (store_sub s n v w' hw hq)
  | load kvs => exact .inl (load_sub kvs s w' hw hq)
  | wait n timed getter =>
    cases hd : s.data n with
    | some v =>
      simp only [step, hd, List.mem_append, List.mem_singleton] at hw
      rcases hw with hw | hw
      · exact .inl ⟨w', hw, hq, rfl, rfl⟩
      · rw [hw, finish_not_waiting] at hq; exact absurd hq (by decide)
    | none =>
      rw [step_wait_none s n timed getter hd] at hw ⊢
      cases hs : (ensureEvent s n).2.isSet with
      | true =>
        simp only [hs, if_true] at hw
        rcases List.mem_append.mp hw with hw | hw
        · exact .inl ⟨w', (ensureEvent_ws s n) ▸ hw, hq, rfl, rfl⟩
        · rw [List.mem_singleton.mp hw, finish_not_waiting] at hq; exact absurd hq (by decide)
      | false =>
        simp only [hs, Bool.false_eq_true, if_false] at hw ⊢
        rcases List.mem_append.mp hw with hw | hw
        · exact .inl ⟨w', (ensureEvent_ws s n) ▸ hw, hq, rfl, rfl⟩
        · have hw := List.mem_singleton.mp hw
          subst hw
          refine .inr ⟨(ensureEvent s n).2, ?_, rfl⟩
          show (ensureEvent s n).1.events n = some (ensureEvent s n).2
          unfold ensureEvent
          cases he : s.events n with
          | some e => simpa using he
          | none => simp [upd]
  | resume j =>
    refine .inl ⟨w', modifyAt_sub s.ws j _ (fun w => ?_) w' hw hq, hq, rfl, rfl⟩
    cases hp : w.ph <;> simp [finish_not_waiting]
  | expire j =>
    refine .inl ⟨w', modifyAt_sub s.ws j _ (fun w => ?_) w' hw hq, hq, rfl, rfl⟩
    cases hp : w.ph with
    | waiting t => cases t <;> simp [isWaiting]
    | _ => simp
  | cancel j =>
    refine .inl ⟨w', modifyAt_sub s.ws j _ (fun w => ?_) w' hw hq, hq, rfl, rfl⟩
    cases hp : w.ph <;> simp [isWaiting]

theorem step_waitOk (s : St) (o : Op) (h : WaitOk s) : WaitOk (step s o) := by
  intro w' hw hq
  rcases step_waiters s o w' hw hq with ⟨w, hw0, hq0, hn, he⟩ | hh
  · obtain ⟨e, hev, hid⟩ := h w hw0 hq0
    obtain ⟨e', hev', hid', _⟩ := step_keeps s o w.name e hev
    exact ⟨e', hn ▸ hev', by omega⟩
  · exact hh

/-- **waiters_hold_the_current_event**: after every history, every waiter that is suspended in `event.wait()` holds the very
Event object the table has under its name -/
theorem waiters_hold_the_current_event (ops : List Op) : WaitOk (run init ops) := by
  suffices H : ∀ (ops : List Op) (s : St), WaitOk s → WaitOk (run s ops) from
    H ops init (fun w hw => by simp [init] at hw)
  intro ops
  induction ops with
  | nil => intro s h; exact h
  | cons o r ih => intro s h; exact ih _ (step_waitOk s o h)

/-- **store_wakes_every_waiter**: after ANY history — Events made early by `create_event`, waits that timed out or were
cancelled before, earlier stores — a store for a name leaves NO waiter of that name suspended: each one is woken (and the
ones that had finished are untouched) -/
theorem store_wakes_every_waiter (ops : List Op) (n v : Nat) :
    ∀ w ∈ (step (run init ops) (.store n v)).ws, w.name = n → isWaiting w = false := by
  intro w' hw hn
  cases hq : isWaiting w' with
  | false => rfl
  | true =>
    exfalso
    have hok := waiters_hold_the_current_event ops
    -- the store is `setEvent` on a state with the same table and waiters
    let s1 : St := { run init ops with data := upd (run init ops).data n (some v), stores := (run init ops).stores ++ [(n, v)] }
    have hw1 : w' ∈ (setEvent s1 n).ws := hw
    unfold setEvent at hw1
    cases he : s1.events n with
    | none =>
      simp only [he] at hw1
      obtain ⟨e, hev, _⟩ := hok w' hw1 hq
      rw [hn] at hev
      have : s1.events n = (run init ops).events n := rfl
      rw [this, hev] at he; exact absurd he (by simp)
    | some e =>
      simp only [he] at hw1
      have hsub := wakeHolders_sub s1.ws e.id w' hw1 hq
      obtain ⟨e0, hev, hid⟩ := hok w' hsub.1 hq
      rw [hn] at hev
      have : s1.events n = (run init ops).events n := rfl
      rw [this, hev] at he
      have : e0 = e := by simpa using he
      exact hsub.2 (this ▸ hid)

/-- non-vacuity: two waiters (one holding the Event made by an earlier timed-out wait) and an unrelated one; the store wakes
the two, the third stays suspended -/
example :
    (run init [.wait 0 true true, .expire 0, .wait 0 false true, .wait 0 false false, .wait 1 false true, .store 0 7]).ws.map (·.ph)
      = [.timedOut, .woken, .woken, .waiting false] := by decide

end PlumVerif.C13T

import PlumVerif.Props.C20F64
/-
C20 on binary64 numbers: the relative tolerance of the CURRENT source, and the laws without the hypothesis.

`filters.py` compares two numbers with `math.isclose(old, new, rel_tol=0.0, abs_tol=TOLERANCE)`.  `relTol_is_zero` pins the
constant the translator reads from that call (and confirms by probing `on_change`): a source whose comparison has a non-zero
relative tolerance — e.g. the keyword dropped, so that math.isclose's default 1e-09 applies and from |x| >= 10^8 steps larger than
the tolerance are skipped (fixed defect, failing input 200000000.0 then 200000000.15) — does not build this module.  The model
(Model/FiltersF64.lean) and the theorems of Props/C20F64.lean hold for any value of the constant.
-/
namespace PlumVerif.C20F
open F64 Machine

/-- the comparison of two numbers in filters.py has NO relative tolerance -/
theorem relTol_is_zero : relTol.num = 0 := by decide

/-- **numbers, all magnitudes**: for all finite doubles `old`, `new`: changed ⇔ |fl(new − old)| > fl(0.1) -/
theorem changed_is_exceeds (a b : D) : changed a b = exceeds a b := changed_eq_exceeds relTol_is_zero a b

theorem changed_iff (a b : D) : changed a b = true ↔ (fabs (fsub b a)).le absTol = false :=
  changed_iff_exceeds relTol_is_zero a b

/-- … which is the statement's "differs by more than the tolerance" on the exact values whenever the float subtraction is exact -/
theorem changed_is_differs_of_exact (a b : D) (ha : 0 < a.den) (hb : 0 < b.den)
    (hex : (fsub b a).eqv (b.add (neg a)) = true) : changed a b = differs a b :=
  changed_eq_differs_of_exact relTol_is_zero a b ha hb hex

/-- **on_change over doubles**: the first value, then exactly the values whose rounded difference to the last delivered one exceeds
the tolerance -/
theorem onChange_statement (pre : List D) (v : D) :
    onChange.outs (pre ++ [v]) = onChange.outs pre ++
      [match lastDelivered (onChange.outs pre) with
       | none => .deliver v
       | some d => if exceeds d v then .deliver v else .skip] := onChange_law_exceeds relTol_is_zero pre v

theorem debounce_statement (n : Nat) (pre : List D) (v : D) :
    (debounce n).outs (pre ++ [v]) = (debounce n).outs pre ++
      [match lastDelivered ((debounce n).outs pre) with
       | none => .deliver v
       | some d => if n ≤ trailing (exceeds d) (sinceDelivery pre ((debounce n).outs pre) ++ [v]) then .deliver v else .skip] :=
  debounce_law_exceeds relTol_is_zero n pre v

theorem delta_statement (pre : List D) (v : D) :
    delta.outs (pre ++ [v]) = delta.outs pre ++
      [match recorded pre with
       | none => .skip
       | some d => if exceeds d v then .deliver (fsub v d) else .skip] := delta_law_exceeds relTol_is_zero pre v

/-- the failing input of the fixed defect: 200000000.0 then 200000000.15 — both delivered -/
theorem large_step_delivered :
    onChange.outs [dec 200000000 0, dec 20000000015 2] = [.deliver (dec 200000000 0), .deliver (dec 20000000015 2)] :=
  large_step_delivered_when_relTol_zero relTol_is_zero

/-- non-vacuity: at 10^15 (doubles 0.125 apart) one step is within the tolerance of nothing, two steps are delivered; the same
value again is not -/
example : onChange.outs [dec 1000000000000000 0, ⟨8000000000000001, 8⟩, ⟨8000000000000001, 8⟩, dec 1000000000000000 0]
    = [.deliver (dec 1000000000000000 0), .deliver ⟨8000000000000001, 8⟩, .skip, .deliver (dec 1000000000000000 0)] := by
  decide +kernel

example : (debounce 2).outs [dec 200000000 0, dec 20000000015 2, dec 20000000015 2]
    = [.deliver (dec 200000000 0), .skip, .deliver (dec 20000000015 2)] := by decide +kernel

example : delta.outs [dec 200000000 0, dec 20000000015 2] = [.skip, .deliver (fsub (dec 20000000015 2) (dec 200000000 0))] := by
  decide +kernel

end PlumVerif.C20F

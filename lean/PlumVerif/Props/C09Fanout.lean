import PlumVerif.Proofs.Fanout
/-
C09 / C10 (extension) — fan-out of a controller message to the ecoMAX's sub-devices
(Model/Fanout.lean): property theorems.

Quantifiers: EVERY sequence of messages (mixer / thermostat family, sensors / parameters part),
every number of slots, every pattern of present and absent slots, from the state with no
sub-device — and, for the per-message statements, from EVERY state.
-/
namespace PlumVerif.C09Fanout
open PlumVerif PlumVerif.Fanout

/-- **block i goes to sub-device i, exactly once**: from every state, for every message and every
slot `i` that carries a block `b`: exactly one dispatch names index `i`; it carries `b` and goes
to the object the registry holds for index `i` after the message. -/
theorem block_delivered_once (s : State) (m : Msg) (i b : Nat) (h : m.slots[i]? = some (some b)) :
    ∃ o, ((step s m).1.reg m.fam).lookup i = some o ∧
      (step s m).2.delivs.filter (fun d => d.idx == i) = [⟨i, o, b⟩] := by
  have hmem : (i, b) ∈ present m.slots := mem_present.mpr h
  have hne : (present m.slots).isEmpty = false := by
    cases hp : present m.slots with
    | nil => rw [hp] at hmem; simp at hmem
    | cons _ _ => rfl
  simp only [step, hne, Bool.false_eq_true, ↓reduceIte]
  have hreg : ((s.setReg m.fam (bindAll (s.reg m.fam) (present m.slots)).1).reg m.fam) = (bindAll (s.reg m.fam) (present m.slots)).1 := by
    cases m.fam <;> rfl
  rw [hreg]
  -- the dispatch for (i, b)
  have hidx := bindAll_idx (s.reg m.fam) (present m.slots)
  have : (i, b) ∈ (bindAll (s.reg m.fam) (present m.slots)).2.map (fun d => (d.idx, d.blk)) := by rw [hidx]; exact hmem
  obtain ⟨d, hd, hdeq⟩ := List.mem_map.mp this
  have hdi : d.idx = i := by simpa using congrArg Prod.fst hdeq
  have hdb : d.blk = b := by simpa using congrArg Prod.snd hdeq
  refine ⟨d.obj, ?_, ?_⟩
  · have := bindAll_obj _ _ d hd
    rwa [hdi] at this
  · have hn : ((bindAll (s.reg m.fam) (present m.slots)).2.map (·.idx)).Nodup := by
      rw [bindAll_idx_only]; exact presentFrom_keys_nodup 0 _
    have := filter_idx_of_nodup hn hd
    rw [hdi] at this
    rw [this]
    cases d; simp_all

/-- an absent slot (or an index beyond the slots) gets nothing -/
theorem absent_not_delivered (s : State) (m : Msg) (i : Nat) (h : ∀ b, m.slots[i]? ≠ some (some b)) :
    (step s m).2.delivs.filter (fun d => d.idx == i) = [] := by
  simp only [step]
  split
  · rfl
  · apply filter_idx_absent
    rw [bindAll_idx_only]
    intro hi
    obtain ⟨⟨j, b⟩, hm, hj⟩ := List.mem_map.mp hi
    simp only at hj; subst hj
    exact h b (mem_present.mp hm)

/-- exactly as many dispatches as present slots: nothing else is delivered -/
theorem nothing_else_delivered (s : State) (m : Msg) : (step s m).2.delivs.length = (present m.slots).length := by
  simp only [step]
  split
  · next h => simp [List.isEmpty_iff.mp h]
  · exact bindAll_length _ _

/-- both registries well formed: distinct indexes, distinct objects -/
def WFS (s : State) : Prop := WF s.mixers ∧ WF s.therms

theorem WFS_step {s : State} (h : WFS s) (m : Msg) : WFS (step s m).1 := by
  simp only [step]
  split
  · exact h
  · cases hf : m.fam
    · exact ⟨WF_bindAll h.1 _, h.2⟩
    · exact ⟨h.1, WF_bindAll h.2 _⟩

theorem WFS_final {s : State} (h : WFS s) (ms : List Msg) : WFS (finalFrom s ms) := by
  induction ms generalizing s with
  | nil => exact h
  | cons m ms ih => exact ih (WFS_step h m)

/-- **at most one object per index, for all message sequences**: after any sequence of messages
each family's registry binds every index at most once and no object to two indexes. -/
theorem one_object_per_index (ms : List Msg) (f : Fam) :
    (((finalFrom init ms).reg f).map (·.1)).Nodup ∧ (((finalFrom init ms).reg f).map (·.2)).Nodup := by
  have h := WFS_final (s := init) ⟨WF_nil, WF_nil⟩ ms
  cases f
  · exact ⟨h.1.1, WF_objs_nodup h.1⟩
  · exact ⟨h.2.1, WF_objs_nodup h.2⟩

theorem step_binding_stable (s : State) (m : Msg) (f : Fam) (i o : Nat) (h : (s.reg f).lookup i = some o) :
    ((step s m).1.reg f).lookup i = some o := by
  simp only [step]
  split
  · exact h
  · cases hf : m.fam <;> cases f <;> simp only [State.setReg, State.reg] at h ⊢ <;>
      first | exact h | exact bindAll_mono _ h

/-- **a binding never changes**: once index `i` of a family is bound to object `o`, it is bound to
`o` after every further sequence of messages (the object that received the first block of index
`i` receives all later ones). -/
theorem binding_stable (s : State) (ms : List Msg) (f : Fam) (i o : Nat) (h : (s.reg f).lookup i = some o) :
    ((finalFrom s ms).reg f).lookup i = some o := by
  induction ms generalizing s with
  | nil => exact h
  | cons m ms ih => exact ih _ (step_binding_stable s m f i o h)

/-- one step satisfies the per-message predicate of the statement -/
theorem step_ok {s : State} (hs : WFS s) (m : Msg) : msgOk s.mixers s.therms m (step s m).2 = true := by
  have hpick : ∀ f, pick s.mixers s.therms f = s.reg f := by intro f; cases f <;> rfl
  have hwf : WF (s.reg m.fam) := by
    cases hf : m.fam
    · exact hs.1
    · exact hs.2
  simp only [msgOk, hpick, Bool.and_eq_true]
  by_cases hne : (present m.slots).isEmpty = true
  · -- empty message: nothing happens
    have hnil : present m.slots = [] := List.isEmpty_iff.mp hne
    have hout : (step s m).2 = ⟨[], none, s.mixers, s.therms⟩ := by simp [step, hne]
    have hr : ∀ f, (step s m).2.reg f = s.reg f := by intro f; rw [hout]; cases f <;> rfl
    rw [hr, hr, hnil, hout]
    refine ⟨⟨⟨⟨⟨⟨by simp, by simp⟩, by simp⟩, by simp⟩, ?_⟩, ?_⟩, by simp⟩
    · exact nodupB_iff.mpr hwf.1
    · exact nodupB_iff.mpr (WF_objs_nodup hwf)
  · have hne' : (present m.slots).isEmpty = false := by simpa using hne
    have hreg : (step s m).2.reg m.fam = (bindAll (s.reg m.fam) (present m.slots)).1 := by
      simp only [step, hne', Bool.false_eq_true, ↓reduceIte]
      cases hf : m.fam <;> simp [Out.reg, State.setReg, State.reg]
    have hother : (step s m).2.reg (other m.fam) = s.reg (other m.fam) := by
      simp only [step, hne', Bool.false_eq_true, ↓reduceIte]
      cases hf : m.fam <;> simp [Out.reg, State.setReg, State.reg, other]
    have hdel : (step s m).2.delivs = (bindAll (s.reg m.fam) (present m.slots)).2 := by
      simp only [step, hne', Bool.false_eq_true, ↓reduceIte]
    obtain ⟨extra, hshape, hextra⟩ := bindAll_shape (s.reg m.fam) (present m.slots)
    have hwf' := WF_bindAll hwf (present m.slots)
    rw [hreg, hother, hdel]
    refine ⟨⟨⟨⟨⟨⟨?_, ?_⟩, ?_⟩, ?_⟩, ?_⟩, ?_⟩, by simp⟩
    · -- every present block
      rw [List.all_eq_true]
      rintro ⟨i, b⟩ hib
      have hslot := mem_present.mp hib
      obtain ⟨o, ho, hf⟩ := block_delivered_once s m i b hslot
      have hr2 : (step s m).1.reg m.fam = (bindAll (s.reg m.fam) (present m.slots)).1 := by
        simp only [step, hne', Bool.false_eq_true, ↓reduceIte]
        cases hf : m.fam <;> simp [State.setReg, State.reg]
      rw [hr2] at ho
      rw [hdel] at hf
      simp only [ho, hf, beq_self_eq_true]
    · simp [bindAll_length]
    · rw [hshape]; simp
    · rw [hshape, List.drop_left, List.all_eq_true]
      intro e he
      have := hextra e he
      simp only [Bool.and_eq_true, Option.isNone_iff_eq_none, List.contains_iff_mem]
      exact ⟨this.1, this.2⟩
    · exact nodupB_iff.mpr hwf'.1
    · exact nodupB_iff.mpr (WF_objs_nodup hwf')

theorem specFrom_run {s : State} (hs : WFS s) (ms : List Msg) : specFrom s.mixers s.therms ms (runFrom s ms) = true := by
  induction ms generalizing s with
  | nil => rfl
  | cons m ms ih =>
    simp only [runFrom, specFrom, Bool.and_eq_true]
    refine ⟨step_ok hs m, ?_⟩
    have hm : (step s m).2.mixers = (step s m).1.mixers := by simp only [step]; split <;> rfl
    have ht : (step s m).2.therms = (step s m).1.therms := by simp only [step]; split <;> rfl
    rw [hm, ht]
    exact ih (WFS_step hs m)

/-- **holds**: for every sequence of messages, what the machine shows satisfies the statement's
predicate `Fanout.spec` (the predicate the Lean driver evaluates on what the implementation
showed). -/
theorem holds (ms : List Msg) : spec ms (run ms) = true :=
  specFrom_run (s := init) ⟨WF_nil, WF_nil⟩ ms

/-- non-vacuity: three sensor messages, slots appearing, disappearing and coming back -/
example : (run [⟨.mixer, .sensors, [some 10, none, some 12]⟩, ⟨.thermostat, .sensors, [some 7]⟩,
    ⟨.mixer, .sensors, [none, some 21, some 22, some 23]⟩]).map (·.delivs) =
    [[⟨0, 0, 10⟩, ⟨2, 1, 12⟩], [⟨0, 0, 7⟩], [⟨1, 2, 21⟩, ⟨2, 1, 22⟩, ⟨3, 3, 23⟩]] := by decide

/-- the predicate is not trivially true: a block dispatched twice, a block dispatched on another
index's object, a rebinding of an index and a second object for one index are all rejected -/
example : spec [⟨.mixer, .sensors, [some 5]⟩] [⟨[⟨0, 0, 5⟩, ⟨0, 0, 5⟩], some [(0, 0)], [(0, 0)], []⟩] = false := by decide
example : spec [⟨.mixer, .sensors, [some 5, some 6]⟩] [⟨[⟨0, 0, 5⟩, ⟨1, 0, 6⟩], some [(0, 0), (1, 1)], [(0, 0), (1, 1)], []⟩] = false := by decide
example : spec [⟨.mixer, .sensors, [some 5]⟩, ⟨.mixer, .sensors, [some 6]⟩]
    [⟨[⟨0, 0, 5⟩], some [(0, 0)], [(0, 0)], []⟩, ⟨[⟨0, 1, 6⟩], some [(0, 1)], [(0, 1)], []⟩] = false := by decide
example : spec [⟨.mixer, .sensors, [some 5]⟩] [⟨[], none, [], []⟩] = false := by decide

end PlumVerif.C09Fanout

import PlumVerif.Props.TieNetInfo
import PlumVerif.Props.C02
import PlumVerif.Props.C03
/-
Tie: the Lean definition translated from the SOURCE TEXT of `NetworkInfoStructure.encode`
(`pyplumio/structures/network_info.py`; Generated/PyCodeTypes.lean) equals the byte-level model `Net.encode` of
Model/NetVersion.lean: for EVERY data dict whose "network" entry is the `NetworkInfo` instance `netV n (.str s)` of a model
value `n` (all addresses, the three status flags independently, every encryption and signal byte, every SSID text `s`, with
`n.wlan.ssid` its UTF-8 bytes) — and for a dict without the key (the data-class defaults) — the translated method returns
exactly the bytes `Net.encode n`: leading 1, which flag goes to which position (server status before encryption / signal,
wireless status after), the four padding bytes, the length-prefixed SSID; an SSID of more than 255 BYTES is `struct.error`.

Composed with `NetworkInfoStructure_decode_eq`: `net_roundtrip_code` (C03 `net_roundtrip` on the translated encode → decode) and
`net_layout_code` (C02 `net_layout` on the translated encode).

WHAT THE STATEMENT EXCLUDES: field values of other Python types (a `signal_quality` outside 0..255: OverflowError in Python, an
`ip` text that `inet_aton` rejects or reads in a non-dotted-quad form) — the instance is `netV n (.str s)`, whose addresses are
the texts `inet_ntoa` writes; `data` must be a dict.
-/
namespace PlumVerif.TieNetInfoEnc
open PlumVerif PlumVerif.Py PlumVerif.Types PlumVerif.TieTypes PlumVerif.TieTypesC PlumVerif.TieTypesD PlumVerif.TieNetInfo
set_option linter.unusedSimpArgs false

/-- the data-class defaults `NetworkInfo()` as a model value -/
def defaultNet : NetInfo :=
  ⟨⟨⟨0, 0, 0, 0⟩, ⟨255, 255, 255, 0⟩, ⟨0, 0, 0, 0⟩, true⟩, ⟨⟨0, 0, 0, 0⟩, ⟨255, 255, 255, 0⟩, ⟨0, 0, 0, 0⟩, true, [], 1, 100⟩, true⟩

theorem ip_new (ip : IP4) : PyCodeTypes.IPv4_new (ipV ip) = .ok (obj2 "IPv4" (some (ipV ip)) (.int 0)) :=
  IPv4_new_eq _ rfl

theorem ip_to_bytes (ip : IP4) (n : V) :
    PyCodeTypes.IPv4_to_bytes (obj2 "IPv4" (some (ipV ip)) n) = .ok (.bytes ip.bytes, obj2 "IPv4" (some (ipV ip)) n) := by
  have := IPv4_to_bytes_eq [ip.a, ip.b, ip.c, ip.d] rfl n
  simpa [addrCodec, ipText, ipV, IP4.bytes] using this

theorem flag_tb (b : Bool) : Py.int_to_bytes (.bool b) (.int 1) (.str "little") = .ok (.bytes [Net.flag b]) := by
  cases b <;> rfl

theorem flag_attr (b : Bool) : Py.attr_to_bytes (.bool b) = .ok () := rfl
theorem int_attr (i : Int) : Py.attr_to_bytes (.int i) = .ok () := rfl

theorem byte_fin : ∀ n : Fin 256, Py.encodeLE n.val 1 = [n.val.toUInt8] := by decide +kernel

theorem byte_tb (x : UInt8) : Py.int_to_bytes (.int x.toNat) (.int 1) (.str "little") = .ok (.bytes [x]) := by
  have h1 : ¬ ((x.toNat : Int) < 0) := by omega
  have h2 : ¬ (x.toNat ≥ 256 ^ 1) := by have := x.toNat_lt; omega
  have h3 := byte_fin ⟨x.toNat, x.toNat_lt⟩
  have h4 : x.toNat.toUInt8 = x := by apply UInt8.toNat_inj.mp; simp [Nat.toUInt8, UInt8.toNat_ofNat']
  simp only at h3
  simp [Py.int_to_bytes, h1, h2, h3, h4]

theorem var_tb (s : String) :
    PyCodeTypes.VarString_to_bytes (obj2 "VarString" (some (.str s)) (.int (varCodec.size (utf8 s))))
      = if (utf8 s).length < 256 then .ok (.bytes ((utf8 s).length.toUInt8 :: utf8 s), obj2 "VarString" (some (.str s)) (.int (varCodec.size (utf8 s))))
        else .error .StructError := by
  have := VarString_to_bytes_inst s ((utf8 s).length + 1) (by omega)
  simp only [varCodec, varInst, Nat.add_sub_cancel] at this ⊢
  rw [this]
  by_cases h : (utf8 s).length < 256
  · simp [h, show (utf8 s).length ≤ 255 by omega]
  · simp [h, show ¬ (utf8 s).length ≤ 255 by omega]

section getters
variable (n : NetInfo) (t : V)

def ethV : V := Py.mkobj "EthernetParameters" [("ip", ipV n.eth.ip), ("netmask", ipV n.eth.netmask), ("gateway", ipV n.eth.gateway),
  ("status", .bool n.eth.status)]
def wlanV : V := Py.mkobj "WirelessParameters" [("ip", ipV n.wlan.ip), ("netmask", ipV n.wlan.netmask), ("gateway", ipV n.wlan.gateway),
  ("status", .bool n.wlan.status), ("ssid", t), ("encryption", .int n.wlan.encryption.toNat), ("signal_quality", .int n.wlan.signal.toNat)]

theorem netV_eq : netV n t = Py.mkobj "NetworkInfo" [("eth", ethV n), ("wlan", wlanV n t), ("server_status", .bool n.server)] := rfl

theorem get_eth : PyT.getattr (Py.mkobj "NetworkInfo" [("eth", ethV n), ("wlan", wlanV n t), ("server_status", .bool n.server)]) "eth" = .ok (ethV n) := by
  simp [PyT.getattr, Py.lookup, Py.mkobj, ethV, PyT.isUnset]
theorem get_wlan (ht : PyT.isUnset t = false) :
    PyT.getattr (Py.mkobj "NetworkInfo" [("eth", ethV n), ("wlan", wlanV n t), ("server_status", .bool n.server)]) "wlan" = .ok (wlanV n t) := by
  simp [PyT.getattr, Py.lookup, Py.mkobj, wlanV, PyT.isUnset]
theorem get_srv : PyT.getattr (Py.mkobj "NetworkInfo" [("eth", ethV n), ("wlan", wlanV n t), ("server_status", .bool n.server)]) "server_status"
    = .ok (.bool n.server) := by
  simp [PyT.getattr, Py.lookup, Py.mkobj, PyT.isUnset]
theorem eth_ip : PyT.getattr (ethV n) "ip" = .ok (ipV n.eth.ip) := by simp [PyT.getattr, Py.lookup, Py.mkobj, ethV, ipV, PyT.isUnset]
theorem eth_netmask : PyT.getattr (ethV n) "netmask" = .ok (ipV n.eth.netmask) := by simp [PyT.getattr, Py.lookup, Py.mkobj, ethV, ipV, PyT.isUnset]
theorem eth_gateway : PyT.getattr (ethV n) "gateway" = .ok (ipV n.eth.gateway) := by simp [PyT.getattr, Py.lookup, Py.mkobj, ethV, ipV, PyT.isUnset]
theorem eth_status : PyT.getattr (ethV n) "status" = .ok (.bool n.eth.status) := by simp [PyT.getattr, Py.lookup, Py.mkobj, ethV, PyT.isUnset]
theorem wlan_ip : PyT.getattr (wlanV n t) "ip" = .ok (ipV n.wlan.ip) := by simp [PyT.getattr, Py.lookup, Py.mkobj, wlanV, ipV, PyT.isUnset]
theorem wlan_netmask : PyT.getattr (wlanV n t) "netmask" = .ok (ipV n.wlan.netmask) := by simp [PyT.getattr, Py.lookup, Py.mkobj, wlanV, ipV, PyT.isUnset]
theorem wlan_gateway : PyT.getattr (wlanV n t) "gateway" = .ok (ipV n.wlan.gateway) := by simp [PyT.getattr, Py.lookup, Py.mkobj, wlanV, ipV, PyT.isUnset]
theorem wlan_status : PyT.getattr (wlanV n t) "status" = .ok (.bool n.wlan.status) := by simp [PyT.getattr, Py.lookup, Py.mkobj, wlanV, PyT.isUnset]
theorem wlan_enc : PyT.getattr (wlanV n t) "encryption" = .ok (.int n.wlan.encryption.toNat) := by simp [PyT.getattr, Py.lookup, Py.mkobj, wlanV, PyT.isUnset]
theorem wlan_sig : PyT.getattr (wlanV n t) "signal_quality" = .ok (.int n.wlan.signal.toNat) := by simp [PyT.getattr, Py.lookup, Py.mkobj, wlanV, PyT.isUnset]
theorem wlan_ssid (ht : PyT.isUnset t = false) : PyT.getattr (wlanV n t) "ssid" = .ok t := by simp [PyT.getattr, Py.lookup, Py.mkobj, wlanV, ht]
end getters

/-- **`NetworkInfoStructure.encode`** = `Net.encode`, for every data dict holding the instance of `n` under "network" -/
theorem NetworkInfoStructure_encode_eq (self : V) (n : NetInfo) (s : String) (hs : n.wlan.ssid = utf8 s) (ks : List String) (vs : List V)
    (hl : Py.lookup ks vs "network" = some (netV n (.str s))) :
    PyCodeTypes.NetworkInfoStructure_encode self (.dict ks vs)
      = (match Net.encode n with
        | some b => .ok (.bytes b, self)
        | none => .error .StructError) := by
  unfold PyCodeTypes.NetworkInfoStructure_encode
  have hg : ∀ d, Py.dict_get (.dict ks vs) PyCodeTypes.c_ATTR_NETWORK d = .ok (netV n (.str s)) := by
    intro d; simp [Py.dict_get, PyCodeTypes.c_ATTR_NETWORK, hl]
  have hrep : PyT.bytes_repeat (.bytes [0]) (.int 4) = .ok (.bytes [0, 0, 0, 0]) := rfl
  have hba : ∀ b, Py.bytearray (.bytes b) = .ok (.bytes b) := fun _ => rfl
  simp only [hg, ok_bind, netV_eq, get_eth, get_wlan n (.str s) rfl, get_srv, eth_ip, eth_netmask, eth_gateway, eth_status, wlan_ip,
    wlan_netmask, wlan_gateway, wlan_status, wlan_enc, wlan_sig, wlan_ssid n (.str s) rfl, ip_new, ip_to_bytes, add_bytes, flag_attr,
    int_attr, flag_tb, byte_tb, hrep, VarString_new_eq, var_tb, Net.encode, hs]
  by_cases h : (utf8 s).length < 256
  · simp [h, hba, IP4.bytes]
  · simp [h]

theorem defaultNet_obj : netV defaultNet (.str "") =
    Py.mkobj "NetworkInfo" [("eth", (Py.mkobj "EthernetParameters" [("ip", (V.str "0.0.0.0")), ("netmask", (V.str "255.255.255.0")), ("gateway", (V.str "0.0.0.0")), ("status", (V.bool true))])), ("wlan", (Py.mkobj "WirelessParameters" [("ip", (V.str "0.0.0.0")), ("netmask", (V.str "255.255.255.0")), ("gateway", (V.str "0.0.0.0")), ("status", (V.bool true)), ("ssid", (V.str "")), ("encryption", (V.int 1)), ("signal_quality", (V.int 100))])), ("server_status", (V.bool true))] := by
  have h0 : dotted 0 0 0 0 = "0.0.0.0" := by decide +kernel
  have h1 : dotted 255 255 255 0 = "255.255.255.0" := by decide +kernel
  simp [netV, defaultNet, ipV, h0, h1]

/-- a data dict WITHOUT the key: the data-class defaults (`NetworkInfo()`) are encoded -/
theorem NetworkInfoStructure_encode_default (self : V) (ks : List String) (vs : List V) (hl : Py.lookup ks vs "network" = none) :
    PyCodeTypes.NetworkInfoStructure_encode self (.dict ks vs)
      = (match Net.encode defaultNet with
        | some b => .ok (.bytes b, self)
        | none => .error .StructError) := by
  have e := NetworkInfoStructure_encode_eq self defaultNet "" rfl ("network" :: ks) (netV defaultNet (.str "") :: vs) (by simp [Py.lookup])
  rw [← e]
  unfold PyCodeTypes.NetworkInfoStructure_encode
  simp only [Py.dict_get, PyCodeTypes.c_ATTR_NETWORK, hl, Option.getD_none, Py.lookup, if_true, Option.getD_some, defaultNet_obj]

/-- **C03 `net_roundtrip` on the translated source**: whatever bytes the translated `NetworkInfoStructure.encode` returns for the
instance of `n` (any addresses, flags, signal byte, SSID text; encryption one of the table's kinds), the translated
`NetworkInfoStructure.decode` at offset 1 (as `DeviceAvailableResponse` calls it) returns an equal instance and offset 26 -/
theorem net_roundtrip_code (self self' : V) (n : NetInfo) (s : String) (hs : n.wlan.ssid = utf8 s) (ks : List String) (vs : List V)
    (hl : Py.lookup ks vs "network" = some (netV n (.str s))) (henc : Net.encOk n.wlan.encryption = true) (r : V)
    (he : PyCodeTypes.NetworkInfoStructure_encode self (.dict ks vs) = .ok (r, self)) :
    ∃ b, r = .bytes b ∧ PyCodeTypes.NetworkInfoStructure_decode self' (.bytes b) (.int 1) .none
      = .ok (.tuple [.dict ["network"] [netV n (.str s)], .int 26], self') := by
  rw [NetworkInfoStructure_encode_eq self n s hs ks vs hl] at he
  cases h : Net.encode n with
  | none => simp [h] at he
  | some b =>
    simp only [h, Except.ok.injEq, Prod.mk.injEq] at he
    refine ⟨b, he.1.symm, ?_⟩
    rw [NetworkInfoStructure_decode_msg, C03.net_roundtrip n h henc]
    simp [hs, decodeV_utf8, Except.bind]

/-- the encoder succeeds exactly when the SSID has at most 255 bytes (so the hypothesis of `net_roundtrip_code` is met by all of them) -/
theorem encode_ok_iff (self : V) (n : NetInfo) (s : String) (hs : n.wlan.ssid = utf8 s) (ks : List String) (vs : List V)
    (hl : Py.lookup ks vs "network" = some (netV n (.str s))) :
    (∃ r, PyCodeTypes.NetworkInfoStructure_encode self (.dict ks vs) = .ok (r, self)) ↔ (utf8 s).length < 256 := by
  rw [NetworkInfoStructure_encode_eq self n s hs ks vs hl]
  simp only [Net.encode, hs]
  by_cases h : (utf8 s).length < 256 <;> simp [h]

/-- **C02 `net_layout` on the translated source**: every field of the bytes the translated encoder returns sits at its documented offset -/
theorem net_layout_code (self : V) (n : NetInfo) (s : String) (hs : n.wlan.ssid = utf8 s) (ks : List String) (vs : List V)
    (hl : Py.lookup ks vs "network" = some (netV n (.str s))) (m : List UInt8)
    (he : PyCodeTypes.NetworkInfoStructure_encode self (.dict ks vs) = .ok (.bytes m, self)) :
    m.length = 35 + (utf8 s).length
    ∧ m.getD 0 0 = 1
    ∧ (m.drop 1).take 4 = n.eth.ip.bytes ∧ (m.drop 5).take 4 = n.eth.netmask.bytes
    ∧ (m.drop 9).take 4 = n.eth.gateway.bytes ∧ m.getD 13 0 = Net.flag n.eth.status
    ∧ (m.drop 14).take 4 = n.wlan.ip.bytes ∧ (m.drop 18).take 4 = n.wlan.netmask.bytes
    ∧ (m.drop 22).take 4 = n.wlan.gateway.bytes ∧ m.getD 26 0 = Net.flag n.server
    ∧ m.getD 27 0 = n.wlan.encryption ∧ m.getD 28 0 = n.wlan.signal
    ∧ m.getD 29 0 = Net.flag n.wlan.status ∧ (m.drop 30).take 4 = [0, 0, 0, 0]
    ∧ (m.getD 34 0).toNat = (utf8 s).length ∧ m.drop 35 = utf8 s := by
  rw [NetworkInfoStructure_encode_eq self n s hs ks vs hl] at he
  cases h : Net.encode n with
  | none => simp [h] at he
  | some b =>
    simp only [h, Except.ok.injEq, Prod.mk.injEq, V.bytes.injEq] at he
    have := C02.net_layout n h
    rw [he.1, hs] at this
    exact this

/-- non-vacuity: the defaults, and an instance with all three flags different, through the translated encoder -/
example : PyCodeTypes.NetworkInfoStructure_encode .none (.dict [] [])
    = .ok (.bytes [1, 0, 0, 0, 0, 255, 255, 255, 0, 0, 0, 0, 0, 1, 0, 0, 0, 0, 255, 255, 255, 0, 0, 0, 0, 0, 1, 1, 100, 1, 0, 0, 0, 0, 0], .none) := by
  rw [NetworkInfoStructure_encode_default _ _ _ rfl]; rfl

end PlumVerif.TieNetInfoEnc

import PlumVerif.Generated.PyCode
import PlumVerif.Proofs.PyLemmas
import PlumVerif.Proofs.Types
import PlumVerif.Model.DecodeSensors
import PlumVerif.Props.TieStructParams
import PlumVerif.Props.TieStructSensors
/-
Tie: the Lean definitions translated from the SOURCE TEXT of the short sensor sections

  structures/fuel_level.py        FuelLevelStructure.decode          = Sens.decFuelLevel
  structures/boiler_load.py       BoilerLoadStructure.decode         = Sens.decBoilerLoad
  structures/pending_alerts.py    PendingAlertsStructure.decode      = Sens.decPendingAlerts
  structures/fan_power.py         FanPowerStructure.decode           = Sens.decOptF32 "fan_power"
  structures/boiler_power.py      BoilerPowerStructure.decode        = Sens.decOptF32 "boiler_power"
  structures/fuel_consumption.py  FuelConsumptionStructure.decode    = Sens.decOptF32 "fuel_consumption"
  structures/output_flags.py      OutputFlagsStructure.decode        = Sens.decOutputFlags
  structures/mixer_sensors.py     MixerSensorsStructure._unpack_mixer_sensors / ._mixer_sensors / .decode
                                                                     = Sens.decMixer / mixerEntries / decMixers

(Generated/PyCode.lean, rewritten by tools/py2lean.py on every run) equal the hand-written decoders of
Model/DecodeSensors.lean.  Every `*_decode_eq` / `*_decode_model` has the MODEL FUNCTION on its right-hand side
(`match Sens.decX (msg.drop off) with | some (fs, _) => .ok (.tuple [mergeF data fs, .int off']) | none => .error e`):
the fields the model decodes, rendered as Python values by `fieldV : Val → V` (scalars, records, int-keyed dicts) and merged
into `data`; the exception class; and the RETURNED OFFSET as a number (`off + 1`, `off + 1 + count`, `off + 4`,
`off + 1 + 8·mixers`, `off + thermoLen …`) next to a `*_rest` lemma saying the model's remainder is the message from exactly
that offset on.  `thermostat_sensors_decode_model` does the same for the thermostat section of TieStructSensors.

Hypotheses, exactly: every message, every NATURAL offset (negative offsets run in the translated code and are not covered),
every `data` that is `None` or a string-keyed dict (`dataOk`); the mixer helpers are stated for an instance whose `_offset` is
a natural (what `decode` establishes); for the stateful mixer / thermostat decoders the `*_model` theorems speak about the
RESULT (`.map (·.1)`), the instance after a successful call is in `mixer_sensors_decode_eq` / `thermostat_sensors_decode_eq`,
the instance after an exception is in no statement.

The returned offset of the pending-alerts section (`offset + alerts_number + 1`: the alert bytes are skipped without a
bounds check) is the statement a blind seed broke.
-/
namespace PlumVerif.TieStructSections
open PlumVerif.Py PlumVerif.TieParams PlumVerif.TieStructParams PlumVerif.TieStructSensors PlumVerif.Wire PlumVerif.Sens
set_option linter.unusedSimpArgs false
set_option linter.unusedVariables false

/-! ### the model's section fields as Python values -/

/-- a scalar field value of the model as a Python value (containers: see `mixV` / `TieStructSensors.recV`) -/
def scalarV : Val → V
  | .int i => .int i
  | .bool b => .bool b
  | .f32 f => .float 4 f.toNat
  | .f64 f => .float 8 f.toNat
  | _ => .none

/-- a record (dict with string keys) of scalars -/
def recordV : Val → V
  | .record fs => .dict (fs.map (·.1)) (fs.map fun f => scalarV f.2)
  | v => scalarV v

def pairKeyV : Val → V
  | .list [k, _] => scalarV k
  | _ => .none

def pairValV : Val → V
  | .list [_, v] => recordV v
  | _ => .none

/-- the value of one field of a sensor section as a Python value: a scalar, a record, or (`Val.intDict`: a `Val.list` of
`[key, value]` pairs) a dict with int keys — the prelude's `.map`, the empty one being `.dict [] []` -/
def fieldV : Val → V
  | .list [] => .dict [] []
  | .list (p :: ps) => .map ((p :: ps).map pairKeyV) ((p :: ps).map pairValV)
  | v => recordV v

/-- `ensure_dict(data, {fields})` for the fields of one section -/
def mergeF (data : V) (fs : VFields) : V := merge1 data (fs.map (·.1)) (fs.map fun f => fieldV f.2)

theorem hb : Gen.byteUndefined = 255 := rfl
theorem hu (c0 : UInt8) : (c0.toNat = 255) ↔ c0 = 255 := by simp [← UInt8.toNat_inj]

theorem truthy_false : Py.truthy (.bool false) = .ok false := rfl
theorem truthy_true : Py.truthy (.bool true) = .ok true := rfl

/-! ### fuel level -/

theorem ge_nat (a b : Nat) : Py.ge (.int (a : Int)) (.int (b : Int)) = .ok (.bool (decide (a ≥ b))) := by
  simp [Py.ge, Py.cmpInt, asInt?]

theorem sub_nat (a b : Nat) (h : b ≤ a) : Py.sub (.int (a : Int)) (.int (b : Int)) = .ok (.int ((a - b : Nat) : Int)) := by
  simp [Py.sub, asInt?]; omega

/-- **`FuelLevelStructure.decode`**: one byte; 0xFF: nothing; a value ≥ 101 is rebased by 101 -/
theorem fuel_level_decode_eq (msg : List UInt8) (off : Nat) (data : V) (hd : dataOk data) :
    PyCode.FuelLevelStructure_decode (.bytes msg) (.int (off : Int)) data
      = match decFuelLevel (msg.drop off) with
        | none => .error .IndexError
        | some (fs, _) => .ok (.tuple [mergeF data fs, .int ((off + 1 : Nat) : Int)]) := by
  unfold PyCode.FuelLevelStructure_decode
  have h0 : msg[off]? = (msg.drop off)[0]? := by simp
  simp only [index_bytes_nat, h0]
  generalize msg.drop off = d
  match d with
  | [] => simp [bind_err, decFuelLevel, readByte]
  | b :: r =>
    have c101 : PyCode.c_FUEL_LEVEL_OFFSET = .int ((101 : Nat) : Int) := rfl
    have g101 : Gen.fuelLevelOffset = 101 := rfl
    simp only [List.getElem?_cons_zero, bind_ok, add_int', cast_add_one, eq_undef, truthy_bool]
    by_cases hc : b = 255
    · subst hc
      simp [bind_ok, ensure_dict_none _ hd, decFuelLevel, readByte, mergeF]
      rfl
    · have hc' : (b == 255) = false := by simpa using hc
      have hn : ¬ b.toNat = 255 := by rwa [hu]
      simp only [hc', Bool.false_eq_true, if_false, byteV_nat, c101, ge_nat, truthy_bool]
      by_cases hg : b.toNat ≥ 101
      · have hs : Py.sub (.int (b.toNat : Int)) (.int 101) = .ok (.int ((b.toNat - 101 : Nat) : Int)) := sub_nat _ 101 hg
        simp [hg, bind_ok, hs, truthy_true, ensure_dict_eq _ hd, decFuelLevel, readByte, hb, g101, hn, mergeF, fieldV, recordV, scalarV, Val.nat]
      · simp [hg, bind_ok, truthy_false, ensure_dict_eq _ hd, decFuelLevel, readByte, hb, g101, hn, mergeF, fieldV, recordV, scalarV, Val.nat]

theorem fuel_level_rest (s : List UInt8) (fs : VFields) (r : List UInt8) (h : decFuelLevel s = some (fs, r)) : r = s.drop 1 := by
  match s with
  | [] => simp [decFuelLevel, readByte] at h
  | b :: s' =>
    simp only [decFuelLevel, readByte, Option.bind_eq_bind, Option.bind_some] at h
    split at h
    · simp at h; simp [h.2]
    · split at h <;> (simp at h; simp [h.2])

/-! ### boiler load -/

/-- **`BoilerLoadStructure.decode`**: one byte; 0xFF: nothing -/
theorem boiler_load_decode_eq (msg : List UInt8) (off : Nat) (data : V) (hd : dataOk data) :
    PyCode.BoilerLoadStructure_decode (.bytes msg) (.int (off : Int)) data
      = match decBoilerLoad (msg.drop off) with
        | none => .error .IndexError
        | some (fs, _) => .ok (.tuple [mergeF data fs, .int ((off + 1 : Nat) : Int)]) := by
  unfold PyCode.BoilerLoadStructure_decode
  have h0 : msg[off]? = (msg.drop off)[0]? := by simp
  simp only [index_bytes_nat, h0]
  generalize msg.drop off = d
  match d with
  | [] => simp [bind_err, decBoilerLoad, readByte]
  | b :: r =>
    simp only [List.getElem?_cons_zero, bind_ok, add_int', cast_add_one, eq_undef, truthy_bool]
    by_cases hc : b = 255
    · subst hc
      simp [bind_ok, ensure_dict_none _ hd, decBoilerLoad, readByte, mergeF]
      rfl
    · have hc' : (b == 255) = false := by simpa using hc
      have hn : ¬ b.toNat = 255 := by rwa [hu]
      simp [hc', bind_ok, ensure_dict_eq _ hd, decBoilerLoad, readByte, hb, hn, mergeF, fieldV, recordV, scalarV, Val.nat, byteV_nat]

theorem boiler_load_rest (s : List UInt8) (fs : VFields) (r : List UInt8) (h : decBoilerLoad s = some (fs, r)) : r = s.drop 1 := by
  match s with
  | [] => simp [decBoilerLoad, readByte] at h
  | b :: s' => simp [decBoilerLoad, readByte] at h; simp [h.2]

/-! ### pending alerts -/

/-- **`PendingAlertsStructure.decode`**: the count byte is reported, and the returned offset skips the count byte AND
`count` alert bytes (whether the message has them or not) -/
theorem pending_alerts_decode_eq (msg : List UInt8) (off : Nat) (data : V) (hd : dataOk data) :
    PyCode.PendingAlertsStructure_decode (.bytes msg) (.int (off : Int)) data
      = match readByte (msg.drop off), decPendingAlerts (msg.drop off) with
        | some (n, _), some (fs, _) => .ok (.tuple [mergeF data fs, .int ((off + n.toNat + 1 : Nat) : Int)])
        | _, _ => .error .IndexError := by
  unfold PyCode.PendingAlertsStructure_decode
  have h0 : msg[off]? = (msg.drop off)[0]? := by simp
  simp only [index_bytes_nat, h0]
  generalize msg.drop off = d
  match d with
  | [] => simp [bind_err, decPendingAlerts, readByte]
  | b :: r =>
    simp only [List.getElem?_cons_zero, bind_ok, byteV_nat, add_int', ← Int.natCast_add, cast_add_one, ensure_dict_eq _ hd]
    simp [decPendingAlerts, readByte, mergeF, fieldV, recordV, scalarV, Val.nat]

/-- the model's remainder is the message from the returned offset on -/
theorem pending_alerts_rest (s : List UInt8) (n : UInt8) (r0 : List UInt8) (fs : VFields) (r : List UInt8)
    (hn : readByte s = some (n, r0)) (h : decPendingAlerts s = some (fs, r)) : r = s.drop (n.toNat + 1) := by
  match s with
  | [] => simp [readByte] at hn
  | b :: s' =>
    simp [readByte] at hn
    simp [decPendingAlerts, readByte] at h
    simp [← h.2, hn.1]

/-! ### fan power, boiler power, fuel consumption -/

theorem optF32_shape (name : String) (s : List UInt8) :
    decOptF32 name s = match readF32 s with
      | none => none
      | some (f, r) => some (if isNaN32 f then [] else [(name, Val.f32 f)], r) := by
  unfold decOptF32
  cases readF32 s with
  | none => rfl
  | some p => rfl

theorem cast4 : (V.int 4) = V.int ((4 : Nat) : Int) := rfl

/-- **`FanPowerStructure.decode`**: `<f`; NaN: nothing; four bytes -/
theorem fan_power_decode_eq (msg : List UInt8) (off : Nat) (data : V) (hd : dataOk data) :
    PyCode.FanPowerStructure_decode (.bytes msg) (.int (off : Int)) data
      = match decOptF32 "fan_power" (msg.drop off) with
        | none => .error .StructError
        | some (fs, _) => .ok (.tuple [mergeF data fs, .int ((off + 4 : Nat) : Int)]) := by
  unfold PyCode.FanPowerStructure_decode
  simp only [from_bytes_f32, optF32_shape]
  cases readF32 (msg.drop off) with
  | none => simp [bind_err]
  | some p =>
    obtain ⟨f, r⟩ := p
    simp only [bind_ok, getattr_wire_size, getattr_wire_value, add_int', ← Int.natCast_add, math_isnan_f32, truthy_bool]
    cases hn : isNaN32 f <;> simp [bind_ok, ensure_dict_none _ hd, ensure_dict_eq _ hd, mergeF, fieldV, recordV, scalarV] <;> rfl

/-- **`BoilerPowerStructure.decode`** -/
theorem boiler_power_decode_eq (msg : List UInt8) (off : Nat) (data : V) (hd : dataOk data) :
    PyCode.BoilerPowerStructure_decode (.bytes msg) (.int (off : Int)) data
      = match decOptF32 "boiler_power" (msg.drop off) with
        | none => .error .StructError
        | some (fs, _) => .ok (.tuple [mergeF data fs, .int ((off + 4 : Nat) : Int)]) := by
  unfold PyCode.BoilerPowerStructure_decode
  simp only [from_bytes_f32, optF32_shape]
  cases readF32 (msg.drop off) with
  | none => simp [bind_err]
  | some p =>
    obtain ⟨f, r⟩ := p
    simp only [bind_ok, getattr_wire_size, getattr_wire_value, add_int', ← Int.natCast_add, math_isnan_f32, truthy_bool]
    cases hn : isNaN32 f <;> simp [bind_ok, ensure_dict_none _ hd, ensure_dict_eq _ hd, mergeF, fieldV, recordV, scalarV] <;> rfl

/-- **`FuelConsumptionStructure.decode`** -/
theorem fuel_consumption_decode_eq (msg : List UInt8) (off : Nat) (data : V) (hd : dataOk data) :
    PyCode.FuelConsumptionStructure_decode (.bytes msg) (.int (off : Int)) data
      = match decOptF32 "fuel_consumption" (msg.drop off) with
        | none => .error .StructError
        | some (fs, _) => .ok (.tuple [mergeF data fs, .int ((off + 4 : Nat) : Int)]) := by
  unfold PyCode.FuelConsumptionStructure_decode
  simp only [from_bytes_f32, optF32_shape]
  cases readF32 (msg.drop off) with
  | none => simp [bind_err]
  | some p =>
    obtain ⟨f, r⟩ := p
    simp only [bind_ok, getattr_wire_size, getattr_wire_value, add_int', ← Int.natCast_add, math_isnan_f32, truthy_bool]
    cases hn : isNaN32 f <;> simp [bind_ok, ensure_dict_none _ hd, ensure_dict_eq _ hd, mergeF, fieldV, recordV, scalarV] <;> rfl

theorem optF32_rest (name : String) (s : List UInt8) (fs : VFields) (r : List UInt8) (h : decOptF32 name s = some (fs, r)) :
    r = s.drop 4 := by
  rw [optF32_shape, readF32_eq] at h
  by_cases h4 : s.length < 4 <;> simp [h4] at h
  exact h.2.symm

/-! ### output flags -/

/-- `UnsignedInt.from_bytes(message, offset)` is the model's `readLE 4` on `message[offset:]` -/
theorem from_bytes_u32 (cls : String) (msg : List UInt8) (off : Nat) :
    Py.wire_from_bytes cls "<I" (.bytes msg) (.int (off : Int))
      = match readLE 4 (msg.drop off) with
        | none => .error .StructError
        | some (n, _) => .ok (wireObj cls (.int (n : Int)) 4) := by
  simp only [Py.wire_from_bytes, wireFmt, slice_from, ok_bind, readLE, takeN]
  generalize msg.drop off = d
  by_cases h : d.length < 4
  · simp [h]
  · simp [h, decodeLE_eq]

/-- **`OutputFlagsStructure.decode`**: `<I`; the four flags are the bits 0x04, 0x08, 0x10, 0x800; four bytes -/
theorem output_flags_decode_eq (msg : List UInt8) (off : Nat) (data : V) (hd : dataOk data) :
    PyCode.OutputFlagsStructure_decode (.bytes msg) (.int (off : Int)) data
      = match decOutputFlags (msg.drop off) with
        | none => .error .StructError
        | some (fs, _) => .ok (.tuple [mergeF data fs, .int ((off + 4 : Nat) : Int)]) := by
  unfold PyCode.OutputFlagsStructure_decode
  simp only [from_bytes_u32, decOutputFlags]
  cases readLE 4 (msg.drop off) with
  | none => simp [bind_err]
  | some p =>
    obtain ⟨n, r⟩ := p
    have a4 : Py.and (.int (n : Int)) (.int 4) = .ok (.int ((n &&& 4 : Nat) : Int)) := and_nat n 4
    have a8 : Py.and (.int (n : Int)) (.int 8) = .ok (.int ((n &&& 8 : Nat) : Int)) := and_nat n 8
    have a16 : Py.and (.int (n : Int)) (.int 16) = .ok (.int ((n &&& 16 : Nat) : Int)) := and_nat n 16
    have a2048 : Py.and (.int (n : Int)) (.int 2048) = .ok (.int ((n &&& 2048 : Nat) : Int)) := and_nat n 2048
    simp only [bind_ok, getattr_wire_size, getattr_wire_value, a4, a8, a16, a2048, bool_nat, add_int', ← Int.natCast_add,
      ensure_dict_eq _ hd]
    simp [mergeF, fieldV, recordV, scalarV]

theorem output_flags_rest (s : List UInt8) (fs : VFields) (r : List UInt8) (h : decOutputFlags s = some (fs, r)) : r = s.drop 4 := by
  unfold decOutputFlags readLE takeN at h
  by_cases h4 : s.length < 4 <;> simp [h4] at h
  exact h.2.symm

/-! ### mixer sensors -/

/-- what `_unpack_mixer_sensors` answers for one slot: the record of a connected mixer, `None` otherwise -/
def mixV : Option Val → V
  | some (.record [(k1, .f32 a), (k2, .int b), (k3, .bool c)]) => .dict [k1, k2, k3] [.float 4 a.toNat, .int b, .bool c]
  | _ => .none

/-- the exception of a slot cut short: the float cut (`struct.error`), or the float there and not NaN but the target /
pump byte missing (`message[offset + 4]`, `message[offset + 6]`: IndexError) -/
def mixErr (len off : Nat) : PyErr := if len - off < 4 then .StructError else .IndexError

theorem cast6 : (V.int 6) = V.int ((6 : Nat) : Int) := rfl
theorem cast8 : PyCode.c_MIXER_SENSOR_SIZE = V.int ((8 : Nat) : Int) := rfl
theorem and_one (a : Nat) : Py.and (.int (a : Int)) (.int 1) = .ok (.int ((a &&& 1 : Nat) : Int)) := and_nat a 1

/-- **`_unpack_mixer_sensors`**: the record of the slot at `self._offset` (or `None`: current temperature NaN — the
target and pump bytes are then not read at all), and `self._offset` advanced by 8 whatever the slot holds -/
theorem unpack_mixer_eq (c : String) (ks : List String) (vs : List V) (msg : List UInt8) (off : Nat) :
    PyCode.MixerSensorsStructure_unpack_mixer_sensors (withOff c ks vs off) (.bytes msg)
      = match decMixer (msg.drop off) with
        | none => .error (mixErr msg.length off)
        | some (ov, _) => .ok (mixV ov, withOff c ks vs (off + 8)) := by
  unfold PyCode.MixerSensorsStructure_unpack_mixer_sensors
  have hl : (msg.drop off).length = msg.length - off := List.length_drop
  simp only [getattr_withOff, bind_ok, from_bytes_f32, decMixer, Option.bind_eq_bind]
  rw [readF32_eq]
  by_cases h4 : (msg.drop off).length < 4
  · have : msg.length - off < 4 := by omega
    simp [h4, bind_err, mixErr, this]
  · have h4' : ¬ msg.length - off < 4 := by omega
    simp only [h4, if_false, bind_ok, Option.bind_some, getattr_wire_value, math_isnan_f32, not_bool, truthy_bool, cast4, cast6, cast8,
      add_int', ← Int.natCast_add, index_bytes_nat, getElem?_off, setattr_withOff]
    generalize UInt32.ofNat (PlumVerif.decodeLE (List.take 4 (msg.drop off))) = f
    cases hn : isNaN32 f
    · simp only [Bool.not_false, if_true, bind_ok, Bool.false_eq_true, if_false]
      cases h4e : (msg.drop off)[4]? with
      | none => simp [bind_err, mixErr, h4']
      | some tg =>
        cases h6e : (msg.drop off)[6]? with
        | none => simp [bind_ok, bind_err, mixErr, h4']
        | some fl =>
          simp only [bind_ok, byteV_nat, and_one, bool_nat]
          simp [mixV, Val.nat]
    · simp [bind_ok, mixV]

theorem decMixer_some (s : List UInt8) (ov : Option Val) (r : List UInt8) (h : decMixer s = some (ov, r)) :
    r = s.drop 8 ∧ 4 ≤ s.length := by
  simp only [decMixer, Option.bind_eq_bind, readF32_eq] at h
  by_cases h4 : s.length < 4
  · simp [h4] at h
  · simp only [h4, if_false, Option.bind_some] at h
    have g8 : Gen.mixerSensorSize = 8 := rfl
    split at h
    · simp [g8] at h; exact ⟨h.2.symm, by omega⟩
    · cases h4e : s[4]? with
      | none => simp [h4e] at h
      | some tg =>
        cases h6e : s[6]? with
        | none => simp [h4e, h6e] at h
        | some fl => simp [h4e, h6e, g8] at h; exact ⟨h.2.symm, by omega⟩

/-- is the slot reported (a connected mixer) -/
def mconn (ov : Option Val) : Bool := ov.isSome

theorem truthy_mixV_of (s : List UInt8) (ov : Option Val) (r : List UInt8) (h : decMixer s = some (ov, r)) :
    Py.truthy (mixV ov) = .ok (mconn ov) := by
  simp only [decMixer, Option.bind_eq_bind, readF32_eq] at h
  by_cases h4 : s.length < 4
  · simp [h4] at h
  · simp only [h4, if_false, Option.bind_some] at h
    split at h
    · simp at h; rw [← h.1]; rfl
    · cases h4e : s[4]? with
      | none => simp [h4e] at h
      | some tg =>
        cases h6e : s[6]? with
        | none => simp [h4e, h6e] at h
        | some fl => simp [h4e, h6e] at h; rw [← h.1]; rfl

/-- the (index, record) pairs `_mixer_sensors` yields for the slots `ms`, the first one being slot `i` -/
def mixP : List (Option Val) → Nat → List (Nat × V)
  | [], _ => []
  | ov :: ms, i => (if mconn ov then [(i, mixV ov)] else []) ++ mixP ms (i + 1)

/-- how many slots decode before the first one that is cut short -/
def decFail {α : Type} (d : Dec α) : Nat → List UInt8 → Nat
  | 0, _ => 0
  | n + 1, s => match d s with
    | none => 0
    | some (_, r) => decFail d n r + 1

theorem mixer_fold (c : String) (ks : List String) (vs : List V) (msg : List UInt8)
    (body : V → V × V → PyM (V × V))
    (hstep : ∀ (i off : Nat) (acc : List V), body (.int (i : Int)) (.list acc, withOff c ks vs off) =
      match decMixer (msg.drop off) with
      | none => .error (mixErr msg.length off)
      | some (ov, _) => .ok (.list (acc ++ (if mconn ov then [pairV (i, mixV ov)] else [])), withOff c ks vs (off + 8)))
    (n i off : Nat) (acc : List V) :
    List.foldlM (fun s x => body x s) (V.list acc, withOff c ks vs off) (rangeV i n)
      = match decN decMixer n (msg.drop off) with
        | none => .error (mixErr msg.length (off + 8 * (decFail decMixer n (msg.drop off))))
        | some (ms, _) => .ok (.list (acc ++ (mixP ms i).map pairV), withOff c ks vs (off + 8 * n)) := by
  induction n generalizing i off acc with
  | zero => simp [rangeV, decN, mixP]
  | succ n ih =>
    rw [rangeV_succ, List.foldlM_cons, hstep]
    unfold decN decFail
    cases hd : decMixer (msg.drop off) with
    | none => simp [bind_err]
    | some p =>
      obtain ⟨ov, r⟩ := p
      obtain ⟨hr, hlen⟩ := decMixer_some _ _ _ hd
      simp only [bind_ok, ih, Option.bind_eq_bind, Option.bind_some, hr, List.drop_drop]
      cases hN : decN decMixer n (msg.drop (off + 8)) with
      | none =>
        have e1 : off + 8 + 8 * decFail decMixer n (msg.drop (off + 8)) = off + 8 * (decFail decMixer n (msg.drop (off + 8)) + 1) := by omega
        simp [e1]
      | some q =>
        obtain ⟨ms, r'⟩ := q
        have e1 : off + 8 + 8 * n = off + 8 * (n + 1) := by omega
        by_cases hc : mconn ov <;> simp [mixP, hc, e1]

theorem mixer_sensors_gen_eq (c : String) (ks : List String) (vs : List V) (msg : List UInt8) (off n : Nat) :
    PyCode.MixerSensorsStructure_mixer_sensors (withOff c ks vs off) (.bytes msg) (.int (n : Int))
      = match decN decMixer n (msg.drop off) with
        | none => .error (mixErr msg.length (off + 8 * (decFail decMixer n (msg.drop off))))
        | some (ms, _) => .ok (.list ((mixP ms 0).map pairV), withOff c ks vs (off + 8 * n)) := by
  unfold PyCode.MixerSensorsStructure_mixer_sensors
  simp only [range_zero, bind_ok, forLoop_list]
  rw [mixer_fold c ks vs msg]
  · cases decN decMixer n (msg.drop off) with
    | none => rfl
    | some p => obtain ⟨ms, r⟩ := p; simp [bind_ok]
  · intro i off acc
    simp only [unpack_mixer_eq]
    cases hd : decMixer (msg.drop off) with
    | none => rfl
    | some p =>
      obtain ⟨ov, r⟩ := p
      simp only [bind_ok, truthy_mixV_of _ _ _ hd, pairV]
      cases hc : mconn ov <;> simp [bind_ok]

theorem mixP_incr (ms : List (Option Val)) (i : Nat) : incr i (mixP ms i) := by
  induction ms generalizing i with
  | nil => trivial
  | cons ov ms ih =>
    have := ih (i + 1)
    by_cases hc : mconn ov
    · simp only [mixP, hc, if_true, List.singleton_append]; exact ⟨Nat.le_refl _, this⟩
    · simp only [mixP, hc]; exact incr_mono _ _ (by omega) _ this

/-- **`MixerSensorsStructure.decode(message, offset, data)`** on ANY instance, for every message: count byte, then
`count` slots of 8 bytes — the record of every connected slot under its POSITION; the count of slots and of connected
ones; the returned offset `offset + 1 + 8·count`, left on the instance as well; the exception class of a message cut
short (by the slot that is cut) -/
theorem mixer_sensors_decode_eq (c : String) (ks : List String) (vs : List V) (msg : List UInt8) (off : Nat) (data : V)
    (hd : dataOk data) :
    PyCode.MixerSensorsStructure_decode (.obj c ks vs) (.bytes msg) (.int (off : Int)) data
      = match msg.drop off with
        | [] => .error .IndexError
        | nb :: r =>
          match decN decMixer nb.toNat r with
          | none => .error (mixErr msg.length (off + 1 + 8 * decFail decMixer nb.toNat r))
          | some (ms, _) =>
            let es := mixP ms 0
            let o := off + 1 + 8 * nb.toNat
            .ok (.tuple [merge1 data ["mixer_sensors", "mixers_available", "mixers_connected"]
                    [intDictV es, .int (nb.toNat : Int), .int (es.length : Int)], .int (o : Int)],
                 withOff c ks vs o) := by
  unfold PyCode.MixerSensorsStructure_decode
  have h0 : msg[off]? = (msg.drop off)[0]? := by simp
  have h1 : msg.drop (off + 1) = (msg.drop off).drop 1 := by rw [List.drop_drop]
  simp only [index_bytes_nat, add_int', cast_add_one, bind_ok, h0]
  generalize hm : msg.drop off = d
  match d with
  | [] => simp [bind_err]
  | nb :: r =>
    have hr : msg.drop (off + 1) = r := by rw [h1, hm]; rfl
    simp only [List.getElem?_cons_zero, bind_ok, byteV_nat, setattr_obj, mixer_sensors_gen_eq, hr]
    cases hN : decN decMixer nb.toNat r with
    | none => simp [bind_err]
    | some p =>
      obtain ⟨ms, r3⟩ := p
      simp only [bind_ok, dict_pairs _ 0 (mixP_incr _ _), len_intDictV, ensure_dict_eq _ hd, getattr_withOff, List.length_map]
      rfl

/-! ### the same in the model's vocabulary -/

/-- the pairs the translated generator yields are the model's `mixerEntries` -/
theorem mixP_zipIdx (ms : List (Option Val)) (i : Nat) :
    mixP ms i = ((ms.zipIdx i).filterMap fun oi => oi.1.map fun v => (oi.2, v)).map fun p => (p.1, mixV (some p.2)) := by
  induction ms generalizing i with
  | nil => rfl
  | cons ov ms ih =>
    cases ov <;> simp [mixP, mconn, List.zipIdx_cons, ih]

theorem mixP_model (ms : List (Option Val)) : mixP ms 0 = (mixerEntries ms).map fun p => (p.1, mixV (some p.2)) :=
  mixP_zipIdx ms 0

/-- the model's decoder of the section, in the shape of `mixer_sensors_decode_eq` -/
theorem decMixers_shape (s : List UInt8) :
    decMixers s = match s with
      | [] => none
      | nb :: r =>
        match decN decMixer nb.toNat r with
        | none => none
        | some (ms, r3) =>
          some ([("mixer_sensors", Val.intDict (mixerEntries ms)), ("mixers_available", Val.nat nb.toNat),
                 ("mixers_connected", Val.nat (mixerEntries ms).length)], r3) := by
  match s with
  | [] => rfl
  | nb :: r =>
    cases hN : decN decMixer nb.toNat r with
    | none => simp [decMixers, readByte, hN]
    | some p => obtain ⟨ms, r3⟩ := p; simp [decMixers, readByte, hN]

/-- the model's remainder after `n` slots is the message 8·n bytes on -/
theorem decN_mixer_rest (n : Nat) (s : List UInt8) (ms : List (Option Val)) (r : List UInt8)
    (h : decN decMixer n s = some (ms, r)) : r = s.drop (8 * n) := by
  induction n generalizing s ms r with
  | zero => simp [decN] at h; simp [h.2]
  | succ n ih =>
    unfold decN at h
    cases hd : decMixer s with
    | none => simp [hd] at h
    | some p =>
      obtain ⟨ov, r1⟩ := p
      obtain ⟨hr, _⟩ := decMixer_some _ _ _ hd
      cases hN : decN decMixer n r1 with
      | none => simp [hd, hN] at h
      | some q =>
        obtain ⟨ms', r2⟩ := q
        simp [hd, hN] at h
        have := ih _ _ _ hN
        rw [← h.2, this, hr, List.drop_drop]
        congr 1; omega

/-! ### thermostat and mixer sensors against `Sens.decThermostats` / `Sens.decMixers` in ONE statement -/

theorem recV_recordV (contacts : Nat) (ts : List ThRaw) (i cm sm : Nat) :
    ∀ p ∈ thermoEntries contacts ts i cm sm, recV p.2 = recordV p.2 := by
  induction ts generalizing i cm sm with
  | nil => intro p hp; simp [thermoEntries] at hp
  | cons t ts ih =>
    intro p hp
    unfold thermoEntries at hp
    split at hp
    · rcases List.mem_cons.mp hp with h | h
      · subst h; simp [recV, recordV, scalarV, Val.nat]
      · exact ih _ _ _ p h
    · exact ih _ _ _ p hp

theorem intDictV_fieldV (d : List (Nat × Val)) (f : Val → V) (hf : ∀ p ∈ d, f p.2 = recordV p.2) :
    intDictV (d.map fun p => (p.1, f p.2)) = fieldV (Val.intDict d) := by
  cases d with
  | nil => rfl
  | cons p ps =>
    have h1 : ∀ q ∈ p :: ps, f q.2 = pairValV (Val.list [Val.nat q.1, q.2]) := by
      intro q hq; rw [hf q hq]; rfl
    show V.map (((p :: ps).map fun q => (q.1, f q.2)).map fun q => V.int (q.1 : Int)) (((p :: ps).map fun q => (q.1, f q.2)).map (·.2))
      = V.map (((p :: ps).map fun kv => Val.list [Val.nat kv.1, kv.2]).map pairKeyV)
          (((p :: ps).map fun kv => Val.list [Val.nat kv.1, kv.2]).map pairValV)
    rw [List.map_map, List.map_map, List.map_map, List.map_map]
    congr 1
    exact List.map_congr_left (fun q hq => h1 q hq)

/-- how many bytes the thermostat section takes -/
def thermoLen : List UInt8 → Nat
  | c0 :: nb :: _ => if c0 = 255 then 1 else 2 + 9 * nb.toNat
  | _ => 1

/-- the exception of a thermostat section cut short -/
def thermoErr (len off : Nat) : List UInt8 → PyErr
  | _ :: _ :: _ => shortErr len (off + 2)
  | _ => .IndexError

/-- **`ThermostatSensorsStructure.decode` = `Sens.decThermostats`**, the model function the C05 theorems are about: the fields
the model decodes from `message[offset:]`, rendered by `fieldV`, merged into `data`; the returned offset; the exception class
when the model fails.  (The instance afterwards: `thermostat_sensors_decode_eq`.) -/
theorem thermostat_sensors_decode_model (c : String) (ks : List String) (vs : List V) (msg : List UInt8) (off : Nat) (data : V)
    (hd : dataOk data) :
    (PyCode.ThermostatSensorsStructure_decode (.obj c ks vs) (.bytes msg) (.int (off : Int)) data).map (·.1)
      = match decThermostats (msg.drop off) with
        | none => .error (thermoErr msg.length off (msg.drop off))
        | some (fs, _) => .ok (.tuple [mergeF data fs, .int ((off + thermoLen (msg.drop off) : Nat) : Int)]) := by
  rw [thermostat_sensors_decode_eq c ks vs msg off data hd, decThermostats_shape]
  generalize msg.drop off = d
  match d with
  | [] => rfl
  | c0 :: r =>
    by_cases hc : c0 = 255
    · subst hc
      cases r <;> simp [Except.map, mergeF, thermoLen]
    · match r with
      | [] => simp [hc, Except.map, thermoErr]
      | nb :: r2 =>
        cases hN : decN decThermostat nb.toNat r2 with
        | none => simp [hc, hN, Except.map, thermoErr]
        | some p =>
          obtain ⟨ts, r3⟩ := p
          have e1 := intDictV_fieldV (thermoEntries c0.toNat ts 0 1 8) recV (recV_recordV _ _ _ _ _)
          simp only [hc, if_false, hN, Except.map, mergeF, thermoLen, List.map_cons, List.map_nil, entriesP_model, e1, List.length_map]
          simp [fieldV, recordV, scalarV, Val.nat, Nat.add_assoc]

theorem decN_thermostat_rest (n : Nat) (s : List UInt8) (ts : List ThRaw) (r : List UInt8)
    (h : decN decThermostat n s = some (ts, r)) : r = s.drop (9 * n) := by
  induction n generalizing s ts r with
  | zero => simp [decN] at h; simp [h.2]
  | succ n ih =>
    unfold decN at h
    cases hd : decThermostat s with
    | none => simp [hd] at h
    | some p =>
      obtain ⟨t, r1⟩ := p
      obtain ⟨hr, _⟩ := decThermostat_some _ _ _ hd
      cases hN : decN decThermostat n r1 with
      | none => simp [hd, hN] at h
      | some q =>
        obtain ⟨ts', r2⟩ := q
        simp [hd, hN] at h
        have := ih _ _ _ hN
        rw [← h.2, this, hr, List.drop_drop]
        congr 1; omega

/-- the model's remainder is the message from the returned offset on -/
theorem thermostats_rest (s : List UInt8) (fs : VFields) (r : List UInt8) (h : decThermostats s = some (fs, r)) :
    r = s.drop (thermoLen s) := by
  rw [decThermostats_shape] at h
  match s with
  | [] => simp at h
  | c0 :: r0 =>
    by_cases hc : c0 = 255
    · subst hc
      simp at h
      cases r0 <;> simp [thermoLen, h.2]
    · match r0 with
      | [] => simp [hc] at h
      | nb :: r2 =>
        cases hN : decN decThermostat nb.toNat r2 with
        | none => simp [hc, hN] at h
        | some p =>
          obtain ⟨ts, r3⟩ := p
          simp [hc, hN] at h
          have := decN_thermostat_rest _ _ _ _ hN
          have e : 2 + 9 * nb.toNat = (9 * nb.toNat) + 1 + 1 := by omega
          simp only [thermoLen, hc, if_false, ← h.2, this, e, List.drop_succ_cons]

theorem mixV_recordV (ms : List (Option Val)) (s : List UInt8) (n : Nat) (r : List UInt8) (h : decN decMixer n s = some (ms, r)) :
    ∀ p ∈ mixerEntries ms, mixV (some p.2) = recordV p.2 := by
  have key : ∀ (n : Nat) (s : List UInt8) (ms : List (Option Val)) (r : List UInt8), decN decMixer n s = some (ms, r) →
      ∀ v, some v ∈ ms → mixV (some v) = recordV v := by
    intro n
    induction n with
    | zero => intro s ms r h v hv; simp [decN] at h; rw [h.1] at hv; simp at hv
    | succ n ih =>
      intro s ms r h v hv
      unfold decN at h
      cases hd : decMixer s with
      | none => simp [hd] at h
      | some q =>
        obtain ⟨ov, r1⟩ := q
        cases hN : decN decMixer n r1 with
        | none => simp [hd, hN] at h
        | some q2 =>
          obtain ⟨ms', r2⟩ := q2
          simp [hd, hN] at h
          rw [← h.1] at hv
          rcases List.mem_cons.mp hv with hv | hv
          · -- the head: what decMixer produces
            simp only [decMixer, Option.bind_eq_bind, readF32_eq] at hd
            by_cases h4 : s.length < 4
            · simp [h4] at hd
            · simp only [h4, if_false, Option.bind_some] at hd
              split at hd
              · simp at hd; rw [← hd.1] at hv; simp at hv
              · cases h4e : s[4]? with
                | none => simp [h4e] at hd
                | some tg =>
                  cases h6e : s[6]? with
                  | none => simp [h4e, h6e] at hd
                  | some fl =>
                    simp [h4e, h6e] at hd
                    rw [← hd.1] at hv
                    simp at hv
                    subst hv
                    simp [mixV, recordV, scalarV, Val.nat]
          · exact ih r1 ms' r2 hN v hv
  intro p hp
  unfold mixerEntries at hp
  obtain ⟨oi, hoi, hq⟩ := List.mem_filterMap.mp hp
  cases ho : oi.1 with
  | none => simp [ho] at hq
  | some v =>
    simp [ho] at hq
    rw [← hq]
    have : some v ∈ ms := by
      obtain ⟨x, i⟩ := oi
      have hz := List.mem_zipIdx hoi
      simp only at ho
      subst ho
      rw [hz.2.2]
      exact List.getElem_mem _
    exact key n s ms r h v this

/-- **`MixerSensorsStructure.decode` = `Sens.decMixers`** in one statement (the instance afterwards: `mixer_sensors_decode_eq`) -/
theorem mixer_sensors_decode_model (c : String) (ks : List String) (vs : List V) (msg : List UInt8) (off : Nat) (data : V)
    (hd : dataOk data) :
    (PyCode.MixerSensorsStructure_decode (.obj c ks vs) (.bytes msg) (.int (off : Int)) data).map (·.1)
      = match msg.drop off, decMixers (msg.drop off) with
        | nb :: _, some (fs, _) => .ok (.tuple [mergeF data fs, .int ((off + 1 + 8 * nb.toNat : Nat) : Int)])
        | nb :: r, none => .error (mixErr msg.length (off + 1 + 8 * decFail decMixer nb.toNat r))
        | [], _ => .error .IndexError := by
  rw [mixer_sensors_decode_eq c ks vs msg off data hd, decMixers_shape]
  generalize msg.drop off = d
  match d with
  | [] => rfl
  | nb :: r =>
    cases hN : decN decMixer nb.toNat r with
    | none => simp [hN, Except.map]
    | some p =>
      obtain ⟨ms, r3⟩ := p
      have e1 := intDictV_fieldV (mixerEntries ms) (fun v => mixV (some v)) (mixV_recordV ms r nb.toNat r3 hN)
      simp only [hN, Except.map, mergeF, List.map_cons, List.map_nil, mixP_model, e1, List.length_map]
      simp [fieldV, recordV, scalarV, Val.nat]

/-! ### non-vacuity -/

/-- two mixer slots; slot 0 NaN (not reported, its other bytes not read), slot 1 connected with the pump on -/
example : (PyCode.MixerSensorsStructure_decode (Py.mkobj "self" [])
      (.bytes [2, 0, 0, 0xC0, 0x7F, 9, 9, 9, 9, 0, 0, 0xA0, 0x41, 40, 0, 1, 0]) (.int 0) .none).map (·.1)
    = .ok (.tuple [.dict ["mixer_sensors", "mixers_available", "mixers_connected"]
        [.map [.int 1] [.dict ["current_temp", "target_temp", "pump"] [.float 4 1101004800, .int 40, .bool true]],
         .int 2, .int 1], .int 17]) := rfl
/-- the second slot cut after its target byte: IndexError from `message[offset + 6]` -/
example : (PyCode.MixerSensorsStructure_decode (Py.mkobj "self" [])
      (.bytes [2, 0, 0, 0xC0, 0x7F, 9, 9, 9, 9, 0, 0, 0xA0, 0x41, 40]) (.int 0) .none).map (·.1) = .error .IndexError := rfl
/-- pending alerts: three alert bytes skipped -/
example : PyCode.PendingAlertsStructure_decode (.bytes [7, 3, 1, 2, 3, 9]) (.int 1) .none
    = .ok (.tuple [.dict ["pending_alerts"] [.int 3], .int 5]) := rfl
/-- … and skipped even when they are not there -/
example : PyCode.PendingAlertsStructure_decode (.bytes [3]) (.int 0) .none
    = .ok (.tuple [.dict ["pending_alerts"] [.int 3], .int 4]) := rfl
example : PyCode.FuelLevelStructure_decode (.bytes [0x69]) (.int 0) .none = .ok (.tuple [.dict ["fuel_level"] [.int 4], .int 1]) := rfl
example : PyCode.FuelLevelStructure_decode (.bytes [0xFF]) (.int 0) .none = .ok (.tuple [.dict [] [], .int 1]) := rfl
example : PyCode.BoilerLoadStructure_decode (.bytes [50]) (.int 0) (.dict ["a"] [.int 1])
    = .ok (.tuple [.dict ["a", "boiler_load"] [.int 1, .int 50], .int 1]) := rfl
example : PyCode.FanPowerStructure_decode (.bytes [0, 0, 0xA0, 0x41]) (.int 0) .none
    = .ok (.tuple [.dict ["fan_power"] [.float 4 1101004800], .int 4]) := rfl
example : PyCode.BoilerPowerStructure_decode (.bytes [0, 0, 0xC0, 0x7F]) (.int 0) .none = .ok (.tuple [.dict [] [], .int 4]) := rfl
example : PyCode.FuelConsumptionStructure_decode (.bytes [0, 0, 0xC0]) (.int 0) .none = .error .StructError := rfl
example : PyCode.OutputFlagsStructure_decode (.bytes [0x0C, 0x08, 0, 0]) (.int 0) .none
    = .ok (.tuple [.dict ["heating_pump_flag", "water_heater_pump_flag", "circulation_pump_flag", "solar_pump_flag"]
        [.bool true, .bool true, .bool false, .bool true], .int 4]) := rfl

end PlumVerif.TieStructSections


import PlumVerif.Model.EventsTable
import PlumVerif.Generated.EventsTables
/-
C13 — the event table and the stored data, over ALL histories of the public entry points
(`Model/EventsTable.lean`): create_event / set_event / store (a finished dispatch) / load / wait_for / get /
resume / time-out / cancellation, in any order.

What is content and what is not (round-8 audit, item 13):
* `data_is_an_outcome` holds BY CONSTRUCTION of the ghost `stores` (Model/EventsTable appends to it exactly where
  `data` is written, in `store`); its content is `event_manager_api_pinned`: reflection finds no OTHER public method of
  `EventManager` that writes `data`, so the `Op`s are all the writers the class offers.
* DISCLOSED, outside `Op`: `data` is a public attribute and the `events` property returns the live dict.  A client that
  writes THROUGH them (`em.data[k] = v`, `del em.data[k]`, `em.events[k] = …`, `del em.events[k]`, `em.data = {}`) is not
  a history of this machine; every theorem here assumes clients use the dicts read-only (as the library itself does).
* `load_is_stores` is definitional (`foldl` vs `run ∘ map`).  `load(data)` = one store per item IN ORDER holds only for
  names WITHOUT subscribers: `load` gathers one `dispatch` per item, a dispatch with callbacks suspends in them, and
  then the stores happen in the order the callback walks finish (those histories are the `store` ops of this machine in
  THAT order, the walks themselves are Model/Events).  The hypothesis "no name of `kvs` has a subscriber" is part of the
  meaning of `Op.load` (its comment in the model) and is repeated in the docstring of `load_is_stores`.
-/
namespace PlumVerif.C13T

/-! ### the public surface is what the two machines model -/

/-- everything `EventManager` defines (public names and `__getattr__`), found by reflection, with the parameters
and defaults of today: a new public method, a renamed one or a new default breaks this lemma -/
theorem event_manager_api_pinned :
    Gen.eventManagerApi =
      [("__getattr__", "sync", [("name", "-")]),
       ("create_event", "sync", [("name", "-")]),
       ("dispatch", "async", [("name", "-"), ("value", "-")]),
       ("dispatch_nowait", "sync", [("name", "-"), ("value", "-")]),
       ("events", "property", []),
       ("get", "async", [("name", "-"), ("timeout", "None")]),
       ("get_nowait", "sync", [("name", "-"), ("default", "None")]),
       ("load", "async", [("data", "-")]),
       ("load_nowait", "sync", [("data", "-")]),
       ("set_event", "sync", [("name", "-")]),
       ("subscribe", "sync", [("name", "-"), ("callback", "-")]),
       ("subscribe_once", "sync", [("name", "-"), ("callback", "-")]),
       ("unsubscribe", "sync", [("name", "-"), ("callback", "-")]),
       ("wait_for", "async", [("name", "-"), ("timeout", "None")])] := by
  unfold Gen.eventManagerApi; rfl

/-! ### one step -/

theorem setEvent_events (s : St) (n m : Nat) :
    (setEvent s n).events m = if m = n then (s.events n).map (fun e => { e with isSet := true }) else s.events m := by
  unfold setEvent
  cases h : s.events n with
  | none => by_cases hm : m = n <;> simp [hm, h]
  | some e => by_cases hm : m = n <;> simp [upd, hm]

theorem setEvent_data (s : St) (n : Nat) : (setEvent s n).data = s.data := by
  unfold setEvent; cases s.events n <;> rfl

theorem setEvent_stores (s : St) (n : Nat) : (setEvent s n).stores = s.stores := by
  unfold setEvent; cases s.events n <;> rfl

theorem setEvent_created (s : St) (n : Nat) : (setEvent s n).created = s.created := by
  unfold setEvent; cases s.events n <;> rfl

theorem setEvent_nextId (s : St) (n : Nat) : (setEvent s n).nextId = s.nextId := by
  unfold setEvent; cases s.events n <;> rfl

/-- an entry of the table survives `set_event` / a store with the same object, set stays set -/
theorem setEvent_keeps (s : St) (n m : Nat) (e : EvObj) (h : s.events m = some e) :
    ∃ e', (setEvent s n).events m = some e' ∧ e'.id = e.id ∧ (e.isSet = true → e'.isSet = true) := by
  rw [setEvent_events]
  by_cases hm : m = n
  · subst hm; simp [h]
  · simp [hm, h]

theorem store_keeps (s : St) (n v m : Nat) (e : EvObj) (h : s.events m = some e) :
    ∃ e', (store s n v).events m = some e' ∧ e'.id = e.id ∧ (e.isSet = true → e'.isSet = true) :=
  setEvent_keeps _ n m e h

theorem ensureEvent_keeps (s : St) (n m : Nat) (e : EvObj) (h : s.events m = some e) :
    (ensureEvent s n).1.events m = some e := by
  unfold ensureEvent
  cases hn : s.events n with
  | some e' => simpa using h
  | none =>
    have : m ≠ n := fun hm => by subst hm; simp [h] at hn
    simp [upd, this, h]

theorem load_keeps (kvs : List (Nat × Nat)) (s : St) (m : Nat) (e : EvObj) (h : s.events m = some e) :
    ∃ e', (kvs.foldl (fun s kv => store s kv.1 kv.2) s).events m = some e' ∧ e'.id = e.id ∧
      (e.isSet = true → e'.isSet = true) := by
  induction kvs generalizing s e with
  | nil => exact ⟨e, h, rfl, id⟩
  | cons kv r ih =>
    obtain ⟨e1, h1, hid1, hs1⟩ := store_keeps s kv.1 kv.2 m e h
    obtain ⟨e2, h2, hid2, hs2⟩ := ih (store s kv.1 kv.2) e1 h1
    exact ⟨e2, h2, by omega, fun hh => hs2 (hs1 hh)⟩

/-- **no operation removes or replaces an Event**: whatever happens — another `create_event`, `set_event`, a store, a
load, a wait that starts, resumes, times out or is cancelled — the entry of a name is still the SAME object afterwards,
and a set Event stays set -/
theorem step_keeps (s : St) (o : Op) (m : Nat) (e : EvObj) (h : s.events m = some e) :
    ∃ e', (step s o).events m = some e' ∧ e'.id = e.id ∧ (e.isSet = true → e'.isSet = true) := by
  cases o with
  | createEvent n => exact ⟨e, ensureEvent_keeps s n m e h, rfl, id⟩
  | setEvent n => exact setEvent_keeps s n m e h
  | store n v => exact store_keeps s n v m e h
  | load kvs => exact load_keeps kvs s m e h
  | wait n timed getter =>
    simp only [step]
    cases hd : s.data n with
    | some v => exact ⟨e, h, rfl, id⟩
    | none =>
      simp only
      have hk := ensureEvent_keeps s n m e h
      split <;> exact ⟨e, hk, rfl, id⟩
  | resume j => exact ⟨e, h, rfl, id⟩
  | expire j => exact ⟨e, h, rfl, id⟩
  | cancel j => exact ⟨e, h, rfl, id⟩

/-- **`create_event` identity: one Event per name for the manager's lifetime** — once a name has an Event, every
later history (timed-out and cancelled waits included) leaves that very object in the table -/
theorem event_identity (ops : List Op) (s : St) (m : Nat) (e : EvObj) (h : s.events m = some e) :
    ∃ e', (run s ops).events m = some e' ∧ e'.id = e.id ∧ (e.isSet = true → e'.isSet = true) := by
  induction ops generalizing s e with
  | nil => exact ⟨e, h, rfl, id⟩
  | cons o r ih =>
    obtain ⟨e1, h1, hid1, hs1⟩ := step_keeps s o m e h
    obtain ⟨e2, h2, hid2, hs2⟩ := ih (step s o) e1 h1
    exact ⟨e2, h2, by omega, fun hh => hs2 (hs1 hh)⟩

/-- `create_event(name)` called again — at any later time — returns the object it returned the first time -/
theorem create_event_returns_the_same_object (pre mid : List Op) (n : Nat) :
    (ensureEvent (run (step (run init pre) (.createEvent n)) mid) n).2.id =
      (ensureEvent (run init pre) n).2.id := by
  have h0 : ∃ e, (step (run init pre) (.createEvent n)).events n = some e ∧ e.id = (ensureEvent (run init pre) n).2.id := by
    simp only [step, ensureEvent]
    cases h : (run init pre).events n with
    | some e => exact ⟨e, by simp [h], rfl⟩
    | none => exact ⟨_, by simp [upd], rfl⟩
  obtain ⟨e, he, hid⟩ := h0
  obtain ⟨e', he', hid', _⟩ := event_identity mid _ n e he
  have hl : (ensureEvent (run (step (run init pre) (.createEvent n)) mid) n).2 = e' := by
    unfold ensureEvent; rw [he']
  rw [hl]; omega

/-! ### the stored data -/

theorem store_data (s : St) (n v m : Nat) : (store s n v).data m = if m = n then some v else s.data m := by
  unfold store; rw [setEvent_data]; simp [upd]

theorem store_stores (s : St) (n v : Nat) : (store s n v).stores = s.stores ++ [(n, v)] := by
  unfold store; rw [setEvent_stores]

def DataOk (s : St) : Prop := ∀ n v, s.data n = some v → (n, v) ∈ s.stores

theorem store_dataOk (s : St) (n v : Nat) (h : DataOk s) : DataOk (store s n v) := by
  intro m w hm
  rw [store_data] at hm
  rw [store_stores]
  by_cases hmn : m = n
  · subst hmn; simp at hm; subst hm; simp
  · simp [hmn] at hm; exact List.mem_append_left _ (h m w hm)

theorem load_dataOk (kvs : List (Nat × Nat)) (s : St) (h : DataOk s) :
    DataOk (kvs.foldl (fun s kv => store s kv.1 kv.2) s) := by
  induction kvs generalizing s with
  | nil => exact h
  | cons kv r ih => exact ih _ (store_dataOk s kv.1 kv.2 h)

theorem ensureEvent_data (s : St) (n : Nat) : (ensureEvent s n).1.data = s.data ∧ (ensureEvent s n).1.stores = s.stores := by
  unfold ensureEvent; cases s.events n <;> exact ⟨rfl, rfl⟩

theorem step_dataOk (s : St) (o : Op) (h : DataOk s) : DataOk (step s o) := by
  cases o with
  | createEvent n => intro m v hm; have := ensureEvent_data s n; simp only [step] at hm ⊢; rw [this.1] at hm; rw [this.2]; exact h m v hm
  | setEvent n => intro m v hm; simp only [step] at hm ⊢; rw [setEvent_data] at hm; rw [setEvent_stores]; exact h m v hm
  | store n v => exact store_dataOk s n v h
  | load kvs => exact load_dataOk kvs s h
  | wait n timed getter =>
    intro m v hm
    simp only [step] at hm ⊢
    cases hd : s.data n with
    | some x => simp only [hd] at hm ⊢; exact h m v hm
    | none =>
      have := ensureEvent_data s n
      simp only [hd] at hm ⊢
      split at hm <;> (split <;> simp_all <;> exact h m v hm)
  | resume j => exact h
  | expire j => exact h
  | cancel j => exact h

/-- **`data` never holds a value that was not the outcome of a dispatch or a load**: for every history, whatever
`data[name]` / `get_nowait` / attribute access yields was stored by a finished dispatch (or load) for that name.
By construction of the ghost `stores` (appended exactly where `data` is written); the content is
`event_manager_api_pinned` (no other public writer).  Assumes clients do not write through the public `data` attribute
or the dict returned by `events` (such writes are outside `Op`). -/
theorem data_is_an_outcome (ops : List Op) (n v : Nat) (h : getNowait (run init ops) n = some v) :
    (n, v) ∈ (run init ops).stores := by
  have : ∀ (ops : List Op) (s : St), DataOk s → DataOk (run s ops) := by
    intro ops
    induction ops with
    | nil => exact fun _ h => h
    | cons o r ih => exact fun s hs => ih _ (step_dataOk s o hs)
  exact this ops init (fun _ _ h => by simp [init] at h) n v h

/-- `create_event`, `set_event`, waits, time-outs and cancellations store nothing: only `store` / `load` extend the record -/
theorem only_dispatch_and_load_store (s : St) (o : Op)
    (h : ∀ n v, o ≠ .store n v) (hl : ∀ kvs, o ≠ .load kvs) : (step s o).stores = s.stores ∧ (step s o).data = s.data := by
  cases o with
  | createEvent n => exact ⟨(ensureEvent_data s n).2, (ensureEvent_data s n).1⟩
  | setEvent n => exact ⟨setEvent_stores s n, setEvent_data s n⟩
  | store n v => exact absurd rfl (h n v)
  | load kvs => exact absurd rfl (hl kvs)
  | wait n timed getter =>
    simp only [step]
    cases hd : s.data n with
    | some x => exact ⟨rfl, rfl⟩
    | none =>
      have := ensureEvent_data s n
      simp only
      split <;> exact ⟨this.2, this.1⟩
  | resume j => exact ⟨rfl, rfl⟩
  | expire j => exact ⟨rfl, rfl⟩
  | cancel j => exact ⟨rfl, rfl⟩

/-- `load` is one store per item, in order: the last value of a name wins, every value is recorded.
HYPOTHESIS carried by `Op.load` (not expressible in this machine, which has no subscriber table): none of the names in
`kvs` has a subscriber.  With subscribers `load` gathers suspended dispatches and the stores happen in the order their
callback walks finish: such a history is a sequence of `.store` ops in that order, not a `.load`.  Definitional
(`foldl` = `run ∘ map`). -/
theorem load_is_stores (kvs : List (Nat × Nat)) (s : St) :
    step s (.load kvs) = run s (kvs.map fun kv => .store kv.1 kv.2) := by
  simp only [step]
  induction kvs generalizing s with
  | nil => rfl
  | cons kv r ih => simp only [List.foldl_cons, List.map_cons, run, step]; exact ih _

/-! ### examples (non-vacuity) -/

/-- a wait that times out leaves its Event behind; a later waiter shares it and the store wakes it -/
example :
    let s := run init [.wait 0 true true, .expire 0, .wait 0 false true, .store 0 7, .resume 1]
    eventsView s 2 = [(0, 0, true)] ∧ s.created = [(0, 0)] ∧
      s.ws.map (·.ph) = [.timedOut, .returned (some 7)] := by decide

/-- the public `set_event` without a value lets a `get` through, which then raises KeyError -/
example :
    (run init [.createEvent 1, .setEvent 1, .wait 1 false true]).ws.map (·.ph) = [.keyError] := by decide

example : (run init [.load [(0, 1), (1, 2), (0, 3)]]).data 0 = some 3 ∧
    (run init [.load [(0, 1), (1, 2), (0, 3)]]).stores = [(0, 1), (1, 2), (0, 3)] := by decide

end PlumVerif.C13T

import PlumVerif.Proofs.Envelope
import PlumVerif.Proofs.Requests
import PlumVerif.Model.NetVersion
/-
C02 — every transmitted frame is a well-formed ecoNET frame with the intended fields.
Property theorems only; helper lemmas live in Proofs/Envelope.lean and Proofs/Requests.lean.
-/
namespace PlumVerif.C02
open PlumVerif PlumVerif.Req

deriving instance DecidableEq for Except

/-! ### tables the statement ranges over (re-proved against today's source) -/

/-- 33 frame kinds, pairwise different one-byte codes -/
theorem frame_kinds_table :
    Gen.frameTypes.length = 33 ∧ (Gen.frameTypes.map (·.2)).Nodup ∧ Gen.frameTypes.all (·.2 < 256) = true := by
  decide +kernel

/-- 40 schedule kinds with pairwise different names; the bitmap is 42 = 7 × 6 bytes -/
theorem schedule_kinds_table :
    Gen.schedules.length = 40 ∧ Gen.schedules.Nodup ∧ Gen.scheduleSize = 42 := by
  decide +kernel

/-- the kind → code table of the source is the protocol's (a changed code breaks this lemma) -/
theorem frame_codes_pinned :
    Gen.frameTypes = [
      ("REQUEST_STOP_MASTER", 24), ("REQUEST_START_MASTER", 25), ("REQUEST_CHECK_DEVICE", 48),
      ("REQUEST_ECOMAX_PARAMETERS", 49), ("REQUEST_MIXER_PARAMETERS", 50), ("REQUEST_SET_ECOMAX_PARAMETER", 51),
      ("REQUEST_SET_MIXER_PARAMETER", 52), ("REQUEST_SCHEDULES", 54), ("REQUEST_SET_SCHEDULE", 55),
      ("REQUEST_UID", 57), ("REQUEST_PASSWORD", 58), ("REQUEST_ECOMAX_CONTROL", 59),
      ("REQUEST_ALERTS", 61), ("REQUEST_PROGRAM_VERSION", 64), ("REQUEST_REGULATOR_DATA_SCHEMA", 85),
      ("REQUEST_THERMOSTAT_PARAMETERS", 92), ("REQUEST_SET_THERMOSTAT_PARAMETER", 93), ("RESPONSE_DEVICE_AVAILABLE", 176),
      ("RESPONSE_ECOMAX_PARAMETERS", 177), ("RESPONSE_MIXER_PARAMETERS", 178), ("RESPONSE_SET_ECOMAX_PARAMETER", 179),
      ("RESPONSE_SET_MIXER_PARAMETER", 180), ("RESPONSE_SCHEDULES", 182), ("RESPONSE_UID", 185),
      ("RESPONSE_PASSWORD", 186), ("RESPONSE_ECOMAX_CONTROL", 187), ("RESPONSE_ALERTS", 189),
      ("RESPONSE_PROGRAM_VERSION", 192), ("RESPONSE_REGULATOR_DATA_SCHEMA", 213), ("RESPONSE_THERMOSTAT_PARAMETERS", 220),
      ("RESPONSE_SET_THERMOSTAT_PARAMETER", 221), ("MESSAGE_REGULATOR_DATA", 8), ("MESSAGE_SENSOR_DATA", 53)] := by
  decide +kernel

/-- the schedule kinds of the source, in wire-index order -/
theorem schedule_names_pinned :
    Gen.schedules = [
      "heating", "water_heater", "circulation_pump", "boiler_work", "boiler_clean", "hear_exchanger_clean",
      "mixer_1", "mixer_2", "mixer_3", "mixer_4", "mixer_5", "mixer_6",
      "mixer_7", "mixer_8", "mixer_9", "mixer_10", "thermostat_1", "thermostat_2",
      "thermostat_3", "circuit_1", "circuit_2", "circuit_3", "circuit_4", "circuit_5",
      "circuit_6", "circuit_7", "panel_1", "panel_2", "panel_3", "panel_4",
      "panel_5", "panel_6", "panel_7", "main_heater_solar", "heating_circulation", "internal_thermostat",
      "heater", "water_heater_2", "intake", "intake_summer"] := by
  decide +kernel

/-- the constants of the code are the statement's delimiters -/
theorem delimiters : startByte = 0x68 ∧ endByte = 0x16 ∧ Gen.headerSize = 7 := by decide

/-! ### the envelope -/

/-- **C02 (envelope)**: for ALL field values with a payload that fits the 16-bit length,
`Frame.bytes` is: 0x68, LE16 total length, recipient, sender, sender type, version, kind,
payload, XOR of all preceding bytes, 0x16. -/
theorem envelope (f : Fields) (hlen : f.payload.length + 10 < 65536) :
    let b := encode f
    b.length = f.payload.length + 10
    ∧ b.getD 0 0 = 0x68
    ∧ (b.getD 1 0).toNat + 256 * (b.getD 2 0).toNat = b.length
    ∧ b.getD 3 0 = f.rcpt ∧ b.getD 4 0 = f.sender ∧ b.getD 5 0 = f.etype ∧ b.getD 6 0 = f.ever
    ∧ b.getD 7 0 = f.kind
    ∧ (b.drop 8).take (b.length - 10) = f.payload
    ∧ b.getD (b.length - 2) 0 = bcc (b.take (b.length - 2))
    ∧ b.getD (b.length - 1) 0 = 0x16 := by
  have h := spec_encode f hlen
  unfold spec at h
  simp only [Bool.and_eq_true, beq_iff_eq, decide_eq_true_eq] at h
  obtain ⟨⟨⟨⟨⟨⟨⟨⟨⟨⟨_, h0⟩, hL⟩, h3⟩, h4⟩, h5⟩, h6⟩, h7⟩, hp⟩, hc⟩, he⟩ := h
  exact ⟨encodeWith_length f _, h0, hL, h3, h4, h5, h6, h7, hp, hc, he⟩

/-- the statement's predicate holds of what the model serialises -/
theorem holds (f : Fields) (hlen : f.payload.length + 10 < 65536) : spec f (encode f) = true :=
  spec_encode f hlen

/-- ... "and nothing else": the predicate pins every byte, so judging implementation bytes with
`spec` is as strong as comparing them with `encode`. -/
theorem nothing_else {f : Fields} {b : List Byte} (h : spec f b = true) : b = encode f :=
  spec_tight h

/-- two frames with different intended fields never serialise to the same bytes -/
theorem encode_injective {f g : Fields} (h : encode f = encode g) : f = g := by
  have hl : f.payload.length = g.payload.length := by
    have := congrArg List.length h
    simp only [encode, encodeWith_length] at this; omega
  cases f; cases g
  simp only [encode, encodeWith, List.cons_append, List.nil_append, List.cons.injEq] at h
  obtain ⟨-, -, -, h3, h4, h5, h6, h7, hp⟩ := h
  have := List.append_inj hp (by simpa using hl)
  simp_all

example : encode ⟨0x33, 0x45, 0x56, 48, 5, [7, 42]⟩ =
    [0x68, 12, 0, 0x45, 0x56, 48, 5, 0x33, 7, 42, 0x68 ^^^ 12 ^^^ 0x45 ^^^ 0x56 ^^^ 48 ^^^ 5 ^^^ 0x33 ^^^ 7 ^^^ 42, 0x16] := by
  decide
/-- a payload longer than 246 bytes needs the high length byte -/
example : ((encode ⟨0x35, 0, 0x56, 48, 5, List.replicate 300 0⟩).getD 1 0,
    (encode ⟨0x35, 0, 0x56, 48, 5, List.replicate 300 0⟩).getD 2 0) = (54, 1) := by decide +kernel

/-! ### payload builders: every field is recoverable at its documented position, nothing else
is present, and the builder succeeds on every admissible value -/

def isByte (v : Int) : Prop := 0 ≤ v ∧ v < 256

/-- `[count, start]` (ecoMAX / mixer / thermostat parameter requests), defaults 255 and 0 -/
theorem range_parse {count start : Option Int} {bs : List Byte}
    (h : rangePayload count start = .ok bs) : parse2 bs = some (count.getD 255, start.getD 0) := by
  unfold rangePayload at h
  split at h
  · rename_i bs' hb
    cases h
    obtain ⟨x, y, rfl, hx, hy⟩ := bytesOf2 hb
    simp [parse2, hx, hy]
  · cases h

theorem range_ok {count start : Int} (hc : isByte count) (hs : isByte start) :
    ∃ bs, rangePayload (some count) (some start) = .ok bs := by
  obtain ⟨bs, h⟩ := bytesOf_isSome [count, start] (by intro v hv; simp at hv; rcases hv with rfl | rfl <;> assumption)
  exact ⟨bs, by simp [rangePayload, h]⟩

/-- `[start, count]` (alerts request), defaults 0 and 10 -/
theorem alerts_parse {start count : Option Int} {bs : List Byte}
    (h : alertsPayload start count = .ok bs) : parse2 bs = some (start.getD 0, count.getD 10) := by
  unfold alertsPayload at h
  split at h
  · rename_i bs' hb
    cases h
    obtain ⟨x, y, rfl, hx, hy⟩ := bytesOf2 hb
    simp [parse2, hx, hy]
  · cases h

theorem alerts_ok {start count : Int} (hs : isByte start) (hc : isByte count) :
    ∃ bs, alertsPayload (some start) (some count) = .ok bs := by
  obtain ⟨bs, h⟩ := bytesOf_isSome [start, count] (by intro v hv; simp at hv; rcases hv with rfl | rfl <;> assumption)
  exact ⟨bs, by simp [alertsPayload, h]⟩

/-- `[index, value]` (set ecoMAX parameter) -/
theorem setEcomax_parse {index value : Option Int} {bs : List Byte}
    (h : setEcomaxPayload index value = .ok bs) :
    ∃ i v, index = some i ∧ value = some v ∧ parse2 bs = some (i, v) := by
  unfold setEcomaxPayload at h
  split at h
  · rename_i i v
    split at h
    · rename_i bs' hb
      cases h
      obtain ⟨x, y, rfl, hx, hy⟩ := bytesOf2 hb
      exact ⟨i, v, rfl, rfl, by simp [parse2, hx, hy]⟩
    · cases h
  · cases h

theorem setEcomax_ok {index value : Int} (hi : isByte index) (hv : isByte value) :
    ∃ bs, setEcomaxPayload (some index) (some value) = .ok bs := by
  obtain ⟨bs, h⟩ := bytesOf_isSome [index, value] (by intro v hv; simp at hv; rcases hv with rfl | rfl <;> assumption)
  exact ⟨bs, by simp [setEcomaxPayload, h]⟩

/-- a field outside 0..255 or a missing field is an error, never a frame -/
theorem setEcomax_err (index value : Option Int)
    (h : ¬ ∃ i v, index = some i ∧ value = some v ∧ isByte i ∧ isByte v) :
    setEcomaxPayload index value = .error .frameData := by
  unfold setEcomaxPayload
  split
  · rename_i i v
    split
    · rename_i bs hb
      obtain ⟨x, y, _, hx, hy⟩ := bytesOf2 hb
      exact absurd ⟨i, v, rfl, rfl, ⟨by omega, by have := x.toNat_lt; omega⟩, ⟨by omega, by have := y.toNat_lt; omega⟩⟩ h
    · rfl
  · rfl

/-- `[mixer index, parameter index, value]` (set mixer parameter) -/
theorem setMixer_parse {device index value : Option Int} {bs : List Byte}
    (h : setMixerPayload device index value = .ok bs) :
    ∃ d i v, device = some d ∧ index = some i ∧ value = some v ∧ parse3 bs = some (d, i, v) := by
  unfold setMixerPayload at h
  split at h
  · rename_i d i v
    split at h
    · rename_i bs' hb
      cases h
      obtain ⟨x, y, z, rfl, hx, hy, hz⟩ := bytesOf3 hb
      exact ⟨d, i, v, rfl, rfl, rfl, by simp [parse3, hx, hy, hz]⟩
    · cases h
  · cases h

theorem setMixer_ok {device index value : Int} (hd : isByte device) (hi : isByte index) (hv : isByte value) :
    ∃ bs, setMixerPayload (some device) (some index) (some value) = .ok bs := by
  obtain ⟨bs, h⟩ := bytesOf_isSome [device, index, value]
    (by intro v hv; simp at hv; rcases hv with rfl | rfl | rfl <;> assumption)
  exact ⟨bs, by simp [setMixerPayload, h]⟩

/-- `[index + offset] ++ LE(value, size)` (set thermostat parameter): the slot, the value
width and the value are recoverable; `offset = None` counts as 0. -/
theorem setThermostat_parse {index value : Option Int} {offset : Option (Option Int)} {size : Option Int}
    {bs : List Byte} (h : setThermostatPayload index value offset size = .ok bs) :
    ∃ i v off sz, index = some i ∧ value = some v ∧ offset = some off ∧ size = some sz ∧ 0 ≤ sz ∧
      parseThermostat bs = some (i + off.getD 0, sz.toNat, v) := by
  unfold setThermostatPayload at h
  split at h
  · rename_i i v off
    split at h
    · cases h
    · rename_i b hb
      split at h
      · cases h
      · rename_i sz
        split at h
        · cases h
        · rename_i hsz
          split at h
          · cases h
          · rename_i hv
            cases h
            refine ⟨i, v, off, sz, rfl, rfl, rfl, rfl, by omega, ?_⟩
            have hb' := (byteOf_eq_some hb).2.2
            have hv0 : 0 ≤ v := by omega
            have hvn : v.toNat < 256 ^ sz.toNat := by
              have e : (((256 ^ sz.toNat : Nat)) : Int) = (256 : Int) ^ sz.toNat := Int.natCast_pow 256 _
              omega
            simp only [parseThermostat, encodeLE_length, decode_encodeLE _ _ hvn, hb']
            cases off <;> simp <;> omega
  · cases h

theorem setThermostat_ok {index offset value : Int} {size : Nat}
    (hs : isByte (index + offset)) (hv0 : 0 ≤ value) (hv : value < 256 ^ size) :
    ∃ bs, setThermostatPayload (some index) (some value) (some (some offset)) (some size) = .ok bs
      ∧ bs.length = 1 + size := by
  have hb := byteOf_of_range hs.1 hs.2
  refine ⟨(index + offset).toNat.toUInt8 :: encodeLE value.toNat size, ?_, by simp [encodeLE_length]; omega⟩
  simp only [setThermostatPayload, hb]
  have h1 : ¬ ((size : Int) < 0) := by omega
  have h2 : ¬ (value < 0 ∨ value ≥ 256 ^ (size : Int).toNat) := by simp; omega
  simp [h1]
  exact ⟨hv0, hv⟩

/-- `[value]` (ecoMAX control) -/
theorem control_parse {value : Option Int} {bs : List Byte} (h : controlPayload value = .ok bs) :
    ∃ v, value = some v ∧ parse1 bs = some v := by
  unfold controlPayload at h
  split at h
  · cases h
  · rename_i v
    split at h
    · rename_i bs' hb
      cases h
      obtain ⟨x, rfl, hx⟩ := bytesOf1 hb
      exact ⟨v, rfl, by simp [parse1, hx]⟩
    · cases h

theorem control_ok {value : Int} (hv : isByte value) : ∃ bs, controlPayload (some value) = .ok bs := by
  obtain ⟨bs, h⟩ := bytesOf_isSome [value] (by intro v hv'; simp at hv'; subst hv'; exact hv)
  exact ⟨bs, by simp [controlPayload, h]⟩

/-- set-schedule: header `[1, schedule index, switch, parameter]` and the 42-byte bitmap of a
7 × 48 week; all four are recoverable and the total is 46 bytes. -/
theorem schedule_parse {type : Option String} {switch parameter : Option Int}
    {schedule : Option (List (List Bool))} {bs : List Byte}
    (h : schedulePayload type switch parameter schedule = .ok bs) :
    ∃ t idx sw par s, type = some t ∧ Gen.schedules.idxOf? t = some idx ∧ switch = some sw ∧
      parameter = some par ∧ schedule = some s ∧
      (Week s → bs.length = 46 ∧ parseSchedule bs = some (idx, sw, par, s)) := by
  unfold schedulePayload at h
  cases type with
  | none => cases h
  | some t =>
    cases hidx : Gen.schedules.idxOf? t with
    | none => simp [hidx, bind, Except.bind] at h
    | some idx =>
      cases hi : oneByte (idx : Int) with
      | error e => simp [hidx, hi, bind, Except.bind] at h
      | ok ib =>
        cases switch with
        | none => simp [hidx, hi, bind, Except.bind] at h
        | some sw =>
          cases hsw : oneByte sw with
          | error e => simp [hidx, hi, hsw, bind, Except.bind] at h
          | ok swb =>
            cases parameter with
            | none => simp [hidx, hi, hsw, bind, Except.bind] at h
            | some par =>
              cases hpar : oneByte par with
              | error e => simp [hidx, hi, hsw, hpar, bind, Except.bind] at h
              | ok parb =>
                cases schedule with
                | none => simp [hidx, hi, hsw, hpar, bind, Except.bind] at h
                | some s =>
                  simp only [hidx, hi, hsw, hpar, bind, Except.bind, pure, Except.pure,
                    Except.ok.injEq] at h
                  refine ⟨t, idx, sw, par, s, rfl, hidx, rfl, rfl, rfl, ?_⟩
                  intro hw
                  subst h
                  have hlen := bitmap_length hw
                  refine ⟨by simp [hlen], ?_⟩
                  have h1 := (oneByte_ok hi).2.2
                  have h2 := (oneByte_ok hsw).2.2
                  have h3 := (oneByte_ok hpar).2.2
                  have h1' : ib.toNat = idx := by omega
                  simp [parseSchedule, hlen, schedule_kinds_table.2.2, unpackBitmap_bitmap hw, h1', h2, h3]

theorem schedule_ok {t : String} {idx : Nat} {sw par : Int} (s : List (List Bool))
    (ht : Gen.schedules.idxOf? t = some idx) (hsw : isByte sw) (hpar : isByte par) :
    ∃ bs, schedulePayload (some t) (some sw) (some par) (some s) = .ok bs := by
  have hidx : idx < 40 := by
    obtain ⟨h, _⟩ := List.idxOf?_eq_some_iff.mp ht
    have hl := schedule_kinds_table.1
    omega
  have h1 : oneByte (idx : Int) = .ok (idx : Int).toNat.toUInt8 := by simp [oneByte]; omega
  have h2 : oneByte sw = .ok sw.toNat.toUInt8 := by simp [oneByte, hsw.1, hsw.2]
  have h3 : oneByte par = .ok par.toNat.toUInt8 := by simp [oneByte, hpar.1, hpar.2]
  exact ⟨[1, (idx : Int).toNat.toUInt8, sw.toNat.toUInt8, par.toNat.toUInt8] ++ bitmap s,
    by simp only [schedulePayload, ht, h1, h2, h3, bind, Except.bind, pure, Except.pure]⟩

/-- **bitmap layout**: byte `6·d + j` of the bitmap holds slots `8j .. 8j+7` of day `d`, most
significant bit first (slot `8j + i` is bit `7 − i`); day 0 is the first day of the list
(Sunday in `Schedule`). -/
theorem bitmap_layout {s : List (List Bool)} (hs : Week s) (d j i : Nat) (hd : d < 7) (hj : j < 6) (hi : i < 8) :
    (bitmap s).length = 42 ∧
    ((bitmap s).getD (6 * d + j) 0).toNat.testBit (7 - i)
      = ((s[d]'(by rw [hs.1]; exact hd))[8 * j + i]'(by rw [hs.2 _ (List.getElem_mem _)]; omega)) :=
  ⟨bitmap_length hs, bitmap_bit hs d j i hd hj hi⟩

/-- non-vacuity: Monday (day 1) 00:30 only → byte 6 is 0b0100_0000 -/
example : (bitmap ((List.range 7).map fun d => (List.range 48).map fun i => d == 1 && i == 1)).getD 6 0 = 0x40 := by
  decide +kernel
example : setThermostatPayload (some 2) (some 300) (some (some 12)) (some 2) = .ok [14, 44, 1] := by decide
example : setThermostatPayload (some 200) (some 1) (some (some 100)) (some 1) = .error .frameData := by decide
example : setThermostatPayload (some 2) (some 300) (some none) (some 1) = .error .overflow := by decide
example : schedulePayload (some "water_heater") (some 1) (some 5) (some []) = .ok [1, 1, 1, 5] := by decide +kernel
example : setMixerPayload (some 4) (some 0) (some 256) = .error .frameData := by decide
example : rangePayload none none = .ok [255, 0] := by decide

/-! ### device-available and program-version responses: field positions -/

/-- network information: every field sits at its documented offset of the message -/
theorem net_layout (n : NetInfo) {m : List Byte} (h : Net.encode n = some m) :
    m.length = 35 + n.wlan.ssid.length
    ∧ m.getD 0 0 = 1
    ∧ (m.drop 1).take 4 = n.eth.ip.bytes ∧ (m.drop 5).take 4 = n.eth.netmask.bytes
    ∧ (m.drop 9).take 4 = n.eth.gateway.bytes ∧ m.getD 13 0 = Net.flag n.eth.status
    ∧ (m.drop 14).take 4 = n.wlan.ip.bytes ∧ (m.drop 18).take 4 = n.wlan.netmask.bytes
    ∧ (m.drop 22).take 4 = n.wlan.gateway.bytes ∧ m.getD 26 0 = Net.flag n.server
    ∧ m.getD 27 0 = n.wlan.encryption ∧ m.getD 28 0 = n.wlan.signal
    ∧ m.getD 29 0 = Net.flag n.wlan.status ∧ (m.drop 30).take 4 = [0, 0, 0, 0]
    ∧ (m.getD 34 0).toNat = n.wlan.ssid.length ∧ m.drop 35 = n.wlan.ssid := by
  unfold Net.encode at h
  split at h
  · rename_i hl
    cases h
    have : n.wlan.ssid.length.toUInt8.toNat = n.wlan.ssid.length := by
      simp [Nat.toUInt8, UInt8.toNat_ofNat']; omega
    refine ⟨by simp [IP4.bytes]; omega, ?_⟩
    simp [IP4.bytes, this]
  · cases h

/-- program version: tag, structure version, device id, processor signature, the three
little-endian 16-bit version numbers and the sender address, 15 bytes -/
theorem version_layout (v : VersionInfo) (sender : Nat) {m : List Byte}
    (h : Version.encode v sender = some m)
    (ht : v.structTag.length = 2) (hd : v.deviceId.length = 2) (hp : v.processorSignature.length = 3) :
    m.length = 15
    ∧ m.take 2 = v.structTag ∧ (m.getD 2 0).toNat = v.structVersion
    ∧ (m.drop 3).take 2 = v.deviceId ∧ (m.drop 5).take 3 = v.processorSignature
    ∧ decodeLE ((m.drop 8).take 2) = v.a ∧ decodeLE ((m.drop 10).take 2) = v.b
    ∧ decodeLE ((m.drop 12).take 2) = v.c ∧ (m.getD 14 0).toNat = sender := by
  unfold Version.encode at h
  split at h
  · rename_i hr
    cases h
    have ea := decode_encodeLE 2 v.a (by omega)
    have eb := decode_encodeLE 2 v.b (by omega)
    have ec := decode_encodeLE 2 v.c (by omega)
    have hv : v.structVersion.toUInt8.toNat = v.structVersion := by
      simp [Nat.toUInt8, UInt8.toNat_ofNat']; omega
    have hs : sender.toUInt8.toNat = sender := by
      simp [Nat.toUInt8, UInt8.toNat_ofNat']; omega
    match v.structTag, ht, v.deviceId, hd, v.processorSignature, hp with
    | [t0, t1], _, [d0, d1], _, [p0, p1, p2], _ =>
      simp only [encodeLE] at ea eb ec ⊢
      simp [Version.fit, hv, hs, ea, eb, ec]
  · cases h

end PlumVerif.C02

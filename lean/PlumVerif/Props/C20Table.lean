import PlumVerif.Model.FiltersEq
import PlumVerif.Generated.EventsTables
/-
C20 — the public surface of `pyplumio/filters.py` as the translator finds it TODAY (`Gen.filterFactories`,
`Gen.filterClasses`: reflection over the imported module, `tools/gen_tables.py: _events_tables`) against the
filters the model has.  A new, removed or renamed public factory, a changed parameter list, a parameter that
gains a default (tolerance, min_calls, seconds …), a factory whose object stops being a `Filter`, overrides
`__eq__`, becomes hashable, or stops comparing equal to its own callback breaks one of these lemmas by name.

What is content and what is not (round-8 audit, item 14).  CONTENT: the four table pins above the `Filter.__eq__`
section (`factories_are_the_modelled_ones`, `factory_parameters_pinned`, `every_factory_returns_a_plain_filter`,
`public_classes_pinned`: kernel-checked statements about what reflection finds in today's `filters.py`) and
`findEntry_first` / `findEntry_none` (a property of `list.remove` / `in` over the model's `==`).
BY CONSTRUCTION of the hand model `FObj.eqMethod` (Model/FiltersEq.lean — three lines written next to the Python
`__eq__`): `eq_ignores_kind`, `eq_callable`, `eq_other` are `rfl`, and `eq_refl` / `eq_symm` / `eq_trans` are facts
about `Nat` equality; they are readings of the model, not theorems about `filters.py`.  That the model's `__eq__` is
the code's rests on `every_factory_returns_a_plain_filter` (probe: every factory's object uses `Filter.__eq__`, is
unhashable and equals its own callback) + correspondence (harness/c20.py `eq_probe`: real filter objects compared with
filters, callables and non-callables in both operand orders, `list.remove`, `in`).
-/
namespace PlumVerif.C20

/-- the factory each base filter of the model stands for -/
def Filter.factory : Filter → String
  | .onChange => "on_change"
  | .debounce _ => "debounce"
  | .throttle _ => "throttle"
  | .delta => "delta"
  | .aggregate _ _ => "aggregate"
  | .custom _ => "custom"
  | .chain _ _ => "-"

/-- one model filter per factory (the parameters are the driver's) -/
def modelled : List Filter := [.aggregate 0 0, .custom .always, .debounce 0, .delta, .onChange, .throttle 0]

/-- **every public factory is modelled, and nothing else is**: the factories found by reflection are exactly the
six of the model -/
theorem factories_are_the_modelled_ones : Gen.filterFactories.map (·.1) = modelled.map Filter.factory := by decide

/-- the parameters of every factory: all required and positional — no factory has a default today (a default
tolerance / min_calls / seconds would appear here as its `repr`) -/
theorem factory_parameters_pinned :
    Gen.filterFactories.map (fun r => (r.1, r.2.2)) =
      [("aggregate", [("callback", "-"), ("seconds", "-")]),
       ("custom", [("callback", "-"), ("filter_fn", "-")]),
       ("debounce", [("callback", "-"), ("min_calls", "-")]),
       ("delta", [("callback", "-")]),
       ("on_change", [("callback", "-")]),
       ("throttle", [("callback", "-"), ("seconds", "-")])] := by decide

/-- what every factory returns: a `Filter` whose `__eq__` is `Filter.__eq__` (no subclass overrides it), unhashable,
called as a coroutine function, and equal to its own callback -/
theorem every_factory_returns_a_plain_filter :
    ∀ r ∈ Gen.filterFactories, r.2.1 = "Filter,eq:Filter,unhashable,async,eq-callback" := by decide

/-- the only public class is the abstract base `Filter(callback)`; it defines `__eq__` and therefore no `__hash__` -/
theorem public_classes_pinned :
    Gen.filterClasses = [("Filter", "Filter", "unhashable", "abstract", [("callback", "-")], "async")] := by
  unfold Gen.filterClasses; rfl

/-! ### `Filter.__eq__` — readings of the hand model `FObj.eqMethod` (by construction; content = the probe pin above +
correspondence `eq_probe`) -/

/-- equality of two filter objects looks at the callbacks only: neither the factory, nor its parameters, nor the
state of the filters matter -/
theorem eq_ignores_kind (k k' : Filter) (c c' : Nat) :
    (FObj.mk k c).eq (.filter ⟨k', c'⟩) = (c == c') := rfl

/-- a filter equals a raw callable iff that callable equals its callback — what lets `unsubscribe(name, callback)`
find a callback that was subscribed through a filter -/
theorem eq_callable (k : Filter) (c c' : Nat) : (FObj.mk k c).eq (.callable c') = (c == c') := rfl

/-- … and never anything that is not callable -/
theorem eq_other (a : FObj) : a.eq .other = false := rfl

theorem eq_refl (a : FObj) : a.eq (.filter a) = true := by simp [FObj.eq, FObj.eqMethod]

theorem eq_symm (a b : FObj) : a.eq (.filter b) = b.eq (.filter a) := by
  simp only [FObj.eq, FObj.eqMethod, Option.getD_some]
  exact Bool.eq_iff_iff.mpr ⟨fun h => by simpa using (of_decide_eq_true (by simpa using h) : a.cb = b.cb).symm ▸ rfl,
    fun h => by simpa using (of_decide_eq_true (by simpa using h) : b.cb = a.cb).symm ▸ rfl⟩

theorem eq_trans (a b c : FObj) (h1 : a.eq (.filter b) = true) (h2 : b.eq (.filter c) = true) :
    a.eq (.filter c) = true := by
  simp only [FObj.eq, FObj.eqMethod, Option.getD_some, beq_iff_eq] at *
  omega

/-- `unsubscribe(name, cb)` on a list of subscribers finds the FIRST entry whose callback is `cb`, filter-wrapped or not:
entry `i` exists and MATCHES (a filter around `c`, or the callable `c` itself), and no earlier entry does -/
theorem findEntry_first (l : List Operand) (c : Nat) (i : Nat) (h : findEntry l (.callable c) = some i) :
    (∃ e, l[i]? = some e ∧
      (match e with | .filter f => f.cb = c | .callable a => a = c | .other => False)) ∧
    ∀ j, j < i → ∀ e, l[j]? = some e →
      (match e with | .filter f => f.cb ≠ c | .callable a => a ≠ c | .other => True) := by
  rw [findEntry, List.findIdx?_eq_some_iff_getElem] at h
  obtain ⟨hi, hmatch, hall⟩ := h
  refine ⟨⟨l[i], List.getElem?_eq_getElem hi, ?_⟩, ?_⟩
  · generalize l[i] = e at hmatch
    cases e with
    | filter f => simpa [FObj.eq, FObj.eqMethod] using hmatch
    | callable a => simpa using hmatch
    | other => simp at hmatch
  · intro j hj e he
    have hjl : j < l.length := by omega
    have := hall j hj
    have hej : l[j] = e := by
      have := List.getElem?_eq_getElem hjl
      rw [this] at he; exact Option.some.inj he
    rw [hej] at this
    cases e with
    | filter f => simpa [FObj.eq, FObj.eqMethod] using this
    | callable a => simpa using this
    | other => trivial

/-- the converse direction: nothing is found only when NO entry matches -/
theorem findEntry_none (l : List Operand) (c : Nat) (h : findEntry l (.callable c) = none) :
    ∀ e ∈ l, (match e with | .filter f => f.cb ≠ c | .callable a => a ≠ c | .other => True) := by
  intro e he
  rw [findEntry, List.findIdx?_eq_none_iff] at h
  have := h e he
  cases e with
  | filter f => simpa [FObj.eq, FObj.eqMethod] using this
  | callable a => simpa using this
  | other => trivial

example : findEntry [.callable 3, .filter ⟨.onChange, 7⟩, .filter ⟨.throttle 5, 7⟩, .callable 7] (.callable 7) = some 1 := by decide
example : (FObj.mk .onChange 7).eq (.filter ⟨.debounce 3, 7⟩) = true ∧ (FObj.mk .onChange 7).eq (.callable 8) = false := by decide

end PlumVerif.C20

import PlumVerif.Model.ParseEnvelope
import PlumVerif.Proofs.Envelope
import PlumVerif.Proofs.Requests
import PlumVerif.Model.NetVersion
/-
C03 — the frame codec round-trips and frame equality is structural.
Property theorems only; the envelope lemmas are in Proofs/Frame.lean.
-/
namespace PlumVerif.C03
open PlumVerif

/-! ### serialise → read -/

/-- **read ∘ encode**: serialising any frame that passes the reader's gates (addressed to the
library or broadcast, known sender, known kind, at most 1000 bytes) and reading the bytes back —
whatever follows them on the wire — yields exactly the same kind, addressing, versions and
payload, and consumes exactly the frame. -/
theorem read_encode (f : Fields) (rest : List Byte) (hlen : f.payload.length + 10 ≤ 1000)
    (hr : isForUs f.rcpt = true) (hs : knownDevice f.sender = true) (hk : knownFrame f.kind = true) :
    readFrame (encode f ++ rest) = (.delivered f, rest) := by
  rw [encode, read_encoded f endByte rest hlen]
  simp [classify, hr, hs, hk]

/-- frames that do not pass a gate are still consumed exactly, and classified -/
theorem read_encode_any (f : Fields) (rest : List Byte) (hlen : f.payload.length + 10 ≤ 1000) :
    readFrame (encode f ++ rest) = (classify f, rest) :=
  read_encoded f endByte rest hlen

/-- the size condition is sharp: a serialisable frame longer than 1000 bytes is rejected by the
reader (ReadError "unexpected frame length"), so the round trip is claimed exactly for the
frames the reader accepts -/
theorem read_encode_too_long (f : Fields) (rest : List Byte)
    (h1 : 1000 < f.payload.length + 10) (h2 : f.payload.length + 10 < 65536) :
    (readFrame (encode f ++ rest)).1 = .protoErr .badLength := by
  have hL := le16_roundtrip (f.payload.length + 10) h2
  unfold readFrame encode encodeWith
  simp only [List.cons_append, scan, if_true, List.nil_append]
  simp only [hL, hdr_eq, minLen_eq, maxLen_eq]
  rw [if_pos (by omega)]

/-- **serialise → parse, gate-free**: EVERY frame the library can serialise (any recipient --
also 0x45, the controller, to which the library's own requests go --, any sender, any kind byte,
any payload the 16-bit length field can describe) followed by anything is read back by the
structural parser as exactly the same kind, addressing, versions and payload, consuming exactly
the frame.  `read_encode` is this statement behind the reader's gates. -/
theorem parse_encode (f : Fields) (rest : List Byte) (hlen : f.payload.length + 10 < 65536) :
    parseEnvelope (encode f ++ rest) = some (f, rest) := by
  have hL := le16_roundtrip (f.payload.length + 10) hlen
  unfold parseEnvelope encode encodeWith
  simp only [List.cons_append, List.nil_append]
  simp only [hL]
  rw [if_neg (by simp)]
  generalize hc : bcc (startByte :: ((f.payload.length + 10) % 256).toUInt8 ::
      ((f.payload.length + 10) / 256).toUInt8 :: f.rcpt :: f.sender :: f.etype :: f.ever :: f.kind :: f.payload) = c
  simp only [body_drop, body_take, body_take2, body_crc, body_payload, List.headD_cons]
  rw [hc]
  simp

example : parseEnvelope (encode ⟨0x33, 0x45, 0x56, 48, 5, [7, 42]⟩ ++ [0x68, 0x00]) =
    some (⟨0x33, 0x45, 0x56, 48, 5, [7, 42]⟩, [0x68, 0x00]) := by decide

/-! ### read → re-serialise -/

/-- **encode ∘ read**: if `read()` delivers `f` and the bytes it consumed end with the end
delimiter 0x16, the consumed bytes are delimiter-free noise followed by exactly `encode f`:
re-serialising the received frame reproduces the bytes it was received from.  For ALL streams. -/
theorem reserialise {s rest : List Byte} {f : Fields} (h : readFrame s = (.delivered f, rest))
    (hend : (s.take (s.length - rest.length)).getLast? = some 0x16) :
    ∃ noise, (0x68 : Byte) ∉ noise ∧ s = noise ++ encode f ++ rest := by
  obtain ⟨pre, e, hs, hpre, _⟩ := delivered_sound h
  have htake : s.take (s.length - rest.length) = pre ++ encodeWith f e := by
    rw [hs]; exact List.take_left' (by simp; omega)
  rw [htake, getLast?_encodeWith] at hend
  cases hend
  exact ⟨pre, by rw [← startByte_eq]; exact hpre, by rw [hs, encode, endByte_eq]⟩

/-- both directions at once: what is delivered from an encoded frame encodes to the same bytes -/
theorem roundtrip (f : Fields) (rest : List Byte) (hlen : f.payload.length + 10 ≤ 1000)
    (hr : isForUs f.rcpt = true) (hs : knownDevice f.sender = true) (hk : knownFrame f.kind = true) :
    ∃ g, readFrame (encode f ++ rest) = (.delivered g, rest) ∧ encode g = encode f :=
  ⟨f, read_encode f rest hlen hr hs hk, rfl⟩

example : readFrame (encode ⟨0x33, 0x56, 0x45, 48, 5, [7, 42]⟩ ++ [0x68, 0x00]) =
    (.delivered ⟨0x33, 0x56, 0x45, 48, 5, [7, 42]⟩, [0x68, 0x00]) := by decide
/-- a last byte other than 0x16 is tolerated by the reader, and then not reproduced -/
example : (readFrame (encodeWith ⟨0x19, 0x56, 0x45, 48, 5, []⟩ 0x17)).1 = .delivered ⟨0x19, 0x56, 0x45, 48, 5, []⟩
    ∧ encode ⟨0x19, 0x56, 0x45, 48, 5, []⟩ ≠ encodeWith ⟨0x19, 0x56, 0x45, 48, 5, []⟩ 0x17 := by decide

/-! ### data → message → data for the two kinds that can be built from data and decoded -/

/-- network information is encodable whenever the SSID fits its one-byte length -/
theorem net_encode_ok (n : NetInfo) (hl : n.wlan.ssid.length ≤ 255) : ∃ m, Net.encode n = some m := by
  simp only [Net.encode]
  exact ⟨_, by rw [if_pos (by omega)]⟩

/-- **net_roundtrip**: for every address, mask and gateway of both interfaces, both status flags
and the server flag independently, every signal byte, every SSID of at most 255 bytes and every
encryption kind of the table, decoding the encoded message returns the same data. -/
theorem net_roundtrip (n : NetInfo) {m : List Byte} (h : Net.encode n = some m)
    (henc : Net.encOk n.wlan.encryption = true) : Net.decode m = some n := by
  unfold Net.encode at h
  split at h
  · rename_i hl
    cases h
    have hlen : n.wlan.ssid.length.toUInt8.toNat = n.wlan.ssid.length := by
      simp [Nat.toUInt8, UInt8.toNat_ofNat']; omega
    obtain ⟨⟨eip, emask, egw, est⟩, ⟨wip, wmask, wgw, wst, ssid, enc, sig⟩, srv⟩ := n
    simp only at henc hlen ⊢
    simp only [Net.decode, Net.decodeAt, Net.ip4At, Net.at?, Net.varStringAt, IP4.bytes,
      List.cons_append, List.nil_append, List.drop_succ_cons, List.drop_zero, List.take_succ_cons,
      List.take_zero, List.getElem?_cons_succ, List.getElem?_cons_zero, Nat.reduceAdd,
      bind, Option.bind, pure, henc, hlen, List.take_length]
    cases est <;> cases wst <;> cases srv <;> simp [Net.flag]
  · cases h

/-- the encryption byte is accepted by the decoder exactly for the kinds 0..4 of `EncryptionType` -/
theorem encOk_iff (b : Byte) : Net.encOk b = true ↔ b.toNat ≤ 4 := by
  have h : ∀ n, n < 256 → (Net.encOk n.toUInt8 = true ↔ n.toUInt8.toNat ≤ 4) := by decide +kernel
  have := h b.toNat b.toNat_lt
  simpa using this

/-- flags are independent: ethernet down, wireless up, server down, WPA2, signal 77 -/
example : Net.decode ((Net.encode ⟨⟨⟨10, 0, 0, 7⟩, ⟨255, 255, 0, 0⟩, ⟨10, 0, 0, 1⟩, false⟩,
      ⟨⟨1, 2, 3, 4⟩, ⟨255, 255, 255, 0⟩, ⟨1, 2, 3, 1⟩, true, [0x74, 0xc3, 0xa9], 4, 77⟩, false⟩).getD [])
    = some ⟨⟨⟨10, 0, 0, 7⟩, ⟨255, 255, 0, 0⟩, ⟨10, 0, 0, 1⟩, false⟩,
      ⟨⟨1, 2, 3, 4⟩, ⟨255, 255, 255, 0⟩, ⟨1, 2, 3, 1⟩, true, [0x74, 0xc3, 0xa9], 4, 77⟩, false⟩ := by
  decide +kernel

/-- **version_roundtrip**: every version triple below 65536, structure version byte, 2-byte
tag, 2-byte device id and 3-byte processor signature survive encode → decode (the sender
address byte is not part of the data). -/
theorem version_roundtrip (v : VersionInfo) (sender : Nat) {m : List Byte}
    (h : Version.encode v sender = some m)
    (ht : v.structTag.length = 2) (hd : v.deviceId.length = 2) (hp : v.processorSignature.length = 3) :
    Version.decode m = some v := by
  unfold Version.encode at h
  split at h
  · rename_i hr
    cases h
    have ea := Req.decode_encodeLE 2 v.a (by omega)
    have eb := Req.decode_encodeLE 2 v.b (by omega)
    have ec := Req.decode_encodeLE 2 v.c (by omega)
    have hv : v.structVersion.toUInt8.toNat = v.structVersion := by
      simp [Nat.toUInt8, UInt8.toNat_ofNat']; omega
    obtain ⟨a, b, c, tag, sv, dev, sig⟩ := v
    simp only at ht hd hp hr ea eb ec hv ⊢
    match tag, ht, dev, hd, sig, hp with
    | [t0, t1], _, [d0, d1], _, [p0, p1, p2], _ =>
      simp only [encodeLE] at ea eb ec ⊢
      simp [Version.decode, Version.fit, hv, ea, eb, ec]
  · cases h

theorem version_encode_ok (v : VersionInfo) (sender : Nat) (ha : v.a < 65536) (hb : v.b < 65536)
    (hc : v.c < 65536) (hv : v.structVersion < 256) (hs : sender < 256) :
    ∃ m, Version.encode v sender = some m := by
  simp only [Version.encode]
  exact ⟨_, by rw [if_pos ⟨ha, hb, hc, hv, hs⟩]⟩

example : Version.decode ((Version.encode ⟨65535, 0, 256, [0xff, 0xff], 5, [0x7a, 0], [0, 0, 0]⟩ 0x56).getD [])
    = some ⟨65535, 0, 256, [0xff, 0xff], 5, [0x7a, 0], [0, 0, 0]⟩ := by decide +kernel

/-! ### equality -/
section equality
variable {δ : Type} [DecidableEq δ]
open PyFrame

/-- **eq_iff**: `Frame.__eq__` (tuple comparison of class, addressing, versions, cached message
and cached data) is structural equality -/
theorem pyEq_iff (x y : PyFrame δ) : pyEq x y = true ↔ x = y := by
  cases x; cases y
  simp [pyEq, and_assoc]

/-- a frame equals itself -/
theorem pyEq_refl (x : PyFrame δ) : pyEq x x = true := (pyEq_iff x x).mpr rfl

/-- frames built from the same arguments are equal, and `!=` is the negation -/
theorem pyEq_same_args {α : Type} (mk : α → PyFrame δ) (a : α) : pyEq (mk a) (mk a) = true := pyEq_refl _

/-- frames that differ in kind, addressing, versions, message or data never compare equal -/
theorem pyEq_differs (x y : PyFrame δ)
    (h : x.cls ≠ y.cls ∨ x.rcpt ≠ y.rcpt ∨ x.sender ≠ y.sender ∨ x.etype ≠ y.etype ∨ x.ever ≠ y.ever
      ∨ x.message ≠ y.message ∨ x.data ≠ y.data) : pyEq x y = false := by
  cases hxy : pyEq x y with
  | false => rfl
  | true =>
    have := (pyEq_iff x y).mp hxy
    subst this
    simp at h

/-- reading `.bytes` / `.data` on both of two equal frames keeps them equal … -/
theorem pyEq_fill (x y : PyFrame δ) (m : List Byte) (d : δ) (h : pyEq x y = true) :
    pyEq (fillMessage m x) (fillMessage m y) = true ∧ pyEq (fillData d x) (fillData d y) = true := by
  have := (pyEq_iff x y).mp h
  subst this
  exact ⟨pyEq_refl _, pyEq_refl _⟩

/-- … but the lazily cached message is part of the compared state: after `.bytes` a frame
built from data no longer equals a fresh frame built from the same data. -/
theorem pyEq_fill_fresh (x : PyFrame δ) (m : List Byte) (h : x.message = none) :
    pyEq (fillMessage m x) x = false := by
  apply pyEq_differs
  simp [fillMessage, h]

example : pyEq (δ := Nat) ⟨0x33, 0x45, 0x56, 48, 5, none, some 7⟩ ⟨0x33, 0x45, 0x56, 48, 5, none, some 7⟩ = true := by decide
example : pyEq (δ := Nat) ⟨0x33, 0x45, 0x56, 48, 5, none, some 7⟩ ⟨0x34, 0x45, 0x56, 48, 5, none, some 7⟩ = false := by decide
end equality

end PlumVerif.C03

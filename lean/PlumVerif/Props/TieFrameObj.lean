import PlumVerif.Generated.PyCodeTypes
import PlumVerif.Proofs.PyLemmas
import PlumVerif.Props.TieFrame
import PlumVerif.Model.FrameObject
/-
Tie: the Lean definitions translated from the SOURCE TEXT of the frame OBJECT, `pyplumio/frames/__init__.py` class `Frame`
(`__init__` / construction, the `message` and `data` getters AND setters, `length`, `__len__`, `header`, `bytes`;
Generated/PyCodeTypes.lean, rewritten by tools/py2lean_types.py on every run) equal the state machine `Obj.step` of
Model/FrameObject.lean for ALL object states, header values, messages, data values, and ALL codecs of the concrete kind.

The abstract members of the base class (`create_message`, `decode_message`, the class variable `frame_type`) are the
parameter `env` of the translated methods; `EnvCodec env c err` says that this environment is the model codec `c`
(`create` sees the header's sender, exceptions mapped by `err`).  So the cache-invalidation logic of the setters, the
lazy encode / decode of the getters, the length arithmetic and the layout of `bytes` (`Frame.encode`: start, LE16 length,
four header bytes, kind, payload, BCC, end) are tied by translation; `C02.bytes_reflect_last_content`, `length_consistent`
… (theorems about `Obj.run`) speak about the translated code through `Frame_step_sim` (here: ONE operation) and its
lift to operation sequences `Frame_run_sim` in Props/TieFrameObjRun.lean (`bytes_reflect_last_content_code`,
`length_consistent_code`, `getters_pure_code`, `F5_one_sided_fill_code`, `fresh_same_args_code`).
An instance after a RAISED exception is not represented by the translation (`Except`): `Frame_step_sim` answers the mapped
exception for a raising step, and `Frame_run_sim` is stated up to (and including) the first operation that raises.

WHAT THE HYPOTHESES EXCLUDE (audit round 8):
* `EnvCodec` asks `decode_message` to depend on NOTHING of the instance (not on the handler slot, not on the header) and
  `create_message` on nothing but the sender: kinds whose structures read `self.frame.handler` (RegulatorData,
  ThermostatParameters) have no `EnvCodec` and are outside these theorems.  The only instance exhibited is the plain-request
  kind (`requestEnv_codec`); `PyT.testEnv` (the harness's environment) is not shown to be one.
* `x.cls < 256`, `x.cls = cls`: with a frame-type code >= 256 the code raises ValueError from `append` where the model says
  `.struct` — not tied.
* `Wf x`: the data slot holds no `None` as a data VALUE (`frame.data = None` through the setter leaves such a state; `OpOk`
  excludes it in the run-level theorem).
* `Frame_new_eq` only for empty `**kwargs`; the `ensure_dict(data, kwargs)` branch of `__init__` is untied.
* the instance after a RAISED exception is not represented (`Obj.step .bytes` returns a state with the message cached on
  `.raised .struct`; the translation has no state there).
* `Frame.__eq__`, `assign_to`, `__repr__`, `Frame.create` and the plain header attributes are NOT translated: C03's equality
  theorems stay about the hand-written `pyEq`.
* the `| _ => .error .unsupported` arms of `Frame_len_eq` / `Frame_bytes_eq` are unreachable (kept to make the match total).
-/
namespace PlumVerif.TieFrameObj
open PlumVerif PlumVerif.Py PlumVerif.Obj
set_option linter.unusedSimpArgs false

def optB : Option (List UInt8) → V
  | some m => .bytes m
  | none => .none

def optD : Option V → V
  | some d => d
  | none => .none

abbrev slots : List String := ["recipient", "sender", "econet_type", "econet_version", "_handler", "_message", "_data"]

/-- the instance in model state `x` (handler slot `h`: not touched by the operations tied here) -/
def fobj (h : V) (x : PyFrame V) : V :=
  .obj "Frame" slots [.int x.rcpt, .int x.sender, .int x.etype, .int x.ever, h, optB x.message, optD x.data]

/-- a data value a frame can hold: anything but `None` (which IS "no data") and the marker of an unassigned slot -/
def IsData (d : V) : Prop := Py.isNone d = .bool false ∧ PyT.isUnset d = false

/-- the environment of the abstract members is the codec `c` of the concrete kind -/
structure EnvCodec (env : PyT.Env) (c : FrameCodec V) (err : ObjErr → PyErr) (cls : Nat) : Prop where
  create : ∀ h x d, env "create_message" [fobj h x, d]
    = (match c.create x.sender d with | .ok m => .ok (.bytes m) | .error e => .error (err e))
  decode : ∀ h x m, env "decode_message" [fobj h x, .bytes m]
    = (match c.decode m with | .ok d => .ok d | .error e => .error (err e))
  decoded : ∀ m d, c.decode m = .ok d → IsData d
  empty : c.empty = .dict [] []
  kind : ∀ h x, x.cls = cls → env "frame_type" [fobj h x] = .ok (.int x.cls)
  struct : err .struct = .StructError

section slotlemmas
variable (a0 a1 a2 a3 a4 a5 a6 x : V)
@[simp] theorem set_message : PyT.setattr (.obj "Frame" slots [a0, a1, a2, a3, a4, a5, a6]) "_message" x
    = .ok (.obj "Frame" slots [a0, a1, a2, a3, a4, x, a6]) := by simp [PyT.setattr, PyT.setSlot, slots]
@[simp] theorem set_data : PyT.setattr (.obj "Frame" slots [a0, a1, a2, a3, a4, a5, a6]) "_data" x
    = .ok (.obj "Frame" slots [a0, a1, a2, a3, a4, a5, x]) := by simp [PyT.setattr, PyT.setSlot, slots]
theorem get_message : PyT.getattr (.obj "Frame" slots [a0, a1, a2, a3, a4, a5, a6]) "_message"
    = if PyT.isUnset a5 then .error .AttributeError else .ok a5 := by simp [PyT.getattr, Py.lookup, slots]
theorem get_data : PyT.getattr (.obj "Frame" slots [a0, a1, a2, a3, a4, a5, a6]) "_data"
    = if PyT.isUnset a6 then .error .AttributeError else .ok a6 := by simp [PyT.getattr, Py.lookup, slots]
theorem get_rcpt : PyT.getattr (.obj "Frame" slots [a0, a1, a2, a3, a4, a5, a6]) "recipient"
    = if PyT.isUnset a0 then .error .AttributeError else .ok a0 := by simp [PyT.getattr, Py.lookup, slots]
theorem get_sender : PyT.getattr (.obj "Frame" slots [a0, a1, a2, a3, a4, a5, a6]) "sender"
    = if PyT.isUnset a1 then .error .AttributeError else .ok a1 := by simp [PyT.getattr, Py.lookup, slots]
theorem get_etype : PyT.getattr (.obj "Frame" slots [a0, a1, a2, a3, a4, a5, a6]) "econet_type"
    = if PyT.isUnset a2 then .error .AttributeError else .ok a2 := by simp [PyT.getattr, Py.lookup, slots]
theorem get_ever : PyT.getattr (.obj "Frame" slots [a0, a1, a2, a3, a4, a5, a6]) "econet_version"
    = if PyT.isUnset a3 then .error .AttributeError else .ok a3 := by simp [PyT.getattr, Py.lookup, slots]
end slotlemmas

@[simp] theorem isUnset_optB (m : Option (List UInt8)) : PyT.isUnset (optB m) = false := by cases m <;> rfl
@[simp] theorem isUnset_int (i : Int) : PyT.isUnset (.int i) = false := rfl
@[simp] theorem isUnset_none : PyT.isUnset .none = false := rfl
@[simp] theorem isUnset_bytes (b : List UInt8) : PyT.isUnset (.bytes b) = false := rfl

/-- every data value the object holds is a data value -/
def Wf (x : PyFrame V) : Prop := ∀ d, x.data = some d → IsData d

theorem isUnset_optD (x : PyFrame V) (hx : Wf x) : PyT.isUnset (optD x.data) = false := by
  cases hd : x.data with
  | none => rfl
  | some d => exact (hx d hd).2

/-! ### construction -/

theorem Frame_new_eq (env : PyT.Env) (cls : Nat) (r s t v : Int) (m : Option (List UInt8)) (d : Option V) :
    PyCodeTypes.Frame_new env (.int r) (.int s) (.int t) (.int v) (optB m) (optD d) (.dict [] [])
      = .ok (fobj .none (construct cls r s t v m d)) := by
  simp [PyCodeTypes.Frame_new, PyCodeTypes.Frame_init, PyT.newobj, Py.not, Py.truthy, fobj, construct, slots]
  simp [PyT.setattr, PyT.setSlot]

/-! ### the setters: store one, clear the other -/

theorem Frame_message_set_eq (env : PyT.Env) (h : V) (x : PyFrame V) (m : List UInt8) :
    PyCodeTypes.Frame_message_set env (fobj h x) (.bytes m)
      = .ok (.none, fobj h (step (δ := V) ⟨fun _ _ => .ok [], fun _ => .ok .none, .none⟩ x (.setMessage m)).1) := by
  simp [PyCodeTypes.Frame_message_set, fobj, step, optB, optD]

theorem Frame_data_set_eq (env : PyT.Env) (h : V) (x : PyFrame V) (d : V) :
    PyCodeTypes.Frame_data_set env (fobj h x) d
      = .ok (.none, fobj h (step (δ := V) ⟨fun _ _ => .ok [], fun _ => .ok .none, .none⟩ x (.setData d)).1) := by
  simp [PyCodeTypes.Frame_data_set, fobj, step, optB, optD]

/-! ### the getters: lazy, cached -/

theorem optD_truthy (x : PyFrame V) (hx : Wf x) :
    Py.isNotNone (optD x.data) = .bool x.data.isSome ∧ Py.isNone (optD x.data) = .bool x.data.isNone := by
  cases hd : x.data with
  | none => exact ⟨rfl, rfl⟩
  | some d =>
    have h1 := (hx d hd).1
    refine ⟨?_, h1⟩
    cases d <;> simp_all [Py.isNone, Py.isNotNone, optD]

theorem Frame_message_eq (env : PyT.Env) (c : FrameCodec V) (err) {cls : Nat} (he : EnvCodec env c err cls) (h : V) (x : PyFrame V) (hx : Wf x) :
    PyCodeTypes.Frame_message env (fobj h x)
      = (match ensureMessage c x with
        | .ok (x', m) => .ok (.bytes m, fobj h x')
        | .error e => .error (err e)) := by
  have hu := isUnset_optD x hx
  obtain ⟨hnn, _⟩ := optD_truthy x hx
  cases hm : x.message with
  | some m =>
    simp [PyCodeTypes.Frame_message, fobj, get_message, hm, optB, Py.isNone, Py.truthy, ensureMessage]
  | none =>
    have hc := he.create h x
    simp only [fobj, hm] at hc
    simp only [PyCodeTypes.Frame_message, fobj, get_message, get_data, hm, optB, isUnset_none, Py.isNone, Py.truthy, hu,
      Bool.false_eq_true, if_false, if_true, pure_eq_ok, ok_bind, hnn, ensureMessage]
    cases hd : x.data with
    | none =>
      simp only [hd, optD, optB, Option.isSome, Bool.false_eq_true, if_false, ok_bind, Option.getD, he.empty] at hc ⊢
      rw [hc]
      cases c.create x.sender (.dict [] []) with
      | error e => rfl
      | ok m => simp [get_message, optB, optD]
    | some d =>
      simp only [hd, optD, optB, Option.isSome, if_true, ok_bind, Option.getD] at hc ⊢
      rw [hc]
      cases c.create x.sender d with
      | error e => rfl
      | ok m => simp [get_message, optB, optD]

theorem Frame_data_eq (env : PyT.Env) (c : FrameCodec V) (err) {cls : Nat} (he : EnvCodec env c err cls) (h : V) (x : PyFrame V) (hx : Wf x) :
    PyCodeTypes.Frame_data env (fobj h x)
      = (match ensureData c x with
        | .ok (x', d) => .ok (d, fobj h x')
        | .error e => .error (err e)) := by
  have hu := isUnset_optD x hx
  obtain ⟨_, hn⟩ := optD_truthy x hx
  cases hd : x.data with
  | some d =>
    have hd' := hx d hd
    rw [hd] at hn hu
    simp only [optD] at hn hu
    simp [PyCodeTypes.Frame_data, fobj, get_data, hd, optD, hn, hu, Py.truthy, ensureData]
  | none =>
    cases hm : x.message with
    | none =>
      simp [PyCodeTypes.Frame_data, fobj, get_data, get_message, hd, hm, optD, optB, Py.isNone, Py.isNotNone, Py.truthy,
        ensureData, he.empty]
      rfl
    | some m =>
      have hc := he.decode h x m
      simp only [fobj, hm, hd, optB, optD] at hc
      simp only [PyCodeTypes.Frame_data, fobj, get_data, get_message, hd, hm, optD, optB, isUnset_none, isUnset_bytes,
        Py.isNone, Py.isNotNone, Py.truthy, Bool.false_eq_true, if_false, if_true, pure_eq_ok, ok_bind, ensureData, hc]
      cases hdec : c.decode m with
      | error e => rfl
      | ok d =>
        have hdd := he.decoded m d hdec
        simp [get_data, hdd.2, optD]

/-! ### length, header, bytes -/

theorem Frame_length_eq (env : PyT.Env) (c : FrameCodec V) (err) {cls : Nat} (he : EnvCodec env c err cls) (h : V) (x : PyFrame V) (hx : Wf x) :
    PyCodeTypes.Frame_length env (fobj h x)
      = (match ensureMessage c x with
        | .ok (x', m) => .ok (.int ((m.length + 10 : Nat) : Int), fobj h x')
        | .error e => .error (err e)) := by
  simp only [PyCodeTypes.Frame_length, Frame_message_eq env c err he h x hx]
  cases ensureMessage c x with
  | error e => rfl
  | ok p =>
    obtain ⟨x', m⟩ := p
    simp [PyCodeTypes.c_FRAME_TYPE_SIZE, PyCodeTypes.c_CRC_SIZE, PyCodeTypes.c_DELIMITER_SIZE, Py.add, asInt?, Py.len]
    omega

theorem Frame_len_eq (env : PyT.Env) (c : FrameCodec V) (err) {cls : Nat} (he : EnvCodec env c err cls) (h : V) (x : PyFrame V) (hx : Wf x) :
    PyCodeTypes.Frame_len env (fobj h x)
      = (match step c x .len with
        | (x', .len n) => .ok (.int n, fobj h x')
        | (_, .raised e) => .error (err e)
        | _ => .error .unsupported) := by
  simp only [PyCodeTypes.Frame_len, Frame_length_eq env c err he h x hx, step]
  cases ensureMessage c x with
  | error e => rfl
  | ok p => rfl

/-- what `ensureMessage` caches keeps the header and the well-formedness -/
theorem ensureMessage_hdr (c : FrameCodec V) (x x' : PyFrame V) (m : List UInt8) (hm : ensureMessage c x = .ok (x', m)) :
    x'.rcpt = x.rcpt ∧ x'.sender = x.sender ∧ x'.etype = x.etype ∧ x'.ever = x.ever ∧ x'.cls = x.cls ∧ x'.data = x.data
      ∧ x'.message = some m := by
  unfold ensureMessage at hm
  split at hm
  · rename_i m0 h0; cases hm; exact ⟨rfl, rfl, rfl, rfl, rfl, rfl, h0⟩
  · split at hm
    · cases hm; exact ⟨rfl, rfl, rfl, rfl, rfl, rfl, rfl⟩
    · cases hm

theorem fmt_hdr : PyT.fmtFields "<BH4B" = some [1, 2, 1, 1, 1, 1] := by
  simp [PyT.fmtFields, PyT.fmtFieldsAux, List.replicate]

theorem u8_of (v : Int) (_h : 0 ≤ v ∧ v < 256) : (v.toNat % 256).toUInt8 = v.toNat.toUInt8 := by
  apply UInt8.toNat_inj.mp
  simp [Nat.toUInt8, UInt8.toNat_ofNat']

/-- the six header fields packed by `struct_header.pack_into`: as `toFields` / `encode` lay them out, or `struct.error` -/
theorem pack_hdr (x : PyFrame V) (m : List UInt8) (hcls : x.cls < 256) :
    PyT.packFields [1, 2, 1, 1, 1, 1] [.int 104, .int ((m.length + 10 : Nat) : Int), .int x.rcpt, .int x.sender, .int x.etype, .int x.ever]
      = (match toFields x m with
        | some f => .ok ((encode f).take 7)
        | none => .error .StructError) := by
  simp only [toFields, byteField]
  by_cases h5 : m.length + 10 < 65536
  · by_cases h1 : 0 ≤ x.rcpt ∧ x.rcpt < 256
    · by_cases h2 : 0 ≤ x.sender ∧ x.sender < 256
      · by_cases h3 : 0 ≤ x.etype ∧ x.etype < 256
        · by_cases h4 : 0 ≤ x.ever ∧ x.ever < 256
          · have e5 : ((m.length + 10 : Nat) : Int) < 65536 := by omega
            simp [PyT.packFields, asInt?, h1, h2, h3, h4, h5, e5, hcls, Py.encodeLE, encode, encodeWith, startByte,
              Gen.frameStart, u8_of]
            have e6 : 0 ≤ (m.length : Int) + 10 ∧ (m.length : Int) + 10 < 65536 := by omega
            have e7 : ((m.length : Int) + 10).toNat = m.length + 10 := by omega
            have e8 : (m.length + 10) / 256 % 256 = (m.length + 10) / 256 := Nat.mod_eq_of_lt (by omega)
            simp [e6, e7, e8]
          · simp [PyT.packFields, asInt?, h1, h2, h3, h4, h5]
        · simp [PyT.packFields, asInt?, h1, h2, h3, h5]
      · simp [PyT.packFields, asInt?, h1, h2, h5]
    · simp [PyT.packFields, asInt?, h1, h5]
  · have e5 : ¬ (0 ≤ (m.length : Int) + 10 ∧ (m.length : Int) + 10 < 65536) := by omega
    simp [PyT.packFields, asInt?, h5, e5]
    split
    · rename_i heq; split at heq <;> simp at heq
    · rfl

/-- `ok_bind` as a proper rewrite rule (not by `rfl`): the kernel then never has to evaluate the continuation, which
compares slot names (strings) -/
theorem ok_bind' {α β : Type} (a : α) (f : α → PyM β) : (Except.ok a >>= f) = f a := by
  simp [bind, Except.bind]

theorem int_of_int (i : Int) : PyT.int_of (.int i) = .ok (.int i) := rfl

theorem zeros7 : Py.bytearray (.int 7) = .ok (.bytes [0, 0, 0, 0, 0, 0, 0]) := by
  simp [Py.bytearray, List.replicate]

theorem pack_into_hdr (args : List V) :
    PyT.struct_pack_into "<BH4B" (.bytes [0, 0, 0, 0, 0, 0, 0]) (.int 0) args
      = (match PyT.packFields [1, 2, 1, 1, 1, 1] args with
        | .ok p => if p.length ≤ 7 then .ok (.bytes (p ++ ([0, 0, 0, 0, 0, 0, 0] : List UInt8).drop p.length)) else .error .StructError
        | .error e => .error e) := by
  simp only [PyT.struct_pack_into, fmt_hdr]
  cases PyT.packFields [1, 2, 1, 1, 1, 1] args with
  | error e => rfl
  | ok p => simp

/-- `Frame.header`: start delimiter, LE16 length, the four header bytes (a `struct.error` when one does not fit) -/
theorem Frame_header_eq (env : PyT.Env) (c : FrameCodec V) (err) {cls : Nat} (he : EnvCodec env c err cls) (h : V) (x : PyFrame V) (hx : Wf x)
    (hcls : x.cls < 256) :
    PyCodeTypes.Frame_header env (fobj h x)
      = (match ensureMessage c x with
        | .ok (x', m) =>
          match toFields x' m with
          | some f => .ok (.bytes ((encode f).take 7), fobj h x')
          | none => .error .StructError
        | .error e => .error (err e)) := by
  simp only [PyCodeTypes.Frame_header, Frame_length_eq env c err he h x hx]
  cases hm : ensureMessage c x with
  | error e => rfl
  | ok p =>
    obtain ⟨x', m⟩ := p
    obtain ⟨_, _, _, _, e5, _, _⟩ := ensureMessage_hdr c x x' m hm
    have hp := pack_hdr x' m (by omega)
    simp only [zeros7, ok_bind', fobj, get_rcpt, get_sender, get_etype, get_ever, isUnset_int, Bool.false_eq_true, if_false,
      int_of_int, pure_eq_ok, PyCodeTypes.c_HEADER_OFFSET, PyCodeTypes.c_FRAME_START,
      pack_into_hdr, hp]
    cases htf : toFields x' m with
    | none => rfl
    | some f =>
      have hl : ((encode f).take 7).length = 7 := by simp [encode, encodeWith]
      simp [hl]

theorem ensureMessage_cached (c : FrameCodec V) (x : PyFrame V) (m : List UInt8) (hm : x.message = some m) :
    ensureMessage c x = .ok (x, m) := by
  simp [ensureMessage, hm]

theorem bcc_same : PyCodeTypes.bcc = PyCode.bcc := rfl

theorem append_byte (b : List UInt8) (n : Nat) (hn : n < 256) :
    PyT.bytearray_append (.bytes b) (.int n) = .ok (.bytes (b ++ [n.toUInt8])) := by
  have h : (0 : Int) ≤ n ∧ (n : Int) < 256 := by omega
  simp [PyT.bytearray_append, Py.byteOfV, asInt?, h]

/-- **`Frame.bytes`** = the model's `bytes` step: the message is encoded if it is not cached (and cached), the header is
packed from the CURRENT header fields and the length of THAT message, then kind, message, BCC over everything before it,
end delimiter — `Frame.encode` -/
theorem Frame_bytes_eq (env : PyT.Env) (c : FrameCodec V) (err) {cls : Nat} (he : EnvCodec env c err cls) (h : V) (x : PyFrame V) (hx : Wf x)
    (hcls : x.cls < 256) (hk : x.cls = cls) :
    PyCodeTypes.Frame_bytes env (fobj h x)
      = (match step c x .bytes with
        | (x', .bytes b) => .ok (.bytes b, fobj h x')
        | (_, .raised e) => .error (err e)
        | _ => .error .unsupported) := by
  simp only [PyCodeTypes.Frame_bytes, Frame_header_eq env c err he h x hx hcls, step]
  cases hm : ensureMessage c x with
  | error e => rfl
  | ok p =>
    obtain ⟨x', m⟩ := p
    obtain ⟨_, _, _, _, e5, e6, e7⟩ := ensureMessage_hdr c x x' m hm
    have hx' : Wf x' := by intro d hd; exact hx d (e6 ▸ hd)
    have hcls' : x'.cls < 256 := by omega
    cases htf : toFields x' m with
    | none => simp only [htf, error_bind, he.struct]
    | some f =>
      simp only [htf]
      have hmsg := Frame_message_eq env c err he h x' hx'
      rw [ensureMessage_cached c x' m e7] at hmsg
      have hf : f = ⟨x'.cls.toUInt8, f.rcpt, f.sender, f.etype, f.ever, m⟩ := by
        simp only [toFields] at htf
        split at htf
        · split at htf
          · cases htf; rfl
          · cases htf
        · cases htf
      have henc : encode f = ((encode f).take 7 ++ [x'.cls.toUInt8] ++ m)
          ++ [PlumVerif.bcc ((encode f).take 7 ++ [x'.cls.toUInt8] ++ m), 0x16] := by
        rw [hf]; simp [encode, encodeWith, endByte, Gen.frameEnd]
      have hne : (encode f).take 7 ++ [x'.cls.toUInt8] ++ m ≠ [] := by simp
      simp only [ok_bind', he.kind h x' (e5.trans hk), append_byte _ _ hcls', hmsg, Py.add, bcc_same, TieFrame.bcc_eq _ hne, pure_eq_ok,
        PyCodeTypes.c_FRAME_END]
      have hb : (Int.ofNat (PlumVerif.bcc ((encode f).take 7 ++ [x'.cls.toUInt8] ++ m)).toNat) =
          (((PlumVerif.bcc ((encode f).take 7 ++ [x'.cls.toUInt8] ++ m)).toNat : Nat) : Int) := rfl
      rw [hb, append_byte _ _ (UInt8.toNat_lt _)]
      simp only [ok_bind']
      have h16 : (V.int 22) = V.int ((22 : Nat) : Int) := rfl
      rw [h16, append_byte _ 22 (by omega)]
      simp only [ok_bind', Py.bytearray, pure_eq_ok]
      conv => rhs; rw [henc]
      simp [Nat.toUInt8]

/-! ### every operation of `Obj.Op` on the translated methods is `Obj.step` -/

/-- one operation through the translated methods: result value and instance afterwards -/
def runOp (env : PyT.Env) (o : V) : Op V → PyM (V × V)
  | .getData => PyCodeTypes.Frame_data env o
  | .getMessage => PyCodeTypes.Frame_message env o
  | .setData d => PyCodeTypes.Frame_data_set env o d
  | .setMessage m => PyCodeTypes.Frame_message_set env o (.bytes m)
  | .bytes => PyCodeTypes.Frame_bytes env o
  | .len => PyCodeTypes.Frame_len env o

/-- the Python value an outcome of the model stands for -/
def outV : Out V → V
  | .data d => d
  | .message m => .bytes m
  | .bytes b => .bytes b
  | .len n => .int n
  | .done => .none
  | .raised _ => .none

/-- the operations the statement speaks about: data values set are data values (not `None`) -/
def OpOk : Op V → Prop
  | .setData d => IsData d
  | _ => True

theorem step_wf (c : FrameCodec V) (hdec : ∀ m d, c.decode m = .ok d → IsData d) (hempty : IsData c.empty)
    (x : PyFrame V) (hx : Wf x) (op : Op V) (hop : OpOk op) : Wf (step c x op).1 := by
  cases op with
  | setData d => intro d' hd'; simp [step] at hd'; exact hd' ▸ hop
  | setMessage m => intro d' hd'; simp [step] at hd'
  | getData =>
    simp only [step, ensureData]
    cases hd : x.data with
    | some d => simpa [hd] using hx
    | none =>
      cases hm : x.message with
      | none => intro d' hd'; simp at hd'; exact hd' ▸ hempty
      | some m =>
        simp only
        cases hdc : c.decode m with
        | error e => simpa using hx
        | ok d => intro d' hd'; simp at hd'; exact hd' ▸ hdec m d hdc
  | getMessage =>
    simp only [step]
    cases hm : ensureMessage c x with
    | error e => exact hx
    | ok p => obtain ⟨x', m⟩ := p; intro d hd; exact hx d ((ensureMessage_hdr c x x' m hm).2.2.2.2.2.1 ▸ hd)
  | bytes =>
    simp only [step]
    cases hm : ensureMessage c x with
    | error e => exact hx
    | ok p =>
      obtain ⟨x', m⟩ := p
      have : Wf x' := by intro d hd; exact hx d ((ensureMessage_hdr c x x' m hm).2.2.2.2.2.1 ▸ hd)
      simp only
      split <;> exact this
  | len =>
    simp only [step]
    cases hm : ensureMessage c x with
    | error e => exact hx
    | ok p => obtain ⟨x', m⟩ := p; intro d hd; exact hx d ((ensureMessage_hdr c x x' m hm).2.2.2.2.2.1 ▸ hd)

/-- **simulation**: one operation on the translated frame object = one step of the model machine (result value and object
state afterwards; an operation that raises in the model raises the corresponding exception) -/
theorem Frame_step_sim (env : PyT.Env) (c : FrameCodec V) (err) {cls : Nat} (he : EnvCodec env c err cls) (h : V) (x : PyFrame V) (hx : Wf x)
    (hcls : x.cls < 256) (hk : x.cls = cls) (op : Op V) :
    runOp env (fobj h x) op
      = (match step c x op with
        | (_, .raised e) => .error (err e)
        | (x', o) => .ok (outV o, fobj h x')) := by
  cases op with
  | getData =>
    simp only [runOp, Frame_data_eq env c err he h x hx, step]
    cases ensureData c x with
    | error e => rfl
    | ok p => rfl
  | getMessage =>
    simp only [runOp, Frame_message_eq env c err he h x hx, step]
    cases ensureMessage c x with
    | error e => rfl
    | ok p => rfl
  | setData d => simp only [runOp, Frame_data_set_eq, step, outV]
  | setMessage m => simp only [runOp, Frame_message_set_eq, step, outV]
  | bytes =>
    simp only [runOp, Frame_bytes_eq env c err he h x hx hcls hk]
    simp only [step]
    cases ensureMessage c x with
    | error e => rfl
    | ok p =>
      obtain ⟨x', m⟩ := p
      simp only
      cases toFields x' m <;> rfl
  | len =>
    simp only [runOp, Frame_len_eq env c err he h x hx, step]
    cases ensureMessage c x with
    | error e => rfl
    | ok p => rfl

/-! ### non-vacuity: the environment of `Request` (empty message, empty dict) is the codec of the plain requests -/

def requestEnv (cls : Nat) : PyT.Env := fun name args =>
  match name, args with
  | "create_message", [_, _] => pure (.bytes [])
  | "decode_message", [_, _] => pure (.dict [] [])
  | "frame_type", [_] => pure (.int cls)
  | _, _ => throw .unsupported

def requestCodec : FrameCodec V := ⟨fun _ _ => .ok [], fun _ => .ok (.dict [] []), .dict [] []⟩

theorem requestEnv_codec (cls : Nat) : EnvCodec (requestEnv cls) requestCodec (fun _ => .StructError) cls where
  create := fun _ _ _ => rfl
  decode := fun _ _ _ => rfl
  decoded := fun _ d hd => by cases hd; exact ⟨rfl, rfl⟩
  empty := rfl
  kind := fun _ _ hk => by rw [hk]; rfl
  struct := rfl

example : PyCodeTypes.Frame_bytes (requestEnv 49) (fobj .none ⟨49, 0, 86, 48, 5, none, none⟩)
    = .ok (.bytes [0x68, 10, 0, 0, 86, 48, 5, 49, 0x68 ^^^ 10 ^^^ 86 ^^^ 48 ^^^ 5 ^^^ 49, 0x16],
        fobj .none ⟨49, 0, 86, 48, 5, some [], none⟩) := by
  rw [Frame_bytes_eq _ _ _ (requestEnv_codec 49) _ _ (by intro d hd; cases hd) (by decide) rfl]
  rfl

end PlumVerif.TieFrameObj

import PlumVerif.Props.TieTypesD
import PlumVerif.Model.NetVersion
/-
Tie: the Lean definition translated from the SOURCE TEXT of `NetworkInfoStructure.decode`
(`pyplumio/structures/network_info.py`; Generated/PyCodeTypes.lean, rewritten by tools/py2lean_types.py on every run) equals the
byte-level model `Net.decodeAt` of Model/NetVersion.lean for ALL messages, all offsets `off : Nat` and all structure
instances: which byte each of the ethernet status (off+12), server status (off+25), encryption (off+26), signal quality
(off+27), wireless status (off+28), SSID length and bytes (off+33 …) and the six addresses (off+0/4/8, off+13/17/21) is read
from, the `EncryptionType(…)` membership test, the returned offset (off+25), and the exception class on every input the
decoder rejects (`decodeErr`: `inet_ntoa` on a short slice is OSError, a missing byte IndexError, an unknown encryption
ValueError — in the order the source evaluates them).  So C03 `net_roundtrip` / C02 `net_layout` (statements about
`Net.decode = Net.decodeAt · 1`) speak about the decoder's source.

WHAT THE STATEMENT EXCLUDES: offsets are `Nat` (a negative offset slices from the end in Python; no caller passes one);
`data` is `None` (as `DeviceAvailableResponse.decode_message` calls it); an SSID that is not valid UTF-8 is `unsupported`
on the code side (`decodeV`: the U+FFFD replacement is not modelled) — for such a message the theorem says only that.
-/
namespace PlumVerif.TieNetInfo
open PlumVerif PlumVerif.Py PlumVerif.Types PlumVerif.TieTypes PlumVerif.TieTypesC PlumVerif.TieTypesD
set_option linter.unusedSimpArgs false

/-- the text of an address -/
def ipV (ip : IP4) : V := .str (dotted ip.a ip.b ip.c ip.d)

/-- the `NetworkInfo` data-class instance a model value stands for (`ssid`: the text the SSID bytes decode to) -/
def netV (n : NetInfo) (ssid : V) : V :=
  Py.mkobj "NetworkInfo" [
    ("eth", Py.mkobj "EthernetParameters" [("ip", ipV n.eth.ip), ("netmask", ipV n.eth.netmask), ("gateway", ipV n.eth.gateway),
      ("status", .bool n.eth.status)]),
    ("wlan", Py.mkobj "WirelessParameters" [("ip", ipV n.wlan.ip), ("netmask", ipV n.wlan.netmask), ("gateway", ipV n.wlan.gateway),
      ("status", .bool n.wlan.status), ("ssid", ssid), ("encryption", .int n.wlan.encryption.toNat),
      ("signal_quality", .int n.wlan.signal.toNat)]),
    ("server_status", .bool n.server)]

/-- the exception `NetworkInfoStructure.decode` raises on a message it rejects: the first failing step, in source order -/
def decodeErr (m : List Byte) (off : Nat) : PyErr :=
  match Net.ip4At m off with
  | none => .OSError
  | some _ =>
  match Net.ip4At m (off + 4) with
  | none => .OSError
  | some _ =>
  match Net.ip4At m (off + 8) with
  | none => .OSError
  | some _ =>
  match Net.at? m (off + 12) with
  | none => .IndexError
  | some _ =>
  match Net.ip4At m (off + 13) with
  | none => .OSError
  | some _ =>
  match Net.ip4At m (off + 17) with
  | none => .OSError
  | some _ =>
  match Net.ip4At m (off + 21) with
  | none => .OSError
  | some _ =>
  match Net.at? m (off + 26) with
  | none => .IndexError
  | some e => bif Net.encOk e then .IndexError else .ValueError

/-! ### the steps -/

theorem ip_from_bytes (m : List UInt8) (off : Nat) :
    PyCodeTypes.IPv4_from_bytes (.bytes m) (.int off)
      = (match Net.ip4At m off with
        | some ip => .ok (obj2 "IPv4" (some (ipV ip)) (.int 0))
        | none => .error .OSError) := by
  rw [IPv4_from_bytes_eq]
  simp only [addrCodec, Net.ip4At]
  generalize m.drop off = d
  rcases d with _ | ⟨a, _ | ⟨b, _ | ⟨c, _ | ⟨e, r⟩⟩⟩⟩ <;> simp [ipText, ipV]
  have h : ¬ (r.length + 1 + 1 + 1 + 1 < 4) := by omega
  simp [h]

@[simp] theorem ip_value (ip : IP4) (n : V) :
    PyCodeTypes.IPv4_value (obj2 "IPv4" (some (ipV ip)) n) = .ok (ipV ip, obj2 "IPv4" (some (ipV ip)) n) := by
  simp [PyCodeTypes.IPv4_value, obj2, slotV, ipV]

theorem index_at (m : List UInt8) (i : Nat) :
    Py.index (.bytes m) (.int i)
      = (match Net.at? m i with
        | some b => .ok (.int b.toNat)
        | none => .error .IndexError) := by
  simp only [Py.index, asInt?, Option.getD, Py.normIndex, Net.at?]
  by_cases h : i < m.length
  · have h' : (i : Int) < (m.length : Int) := by omega
    simp [h, h', Py.byteV, List.getD]
  · have h' : ¬ (i : Int) < (m.length : Int) := by omega
    simp [h, h']

theorem var_from_bytes (m : List UInt8) (off : Nat) :
    PyCodeTypes.VarString_from_bytes (.bytes m) (.int off)
      = (match Net.varStringAt m off with
        | some w => (decodeV w).bind fun t => .ok (obj2 "VarString" (some t) (.int ((m.getD off 0).toNat + 1 : Nat)))
        | none => .error .IndexError) := by
  rw [VarString_from_bytes_eq]
  simp only [varCodec, Net.varStringAt]
  have hd : m.getD off 0 = (m.drop off).getD 0 0 := by simp [List.getD]
  rw [hd]
  generalize m.drop off = d
  rcases d with _ | ⟨a, r⟩ <;> simp

theorem truthy_byte (b : UInt8) : Py.bool (.int b.toNat) = .ok (.bool (b != 0)) := by
  have : ((b.toNat : Int) = 0) ↔ b = 0 := by
    constructor
    · intro h; apply UInt8.toNat_inj.mp; simp; omega
    · intro h; simp [h]
  by_cases hb : b = 0
  · simp [Py.bool, Py.truthy, hb]
  · have h2 : ¬ ((b.toNat : Int) = 0) := fun h => hb (this.mp h)
    have e1 : ((b.toNat : Int) != 0) = true := bne_iff_ne.mpr h2
    have e2 : (b != 0) = true := bne_iff_ne.mpr hb
    simp [Py.bool, Py.truthy, e1, e2]

theorem enc_fin : ∀ n : Fin 256, (PyCodeTypes.e_EncryptionType.contains (n.val : Int)) = Gen.encryptionTypes.any (·.2 == n.val) := by
  decide +kernel

theorem enc_call (b : UInt8) :
    Py.enum_call PyCodeTypes.e_EncryptionType (.int b.toNat) = if Net.encOk b then .ok (.int b.toNat) else .error .ValueError := by
  have := enc_fin ⟨b.toNat, b.toNat_lt⟩
  simp only at this
  simp only [Py.enum_call, Net.encOk, this]
  rfl

theorem add_nat (a b : Nat) : Py.add (.int (a : Int)) (.int (b : Int)) = .ok (.int ((a + b : Nat) : Int)) := by
  simp [Py.add, asInt?]

theorem add_lit (off k : Nat) : Py.add (.int (off : Int)) (.int (Int.ofNat k)) = .ok (.int ((off + k : Nat) : Int)) := add_nat off k

set_option maxHeartbeats 20000 in  -- a proof of 2 s; the cap makes a broken tie (rewritten source) fail in seconds, not minutes
/-- **`NetworkInfoStructure.decode`** (as called by `DeviceAvailableResponse.decode_message`: no data dict yet) = `Net.decodeAt`:
the decoded `NetworkInfo` under the key "network" and the offset advanced by 25; a rejected message raises `decodeErr` -/
theorem NetworkInfoStructure_decode_eq (self : V) (m : List UInt8) (off : Nat) :
    PyCodeTypes.NetworkInfoStructure_decode self (.bytes m) (.int off) .none
      = (match Net.decodeAt m off with
        | some n => (decodeV n.wlan.ssid).bind fun t =>
            .ok (.tuple [.dict ["network"] [netV n t], .int ((off + 25 : Nat) : Int)], self)
        | none => .error (decodeErr m off)) := by
  have a4 : Py.add (.int (off : Int)) (.int 4) = _ := add_lit off 4
  have a8 : Py.add (.int (off : Int)) (.int 8) = _ := add_lit off 8
  have a12 : Py.add (.int (off : Int)) (.int 12) = _ := add_lit off 12
  have a13 : Py.add (.int (off : Int)) (.int 13) = _ := add_lit off 13
  have a17 : Py.add (.int (off : Int)) (.int 17) = _ := add_lit off 17
  have a21 : Py.add (.int (off : Int)) (.int 21) = _ := add_lit off 21
  have a25 : Py.add (.int (off : Int)) (.int 25) = _ := add_lit off 25
  have a26 : Py.add (.int (off : Int)) (.int 26) = _ := add_lit off 26
  have a27 : Py.add (.int (off : Int)) (.int 27) = _ := add_lit off 27
  have a28 : Py.add (.int (off : Int)) (.int 28) = _ := add_lit off 28
  have a33 : Py.add (.int (off : Int)) (.int 33) = _ := add_lit off 33
  unfold PyCodeTypes.NetworkInfoStructure_decode
  simp only [a4, a8, a12, a13, a17, a21, a25, a26, a27, a28, a33, PyCodeTypes.c_NETWORK_INFO_SIZE, ok_bind, ip_from_bytes,
    index_at, var_from_bytes, Net.decodeAt, decodeErr, truthy_byte]
  cases h1 : Net.ip4At m off with
  | none => rfl
  | some eip =>
  cases h2 : Net.ip4At m (off + 4) with
  | none => rfl
  | some emask =>
  cases h3 : Net.ip4At m (off + 8) with
  | none => rfl
  | some egw =>
  cases h4 : Net.at? m (off + 12) with
  | none => rfl
  | some est =>
  cases h5 : Net.ip4At m (off + 13) with
  | none => rfl
  | some wip =>
  cases h6 : Net.ip4At m (off + 17) with
  | none => rfl
  | some wmask =>
  cases h7 : Net.ip4At m (off + 21) with
  | none => rfl
  | some wgw =>
  cases h8 : Net.at? m (off + 26) with
  | none => rfl
  | some enc =>
  have hi : PyT.int_of (.int enc.toNat) = .ok (.int enc.toNat) := rfl
  simp only [ok_bind, ip_value, truthy_byte, hi, enc_call]
  simp only [Option.bind_eq_bind, Option.bind_some]
  cases he : Net.encOk enc with
  | false => rfl
  | true =>
  simp only [if_true, ok_bind, not_true_eq_false, if_false, cond_true]
  cases h9 : Net.at? m (off + 27) with
  | none => rfl
  | some sig =>
  cases h10 : Net.at? m (off + 28) with
  | none => rfl
  | some wst =>
  cases h11 : Net.varStringAt m (off + 33) with
  | none => rfl
  | some ssid =>
  cases h12 : Net.at? m (off + 25) with
  | none =>
    exfalso
    simp only [Net.at?, Net.varStringAt] at h11 h12
    have : m.length ≤ off + 25 := by
      rcases Nat.lt_or_ge (off + 25) m.length with h | h
      · simp [List.getElem?_eq_getElem h] at h12
      · exact h
    rw [List.drop_eq_nil_of_le (by omega)] at h11
    simp at h11
  | some srv =>
  have hs : PyT.int_of (.int sig.toNat) = .ok (.int sig.toNat) := rfl
  simp only [ok_bind, hs, truthy_byte, Option.bind_some]
  show _ = Except.bind (decodeV ssid) _
  cases hd : decodeV ssid with
  | error e => rfl
  | ok t =>
  have ht : PyT.isUnset t = false := by
    simp only [decodeV] at hd
    cases hu : String.fromUTF8? ⟨ssid.toArray⟩ with
    | none => simp [hu] at hd
    | some s => simp [hu] at hd; subst hd; rfl
  simp only [Except.bind, ok_bind, VarString_value_eq t ht]
  simp [PyCodeTypes.ensure_dict, Py.isNotNone, Py.truthy, Py.forLoop, Py.iter, Py.or, Py.dictMerge, Py.dictSet, netV, Py.mkobj]

/-- … as `DeviceAvailableResponse.decode_message` calls it (offset 1): `Net.decode` -/
theorem NetworkInfoStructure_decode_msg (self : V) (m : List UInt8) :
    PyCodeTypes.NetworkInfoStructure_decode self (.bytes m) (.int 1) .none
      = (match Net.decode m with
        | some n => (decodeV n.wlan.ssid).bind fun t => .ok (.tuple [.dict ["network"] [netV n t], .int 26], self)
        | none => .error (decodeErr m 1)) :=
  NetworkInfoStructure_decode_eq self m 1

/-- the exception classes by message length: a message that stops inside / before an address is OSError (`inet_ntoa`), one that
stops right before a status / encryption byte IndexError; from 27 bytes after the offset on the class depends on the
encryption byte (ValueError when `EncryptionType(…)` rejects it, IndexError for the bytes that follow) -/
theorem decodeErr_by_length (m : List Byte) (off : Nat) :
    decodeErr m off =
      if m.length < off + 12 then .OSError
      else if m.length = off + 12 then .IndexError
      else if m.length < off + 25 then .OSError
      else if m.length ≤ off + 26 then .IndexError
      else if Net.encOk (m.getD (off + 26) 0) then .IndexError else .ValueError := by
  have ipn : ∀ k, Net.ip4At m k = none ↔ m.length < k + 4 := by
    intro k
    have hl : (m.drop k).length = m.length - k := List.length_drop
    simp only [Net.ip4At]
    generalize m.drop k = d at hl
    rcases d with _ | ⟨a, _ | ⟨b, _ | ⟨c, _ | ⟨e, r⟩⟩⟩⟩ <;> simp at hl ⊢ <;> omega
  have atn : ∀ k, Net.at? m k = none ↔ m.length ≤ k := by
    intro k; simp [Net.at?]
  unfold decodeErr
  split
  · rename_i h; rw [ipn] at h; simp [show m.length < off + 12 by omega]
  · split
    · rename_i h; rw [ipn] at h; simp [show m.length < off + 12 by omega]
    · split
      · rename_i h; rw [ipn] at h; simp [show m.length < off + 12 by omega]
      · rename_i _ h3; have h3' : ¬ m.length < off + 8 + 4 := fun c => by rw [(ipn _).mpr c] at h3; cases h3
        split
        · rename_i h; rw [atn] at h
          simp [show ¬ m.length < off + 12 by omega, show m.length = off + 12 by omega]
        · rename_i _ h4; have h4' : ¬ m.length ≤ off + 12 := fun c => by rw [(atn _).mpr c] at h4; cases h4
          split
          · rename_i h; rw [ipn] at h
            simp [show ¬ m.length < off + 12 by omega, show ¬ m.length = off + 12 by omega, show m.length < off + 25 by omega]
          · split
            · rename_i h; rw [ipn] at h
              simp [show ¬ m.length < off + 12 by omega, show ¬ m.length = off + 12 by omega, show m.length < off + 25 by omega]
            · split
              · rename_i h; rw [ipn] at h
                simp [show ¬ m.length < off + 12 by omega, show ¬ m.length = off + 12 by omega, show m.length < off + 25 by omega]
              · rename_i _ h7; have h7' : ¬ m.length < off + 21 + 4 := fun c => by rw [(ipn _).mpr c] at h7; cases h7
                split
                · rename_i h; rw [atn] at h
                  simp [show ¬ m.length < off + 12 by omega, show ¬ m.length = off + 12 by omega,
                    show ¬ m.length < off + 25 by omega, show m.length ≤ off + 26 by omega]
                · rename_i e h8
                  have h8' : ¬ m.length ≤ off + 26 := fun c => by rw [(atn _).mpr c] at h8; cases h8
                  have he : m[off + 26]?.getD 0 = e := by
                    simp only [Net.at?] at h8
                    simp [h8]
                  simp [show ¬ m.length < off + 12 by omega, show ¬ m.length = off + 12 by omega,
                    show ¬ m.length < off + 25 by omega, h8', he]

/-- non-vacuity: a real DeviceAvailable message body (offset 1) decodes, through the translated source, to the expected object -/
example : PyCodeTypes.NetworkInfoStructure_decode .none
      (.bytes [1, 192, 168, 1, 2, 255, 255, 255, 0, 192, 168, 1, 1, 1, 192, 168, 2, 2, 255, 255, 255, 0, 192, 168, 2, 1, 1, 4, 90, 0,
        0, 0, 0, 0, 2, 0x68, 0x69]) (.int 1) .none
    = .ok (.tuple [.dict ["network"] [netV ⟨⟨⟨192, 168, 1, 2⟩, ⟨255, 255, 255, 0⟩, ⟨192, 168, 1, 1⟩, true⟩,
        ⟨⟨192, 168, 2, 2⟩, ⟨255, 255, 255, 0⟩, ⟨192, 168, 2, 1⟩, false, [0x68, 0x69], 4, 90⟩, true⟩ (.str "hi")], .int 26], .none) := by
  rw [NetworkInfoStructure_decode_msg]
  have h : decodeV [0x68, 0x69] = .ok (.str "hi") := decodeV_utf8 "hi"
  exact (congrArg (fun d => Except.bind d _) h).trans rfl

/-- non-vacuity of the error side: 24 bytes after the offset stop inside the wireless gateway: OSError; unknown encryption: ValueError -/
example : PyCodeTypes.NetworkInfoStructure_decode .none (.bytes (List.replicate 25 0)) (.int 1) .none = .error .OSError := by
  rw [NetworkInfoStructure_decode_msg]; rfl
example : PyCodeTypes.NetworkInfoStructure_decode .none (.bytes (List.replicate 27 0 ++ [9] ++ List.replicate 8 0)) (.int 1) .none
    = .error .ValueError := by
  rw [NetworkInfoStructure_decode_msg]; rfl

end PlumVerif.TieNetInfo

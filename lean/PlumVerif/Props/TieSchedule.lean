import PlumVerif.Generated.PyCode
import PlumVerif.Proofs.PyLemmas
import PlumVerif.Model.Schedule
import PlumVerif.Model.DecodeMisc
import PlumVerif.Model.Requests
/-
Tie: the Lean definitions translated from the SOURCE TEXT of `pyplumio/structures/schedules.py:
_split_byte, _join_bits` (Generated/PyCode.lean, rewritten by tools/py2lean.py on every run) equal
the hand-written models `Sched.splitByte` / `Sched.joinBits` (Model/Schedule.lean), `P2.splitByte` /
`P2.joinBits` (Model/DecodeMisc.lean) and `Req.joinBits` (Model/Requests.lean) on every input.
-/
namespace PlumVerif.TieSchedule
open PlumVerif.Py

/-! ### leaf facts about bit masks -/

theorem int_one_shl (k : Nat) : (1 : Int) <<< k = ((2 ^ k : Nat) : Int) := by
  have := shl_natCast 1 k
  simpa [Nat.one_shiftLeft] using this

theorem and_two_pow_ne_zero (n k : Nat) : (n &&& 2 ^ k != 0) = n.testBit k := by
  cases h : n.testBit k
  · have h0 : n &&& 2 ^ k = 0 := by
      apply Nat.eq_of_testBit_eq
      intro i
      by_cases hk : k = i
      · subst hk; simp [Nat.testBit_and, h]
      · simp [Nat.testBit_and, hk]
    simp [h0]
  · have h1 : (n &&& 2 ^ k).testBit k = true := by simp [Nat.testBit_and, h]
    have h2 : n &&& 2 ^ k ≠ 0 := by
      intro h0; rw [h0] at h1; simp at h1
    simp [h2]

/-- `bool(n & (1 << k))` is bit `k` of `n` -/
theorem mask_ne_zero (n k : Nat) : (iand (n : Int) ((1 : Int) <<< k) != 0) = n.testBit k := by
  rw [int_one_shl, iand_natCast, ← and_two_pow_ne_zero]
  cases h : (n &&& 2 ^ k != 0) <;> simp_all

/-- the form `simp` gives the mask of bit 0 (`1 <<< 0` is folded to `1`) -/
theorem mask_one_ne_zero (n : Nat) : (iand (n : Int) 1 != 0) = n.testBit 0 := by
  simpa using mask_ne_zero n 0

/-! ### `_split_byte` -/

/-- the translated `_split_byte` on a byte gives the model's eight bits, most significant first -/
theorem split_byte_eq (b : UInt8) :
    PyCode.split_byte (byteV b) = .ok (.list ((Sched.splitByte b).map .bool)) := by
  simp [PyCode.split_byte, Py.range, Py.reversed, Py.listComp, Py.iter, List.range, List.range.loop,
    Py.lshift, Py.and, Py.bool, Py.truthy, asInt?, bothBool?, byteV, Sched.splitByte,
    mask_ne_zero, mask_one_ne_zero]

example : PyCode.split_byte (byteV 0xA5)
    = .ok (.list [.bool true, .bool false, .bool true, .bool false,
                  .bool false, .bool true, .bool false, .bool true]) := rfl

example : PyCode.split_byte (byteV 0xA5) = .ok (.list ((Sched.splitByte 0xA5).map .bool)) :=
  split_byte_eq 0xA5

theorem u8_ne_zero (x : UInt8) : (x != 0) = (x.toNat != 0) := by
  rw [Bool.eq_iff_iff, bne_iff_ne, bne_iff_ne, Ne, Ne, ← UInt8.toNat_inj]
  exact Iff.rfl

theorem u8_mask (b : UInt8) (k : Nat) (hk : k < 8) :
    (b &&& (2 ^ k : Nat).toUInt8 != 0) = b.toNat.testBit k := by
  have hp : 2 ^ k < 256 := by
    have : 2 ^ k < 2 ^ 8 := Nat.pow_lt_pow_right (by omega) hk
    simpa using this
  have ht : (b &&& (2 ^ k : Nat).toUInt8).toNat = b.toNat &&& 2 ^ k := by
    rw [UInt8.toNat_and]
    simp [Nat.toUInt8, UInt8.toNat_ofNat', Nat.mod_eq_of_lt hp]
  rw [u8_ne_zero, ht, and_two_pow_ne_zero]

/-- the two hand-written models of `_split_byte` agree -/
theorem p2_splitByte_eq (b : UInt8) : P2.splitByte b = Sched.splitByte b := by
  have h7 := u8_mask b 7 (by omega)
  have h6 := u8_mask b 6 (by omega)
  have h5 := u8_mask b 5 (by omega)
  have h4 := u8_mask b 4 (by omega)
  have h3 := u8_mask b 3 (by omega)
  have h2 := u8_mask b 2 (by omega)
  have h1 := u8_mask b 1 (by omega)
  have h0 := u8_mask b 0 (by omega)
  simp only [P2.splitByte, Sched.splitByte, List.map_cons, List.map_nil]
  exact (by
    rw [← h7, ← h6, ← h5, ← h4, ← h3, ← h2, ← h1, ← h0]; rfl)

theorem split_byte_eq_p2 (b : UInt8) :
    PyCode.split_byte (byteV b) = .ok (.list ((P2.splitByte b).map .bool)) := by
  rw [p2_splitByte_eq]; exact split_byte_eq b

example : PyCode.split_byte (byteV 0x81) = .ok (.list ((P2.splitByte 0x81).map .bool)) :=
  split_byte_eq_p2 0x81

/-! ### `_join_bits` -/

/-- `(n << 1) | bit` on a natural number -/
theorem shl_one_or_bit (n : Nat) (y : Bool) : n <<< 1 ||| y.toNat = n * 2 + y.toNat := by
  have hy : y.toNat < 2 ^ 1 := by cases y <;> simp
  rw [← Nat.shiftLeft_add_eq_or_of_lt hy, Nat.shiftLeft_eq]

/-- one step of the `reduce`, `(acc << 1) | bit`: the accumulator is a number (an int, or the
first bit: a bool) -/
theorem join_step (acc : V) (a : Nat) (y : Bool) (h : asInt? acc = some (a : Int)) :
    (do let t1 ← Py.lshift acc (V.int 1); let t2 ← Py.or t1 (.bool y); pure t2 : PyM V)
      = .ok (.int ((a * 2 + y.toNat : Nat) : Int)) := by
  have hy : (if y then (1 : Int) else 0) = ((y.toNat : Nat) : Int) := by cases y <;> rfl
  have h1 : asInt? (V.int 1) = some 1 := rfl
  have hl : Py.lshift acc (V.int 1) = .ok (.int ((a : Int) <<< 1)) := by
    simp [Py.lshift, h, h1]
  rw [hl]
  simp only [Py.or, asInt?, bothBool?, hy, shl_natCast, ior_natCast, shl_one_or_bit, ok_bind,
    pure_eq_ok]

/-- a fold whose step is `(acc << 1) | bit`, from a non-negative int -/
theorem fold_join (f : V → V → PyM V)
    (hf : ∀ (acc : V) (a : Nat) (y : Bool), asInt? acc = some (a : Int) →
      f acc (.bool y) = .ok (.int ((a * 2 + y.toNat : Nat) : Int)))
    (xs : List Bool) (a : Nat) :
    List.foldlM f (.int (a : Int)) (xs.map .bool)
      = .ok (.int ((xs.foldl (fun acc b => acc * 2 + b.toNat) a : Nat) : Int)) := by
  induction xs generalizing a with
  | nil => rfl
  | cons x xs ih =>
    simp only [List.map_cons, List.foldlM_cons, List.foldl_cons, hf (.int a) a x rfl, ok_bind]
    exact ih (a * 2 + x.toNat)

/-- `reduce(f, bits)` of such a step over two or more bools -/
theorem reduce_join (f : V → V → PyM V)
    (hf : ∀ (acc : V) (a : Nat) (y : Bool), asInt? acc = some (a : Int) →
      f acc (.bool y) = .ok (.int ((a * 2 + y.toNat : Nat) : Int)))
    (x y : Bool) (ys : List Bool) :
    Py.reduce f (.list ((x :: y :: ys).map .bool))
      = .ok (.int (Int.ofNat (Sched.joinBits (x :: y :: ys)))) := by
  have hx : asInt? (.bool x) = some ((x.toNat : Nat) : Int) := by cases x <;> rfl
  simp only [Py.reduce, Py.iter, List.map_cons, pure_eq_ok, ok_bind, List.foldlM_cons,
    hf (.bool x) x.toNat y hx, fold_join f hf]
  simp [Sched.joinBits]

/-- more than one bit: the answer is an int with the model's value -/
theorem join_bits_eq_int (x y : Bool) (ys : List Bool) :
    PyCode.join_bits (.list ((x :: y :: ys).map .bool))
      = .ok (.int (Int.ofNat (Sched.joinBits (x :: y :: ys)))) := by
  unfold PyCode.join_bits
  rw [reduce_join]
  intro acc a y h
  exact join_step acc a y h

/-- the translated `_join_bits` on a non-empty list of bools is a number (the bool itself for one
element, an int for more) with the model's value -/
theorem join_bits_eq (bits : List Bool) (h : bits ≠ []) :
    ∃ v, PyCode.join_bits (.list (bits.map .bool)) = .ok v
      ∧ asInt? v = some (Int.ofNat (Sched.joinBits bits)) := by
  cases bits with
  | nil => exact absurd rfl h
  | cons x xs =>
    cases xs with
    | nil => exact ⟨.bool x, rfl, by cases x <;> rfl⟩
    | cons y ys => exact ⟨_, join_bits_eq_int x y ys, rfl⟩

/-- `reduce` without an initial value raises TypeError on the empty list -/
theorem join_bits_empty : PyCode.join_bits (.list []) = .error .TypeError := rfl

example : PyCode.join_bits (.list ([true, false, true].map .bool)) = .ok (.int 5) := rfl
example : PyCode.join_bits (.list ([true].map .bool)) = .ok (.bool true) := rfl
example : Sched.joinBits [true, false, true] = 5 := rfl

/-! ### the other models of `_join_bits` -/

theorem req_joinBits_eq (bits : List Bool) : Req.joinBits bits = Sched.joinBits bits := by
  unfold Req.joinBits Sched.joinBits
  congr 1
  funext acc b
  omega

theorem join_bits_eq_req (bits : List Bool) (h : bits ≠ []) :
    ∃ v, PyCode.join_bits (.list (bits.map .bool)) = .ok v
      ∧ asInt? v = some (Int.ofNat (Req.joinBits bits)) := by
  rw [req_joinBits_eq]; exact join_bits_eq bits h

example : ∃ v, PyCode.join_bits (.list ([true, true, false].map .bool)) = .ok v
    ∧ asInt? v = some (Int.ofNat (Req.joinBits [true, true, false])) :=
  join_bits_eq_req _ (by simp)

theorem foldl_join_lt (bits : List Bool) (n : Nat) :
    bits.foldl (fun acc b => acc * 2 + b.toNat) n < (n + 1) * 2 ^ bits.length := by
  induction bits generalizing n with
  | nil => simp
  | cons b bs ih =>
    have hb : b.toNat ≤ 1 := by cases b <;> simp
    simp only [List.foldl_cons, List.length_cons, Nat.pow_succ]
    calc bs.foldl (fun acc b => acc * 2 + b.toNat) (n * 2 + b.toNat)
        < (n * 2 + b.toNat + 1) * 2 ^ bs.length := ih _
      _ ≤ ((n + 1) * 2) * 2 ^ bs.length := Nat.mul_le_mul_right _ (by omega)
      _ = (n + 1) * (2 ^ bs.length * 2) := by rw [Nat.mul_assoc, Nat.mul_comm 2]

theorem joinBits_lt (bits : List Bool) : Sched.joinBits bits < 2 ^ bits.length := by
  have := foldl_join_lt bits 0
  simpa [Sched.joinBits] using this

theorem foldl_p2_join (bits : List Bool) (acc : UInt8) (n : Nat) (h : acc.toNat = n % 256) :
    (bits.foldl (fun (acc : UInt8) b => acc * 2 + (if b then 1 else 0)) acc).toNat
      = bits.foldl (fun acc b => acc * 2 + b.toNat) n % 256 := by
  induction bits generalizing acc n with
  | nil => simpa using h
  | cons b bs ih =>
    simp only [List.foldl_cons]
    apply ih
    cases b <;> simp [UInt8.toNat_add, UInt8.toNat_mul, h] <;> omega

/-- the byte model is the number model modulo 256 -/
theorem p2_joinBits_toNat (bits : List Bool) :
    (P2.joinBits bits).toNat = Sched.joinBits bits % 256 :=
  foldl_p2_join bits 0 0 rfl

/-- on (at most) eight bits the byte model is the number model -/
theorem p2_joinBits_toNat_of_le (bits : List Bool) (h : bits.length ≤ 8) :
    (P2.joinBits bits).toNat = Sched.joinBits bits := by
  rw [p2_joinBits_toNat]
  apply Nat.mod_eq_of_lt
  have h1 := joinBits_lt bits
  have h2 : 2 ^ bits.length ≤ 2 ^ 8 := Nat.pow_le_pow_right (by omega) h
  omega

theorem join_bits_eq_p2 (bits : List Bool) (h : bits.length = 8) :
    ∃ v, PyCode.join_bits (.list (bits.map .bool)) = .ok v
      ∧ asInt? v = some (Int.ofNat (P2.joinBits bits).toNat) := by
  rw [p2_joinBits_toNat_of_le bits (by omega)]
  exact join_bits_eq bits (by intro h0; rw [h0] at h; simp at h)

example : ∃ v, PyCode.join_bits (.list ([true, false, true, false, false, true, false, true].map .bool)) = .ok v
    ∧ asInt? v = some (Int.ofNat (P2.joinBits [true, false, true, false, false, true, false, true]).toNat) :=
  join_bits_eq_p2 _ rfl

example : (P2.joinBits [true, false, true, false, false, true, false, true]).toNat = 0xA5 := by decide

end PlumVerif.TieSchedule

import PlumVerif.Props.C08Lifetime
import PlumVerif.Spec.C06L
/-
C06 over the LIFETIME of a parameter: any number of `set()` calls, one after the other or OVERLAPPING,
interleaved with controller reports that move the bounds (machine `SetL`: every running call is a one-call
machine `SetM` stepping on the shared `_values`; `Parameter.update` replaces the whole triple).

What is true of the code that exists — the range is checked ONCE, in the step of the call, against the triple
held at that moment (= the last report, value possibly overwritten by accepted calls):

  * `tx_checked_at_own_call`   every set request of call `id`, in ANY history, carries the value of that call,
                               and that value was within the bounds held when the call was made;
  * `refused_call_never_transmits`  a call outside the bounds held when it is made raises at once, and nothing is
                               ever transmitted on its behalf, whatever other calls are running;
  * `sync_first_attempt_at_call`  when the executor answers synchronously the first attempt of an accepted call is
                               queued IN THE STEP OF THE CALL (no report can come between check and transmission);
  * `unmoved_bounds_in_range`  a transmission of call `id` with no report between the call and the transmission lies
                               within the last reported bounds — so an out-of-bounds transmission needs a report
                               handled while THAT call was running (open finding F7, exactly);
  * `judge_never_blames_the_machine`  the harness judge `C06L.judge` never answers `violation` on the machine's own
                               observation: `violation` = a transmission the check-once code cannot make.
-/
namespace PlumVerif.C06
open PlumVerif.SetM PlumVerif.SetL PlumVerif.C06L

/-- every output carries the number of a call that has been made -/
theorem step_out_id_lt (s : LSt) (w : WFL s) (e : Ev) : ∀ x ∈ (SetL.step s e).2, x.id < (SetL.step s e).1.nextId := by
  intro x hx
  rcases step_kind s e with ⟨id, c, ev, rest, hc, _, h, _⟩ | ⟨v, r, T, _, h⟩ | ⟨h2, _, _, _⟩
  · rw [h, act_outs] at hx
    rw [h, act_nextId]
    obtain ⟨o, _, rfl⟩ := List.mem_map.mp hx
    exact id_lt_of_some s w id c hc
  · rw [h, act_outs] at hx
    rw [h, act_nextId]
    obtain ⟨o, _, rfl⟩ := List.mem_map.mp hx
    exact Nat.lt_succ_self _
  · rw [h2] at hx; cases hx

theorem run_nextId_mono (s : LSt) (es : List Ev) : s.nextId ≤ (SetL.run s es).1.nextId := by
  induction es generalizing s with
  | nil => exact Nat.le_refl _
  | cons e es ih => rw [SetL.run_cons]; exact Nat.le_trans (nextId_mono s e) (ih _)

theorem run_out_id_lt (s : LSt) (w : WFL s) (es : List Ev) : ∀ x ∈ (SetL.run s es).2, x.id < (SetL.run s es).1.nextId := by
  induction es generalizing s with
  | nil => intro x hx; cases hx
  | cons e es ih =>
    intro x hx
    rw [SetL.run_cons] at hx ⊢
    rcases List.mem_append.mp hx with h | h
    · exact Nat.lt_of_lt_of_le (step_out_id_lt s w e x h) (run_nextId_mono _ es)
    · exact ih _ (step_wfl s e w) x h

/-- **tx_checked_at_own_call**: in ANY history (calls may overlap, reports may move the bounds at any time) a set
request queued by the call made after the prefix `pre` carries that call's value, and that value differed from the
value held and lay within the inclusive bounds held WHEN THE CALL WAS MADE. -/
theorem tx_checked_at_own_call (loc : Triple) (tr h : Bool) (t0 : Nat) (pre : List Ev) (v r T : Nat) (post : List Ev) :
    let s := (SetL.run (SetL.init loc tr h t0) pre).1
    ∀ v' t, (⟨s.nextId, .txSet v' t⟩ : LOut) ∈ (SetL.run (SetL.init loc tr h t0) (pre ++ .call v r T :: post)).2 →
      v' = v ∧ v ≠ s.g.loc.value ∧ s.g.loc.min ≤ v ∧ v ≤ s.g.loc.max := by
  intro s v' t hx
  have w : WFL s := run_wfl _ pre (init_wfl loc tr h t0)
  rw [SetL.run_append] at hx
  rcases List.mem_append.mp hx with hpre | hpost
  · exact absurd (run_out_id_lt _ (init_wfl loc tr h t0) pre _ hpre) (Nat.lt_irrefl _)
  · have hv := mem_txVals_outsOf _ _ _ _ hpost
    have hval : v' = v := by
      obtain ⟨r', T', hc⟩ := (future_run s (.call v r T :: post) w s.nextId (Nat.le_refl _)).1 v' hv
      simp only [Nat.sub_self, callArgs] at hc
      injection hc with hc
      exact (Prod.mk.inj hc).1.symm
    refine ⟨hval, ?_⟩
    -- a call that is a no-op or out of range never transmits
    by_cases hrej : v = s.g.loc.value ∨ v < s.g.loc.min ∨ v > s.g.loc.max
    · exfalso
      obtain ⟨hs, ho⟩ := rejected_step s w v r T hrej
      rw [SetL.run_cons, outsOf_append, txVals_append, List.mem_append] at hv
      rcases hv with hv | hv
      · rcases ho with ho | ho <;> (rw [ho] at hv; simp [outsOf, txVals] at hv)
      · have w' : WFL (SetL.step s (.call v r T)).1 := step_wfl s _ w
        have hdead := dead_run (SetL.step s (.call v r T)).1 post w' s.nextId
          (by rw [hs]; exact Nat.lt_succ_self _) (by rw [hs]; exact w.fresh _ (Nat.le_refl _))
        rw [hdead] at hv
        simp [txVals] at hv
    · refine ⟨fun hh => hrej (Or.inl hh), ?_, ?_⟩ <;> omega

/-- **refused_call_never_transmits**: a call whose value lies outside the bounds held when it is made raises at
once — also while other calls are running — and no set request is ever queued on its behalf. -/
theorem refused_call_never_transmits (loc : Triple) (tr h : Bool) (t0 : Nat) (pre : List Ev) (v r T : Nat) (post : List Ev)
    (hout : let s := (SetL.run (SetL.init loc tr h t0) pre).1
            v ≠ s.g.loc.value ∧ (v < s.g.loc.min ∨ v > s.g.loc.max)) :
    let s := (SetL.run (SetL.init loc tr h t0) pre).1
    (SetL.step s (.call v r T)).2 = [⟨s.nextId, .raise s.g.now⟩] ∧
    ∀ v' t, (⟨s.nextId, .txSet v' t⟩ : LOut) ∉ (SetL.run (SetL.init loc tr h t0) (pre ++ .call v r T :: post)).2 := by
  intro s
  have w : WFL s := run_wfl _ pre (init_wfl loc tr h t0)
  constructor
  · -- not the no-op: the value differs from the held one
    have hstep : SetL.step s (.call v r T) =
        act { s with nextId := s.nextId + 1 } s.nextId { s.g with phase := .idle } (.call v r T) s.builds := rfl
    rw [hstep, act_outs]
    have hv0 : sync s.g { s.g with phase := .idle } = { s.g with phase := .idle } := rfl
    rw [hv0]
    have : SetM.step { s.g with phase := .idle } (.call v r T) = ({ s.g with phase := .done }, [.raise s.g.now]) := by
      obtain ⟨h1, h2⟩ := hout
      simp only [SetM.step]
      rw [if_neg (by simp), if_neg h1, if_pos h2]
    rw [this]; rfl
  · intro v' t hx
    have := tx_checked_at_own_call loc tr h t0 pre v r T post v' t hx
    obtain ⟨_, _, h3, h4⟩ := this
    obtain ⟨_, h2⟩ := hout
    rcases h2 with h2 | h2 <;> omega

/-- **sync_first_attempt_at_call**: with an executor that answers synchronously, an accepted call with at least one
attempt queues its first set request IN THE STEP OF THE CALL — between the range check and the first transmission no
controller report can be handled, so the first attempt lies within the last reported bounds. -/
theorem sync_first_attempt_at_call (loc : Triple) (tr : Bool) (t0 : Nat) (pre : List Ev) (v r T : Nat) (hr : 0 < r)
    (hacc : let s := (SetL.run (SetL.init loc tr false t0) pre).1
            v ≠ s.g.loc.value ∧ s.g.loc.min ≤ v ∧ v ≤ s.g.loc.max) :
    let s := (SetL.run (SetL.init loc tr false t0) pre).1
    (⟨s.nextId, .txSet v s.g.now⟩ : LOut) ∈ (SetL.step s (.call v r T)).2 := by
  intro s
  have hh : s.g.hold = false := by
    have : ∀ (es : List Ev) (s0 : LSt), s0.g.hold = false → (SetL.run s0 es).1.g.hold = false := by
      intro es
      induction es with
      | nil => intro s0 h0; exact h0
      | cons e es ih =>
        intro s0 h0
        rw [SetL.run_cons]
        apply ih
        rcases step_kind s0 e with ⟨id, c, ev, rest, _, _, hk, _⟩ | ⟨v, r, T, _, hk⟩ | _
        · rw [hk]; simp [act, back, h0]
        · rw [hk]; simp [act, back, h0]
        · cases e <;> simp only [SetL.step] <;> (try split) <;> (try split) <;> simp_all [act, back, SetM.update]
    exact this pre _ rfl
  have hstep : SetL.step s (.call v r T) =
      act { s with nextId := s.nextId + 1 } s.nextId { s.g with phase := .idle } (.call v r T) s.builds := rfl
  rw [hstep, act_outs]
  have hv0 : sync s.g { s.g with phase := .idle } = { s.g with phase := .idle } := rfl
  rw [hv0]
  obtain ⟨h1, h2, h3⟩ := hacc
  apply List.mem_map.mpr
  refine ⟨.txSet v s.g.now, ?_, rfl⟩
  simp only [SetM.step]
  have h2' : s.g.loc.min ≤ v := h2
  have h3' : v ≤ s.g.loc.max := h3
  rw [if_neg (by simp), if_neg h1, if_neg (by omega)]
  simp only [loopTop, attempt, goSleep, hh]
  have hr0 : r ≠ 0 := by omega
  simp [hr0]
  split <;> simp

/-! ### the bounds held move only by controller reports -/

theorem setm_step_keeps_bounds (m : St) (e : Ev) (he : ∀ t, e ≠ .report t) :
    (SetM.step m e).1.loc.min = m.loc.min ∧ (SetM.step m e).1.loc.max = m.loc.max := by
  cases e with
  | report t => exact absurd rfl (he t)
  | call v r T =>
    simp only [SetM.step]
    repeat' split
    all_goals simp [loopTop, attempt, goSleep]
    all_goals (repeat' split) <;> simp
  | built =>
    simp only [SetM.step]
    repeat' split
    all_goals simp [goSleep]
  | wait d => simp only [SetM.step]; split <;> simp
  | timer =>
    simp only [SetM.step]
    repeat' split
    all_goals simp [loopTop, attempt, goSleep]
    all_goals (repeat' split) <;> simp
  | setTracking b => simp [SetM.step]

theorem step_keeps_bounds (s : LSt) (e : Ev) (he : ∀ t, e ≠ .report t) :
    (SetL.step s e).1.g.loc.min = s.g.loc.min ∧ (SetL.step s e).1.g.loc.max = s.g.loc.max := by
  have hact : ∀ (s' : LSt) (id : Nat) (c : St) (ev : Ev) (rest : List Nat), (∀ t, ev ≠ .report t) →
      (act s' id c ev rest).1.g.loc.min = s'.g.loc.min ∧ (act s' id c ev rest).1.g.loc.max = s'.g.loc.max := by
    intro s' id c ev rest hev
    have := setm_step_keeps_bounds (sync s'.g c) ev hev
    simpa [act, back, sync] using this
  cases e with
  | report t => exact absurd rfl (he t)
  | call v r T => exact hact _ _ _ _ _ (by intro t; simp)
  | built =>
    simp only [SetL.step]
    split
    · exact ⟨rfl, rfl⟩
    · split
      · exact ⟨rfl, rfl⟩
      · exact hact _ _ _ _ _ (by intro t; simp)
  | timer =>
    simp only [SetL.step]
    split
    · exact ⟨rfl, rfl⟩
    · exact hact _ _ _ _ _ (by intro t; simp)
  | wait d => simp only [SetL.step]; split <;> exact ⟨rfl, rfl⟩
  | setTracking b => exact ⟨rfl, rfl⟩

/-- **bounds_move_only_by_reports**: over any history without a controller report the bounds held stay what they were -/
theorem bounds_move_only_by_reports (s : LSt) (es : List Ev) (h : ∀ e ∈ es, ∀ t, e ≠ .report t) :
    (SetL.run s es).1.g.loc.min = s.g.loc.min ∧ (SetL.run s es).1.g.loc.max = s.g.loc.max := by
  induction es generalizing s with
  | nil => exact ⟨rfl, rfl⟩
  | cons e es ih =>
    rw [SetL.run_cons]
    have h1 := step_keeps_bounds s e (h e (List.mem_cons_self))
    have h2 := ih (SetL.step s e).1 (fun e' he' => h e' (List.mem_cons_of_mem _ he'))
    exact ⟨h2.1.trans h1.1, h2.2.trans h1.2⟩

/-- **unmoved_bounds_in_range** (what F7 is NOT): as long as no controller report has been handled since a call was
made, every set request of that call — first attempt and retries, whatever other calls do meanwhile — lies within the
bounds held NOW, i.e. the bounds the controller reported last.  An out-of-bounds transmission therefore needs a report
handled while that very call was running: the input class of open finding F7. -/
theorem unmoved_bounds_in_range (loc : Triple) (tr h : Bool) (t0 : Nat) (pre : List Ev) (v r T : Nat) (post : List Ev)
    (hpost : ∀ e ∈ post, ∀ t, e ≠ .report t) :
    let s := (SetL.run (SetL.init loc tr h t0) pre).1
    let sf := (SetL.run (SetL.init loc tr h t0) (pre ++ .call v r T :: post)).1
    ∀ v' t, (⟨s.nextId, .txSet v' t⟩ : LOut) ∈ (SetL.run (SetL.init loc tr h t0) (pre ++ .call v r T :: post)).2 →
      sf.g.loc.min ≤ v' ∧ v' ≤ sf.g.loc.max := by
  intro s sf v' t hx
  obtain ⟨hv, _, h3, h4⟩ := tx_checked_at_own_call loc tr h t0 pre v r T post v' t hx
  have hb := bounds_move_only_by_reports s (.call v r T :: post) (by
    intro e he t
    rcases List.mem_cons.mp he with rfl | he
    · simp
    · exact hpost e he t)
  have hsf : sf = (SetL.run s (.call v r T :: post)).1 := by
    show (SetL.run (SetL.init loc tr h t0) (pre ++ .call v r T :: post)).1 = _
    rw [SetL.run_append]
  rw [hsf, hb.1, hb.2, hv]
  exact ⟨h3, h4⟩

/-! ### the harness judge and the machine -/

theorem outside_mem (lo hi k : Nat) (its : List C08L.Item) : ∀ x ∈ outside lo hi k its,
    k ≤ x.k ∧ ∃ it, its[x.k - k]? = some it ∧ x.v ∈ txOf it.outs := by
  induction its generalizing lo hi k with
  | nil => intro x hx; simp [outside] at hx
  | cons it rest ih =>
    intro x hx
    have key : ∀ (lo' hi' : Nat),
        x ∈ ((txOf it.outs).filter (fun v => v < lo' || v > hi')).map (fun v => (⟨k, v, lo', hi'⟩ : Outside))
          ++ outside lo' hi' (k + 1) rest →
        k ≤ x.k ∧ ∃ it', (it :: rest)[x.k - k]? = some it' ∧ x.v ∈ txOf it'.outs := by
      intro lo' hi' hx
      rcases List.mem_append.mp hx with h | h
      · obtain ⟨v, hv, rfl⟩ := List.mem_map.mp h
        exact ⟨Nat.le_refl _, it, by simp, (List.mem_filter.mp hv).1⟩
      · obtain ⟨hk, it', hit, hv⟩ := ih lo' hi' (k + 1) x h
        refine ⟨by omega, it', ?_, hv⟩
        have : x.k - k = (x.k - (k + 1)) + 1 := by omega
        rw [this, List.getElem?_cons_succ]; exact hit
    unfold outside at hx
    split at hx
    · exact key _ _ hx
    · exact key _ _ hx

theorem txOf_observed (g : List LOut) :
    txOf (g.map (fun y => (⟨match y.o with
      | .ret _ _ => some y.id
      | .raise _ => some y.id
      | _ => none, y.o⟩ : C08L.OOut))) = txVals (g.map (·.o)) := by
  induction g with
  | nil => rfl
  | cons y ys ih =>
    simp only [txOf] at ih
    cases hy : y.o <;> simp [txOf, hy, txVals, ih]

theorem observe_get (s : LSt) (es : List Ev) (j : Nat) (it : C08L.Item) (h : (observe s es)[j]? = some it) :
    ∃ g, (SetL.runGroups s es)[j]? = some g ∧ txOf it.outs = txVals (g.map (·.o)) := by
  unfold observe at h
  rw [List.getElem?_zipWith] at h
  cases he : es[j]? with
  | none => simp [he] at h
  | some e =>
    cases hg : (SetL.runGroups s es)[j]? with
    | none => simp [he, hg] at h
    | some g =>
      refine ⟨g, rfl, ?_⟩
      simp [he, hg] at h
      subst h
      exact txOf_observed g

/-- **judge_never_blames_the_machine**: on the machine's own observation of ANY history the judge finds no
transmission that is both outside the last reported bounds and unexplained: its `violation` verdict means "a
transmission the check-once code cannot make in that step", and every out-of-bounds transmission of the code that
exists falls under open finding F7. -/
theorem judge_never_blames_the_machine (held : Triple) (tr h : Bool) (t0 : Nat) (es : List Ev) (lo hi : Nat) :
    ∀ x ∈ outside lo hi 0 (observe (SetL.init held tr h t0) es),
      explained (SetL.runGroups (SetL.init held tr h t0) es) x = true := by
  intro x hx
  obtain ⟨_, it, hit, hv⟩ := outside_mem lo hi 0 _ x hx
  obtain ⟨g, hg, htx⟩ := observe_get _ es _ it hit
  simp only [Nat.sub_zero] at hg
  simp only [explained, hg]
  rw [htx] at hv
  clear hit htx hg hx
  induction g with
  | nil => simp at hv
  | cons y ys ih =>
    simp only [List.any_cons, Bool.or_eq_true]
    cases hy : y.o with
    | txSet v t =>
      simp only [List.map_cons, hy, txVals, List.mem_cons] at hv
      rcases hv with hv | hv
      · left; simp [hv]
      · right; exact ih hv
    | txRefresh t => simp only [List.map_cons, hy, txVals] at hv; right; exact ih hv
    | ret b t => simp only [List.map_cons, hy, txVals] at hv; right; exact ih hv
    | raise t => simp only [List.map_cons, hy, txVals] at hv; right; exact ih hv

/-- non-vacuity (F7 on the machine): `set(42)` on (10, 0, 100), the report (10, 0, 20) arrives during the sleep, the
retry transmits 42 — outside the last reported bounds, explained, verdict `f7`; and the overlapping-call history of
seeded change C06-m11 as the unchanged code runs it: the second call's first attempt is queued in its own step -/
example : judge false true ⟨10, 0, 100⟩ 0
    (observe (SetL.init ⟨10, 0, 100⟩ true false 0) [.call 42 2 1000, .report ⟨10, 0, 20⟩, .timer, .timer]) = .f7 ⟨2, 42, 0, 20⟩ := by
  decide
example : judge false true ⟨10, 0, 100⟩ 0
    (observe (SetL.init ⟨10, 0, 100⟩ true false 0) [.call 20 1 400, .wait 100, .call 90 1 400, .wait 100, .report ⟨20, 0, 50⟩, .timer, .timer])
      = .pass := by decide
/-- the same history as a lock in front of the loop would run it (second call's only attempt after the first call
returned): `violation` -/
example : judge false true ⟨10, 0, 100⟩ 0
    [⟨.call 20 1 400, [⟨none, .txSet 20 0⟩]⟩, ⟨.wait 100, []⟩, ⟨.call 90 1 400, []⟩, ⟨.wait 100, []⟩, ⟨.report ⟨20, 0, 50⟩, []⟩,
     ⟨.timer, [⟨some 0, .ret true 400⟩, ⟨none, .txSet 90 400⟩]⟩, ⟨.timer, [⟨some 1, .ret false 800⟩]⟩]
      = .violation ⟨5, 90, 0, 50⟩ := by decide

end PlumVerif.C06

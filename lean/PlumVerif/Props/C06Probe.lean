import PlumVerif.Model.ParamSetProbe
import PlumVerif.Generated.Requests
/-
The hand-written model of `helpers/parameter.py` against DATA the translator extracts by probing the real parameter
classes (Number, Switch, Ecomax*, Mixer*, Thermostat*, Schedule* — `Generated/ParamProbe.lean`): kernel-checked on every
run, so a subclass that overrides the range check, the normalisation, the conversion or the confirmation rule breaks a
named lemma here (and the broken row is a concrete failing input), not only a differential run.
-/
namespace PlumVerif.C06
open PlumVerif.ParamProbe

theorem allByClass_row {α : Type} (clsIdx : α → Nat) (rows : List α) (p : Scaling.Cls → α → Bool)
    (h : allByClass clsIdx rows p = true) (r : α) (hr : r ∈ rows) : ∃ k, clsOfIdx (clsIdx r) = some k ∧ p k r = true := by
  unfold allByClass at h
  rw [Bool.and_eq_true] at h
  have hlt : clsIdx r < Gen.probeClasses.length := by simpa using List.all_eq_true.mp h.1 r hr
  have := List.all_eq_true.mp h.2 (clsIdx r) (List.mem_range.mpr hlt)
  cases hk : clsOfIdx (clsIdx r) with
  | none => rw [hk] at this; cases this
  | some k =>
    rw [hk] at this
    refine ⟨k, rfl, ?_⟩
    have := List.all_eq_true.mp this r hr
    simpa using this

/-- **validate_table_agrees**: for every parameter class x description x held triple (incl. min = max, min > max, value outside its
own bounds) x requested value (ints around both bounds, the held value, floats, bools, 'on' / 'off') of the probe grid, the
model's decision `ParamSet.decide` — no-op / ValueError / TypeError / accepted with this raw value — IS what the real class did. -/
theorem validate_table_agrees : Gen.validateProbeChunks.all (fun ch => allByClass (·.cls) ch agrees) = true := by decide +kernel

theorem validate_row_agrees (ch : List Gen.SetProbe) (hch : ch ∈ Gen.validateProbeChunks) (r : Gen.SetProbe) (hr : r ∈ ch) :
    ∃ k, clsOfIdx r.cls = some k ∧
      some (ParamSet.decide (convOf k r) ⟨r.value, r.min, r.max⟩ (valOf r.req)) = outcomeOf r := by
  obtain ⟨k, hk, h⟩ := allByClass_row _ ch agrees (List.all_eq_true.mp validate_table_agrees ch hch) r hr
  exact ⟨k, hk, by simpa [agrees] using h⟩

/-- the grid is not empty and has every outcome class -/
theorem validate_table_nonvacuous :
    Gen.validateProbeRows ≥ 1000 ∧ (Gen.validateProbeChunks.map List.length).sum = Gen.validateProbeRows ∧
    [0, 1, 2, 3].all (fun k => Gen.validateProbeChunks.any (fun ch => ch.any (fun r => r.outcome == k))) = true := by
  decide +kernel

/-- **rawOf_table_agrees**: the normalisation `'on'/'off'/True/False/int/float -> raw` (after the class's display -> raw conversion) of
the model, `Scaling.toRaw`, yields the raw value the real class transmitted, for every class x description x requested value -/
theorem rawOf_table_agrees : allByClass (·.cls) Gen.rawOfProbe rawAgrees = true := by decide +kernel

/-- **confirm_table_agrees**: `Parameter.update` / `_pending_update` on the real classes: not pending or pending by an accepted call,
x reported value (the previous one, the requested one, a third one) x reported bounds (same, other, min > max): the report/set
machine leaves the same triple and the same pending flag — after the call and after the report. -/
theorem confirm_table_agrees : allByClass (·.cls) Gen.confirmProbe confirmAgrees = true := by decide +kernel

/-- the same for the C08 machine `SetM` -/
theorem confirm_table_agrees_setm : Gen.confirmProbe.all (fun r => nonneg r && confirmAgreesSetM r) = true := by decide +kernel

/-- the probe has pending calls that a report confirms and pending calls that a report leaves pending -/
theorem confirm_table_nonvacuous :
    Gen.confirmProbe.any (fun r => r.pendingBefore && !r.pendingAfter) = true ∧
    Gen.confirmProbe.any (fun r => r.pendingBefore && r.pendingAfter) = true := by decide +kernel

/-- every parameter class that has a public set route (`Gen.setRoutes`, owner 0) is probed -/
theorem probe_classes_complete :
    ((Gen.setRoutes.filter (fun r => r.2.1 == 0)).map (·.1)).all (fun c => Gen.probeClasses.contains c) = true ∧
    (List.range Gen.probeClasses.length).all (fun i =>
      Gen.rawOfProbe.any (fun r => r.cls == i) && Gen.confirmProbe.any (fun r => r.cls == i) &&
      Gen.validateProbeChunks.any (fun ch => ch.any (fun r => r.cls == i))) = true := by decide +kernel

end PlumVerif.C06

import PlumVerif.Generated.Params
import PlumVerif.Spec.C18
import PlumVerif.Proofs.Schedule
/-
C18 — schedule edits touch exactly the addressed slots; commit sends the edited week.
Property theorems only; helper lemmas live in Proofs/Schedule.lean.
-/
namespace PlumVerif.C18
open PlumVerif PlumVerif.Sched

/-- the aligned time that begins slot `i` -/
def slotTime (i : Nat) : TimeArg := .hm (i / 2) (i % 2 * 30)

/-! ### `set_state` -/

/-- **exact slots**: a call succeeds iff the state is one of the four, both times parse and the
end is after the start; the day afterwards is the day before with exactly the slots
`lo .. hi` (inclusive) set to the requested state -/
theorem set_exact (day : List Bool) (st : String) (s e : TimeArg) (day' : List Bool) :
    setState day st s e = (day', .ok) ↔
      validStates.contains st = true ∧ ∃ lo hi, timeRange s e = some (lo, hi) ∧
        day' = day.mapIdx (fun i b => if lo ≤ i ∧ i ≤ hi then onStates.contains st else b) := by
  have hfun : ∀ lo hi (v : Bool), (fun (i : Nat) (b : Bool) => if lo ≤ i ∧ i < lo + (hi + 1 - lo) then v else b) =
      (fun i b => if lo ≤ i ∧ i ≤ hi then v else b) := by
    intro lo hi v
    funext i b
    by_cases h : lo ≤ i ∧ i ≤ hi
    · have : lo ≤ i ∧ i < lo + (hi + 1 - lo) := by omega
      rw [if_pos h, if_pos this]
    · have : ¬ (lo ≤ i ∧ i < lo + (hi + 1 - lo)) := by omega
      rw [if_neg h, if_neg this]
  unfold setState
  cases hv : validStates.contains st with
  | false => simp
  | true =>
    cases ht : timeRange s e with
    | none => simp
    | some r =>
      obtain ⟨lo, hi⟩ := r
      simp only [if_true, fillRange_eq_mapIdx, hfun, Prod.mk.injEq, and_true, true_and, Option.some.injEq]
      constructor
      · intro h; exact ⟨lo, hi, ⟨rfl, rfl⟩, h.symm⟩
      · rintro ⟨lo', hi', ⟨rfl, rfl⟩, h⟩; exact h.symm

/-- the day keeps its number of slots (48 for every decoded day), whatever the call -/
theorem set_length (day : List Bool) (st : String) (s e : TimeArg) :
    (setState day st s e).1.length = day.length := by
  unfold setState
  split
  · split
    · simp [length_fillRange]
    · rfl
  · rfl

/-- **errors are inert**: a call that raises leaves the day as it was -/
theorem set_error_inert (day : List Bool) (st : String) (s e : TimeArg)
    (h : (setState day st s e).2 ≠ .ok) : (setState day st s e).1 = day := by
  revert h
  unfold setState
  cases hv : validStates.contains st with
  | false => simp
  | true =>
    cases ht : timeRange s e with
    | none => simp
    | some r => simp

/-- … and the errors are exactly: invalid state, unparsable time, end not after start (where an
end of exactly 00:00 counts as 23:30); never KeyError -/
theorem set_error_iff (day : List Bool) (st : String) (s e : TimeArg) :
    (setState day st s e).2 = .valueError ↔
      (validStates.contains st = false ∨ s = .bad ∨ e = .bad ∨
        ∃ sh sm eh em, s = .hm sh sm ∧ e = .hm eh em ∧
          (if eh = 0 ∧ em = 0 then 23 * 60 + 30 else eh * 60 + em) ≤ sh * 60 + sm) := by
  unfold setState
  cases hv : validStates.contains st with
  | false => simp
  | true =>
    cases s with
    | bad => simp [timeRange]
    | hm sh sm =>
      cases e with
      | bad => simp [timeRange]
      | hm eh em =>
        have h24 : 24 * 60 - 30 = 23 * 60 + 30 := rfl
        simp only [timeRange, stepMin, if_true, h24]
        by_cases hc : (if eh = 0 ∧ em = 0 then 23 * 60 + 30 else eh * 60 + em) ≤ sh * 60 + sm
        · rw [if_pos hc]
          constructor
          · intro _
            exact Or.inr (Or.inr (Or.inr ⟨sh, sm, eh, em, rfl, rfl, hc⟩))
          · intro _; rfl
        · rw [if_neg hc]
          constructor
          · intro h; cases h
          · intro h
            rcases h with h | h | h | ⟨a, b, c, d, h1, h2, h3⟩
            · cases h
            · cases h
            · cases h
            · cases h1; cases h2; exact absurd h3 hc

/-- half-hour aligned times address the slots of the statement: from the slot beginning at the
start time through the slot beginning at the end time, an end of 00:00 meaning slot 47 -/
theorem time_range_aligned (i j : Nat) (hi : i < 48) (hj : j < 48) :
    timeRange (slotTime i) (slotTime j) = if endSlot j ≤ i then none else some (i, endSlot j) := by
  simp only [timeRange, slotTime, stepMin, endSlot]
  by_cases h0 : j = 0
  · subst h0
    simp only [Nat.zero_div, Nat.zero_mod, Nat.zero_mul, and_self, if_true]
    by_cases h : 47 ≤ i
    · have : 24 * 60 - 30 ≤ i / 2 * 60 + i % 2 * 30 := by omega
      simp [h, this]
    · have : ¬ (24 * 60 - 30 ≤ i / 2 * 60 + i % 2 * 30) := by omega
      simp only [if_neg h, if_neg this, Option.some.injEq, Prod.mk.injEq]
      exact ⟨by omega, by first | trivial | omega⟩
  · have hne : ¬ (j / 2 = 0 ∧ j % 2 * 30 = 0) := by omega
    simp only [if_neg hne, if_neg h0]
    by_cases h : j ≤ i
    · have : j / 2 * 60 + j % 2 * 30 ≤ i / 2 * 60 + i % 2 * 30 := by omega
      simp [h, this]
    · have : ¬ (j / 2 * 60 + j % 2 * 30 ≤ i / 2 * 60 + i % 2 * 30) := by omega
      simp only [if_neg h, if_neg this, Option.some.injEq, Prod.mk.injEq]
      exact ⟨by omega, by omega⟩

/-- the model meets the statement's predicate for every 48-slot day, every state string and
every pair of aligned times -/
theorem holds_set (day : List Bool) (hlen : day.length = 48) (st : String) (i j : Nat)
    (hi : i < 48) (hj : j < 48) :
    specSet day (validStates.contains st) (onStates.contains st) i j
      ((setState day st (slotTime i) (slotTime j)).2 != .ok)
      (setState day st (slotTime i) (slotTime j)).1 = true := by
  unfold specSet setState
  cases hv : validStates.contains st with
  | false => simp
  | true =>
    rw [time_range_aligned i j hi hj]
    by_cases h : endSlot j ≤ i
    · have : ¬ (i < endSlot j) := by omega
      simp [h, this]
    · have hlt : i < endSlot j := by omega
      simp only [if_neg h, hlt, if_true, Bool.true_and, decide_true, length_fillRange, hlen]
      simp only [bne_self_eq_false, Bool.not_false, beq_self_eq_true, Bool.true_and, List.all_eq_true,
        List.mem_range, beq_iff_eq]
      intro k hk
      have hk' : k < day.length := by omega
      have hk'' : k < (fillRange day i (endSlot j + 1 - i) (onStates.contains st)).length := by
        rw [length_fillRange]; exact hk'
      have := getElem?_fillRange day i (endSlot j + 1 - i) (onStates.contains st) k
      rw [List.getElem?_eq_getElem hk', List.getElem?_eq_getElem hk''] at this
      simp only [List.getD_eq_getElem?_getD, List.getElem?_eq_getElem hk', List.getElem?_eq_getElem hk'',
        Option.getD_some]
      by_cases hc : i ≤ k ∧ k ≤ endSlot j
      · have hc' : i ≤ k ∧ k < i + (endSlot j + 1 - i) := by omega
        rw [if_pos hc'] at this
        rw [if_pos hc]
        simpa using this
      · have hc' : ¬ (i ≤ k ∧ k < i + (endSlot j + 1 - i)) := by omega
        rw [if_neg hc'] at this
        rw [if_neg hc]
        simpa using this

/-! ### bitmap codec -/

/-- `_join_bits(_split_byte(b)) = b` for every byte -/
theorem join_split (b : Byte) : joinBits (splitByte b) = b.toNat := joinBits_splitByte b

/-- `_split_byte(_join_bits(bs)) = bs` for every eight slots (and the joined value is a byte) -/
theorem split_join (bs : List Bool) (h : bs.length = 8) :
    joinBits bs < 256 ∧ splitByte (joinBits bs).toUInt8 = bs :=
  ⟨joinBits_lt bs h, splitByte_joinBits bs h⟩

/-- decoding then re-encoding a bitmap is the identity (in particular on the 42-byte bitmaps) -/
theorem decode_encode (bm : List Byte) : encodeWeek (decodeWeek bm) = bm := encodeWeek_decodeWeek bm

/-- encoding then decoding a table of 48-slot days is the identity (in particular on 7 × 48) -/
theorem encode_decode (w : List (List Bool)) (h : ∀ d ∈ w, d.length = 48) :
    decodeWeek (encodeWeek w) = w := decodeWeek_encodeWeek w h

/-- a 42-byte bitmap decodes to 7 days of 48 slots -/
theorem decode_shape (bm : List Byte) (h : bm.length = 42) :
    (decodeWeek bm).length = 7 ∧ ∀ d ∈ decodeWeek bm, d.length = 48 := decodeWeek_shape bm h

/-! ### commit -/

/-- one edit rewrites exactly its day's row of the table, by `set_state`; rows of other days
and tables of other schedules are untouched -/
theorem edit_rows (idx : Nat) (t : List (List Bool)) (ed : Edit) (r : Nat) :
    (editTable idx t [ed])[r]? =
      if ed.idx = idx ∧ r = ed.day.pos then
        t[r]?.map (fun d => (setState d ed.state ed.start ed.stop).1)
      else t[r]? := by
  simp only [editTable, List.foldl_cons, List.foldl_nil]
  by_cases hi : ed.idx = idx
  · simp only [hi, true_and]
    by_cases hr : ed.day.pos = r
    · subst hr
      by_cases hl : ed.day.pos < t.length
      · simp [hl, List.getD_eq_getElem?_getD]
      · simp [hl]
    · have : ¬ r = ed.day.pos := fun h => hr h.symm
      simp [hr, this]
  · simp [hi]

/-- **commit payload**: a response decodes to entries `es`, all with a known schedule index; `e`
is the (last) entry for its index and carries a defined parameter.  After ANY sequence of
edits the committed payload is `[1, index, switch, parameter]` followed by the encoding, row 0
= Sunday first, of the received table with exactly the edits addressed to that schedule applied. -/
theorem commit_payload (msg : List Byte) (es : List Entry) (e : Entry) (p : Nat) (edits : List Edit)
    (hdec : decodeResponse msg = some es)
    (hknown : es.all (fun x => decide (x.idx < schedulesCount)) = true)
    (hlast : es.reverse.find? (fun x => x.idx == e.idx) = some e)
    (hpar : e.param = some p) :
    ∃ dev, Device.init.receive msg = some dev ∧
      (dev.applyEdits edits).commit e.idx =
        some ([1, e.idx.toUInt8, e.switch.toUInt8, p.toUInt8] ++ encodeWeek (editTable e.idx e.table edits)) := by
  have hmem : e ∈ es := by
    have := List.mem_of_find?_eq_some hlast
    simpa using this
  have htab : e.table.length = 7 := by
    have hes : ∃ n data, decodeEntries n data = some es ∨ es = [] := by
      unfold decodeResponse at hdec
      split at hdec
      · exact ⟨_, _, Or.inl hdec⟩
      · exact ⟨0, [], Or.inr (by simpa using hdec.symm)⟩
    obtain ⟨n, data, h | h⟩ := hes
    · obtain ⟨bm, hbm, ht⟩ := decodeEntries_tables n data es h e hmem
      rw [ht]; exact (decodeWeek_shape bm hbm).1
    · rw [h] at hmem; simp at hmem
  have hrecv : Device.init.receive msg = some
      ⟨es.foldl (fun d x => dictSet d x.idx (Week.ofTable x.table)) [],
       es.foldl (fun d x => dictSet d x.idx x.switch) Device.init.switches,
       es.foldl (fun d x => dictSetOpt d x.idx x.param) Device.init.params⟩ := by
    simp only [Device.receive, hdec, hknown, if_true]
  refine ⟨_, hrecv, ?_⟩
  -- the three lookups after the response
  have hsched : dictGet (es.foldl (fun d x => dictSet d x.idx (Week.ofTable x.table)) []) e.idx =
      some (Week.ofTable e.table) := by
    have := dictGet_foldl_set (fun x : Entry => x.idx) (fun x => some (Week.ofTable x.table)) es [] e.idx
    simp only [Option.isSome_some, Bool.and_true, hlast, dictSetOpt] at this
    exact this
  have hsw : dictGet (es.foldl (fun d x => dictSet d x.idx x.switch) Device.init.switches) e.idx = some e.switch := by
    have := dictGet_foldl_set (fun x : Entry => x.idx) (fun x => some x.switch) es Device.init.switches e.idx
    simp only [Option.isSome_some, Bool.and_true, hlast, dictSetOpt] at this
    exact this
  have hp : dictGet (es.foldl (fun d x => dictSetOpt d x.idx x.param) Device.init.params) e.idx = some p := by
    have := dictGet_foldl_set (fun x : Entry => x.idx) (fun x => x.param) es Device.init.params e.idx
    rw [find?_and_of_find? _ (fun x => x.param.isSome) _ e hlast (by simp [hpar])] at this
    rw [this]; exact hpar
  obtain ⟨h1, h2, h3⟩ := applyEdits_spec
    ⟨es.foldl (fun d x => dictSet d x.idx (Week.ofTable x.table)) [],
     es.foldl (fun d x => dictSet d x.idx x.switch) Device.init.switches,
     es.foldl (fun d x => dictSetOpt d x.idx x.param) Device.init.params⟩
    e.idx e.table htab hsched edits
  simp only [Device.commit, h1, h2, h3, hsw, hp]
  rw [Week.toTable_ofTable _ (by rw [editTable_length]; exact htab)]

/-- **unedited round trip through the device**: a response carrying one schedule, committed
without edits, sends back exactly the received index, switch, parameter value and bitmap -/
theorem commit_unedited (b0 start idx sw pv pmin pmax : Byte) (bm : List Byte) (hbm : bm.length = 42)
    (hidx : idx.toNat < 40) (hdef : ¬ (pv = 255 ∧ pmin = 255 ∧ pmax = 255)) :
    ∃ dev, Device.init.receive ([b0, start, 1, idx, sw, pv, pmin, pmax] ++ bm) = some dev ∧
      dev.commit idx.toNat = some ([1, idx, sw, pv] ++ bm) := by
  have hsize : Gen.scheduleSize = 42 := rfl
  have hdec : decodeResponse ([b0, start, 1, idx, sw, pv, pmin, pmax] ++ bm) =
      some [⟨idx.toNat, sw.toNat, some pv.toNat, decodeWeek bm⟩] := by
    have hu : undefinedByte = 255 := rfl
    have h1 : (1 : Byte).toNat = 1 := rfl
    simp only [decodeResponse, List.cons_append, List.nil_append, h1, decodeEntries, hsize, hbm,
      Nat.lt_irrefl, if_false, hu, if_neg hdef, List.take_of_length_le (Nat.le_of_eq hbm)]
  obtain ⟨dev, hr, hc⟩ := commit_payload _ _ ⟨idx.toNat, sw.toNat, some pv.toNat, decodeWeek bm⟩ pv.toNat []
    hdec (by have h40 : Gen.schedules.length = 40 := rfl
             simp [schedulesCount, h40, hidx]) (by simp) rfl
  refine ⟨dev, hr, ?_⟩
  simp only [Device.applyEdits, List.foldl_nil, editTable] at hc
  rw [hc, encodeWeek_decodeWeek]
  simp

/-- **layout**: slot `i` of day `d` (Sunday = 0) of a decoded 42-byte bitmap is bit `7 - i % 8`
of byte `6 d + i / 8` — days in wire order, earliest slot in the most significant bit -/
theorem slot_layout (bm : List Byte) (h : bm.length = 42) (d i : Nat) (hd : d < 7) (hi : i < 48) :
    ((decodeWeek bm).getD d []).getD i false = slotBit bm d i :=
  getD_decodeWeek bm h d i hd hi

/-- the committed payload meets the statement's predicate at bit level: 46 bytes, header
`[1, index, switch, parameter]`, and slot `i` of day `d` of its bitmap is slot `i` of row `d` of
the received table with the edits applied -/
theorem holds_commit (msg : List Byte) (es : List Entry) (e : Entry) (p : Nat) (edits : List Edit)
    (hdec : decodeResponse msg = some es)
    (hknown : es.all (fun x => decide (x.idx < schedulesCount)) = true)
    (hlast : es.reverse.find? (fun x => x.idx == e.idx) = some e)
    (hpar : e.param = some p) :
    ∃ dev payload, Device.init.receive msg = some dev ∧
      (dev.applyEdits edits).commit e.idx = some payload ∧
      specCommit e.idx e.switch p
        (fun d i => ((editTable e.idx e.table edits).getD d []).getD i false) payload = true := by
  obtain ⟨dev, hr, hc⟩ := commit_payload msg es e p edits hdec hknown hlast hpar
  refine ⟨dev, _, hr, hc, ?_⟩
  -- shape of the edited table
  have hmem : e ∈ es := by
    have := List.mem_of_find?_eq_some hlast
    simpa using this
  have hshape : e.table.length = 7 ∧ ∀ d ∈ e.table, d.length = 48 := by
    have hes : ∃ n data, decodeEntries n data = some es ∨ es = [] := by
      unfold decodeResponse at hdec
      split at hdec
      · exact ⟨_, _, Or.inl hdec⟩
      · exact ⟨0, [], Or.inr (by simpa using hdec.symm)⟩
    obtain ⟨n, data, h | h⟩ := hes
    · obtain ⟨bm, hbm, ht⟩ := decodeEntries_tables n data es h e hmem
      rw [ht]; exact decodeWeek_shape bm hbm
    · rw [h] at hmem; simp at hmem
  have hrows := editTable_rows e.idx e.table edits hshape.2
  have hlen7 : (editTable e.idx e.table edits).length = 7 := by rw [editTable_length]; exact hshape.1
  have hlen42 : (encodeWeek (editTable e.idx e.table edits)).length = 42 := by
    rw [encodeWeek_length _ hrows, hlen7]
  unfold specCommit
  simp only [List.length_append, List.length_cons, List.length_nil, hlen42, Bool.and_eq_true, beq_iff_eq,
    List.all_eq_true, List.mem_range]
  refine ⟨by simp, ?_⟩
  intro d hd i hi
  have hdrop : ([1, e.idx.toUInt8, e.switch.toUInt8, p.toUInt8] ++ encodeWeek (editTable e.idx e.table edits)).drop 4 =
      encodeWeek (editTable e.idx e.table edits) := by simp
  rw [hdrop, ← slot_layout _ hlen42 d i hd hi, decodeWeek_encodeWeek _ hrows]

/-! ### tie to the source (translator tables) -/

/-- 40 schedule kinds with distinct names (so `SCHEDULES.index(name)` is the index the name was
received under), 42 bytes a bitmap = 7 days × 48 slots / 8 -/
theorem schedule_table :
    Gen.schedules.length = 40 ∧ Gen.schedules.Nodup ∧ Gen.scheduleSize = 42 ∧ 42 * 8 = 7 * 48 := by
  refine ⟨rfl, by decide +kernel, rfl, rfl⟩

/-- the parameter table lists, for schedule `i`, its switch at position `2i` and its parameter
at `2i + 1`, under the names `collect_schedule_data` looks them up by -/
theorem schedule_parameter_names :
    Gen.scheduleParams.map (fun d => (d.name, d.switch)) =
      Gen.schedules.flatMap (fun n => [(n ++ "_schedule_switch", true), (n ++ "_schedule_parameter", false)]) := by
  decide +kernel

/-! ### non-vacuity -/

/-- 00:00–01:00 sets slots 0, 1, 2; an end of 00:00 reaches slot 47; 23:30–00:00 is refused -/
example : setState (List.replicate 48 false) "on" (.hm 0 0) (.hm 1 0) =
    ([true, true, true] ++ List.replicate 45 false, .ok) := by decide
example : setState (List.replicate 48 true) "night" (.hm 23 0) (.hm 0 0) =
    (List.replicate 46 true ++ [false, false], .ok) := by decide
example : (setState (List.replicate 48 true) "off" (.hm 23 30) (.hm 0 0)).2 = .valueError := by decide
example : (setState (List.replicate 48 true) "auto" (.hm 1 0) (.hm 2 0)).2 = .valueError := by decide
/-- Monday (row 1) 00:00–00:30 "on" of schedule 3 on an all-off week: byte 6 of the bitmap becomes 0xC0 -/
example : ∃ dev, Device.init.receive ([0, 0, 1, 3, 1, 20, 0, 50] ++ List.replicate 42 0) = some dev ∧
    (dev.applyEdits [⟨3, .monday, "on", .hm 0 0, .hm 0 30⟩]).commit 3 =
      some ([1, 3, 1, 20] ++ List.replicate 6 0 ++ [0xC0] ++ List.replicate 35 0) := by
  refine ⟨_, rfl, ?_⟩
  decide +kernel

end PlumVerif.C18

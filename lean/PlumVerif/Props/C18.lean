import PlumVerif.Generated.Params
import PlumVerif.Generated.ScheduleStates
import PlumVerif.Spec.C18
import PlumVerif.Proofs.Schedule
/-
C18 — schedule edits touch exactly the addressed slots; commit sends the edited week.
Property theorems only; helper lemmas live in Proofs/Schedule.lean.
-/
namespace PlumVerif.C18
open PlumVerif PlumVerif.Sched

/-- the aligned time that begins slot `i` -/
def slotTime (i : Nat) : TimeArg := .hm (i / 2) (i % 2 * 30)

/-! ### `set_state` -/

/-- the state lists of the model are those of the source (`get_args(ScheduleState)`, `ON_STATES`,
`OFF_STATES` of helpers/schedule.py, read by the translator on every run): a state added to or
dropped from either list in the source breaks this obligation.  The on- and off-states
partition the accepted states. -/
theorem states_pinned :
    validStates = Gen.scheduleStates ∧ onStates = Gen.scheduleOnStates
      ∧ (∀ s ∈ Gen.scheduleStates, s ∈ Gen.scheduleOnStates ∨ s ∈ Gen.scheduleOffStates)
      ∧ (∀ s ∈ Gen.scheduleOnStates, s ∈ Gen.scheduleStates ∧ s ∉ Gen.scheduleOffStates)
      ∧ (∀ s ∈ Gen.scheduleOffStates, s ∈ Gen.scheduleStates) := by decide

/-- **exact slots**: a call succeeds iff the state is one of the four, both times parse, the
end is after the start and the day has the slots addressed (always so for a 48-slot day, see
`set_never_index_error_48`); the day afterwards is the day before with exactly the slots
`lo .. hi` (inclusive) set to the requested state -/
theorem set_exact (day : List Bool) (st : String) (s e : TimeArg) (day' : List Bool) :
    setState day st s e = (day', .ok) ↔
      validStates.contains st = true ∧ ∃ lo hi, timeRange s e = some (lo, hi) ∧ hi < day.length ∧
        day' = day.mapIdx (fun i b => if lo ≤ i ∧ i ≤ hi then onStates.contains st else b) := by
  cases hv : validStates.contains st with
  | false => rw [setState_none day st s e (Or.inl hv)]; simp
  | true =>
    cases ht : timeRange s e with
    | none => rw [setState_none day st s e (Or.inr ht)]; simp
    | some r =>
      obtain ⟨lo, hi⟩ := r
      rw [setState_some day st s e lo hi hv ht]
      constructor
      · intro h
        simp only [Prod.mk.injEq] at h
        have hlt : hi < day.length := by
          by_cases hc : hi < day.length
          · exact hc
          · rw [if_neg hc] at h; cases h.2
        exact ⟨rfl, lo, hi, rfl, hlt, h.1.symm⟩
      · rintro ⟨_, lo', hi', heq, hlt, h⟩
        simp only [Option.some.injEq, Prod.mk.injEq] at heq
        obtain ⟨rfl, rfl⟩ := heq
        rw [h, if_pos hlt]

/-- the day keeps its number of slots, whatever the call -/
theorem set_length (day : List Bool) (st : String) (s e : TimeArg) :
    (setState day st s e).1.length = day.length := by
  unfold setState
  split
  · split
    · simp [length_fillRange]
    · rfl
  · rfl

/-- **ValueError is inert** (days of any length): a call that raises ValueError leaves the day
as it was -/
theorem set_error_inert (day : List Bool) (st : String) (s e : TimeArg)
    (h : (setState day st s e).2 = .valueError) : (setState day st s e).1 = day := by
  cases hv : validStates.contains st with
  | false => rw [setState_none day st s e (Or.inl hv)]
  | true =>
    cases ht : timeRange s e with
    | none => rw [setState_none day st s e (Or.inr ht)]
    | some r =>
      obtain ⟨lo, hi⟩ := r
      rw [setState_some day st s e lo hi hv ht] at h
      simp only at h
      split at h <;> cases h

/-- on a 48-slot day with parsed times of day (hour < 24, minute < 60) the only error is
ValueError — so for the days the decoder produces EVERY error leaves the day unchanged -/
theorem set_never_index_error_48 (day : List Bool) (hlen : day.length = 48) (st : String)
    (s e : TimeArg) (hs : ∀ h m, s = .hm h m → h < 24 ∧ m < 60) (he : ∀ h m, e = .hm h m → h < 24 ∧ m < 60) :
    (setState day st s e).2 = .ok ∨
      ((setState day st s e).2 = .valueError ∧ (setState day st s e).1 = day) := by
  cases hv : validStates.contains st with
  | false => rw [setState_none day st s e (Or.inl hv)]; exact Or.inr ⟨rfl, rfl⟩
  | true =>
    cases ht : timeRange s e with
    | none => rw [setState_none day st s e (Or.inr ht)]; exact Or.inr ⟨rfl, rfl⟩
    | some r =>
      obtain ⟨lo, hi⟩ := r
      rw [setState_some day st s e lo hi hv ht]
      left
      cases s with
      | bad => simp [timeRange] at ht
      | hm sh sm =>
        cases e with
        | bad => simp [timeRange] at ht
        | hm eh em =>
          have := he eh em rfl
          have hlt := timeRange_lt sh sm eh em lo hi this.1 this.2 ht
          simp only
          rw [if_pos (by omega)]

/-- **a shorter, hand-made day is edited partially**: when the day lacks the last addressed slot
the call raises IndexError, but only after the slots `lo .. len-1` have been written — "an
error changes nothing" holds for 48-slot days only -/
theorem set_partial_on_short_day (day : List Bool) (st : String) (s e : TimeArg) (lo hi : Nat)
    (hv : validStates.contains st = true) (ht : timeRange s e = some (lo, hi))
    (hshort : day.length ≤ hi) :
    setState day st s e =
      (day.mapIdx (fun i b => if lo ≤ i then onStates.contains st else b), .indexError) := by
  rw [setState_some day st s e lo hi hv ht, if_neg (by omega)]
  congr 1
  apply List.ext_getElem?
  intro i
  simp only [List.getElem?_mapIdx]
  cases hg : day[i]? with
  | none => rfl
  | some b =>
    have hi' : i < day.length := by
      rcases List.getElem?_eq_some_iff.mp hg with ⟨h, _⟩; exact h
    by_cases hc : lo ≤ i
    · have : lo ≤ i ∧ i ≤ hi := ⟨hc, by omega⟩
      simp [hc, this]
    · simp [hc]

/-- … and the errors of the statement are exactly: invalid state, unparsable time, end not after
start (where an end of exactly 00:00 counts as 23:30) -/
theorem set_error_iff (day : List Bool) (st : String) (s e : TimeArg) :
    (setState day st s e).2 = .valueError ↔
      (validStates.contains st = false ∨ s = .bad ∨ e = .bad ∨
        ∃ sh sm eh em, s = .hm sh sm ∧ e = .hm eh em ∧
          (if eh = 0 ∧ em = 0 then 23 * 60 + 30 else eh * 60 + em) ≤ sh * 60 + sm) := by
  cases hv : validStates.contains st with
  | false => rw [setState_none day st s e (Or.inl hv)]; simp
  | true =>
    cases s with
    | bad => rw [setState_none day st _ e (Or.inr (by simp [timeRange]))]; simp
    | hm sh sm =>
      cases e with
      | bad => rw [setState_none day st _ _ (Or.inr (by simp [timeRange]))]; simp
      | hm eh em =>
        have h24 : 24 * 60 - 30 = 23 * 60 + 30 := rfl
        by_cases hc : (if eh = 0 ∧ em = 0 then 23 * 60 + 30 else eh * 60 + em) ≤ sh * 60 + sm
        · have ht : timeRange (.hm sh sm) (.hm eh em) = none := by
            simp only [timeRange, stepMin, h24, if_pos hc]
          rw [setState_none day st _ _ (Or.inr ht)]
          constructor
          · intro _
            exact Or.inr (Or.inr (Or.inr ⟨sh, sm, eh, em, rfl, rfl, hc⟩))
          · intro _; rfl
        · have ht : timeRange (.hm sh sm) (.hm eh em) = some ((sh * 60 + sm) / 30,
              (if eh = 0 ∧ em = 0 then 23 * 60 + 30 else eh * 60 + em) / 30) := by
            simp only [timeRange, stepMin, h24, if_neg hc]
          rw [setState_some day st _ _ _ _ hv ht]
          constructor
          · intro h
            exact absurd h (ite_ok_index_ne _)
          · intro h
            rcases h with h | h | h | ⟨a, b, c, d, h1, h2, h3⟩
            · cases h
            · cases h
            · cases h
            · cases h1; cases h2; exact absurd h3 hc

/-- half-hour aligned times address the slots of the statement: from the slot beginning at the
start time through the slot beginning at the end time, an end of 00:00 meaning slot 47 -/
theorem time_range_aligned (i j : Nat) (hi : i < 48) (hj : j < 48) :
    timeRange (slotTime i) (slotTime j) = if endSlot j ≤ i then none else some (i, endSlot j) := by
  simp only [timeRange, slotTime, stepMin, endSlot]
  by_cases h0 : j = 0
  · subst h0
    simp only [Nat.zero_div, Nat.zero_mod, Nat.zero_mul, and_self, if_true]
    by_cases h : 47 ≤ i
    · have : 24 * 60 - 30 ≤ i / 2 * 60 + i % 2 * 30 := by omega
      simp [h, this]
    · have : ¬ (24 * 60 - 30 ≤ i / 2 * 60 + i % 2 * 30) := by omega
      simp only [if_neg h, if_neg this, Option.some.injEq, Prod.mk.injEq]
      exact ⟨by omega, by first | trivial | omega⟩
  · have hne : ¬ (j / 2 = 0 ∧ j % 2 * 30 = 0) := by omega
    simp only [if_neg hne, if_neg h0]
    by_cases h : j ≤ i
    · have : j / 2 * 60 + j % 2 * 30 ≤ i / 2 * 60 + i % 2 * 30 := by omega
      simp [h, this]
    · have : ¬ (j / 2 * 60 + j % 2 * 30 ≤ i / 2 * 60 + i % 2 * 30) := by omega
      simp only [if_neg h, if_neg this, Option.some.injEq, Prod.mk.injEq]
      exact ⟨by omega, by omega⟩

/-- the model meets the statement's predicate for every 48-slot day, every state string and
every pair of aligned times -/
theorem holds_set (day : List Bool) (hlen : day.length = 48) (st : String) (i j : Nat)
    (hi : i < 48) (hj : j < 48) :
    specSet day (validStates.contains st) (onStates.contains st) i j
      ((setState day st (slotTime i) (slotTime j)).2 != .ok)
      (setState day st (slotTime i) (slotTime j)).1 = true := by
  have hend : endSlot j < 48 := by unfold endSlot; split <;> omega
  unfold specSet setState
  cases hv : validStates.contains st with
  | false => simp
  | true =>
    rw [time_range_aligned i j hi hj]
    by_cases h : endSlot j ≤ i
    · have : ¬ (i < endSlot j) := by omega
      simp [h, this]
    · have hlt : i < endSlot j := by omega
      simp only [if_neg h, hlt, if_true, Bool.true_and, decide_true, length_fillRange, hlen, hend]
      simp only [bne_self_eq_false, Bool.not_false, beq_self_eq_true, Bool.true_and, List.all_eq_true,
        List.mem_range, beq_iff_eq]
      intro k hk
      have hk' : k < day.length := by omega
      have hk'' : k < (fillRange day i (endSlot j + 1 - i) (onStates.contains st)).length := by
        rw [length_fillRange]; exact hk'
      have := getElem?_fillRange day i (endSlot j + 1 - i) (onStates.contains st) k
      rw [List.getElem?_eq_getElem hk', List.getElem?_eq_getElem hk''] at this
      simp only [List.getD_eq_getElem?_getD, List.getElem?_eq_getElem hk', List.getElem?_eq_getElem hk'',
        Option.getD_some]
      by_cases hc : i ≤ k ∧ k ≤ endSlot j
      · have hc' : i ≤ k ∧ k < i + (endSlot j + 1 - i) := by omega
        rw [if_pos hc'] at this
        rw [if_pos hc]
        simpa using this
      · have hc' : ¬ (i ≤ k ∧ k < i + (endSlot j + 1 - i)) := by omega
        rw [if_neg hc'] at this
        rw [if_neg hc]
        simpa using this

/-! ### bitmap codec -/

/-- `_join_bits(_split_byte(b)) = b` for every byte -/
theorem join_split (b : Byte) : joinBits (splitByte b) = b.toNat := joinBits_splitByte b

/-- `_split_byte(_join_bits(bs)) = bs` for every eight slots (and the joined value is a byte) -/
theorem split_join (bs : List Bool) (h : bs.length = 8) :
    joinBits bs < 256 ∧ splitByte (joinBits bs).toUInt8 = bs :=
  ⟨joinBits_lt bs h, splitByte_joinBits bs h⟩

/-- decoding then re-encoding a bitmap is the identity (in particular on the 42-byte bitmaps) -/
theorem decode_encode (bm : List Byte) : encodeWeek (decodeWeek bm) = bm := encodeWeek_decodeWeek bm

/-- encoding then decoding a table of 48-slot days is the identity (in particular on 7 × 48) -/
theorem encode_decode (w : List (List Bool)) (h : ∀ d ∈ w, d.length = 48) :
    decodeWeek (encodeWeek w) = w := decodeWeek_encodeWeek w h

/-- a 42-byte bitmap decodes to 7 days of 48 slots -/
theorem decode_shape (bm : List Byte) (h : bm.length = 42) :
    (decodeWeek bm).length = 7 ∧ ∀ d ∈ decodeWeek bm, d.length = 48 := decodeWeek_shape bm h

/-! ### commit -/

/-- one edit rewrites exactly its day's row of the table, by `set_state`; rows of other days
and tables of other schedules are untouched -/
theorem edit_rows (idx : Nat) (t : List (List Bool)) (ed : Edit) (r : Nat) :
    (editTable idx t [ed])[r]? =
      if ed.idx = idx ∧ r = ed.day.pos then
        t[r]?.map (fun d => (setState d ed.state ed.start ed.stop).1)
      else t[r]? := by
  simp only [editTable, List.foldl_cons, List.foldl_nil]
  by_cases hi : ed.idx = idx
  · simp only [hi, true_and]
    by_cases hr : ed.day.pos = r
    · subst hr
      by_cases hl : ed.day.pos < t.length
      · simp [hl, List.getD_eq_getElem?_getD]
      · simp [hl]
    · have : ¬ r = ed.day.pos := fun h => hr h.symm
      simp [hr, this]
  · simp [hi]

/-- **the last response wins**: whatever the device held before (`dev0`: earlier responses for
the same or other schedules, earlier edits), once a response decodes to entries `es`, all with
a known schedule index, where `e` is the (last) entry for its index and carries a defined
parameter, then after ANY sequence of edits the committed payload is `[1, index, switch,
parameter]` followed by the encoding, row 0 = Sunday first, of the table of THAT response with
exactly the edits made after it and addressed to that schedule applied. -/
theorem last_response_wins (dev0 : Device) (msg : List Byte) (es : List Entry) (e : Entry) (p : Nat) (edits : List Edit)
    (hdec : decodeResponse msg = some es)
    (hknown : es.all (fun x => decide (x.idx < schedulesCount)) = true)
    (hlast : es.reverse.find? (fun x => x.idx == e.idx) = some e)
    (hpar : e.param = some p) :
    ∃ dev, dev0.receive msg = some dev ∧
      (dev.applyEdits edits).commit e.idx =
        some ([1, e.idx.toUInt8, e.switch.toUInt8, p.toUInt8] ++ encodeWeek (editTable e.idx e.table edits)) := by
  have hmem : e ∈ es := by
    have := List.mem_of_find?_eq_some hlast
    simpa using this
  have htab : e.table.length = 7 := by
    have hes : ∃ n data, decodeEntries n data = some es ∨ es = [] := by
      unfold decodeResponse at hdec
      split at hdec
      · exact ⟨_, _, Or.inl hdec⟩
      · exact ⟨0, [], Or.inr (by simpa using hdec.symm)⟩
    obtain ⟨n, data, h | h⟩ := hes
    · obtain ⟨bm, hbm, ht⟩ := decodeEntries_tables n data es h e hmem
      rw [ht]; exact (decodeWeek_shape bm hbm).1
    · rw [h] at hmem; simp at hmem
  have hrecv : dev0.receive msg = some
      ⟨es.foldl (fun d x => dictSet d x.idx (Week.ofTable x.table)) [],
       es.foldl (fun d x => dictSet d x.idx x.switch) dev0.switches,
       es.foldl (fun d x => dictSetOpt d x.idx x.param) dev0.params⟩ := by
    simp only [Device.receive, hdec, hknown, if_true]
  refine ⟨_, hrecv, ?_⟩
  -- the three lookups after the response
  have hsched : dictGet (es.foldl (fun d x => dictSet d x.idx (Week.ofTable x.table)) []) e.idx =
      some (Week.ofTable e.table) := by
    have := dictGet_foldl_set (fun x : Entry => x.idx) (fun x => some (Week.ofTable x.table)) es [] e.idx
    simp only [Option.isSome_some, Bool.and_true, hlast, dictSetOpt] at this
    exact this
  have hsw : dictGet (es.foldl (fun d x => dictSet d x.idx x.switch) dev0.switches) e.idx = some e.switch := by
    have := dictGet_foldl_set (fun x : Entry => x.idx) (fun x => some x.switch) es dev0.switches e.idx
    simp only [Option.isSome_some, Bool.and_true, hlast, dictSetOpt] at this
    exact this
  have hp : dictGet (es.foldl (fun d x => dictSetOpt d x.idx x.param) dev0.params) e.idx = some p := by
    have := dictGet_foldl_set (fun x : Entry => x.idx) (fun x => x.param) es dev0.params e.idx
    rw [find?_and_of_find? _ (fun x => x.param.isSome) _ e hlast (by simp [hpar])] at this
    rw [this]; exact hpar
  obtain ⟨h1, h2, h3⟩ := applyEdits_spec
    ⟨es.foldl (fun d x => dictSet d x.idx (Week.ofTable x.table)) [],
     es.foldl (fun d x => dictSet d x.idx x.switch) dev0.switches,
     es.foldl (fun d x => dictSetOpt d x.idx x.param) dev0.params⟩
    e.idx e.table htab hsched edits
  simp only [Device.commit, h1, h2, h3, hsw, hp]
  rw [Week.toTable_ofTable _ (by rw [editTable_length]; exact htab)]


/-- **commit payload**: the same from a fresh device -/
theorem commit_payload (msg : List Byte) (es : List Entry) (e : Entry) (p : Nat) (edits : List Edit)
    (hdec : decodeResponse msg = some es)
    (hknown : es.all (fun x => decide (x.idx < schedulesCount)) = true)
    (hlast : es.reverse.find? (fun x => x.idx == e.idx) = some e)
    (hpar : e.param = some p) :
    ∃ dev, Device.init.receive msg = some dev ∧
      (dev.applyEdits edits).commit e.idx =
        some ([1, e.idx.toUInt8, e.switch.toUInt8, p.toUInt8] ++ encodeWeek (editTable e.idx e.table edits)) :=
  last_response_wins Device.init msg es e p edits hdec hknown hlast hpar

/-- **unedited round trip through the device**: a response carrying one schedule, committed
without edits, sends back exactly the received index, switch, parameter value and bitmap -/
theorem commit_unedited (b0 start idx sw pv pmin pmax : Byte) (bm : List Byte) (hbm : bm.length = 42)
    (hidx : idx.toNat < 40) (hdef : ¬ (pv = 255 ∧ pmin = 255 ∧ pmax = 255)) :
    ∃ dev, Device.init.receive ([b0, start, 1, idx, sw, pv, pmin, pmax] ++ bm) = some dev ∧
      dev.commit idx.toNat = some ([1, idx, sw, pv] ++ bm) := by
  have hsize : Gen.scheduleSize = 42 := rfl
  have hdec : decodeResponse ([b0, start, 1, idx, sw, pv, pmin, pmax] ++ bm) =
      some [⟨idx.toNat, sw.toNat, some pv.toNat, decodeWeek bm⟩] := by
    have hu : undefinedByte = 255 := rfl
    have h1 : (1 : Byte).toNat = 1 := rfl
    simp only [decodeResponse, List.cons_append, List.nil_append, h1, decodeEntries, hsize, hbm,
      Nat.lt_irrefl, if_false, hu, if_neg hdef, List.take_of_length_le (Nat.le_of_eq hbm)]
  obtain ⟨dev, hr, hc⟩ := commit_payload _ _ ⟨idx.toNat, sw.toNat, some pv.toNat, decodeWeek bm⟩ pv.toNat []
    hdec (by have h40 : Gen.schedules.length = 40 := rfl
             simp [schedulesCount, h40, hidx]) (by simp) rfl
  refine ⟨dev, hr, ?_⟩
  simp only [Device.applyEdits, List.foldl_nil, editTable] at hc
  rw [hc, encodeWeek_decodeWeek]
  simp

/-- **layout**: slot `i` of day `d` (Sunday = 0) of a decoded 42-byte bitmap is bit `7 - i % 8`
of byte `6 d + i / 8` — days in wire order, earliest slot in the most significant bit -/
theorem slot_layout (bm : List Byte) (h : bm.length = 42) (d i : Nat) (hd : d < 7) (hi : i < 48) :
    ((decodeWeek bm).getD d []).getD i false = slotBit bm d i :=
  getD_decodeWeek bm h d i hd hi

/-- the committed payload meets the statement's predicate at bit level: 46 bytes, header
`[1, index, switch, parameter]`, and slot `i` of day `d` of its bitmap is slot `i` of row `d` of
the received table with the edits applied -/
theorem holds_commit (msg : List Byte) (es : List Entry) (e : Entry) (p : Nat) (edits : List Edit)
    (hdec : decodeResponse msg = some es)
    (hknown : es.all (fun x => decide (x.idx < schedulesCount)) = true)
    (hlast : es.reverse.find? (fun x => x.idx == e.idx) = some e)
    (hpar : e.param = some p) :
    ∃ dev payload, Device.init.receive msg = some dev ∧
      (dev.applyEdits edits).commit e.idx = some payload ∧
      specCommit e.idx e.switch p
        (fun d i => ((editTable e.idx e.table edits).getD d []).getD i false) payload = true := by
  obtain ⟨dev, hr, hc⟩ := commit_payload msg es e p edits hdec hknown hlast hpar
  refine ⟨dev, _, hr, hc, ?_⟩
  -- shape of the edited table
  have hmem : e ∈ es := by
    have := List.mem_of_find?_eq_some hlast
    simpa using this
  have hshape : e.table.length = 7 ∧ ∀ d ∈ e.table, d.length = 48 := by
    have hes : ∃ n data, decodeEntries n data = some es ∨ es = [] := by
      unfold decodeResponse at hdec
      split at hdec
      · exact ⟨_, _, Or.inl hdec⟩
      · exact ⟨0, [], Or.inr (by simpa using hdec.symm)⟩
    obtain ⟨n, data, h | h⟩ := hes
    · obtain ⟨bm, hbm, ht⟩ := decodeEntries_tables n data es h e hmem
      rw [ht]; exact decodeWeek_shape bm hbm
    · rw [h] at hmem; simp at hmem
  have hrows := editTable_rows e.idx e.table edits hshape.2
  have hlen7 : (editTable e.idx e.table edits).length = 7 := by rw [editTable_length]; exact hshape.1
  have hlen42 : (encodeWeek (editTable e.idx e.table edits)).length = 42 := by
    rw [encodeWeek_length _ hrows, hlen7]
  unfold specCommit
  simp only [List.length_append, List.length_cons, List.length_nil, hlen42, Bool.and_eq_true, beq_iff_eq,
    List.all_eq_true, List.mem_range]
  refine ⟨by simp, ?_⟩
  intro d hd i hi
  have hdrop : ([1, e.idx.toUInt8, e.switch.toUInt8, p.toUInt8] ++ encodeWeek (editTable e.idx e.table edits)).drop 4 =
      encodeWeek (editTable e.idx e.table edits) := by simp
  rw [hdrop, ← slot_layout _ hlen42 d i hd hi, decodeWeek_encodeWeek _ hrows]

/-! ### slot-level reading of whole edit lists -/

/-- a `set_state` call with half-hour aligned times on schedule `idx`: start slot `i`, end slot
number `j` (0 = 00:00) -/
structure AEdit where
  idx : Nat
  day : Weekday
  state : String
  i : Nat
  j : Nat

def AEdit.toEdit (a : AEdit) : Edit := ⟨a.idx, a.day, a.state, slotTime a.i, slotTime a.j⟩
def AEdit.toSlot (a : AEdit) : SlotEdit :=
  ⟨a.day.pos, validStates.contains a.state, onStates.contains a.state, a.i, a.j⟩

theorem weekday_pos_lt (d : Weekday) : d.pos < 7 := by cases d <;> decide

/-- one aligned edit on a 7 × 48 table, slot by slot, is the statement's `SlotEdit.apply` -/
theorem edit_slot (t : List (List Bool)) (ht : t.length = 7) (hrows : ∀ r ∈ t, r.length = 48)
    (a : AEdit) (hi : a.i < 48) (hj : a.j < 48) (d k : Nat) (hd : d < 7) (hk : k < 48) :
    ((t.set a.day.pos (setState (t.getD a.day.pos []) a.state (slotTime a.i) (slotTime a.j)).1).getD d []).getD k false =
      a.toSlot.apply d k ((t.getD d []).getD k false) := by
  have hpos := weekday_pos_lt a.day
  by_cases hdp : a.day.pos = d
  · subst hdp
    have hlt : a.day.pos < t.length := by omega
    have hrow : (t.getD a.day.pos []).length = 48 := by
      apply hrows
      rw [List.getD_eq_getElem?_getD, List.getElem?_eq_getElem hlt]
      simp
    have hget : (t.set a.day.pos (setState (t.getD a.day.pos []) a.state (slotTime a.i) (slotTime a.j)).1).getD a.day.pos [] =
        (setState (t.getD a.day.pos []) a.state (slotTime a.i) (slotTime a.j)).1 := by
      simp [List.getD_eq_getElem?_getD, hlt]
    rw [hget]
    simp only [SlotEdit.apply, AEdit.toSlot, true_and]
    cases hv : validStates.contains a.state with
    | false => rw [setState_none _ _ _ _ (Or.inl hv)]; simp
    | true =>
      by_cases hc : endSlot a.j ≤ a.i
      · have ht' : timeRange (slotTime a.i) (slotTime a.j) = none := by
          rw [time_range_aligned a.i a.j hi hj, if_pos hc]
        have : ¬ (a.i < endSlot a.j) := by omega
        rw [setState_none _ _ _ _ (Or.inr ht')]
        simp [this]
      · have ht' : timeRange (slotTime a.i) (slotTime a.j) = some (a.i, endSlot a.j) := by
          rw [time_range_aligned a.i a.j hi hj, if_neg hc]
        have hlt' : a.i < endSlot a.j := by omega
        rw [setState_some _ _ _ _ _ _ hv ht']
        have hk' : k < (t.getD a.day.pos []).length := by omega
        have hk'' : k < (t[a.day.pos]?.getD []).length := by
          simpa [List.getD_eq_getElem?_getD] using hk'
        simp only [List.getD_eq_getElem?_getD, List.getElem?_mapIdx, hlt', true_and]
        rw [List.getElem?_eq_getElem hk'']
        by_cases hcond : a.i ≤ k ∧ k ≤ endSlot a.j <;> simp [hcond]
  · have hne : ¬ (a.toSlot.valid = true ∧ a.toSlot.i < endSlot a.toSlot.j ∧ a.toSlot.day = d ∧
        a.toSlot.i ≤ k ∧ k ≤ endSlot a.toSlot.j) := by
      intro h; exact hdp h.2.2.1
    simp only [SlotEdit.apply, if_neg hne]
    simp [List.getD_eq_getElem?_getD, hdp]

/-- **link**: for ANY list of aligned edits (to this and to other schedules, valid or not), every
slot of the edited table is the statement's slot-level expectation — the received slot with
the edits addressed to this schedule applied in order -/
theorem edit_table_slots (idx : Nat) (t : List (List Bool)) (ht : t.length = 7)
    (hrows : ∀ r ∈ t, r.length = 48) (aes : List AEdit) (hal : ∀ a ∈ aes, a.i < 48 ∧ a.j < 48)
    (d k : Nat) (hd : d < 7) (hk : k < 48) :
    ((editTable idx t (aes.map AEdit.toEdit)).getD d []).getD k false =
      expectedSlot (fun d k => (t.getD d []).getD k false)
        ((aes.filter (fun a => a.idx == idx)).map AEdit.toSlot) d k := by
  induction aes generalizing t with
  | nil => simp [editTable, expectedSlot]
  | cons a rest ih =>
    have ha := hal a (by simp)
    have hrest : ∀ x ∈ rest, x.i < 48 ∧ x.j < 48 := fun x hx => hal x (by simp [hx])
    by_cases hidx : a.idx = idx
    · have hstep : editTable idx t ((a :: rest).map AEdit.toEdit) =
          editTable idx (t.set a.day.pos (setState (t.getD a.day.pos []) a.state (slotTime a.i) (slotTime a.j)).1)
            (rest.map AEdit.toEdit) := by
        simp [editTable, AEdit.toEdit, hidx]
      have hrows' : ∀ r ∈ t.set a.day.pos (setState (t.getD a.day.pos []) a.state (slotTime a.i) (slotTime a.j)).1,
          r.length = 48 := by
        have := editTable_rows idx t [a.toEdit] hrows
        simpa [editTable, AEdit.toEdit, hidx] using this
      rw [hstep, ih _ (by simp [ht]) hrows' hrest]
      have hb : (a.idx == idx) = true := by simp [hidx]
      have hf : (a :: rest).filter (fun a => a.idx == idx) = a :: rest.filter (fun a => a.idx == idx) := by
        simp [List.filter, hb]
      rw [hf]
      simp only [expectedSlot, List.map_cons, List.foldl_cons]
      rw [edit_slot t ht hrows a ha.1 ha.2 d k hd hk]
    · have hstep : editTable idx t ((a :: rest).map AEdit.toEdit) = editTable idx t (rest.map AEdit.toEdit) := by
        simp [editTable, AEdit.toEdit, hidx]
      have hb : (a.idx == idx) = false := by simp [hidx]
      have hf : (a :: rest).filter (fun a => a.idx == idx) = rest.filter (fun a => a.idx == idx) := by
        simp [List.filter, hb]
      rw [hstep, hf, ih t ht hrows hrest]

/-- the committed payload judged by the statement's own slot-level predicate: header, 46 bytes,
and every slot of its bitmap is the RECEIVED slot (`slotBit` of the received 42 bytes) with
exactly the aligned edits addressed to this schedule applied -/
theorem holds_commit_slots (msg : List Byte) (es : List Entry) (e : Entry) (p : Nat) (bm : List Byte)
    (aes : List AEdit) (hal : ∀ a ∈ aes, a.i < 48 ∧ a.j < 48)
    (hdec : decodeResponse msg = some es)
    (hknown : es.all (fun x => decide (x.idx < schedulesCount)) = true)
    (hlast : es.reverse.find? (fun x => x.idx == e.idx) = some e)
    (hpar : e.param = some p) (hbm : bm.length = 42) (htab : e.table = decodeWeek bm) :
    ∃ dev payload, Device.init.receive msg = some dev ∧
      (dev.applyEdits (aes.map AEdit.toEdit)).commit e.idx = some payload ∧
      specCommit e.idx e.switch p
        (expectedSlot (slotBit bm) ((aes.filter (fun a => a.idx == e.idx)).map AEdit.toSlot)) payload = true := by
  obtain ⟨dev, payload, hr, hc, hs⟩ := holds_commit msg es e p (aes.map AEdit.toEdit) hdec hknown hlast hpar
  refine ⟨dev, payload, hr, hc, ?_⟩
  have hshape := decodeWeek_shape bm hbm
  unfold specCommit at hs ⊢
  simp only [Bool.and_eq_true, List.all_eq_true, List.mem_range, beq_iff_eq] at hs ⊢
  refine ⟨hs.1, ?_⟩
  intro d hd k hk
  rw [hs.2 d hd k hk, htab, edit_table_slots e.idx (decodeWeek bm) hshape.1 hshape.2 aes hal d k hd hk]
  simp only [expectedSlot, slot_layout bm hbm d k hd hk]

/-! ### the write queue: serialisation happens when the frame is written (finding F6) -/

/-- `commit()` followed at once by the producer's write transmits the commit-time payload -/
theorem commit_then_drain (dev : Device) (idx : Nat) (p : List Byte) (h : dev.commit idx = some p) :
    (Sys.run ⟨dev, []⟩ [.commit idx, .drain]).2 = [.queued, .tx p] := by
  unfold Device.commit at h
  cases h1 : dictGet dev.schedules idx with
  | none => simp [h1] at h
  | some w =>
    cases h2 : dictGet dev.switches idx with
    | none => simp [h1, h2] at h
    | some sw =>
      cases h3 : dictGet dev.params idx with
      | none => simp [h1, h2, h3] at h
      | some par =>
        simp only [h1, h2, h3, Option.some.injEq] at h
        simp [Sys.run, Sys.step, h1, h2, h3, Req.payload, Req.week, h]

/-- **what IS guaranteed** (`commit_snapshot_partial`): whatever happens between `commit()` and
the write — responses (which replace the Schedule objects), edits of OTHER schedules — the
transmitted payload is the commit-time payload, as long as no edit addresses the committed
schedule in between -/
theorem commit_snapshot_partial (dev : Device) (idx : Nat) (p : List Byte) (mid : List Ev)
    (h : dev.commit idx = some p) (hmid : ∀ ev ∈ mid, ev.harmlessFor idx = true) :
    ∃ outs, (Sys.run ⟨dev, []⟩ (.commit idx :: (mid ++ [.drain]))).2 = .queued :: (outs ++ [.tx p]) := by
  unfold Device.commit at h
  cases h1 : dictGet dev.schedules idx with
  | none => simp [h1] at h
  | some w =>
    cases h2 : dictGet dev.switches idx with
    | none => simp [h1, h2] at h
    | some sw =>
      cases h3 : dictGet dev.params idx with
      | none => simp [h1, h2, h3] at h
      | some par =>
        simp only [h1, h2, h3, Option.some.injEq] at h
        have hstep : (Sys.step ⟨dev, []⟩ (.commit idx)) = (⟨dev, [⟨idx, sw, par, none⟩]⟩, .queued) := by
          simp [Sys.step, h1, h2, h3]
        obtain ⟨r', hq, _, hp⟩ := Sys.run_harmless ⟨dev, [⟨idx, sw, par, none⟩]⟩ ⟨idx, sw, par, none⟩ rfl mid hmid
        refine ⟨(Sys.run ⟨dev, [⟨idx, sw, par, none⟩]⟩ mid).2, ?_⟩
        have hcons : ∀ (s : Sys) (ev : Ev) (evs : List Ev), Sys.run s (ev :: evs) =
            ((Sys.run (s.step ev).1 evs).1, (s.step ev).2 :: (Sys.run (s.step ev).1 evs).2) := fun _ _ _ => rfl
        rw [hcons, hstep, Sys.run_append]
        simp only [List.cons.injEq, true_and, List.append_cancel_left_eq]
        rw [hcons]
        simp only [Sys.step, hq, Sys.run, hp]
        simp [Req.payload, Req.week, h1, h]

/-- the FULL statement one would like ("the edited week AT COMMIT TIME is what is sent"), for
every history of responses and edits between `commit()` and the write -/
def commit_snapshot_full : Prop :=
  ∀ (dev : Device) (idx : Nat) (p : List Byte) (mid : List Ev), dev.commit idx = some p →
    (∀ ev ∈ mid, match ev with | .receive _ => True | .edit _ => True | _ => False) →
    ∃ outs, (Sys.run ⟨dev, []⟩ (.commit idx :: (mid ++ [.drain]))).2 = .queued :: (outs ++ [.tx p])

private def witnessMsg : List Byte := [0, 0, 1, 3, 1, 20, 0, 50] ++ List.replicate 42 0
private def witnessDev : Device :=
  (Device.init.receive witnessMsg).getD Device.init
private def witnessEdit : Edit := ⟨3, .tuesday, "on", .hm 0 0, .hm 0 0⟩

/-- **witness of F6**: schedule 3 received all-off, committed, then Tuesday switched on for the
whole day BEFORE the producer writes the frame — the transmitted bitmap has Tuesday (bytes
12..17) all ones although the week committed was all-off -/
theorem commit_live_witness :
    witnessDev.commit 3 = some ([1, 3, 1, 20] ++ List.replicate 42 0) ∧
    (Sys.run ⟨witnessDev, []⟩ [.commit 3, .edit witnessEdit, .drain]).2 =
      [.queued, .edited .ok,
       .tx ([1, 3, 1, 20] ++ List.replicate 12 0 ++ List.replicate 6 0xFF ++ List.replicate 24 0)] := by
  decide +kernel

/-- the full statement is FALSE of the model (and of the code: finding F6) -/
theorem commit_snapshot_full_false : ¬ commit_snapshot_full := by
  intro h
  obtain ⟨outs, ho⟩ := h witnessDev 3 _ [.edit witnessEdit] commit_live_witness.1
    (by intro ev hev; simp at hev; subst hev; trivial)
  have hw := commit_live_witness.2
  simp only [List.cons_append, List.nil_append] at ho
  rw [hw] at ho
  simp only [List.cons.injEq, true_and] at ho
  -- outs ++ [tx p] = [edited ok, tx p'] forces p = p'
  have : outs = [.edited .ok] ∧
      Out.tx ([1, 3, 1, 20] ++ List.replicate 12 0 ++ List.replicate 6 0xFF ++ List.replicate 24 0) =
        Out.tx ([1, 3, 1, 20] ++ List.replicate 42 0) := by
    match outs, ho with
    | [o], ho =>
      simp only [List.cons_append, List.nil_append, List.cons.injEq, and_true] at ho
      exact ⟨by rw [ho.1], ho.2⟩
    | [], ho => simp at ho
    | _ :: _ :: _, ho => simp at ho
  have hne : (Out.tx ([1, 3, 1, 20] ++ List.replicate 12 0 ++ List.replicate 6 0xFF ++ List.replicate 24 0) =
      Out.tx ([1, 3, 1, 20] ++ List.replicate 42 0)) = False := by decide +kernel
  exact hne ▸ this.2

/-! ### tie to the source (translator tables) -/

/-- 40 schedule kinds with distinct names (so `SCHEDULES.index(name)` is the index the name was
received under), 42 bytes a bitmap = 7 days × 48 slots / 8 -/
theorem schedule_table :
    Gen.schedules.length = 40 ∧ Gen.schedules.Nodup ∧ Gen.scheduleSize = 42 ∧ 42 * 8 = 7 * 48 := by
  refine ⟨rfl, by decide +kernel, rfl, rfl⟩

/-- the parameter table lists, for schedule `i`, its switch at position `2i` and its parameter
at `2i + 1`, under the names `collect_schedule_data` looks them up by -/
theorem schedule_parameter_names :
    Gen.scheduleParams.map (fun d => (d.name, d.switch)) =
      Gen.schedules.flatMap (fun n => [(n ++ "_schedule_switch", true), (n ++ "_schedule_parameter", false)]) := by
  decide +kernel

/-! ### non-vacuity -/

/-- 00:00–01:00 sets slots 0, 1, 2; an end of 00:00 reaches slot 47; 23:30–00:00 is refused -/
example : setState (List.replicate 48 false) "on" (.hm 0 0) (.hm 1 0) =
    ([true, true, true] ++ List.replicate 45 false, .ok) := by decide
example : setState (List.replicate 48 true) "night" (.hm 23 0) (.hm 0 0) =
    (List.replicate 46 true ++ [false, false], .ok) := by decide
example : (setState (List.replicate 48 true) "off" (.hm 23 30) (.hm 0 0)).2 = .valueError := by decide
example : (setState (List.replicate 48 true) "auto" (.hm 1 0) (.hm 2 0)).2 = .valueError := by decide
/-- Monday (row 1) 00:00–00:30 "on" of schedule 3 on an all-off week: byte 6 of the bitmap becomes 0xC0 -/
example : ∃ dev, Device.init.receive ([0, 0, 1, 3, 1, 20, 0, 50] ++ List.replicate 42 0) = some dev ∧
    (dev.applyEdits [⟨3, .monday, "on", .hm 0 0, .hm 0 30⟩]).commit 3 =
      some ([1, 3, 1, 20] ++ List.replicate 6 0 ++ [0xC0] ++ List.replicate 35 0) := by
  refine ⟨_, rfl, ?_⟩
  decide +kernel

end PlumVerif.C18

import PlumVerif.Proofs.EventsObs5
/-
C13 — the judge `C13.spec` (Spec/C13.lean: the statement as an executable predicate over an
OBSERVATION: invocation log with values, a snapshot after every loop run, results and virtual
times of get / wait_for) holds of every observation of the interleaving machine.

`observe sc ops` is what an observer sees when the machine is driven through the history `ops`
(API calls, releases of suspended callbacks, loop runs in asyncio's FIFO order, clock moves) with
callback scripts `sc`.  The same predicate is evaluated by the driver (`c13judge`) on what the
harness observed of the real EventManager.
-/
namespace PlumVerif.C13

/-- each awaited callback received the value produced by the callbacks before it in the same
dispatch, starting from the dispatched value (a None return keeps the value) -/
theorem threading_holds (sc : Nat → Script) (ops : List Op) : threading sc ops (observe sc ops) = true :=
  holds_threading sc ops

/-- on the functions only ever subscribed plainly, what a dispatch awaited is — in subscription
order — exactly what was subscribed to its name (and not unsubscribed) at one moment after its
creation; a prefix of it while the dispatch is still under way -/
theorem order_holds (sc : Nat → Script) (ops : List Op) : order ops (observe sc ops) = true :=
  holds_order sc ops

/-- a function subscribed only through subscribe_once, k times, is awaited at most k times -/
theorem once_holds (sc : Nat → Script) (ops : List Op) : onceOnly ops (observe sc ops) = true :=
  holds_once sc ops

/-- stored data changes only in a loop run in which a dispatch of that name finished, and then
holds the final value of such a dispatch -/
theorem stored_holds (sc : Nat → Script) (ops : List Op) : stored sc ops (observe sc ops) = true :=
  holds_stored sc ops

/-- getters: a returned value is the final value of a finished dispatch of that name; found at
once when a value existed; who still waits has no value and a deadline ahead; a timeout raises
at start + timeout -/
theorem getters_hold (sc : Nat → Script) (ops : List Op) : getters sc ops (observe sc ops) = true :=
  holds_getters sc ops

/-- **C13.holds**: every observation of the machine — any callback scripts, any history —
satisfies `C13.spec` -/
theorem holds (sc : Nat → Script) (ops : List Op) : spec sc ops (observe sc ops) = true :=
  spec_observe sc ops

/-! ### the judge is not vacuous: it rejects observations that break the statement -/

def scObs : Nat → Script := fun c => if c = 0 then ⟨1, .keep⟩ else ⟨0, .add 5⟩

def opsDemo : List Op :=
  [.sub 0 0, .once 0 1, .disp 0 1, .disp 0 2, .settle, .rel 0, .settle, .rel 1, .settle, .get 0 (some 3), .settle]

example : (observe scObs opsDemo).log = [⟨0, 0, 1⟩, ⟨1, 0, 2⟩, ⟨0, 1, 1⟩] := by decide

/-- the once-callback awaited by both dispatches (what the code did before fix ee9b4d5) -/
example : onceOnly opsDemo ⟨[⟨0, 0, 1⟩, ⟨1, 0, 2⟩, ⟨0, 1, 1⟩, ⟨1, 1, 2⟩], [], []⟩ = false := by decide

/-- a callback that received a value nobody produced -/
example : threading scObs opsDemo ⟨[⟨0, 0, 1⟩, ⟨0, 1, 7⟩], [], []⟩ = false := by decide

/-- a dispatch that skipped the plainly subscribed callback 0 although it finished -/
example : order opsDemo ⟨[⟨0, 1, 1⟩], [⟨4, 0, [some 6, none, none], [true, false], [none, none], []⟩], []⟩ = false := by
  decide

end PlumVerif.C13

import PlumVerif.Proofs.EventsObs5
/-
C13 — the judge `C13.spec` (Spec/C13.lean: the statement as an executable predicate over an
OBSERVATION: invocation log with values, a snapshot after every loop run, results and virtual
times of get / wait_for) holds of every observation of the interleaving machine.

`observe sc ops` is what an observer sees when the machine is driven through the history `ops`
(API calls, releases of suspended callbacks, loop runs in asyncio's FIFO order, clock moves) with
callback scripts `sc`.  The same predicate is evaluated by the driver (`c13judge`) on what the
harness observed of the real EventManager.
-/
namespace PlumVerif.C13

/-- each awaited callback received the value produced by the callbacks before it in the same
dispatch, starting from the dispatched value (a None return keeps the value) -/
theorem threading_holds (sc : Nat → Script) (ops : List Op) : threading sc ops (observe sc ops) = true :=
  holds_threading sc ops

/-- on the functions only ever subscribed plainly, what a dispatch awaited is — in subscription
order — exactly what was subscribed to its name (and not unsubscribed) at one moment after its
creation; a prefix of it while the dispatch is still under way -/
theorem order_holds (sc : Nat → Script) (ops : List Op) : order ops (observe sc ops) = true :=
  holds_order sc ops

/-- a function subscribed only through subscribe_once, k times, is awaited at most k times -/
theorem once_holds (sc : Nat → Script) (ops : List Op) : onceOnly ops (observe sc ops) = true :=
  holds_once sc ops

/-- stored data changes only in a loop run in which a dispatch of that name finished, and then
holds the final value of such a dispatch -/
theorem stored_holds (sc : Nat → Script) (ops : List Op) : stored sc ops (observe sc ops) = true :=
  holds_stored sc ops

/-- getters: a returned value is the final value of a finished dispatch of that name; found at
once when a value existed; who still waits has no value and a deadline ahead; a timeout raises
at start + timeout -/
theorem getters_hold (sc : Nat → Script) (ops : List Op) : getters sc ops (observe sc ops) = true :=
  holds_getters sc ops

/-- **C13.holds**: every observation of the machine — any callback scripts, any history —
satisfies `C13.spec` -/
theorem holds (sc : Nat → Script) (ops : List Op) : spec sc ops (observe sc ops) = true :=
  spec_observe sc ops

/-! ### the judge is not vacuous: it rejects observations that break the statement -/

def scObs : Nat → Script := fun c => if c = 0 then ⟨1, .keep⟩ else ⟨0, .add 5⟩

def opsDemo : List Op :=
  [.sub 0 0, .once 0 1, .disp 0 1, .disp 0 2, .settle, .rel 0, .settle, .rel 1, .settle, .get 0 (some 3), .settle]

example : (observe scObs opsDemo).log = [⟨0, 0, 1⟩, ⟨1, 0, 2⟩, ⟨0, 1, 1⟩] := by decide

/-- the once-callback awaited by both dispatches (what the code did before fix ee9b4d5) -/
example : onceOnly opsDemo ⟨[⟨0, 0, 1⟩, ⟨1, 0, 2⟩, ⟨0, 1, 1⟩, ⟨1, 1, 2⟩], [], []⟩ = false := by decide

/-- a callback that received a value nobody produced -/
example : threading scObs opsDemo ⟨[⟨0, 0, 1⟩, ⟨0, 1, 7⟩], [], []⟩ = false := by decide

/-- a dispatch that skipped the plainly subscribed callback 0 although it finished -/
example : order opsDemo ⟨[⟨0, 1, 1⟩], [⟨4, 0, [some 6, none, none], [true, false], [none, none], []⟩], []⟩ = false := by
  decide

/-! ### the tightened judge `specT` (audit item 4)

`specT = spec ∧ onceDue ∧ orderT ∧ gettersT` is the judge the driver applies to the IMPLEMENTATION's
observation (`c13judge`) and, on every generated history, to the machine's own observation
(`c13self`).  The all-histories theorem above is proved for `spec`; for the three added clauses the
full statement is `holds_tight_full` below — NOT proved: it needs (i) a ghost in the machine that
tells an explicit unsubscribe from a once-wrapper removing itself (for `onceDue`; the machine-level
content is `C13.skipped_entry_was_removed` / `live_entry_awaited` / `snapshot_entry_awaited_or_removed`),
(ii) the op index of the loop run in which a task starts, carried through `MInv.started` and tied
to the snapshots (for `orderT`), (iii) per-snapshot `done` facts at the waiter's return (for
`gettersT`); and it can only hold for histories whose loop runs need fewer moves than the driver's
fuel (10000).  Evidence meanwhile: the machine passes `specT` on every history the harness generates
(differential, reported in the evidence), and the judge provably REJECTS the three observations the
audit names: -/

def holds_tight_full : Prop := ∀ (sc : Nat → Script) (ops : List Op), specT sc ops (observe sc ops) = true

/-- the part that is proved: the `spec` conjunct of the tightened judge, for all scripts and histories -/
theorem holds_tight_partial (sc : Nat → Script) (ops : List Op) : spec sc ops (observe sc ops) = true := holds sc ops

def scT : Nat → Script := fun _ => ⟨0, .keep⟩

/-- (a) a finished dispatch that never awaited a once-callback that was live all along:
accepted by `spec`, rejected by `specT` -/
example : spec scT [.once 0 1, .disp 0 1, .settle] ⟨[], [⟨2, 0, [some 1, none, none], [true], [none], []⟩], []⟩ = true ∧
    specT scT [.once 0 1, .disp 0 1, .settle] ⟨[], [⟨2, 0, [some 1, none, none], [true], [none], []⟩], []⟩ = false := by
  decide

/-- … while the machine's own observation of that history (the callback IS awaited) passes -/
example : specT scT [.once 0 1, .disp 0 1, .settle] (observe scT [.once 0 1, .disp 0 1, .settle]) = true := by decide

/-- (b) a callback subscribed AFTER the dispatch finished, claimed as awaited by it -/
example :
    spec scT [.disp 0 1, .settle, .sub 0 0, .settle]
      ⟨[⟨0, 0, 1⟩], [⟨1, 0, [some 1, none, none], [true], [none], []⟩, ⟨3, 0, [some 1, none, none], [true], [none], []⟩], []⟩ = true ∧
    specT scT [.disp 0 1, .settle, .sub 0 0, .settle]
      ⟨[⟨0, 0, 1⟩], [⟨1, 0, [some 1, none, none], [true], [none], []⟩, ⟨3, 0, [some 1, none, none], [true], [none], []⟩], []⟩ = false := by
  decide

/-- (c) a getter that returned 1 before any dispatch had finished (the dispatch finishes only later) -/
example :
    spec scT [.get 0 none, .settle, .disp 0 1, .settle]
      ⟨[], [⟨1, 0, [none, none, none], [], [], [.returned 1 0]⟩, ⟨3, 0, [some 1, none, none], [true], [none], [.returned 1 0]⟩],
        [⟨true, 0, false, .returned 1 0⟩]⟩ = true ∧
    specT scT [.get 0 none, .settle, .disp 0 1, .settle]
      ⟨[], [⟨1, 0, [none, none, none], [], [], [.returned 1 0]⟩, ⟨3, 0, [some 1, none, none], [true], [none], [.returned 1 0]⟩],
        [⟨true, 0, false, .returned 1 0⟩]⟩ = false := by
  decide

example : specT scObs opsDemo (observe scObs opsDemo) = true := by decide

end PlumVerif.C13

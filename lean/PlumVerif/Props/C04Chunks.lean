import PlumVerif.Props.C04
import PlumVerif.Proofs.ReaderChunks
/-
C04, "however the byte stream is split into arrival chunks": the reader as a machine that is
SUSPENDED at its await points and resumed when the next chunk arrives (`Model/ReaderChunks`),
proved equal to the reader model on the concatenated stream for EVERY chunking and every
interleaving of arrival with the reader's progress.  What remains trusted about
asyncio.StreamReader is the contract of `read(1)` / `readexactly(n)` on a buffer (stated in
`Model/ReaderChunks`), no longer "chunk-agnostic semantics" as a whole.
-/
namespace PlumVerif.C04
open PlumVerif

/-- one call: for every buffer content and every way the rest arrives in chunks, the call that
blocks and is resumed has the outcome of `readFrame` on the whole stream, and leaves (buffer +
chunks still to come) exactly what `readFrame` leaves -/
theorem call_chunk_independent (buf : List Byte) (cs : List (List Byte)) :
    let r := callChunks .scanning buf cs
    readFrame (buf ++ cs.flatten) = (r.1, r.2.1 ++ r.2.2.flatten) :=
  callChunks_readFrame buf cs

/-- **chunk independence**: for ALL chunk lists `cs` and ALL arrival schedules `eager` (how many
further chunks have already arrived before each call), the outcomes and consumed byte counts of
the calls are those of the reader model on the concatenation -/
theorem chunk_independent (eager : List Nat) (cs : List (List Byte)) :
    readChunks eager cs = readAll cs.flatten := by
  unfold readChunks readAll
  rw [readChunksFuel_eq]; rfl

/-- two chunkings (and arrival schedules) of the same bytes give the same calls -/
theorem any_two_chunkings (e1 e2 : List Nat) (cs1 cs2 : List (List Byte)) (h : cs1.flatten = cs2.flatten) :
    readChunks e1 cs1 = readChunks e2 cs2 := by
  rw [chunk_independent, chunk_independent, h]

/-- the resumable-state invariant the induction rests on: running on `buf ++ more` is running on
`buf`, blocking, and being resumed from the reached state with `more` behind what was left -/
theorem resumption (st st' : RState) (buf b more : List Byte) (h : resume st buf = .blocked st' b) :
    resume st (buf ++ more) = resume st' (b ++ more) :=
  resume_blocked_append h more

/-- **C04 for chunked arrival**: any sequence of well-formed frames, cut into chunks in ANY way
and arriving under ANY schedule, is read as exactly those frames — each once, in order, each
call consuming its own frame's bytes -/
theorem stream_chunked (fs : List (Fields × Byte)) (hlen : ∀ p ∈ fs, p.1.payload.length + 10 ≤ 1000)
    (eager : List Nat) (cs : List (List Byte)) (hcs : cs.flatten = fs.flatMap fun p => encodeWith p.1 p.2) :
    readChunks eager cs = fs.map (fun p => (classify p.1, p.1.wireLength)) ++ [(.connLost, 0)] := by
  rw [chunk_independent, hcs]; exact stream fs hlen

/-- non-vacuity: a foreign frame whose checksum byte is the start delimiter followed by an own
frame, (a) byte by byte, (b) cut inside both headers with two chunks arrived before the first call -/
example :
    let a : List Byte := [0x68, 0x0b, 0x00, 0x01, 0x45, 0x30, 0x05, 0x19, 0x63, 0x68, 0x16]
    let b : List Byte := [0x68, 0x0a, 0x00, 0x56, 0x45, 0x30, 0x05, 0x19, 0x5d, 0x16]
    (readChunks [] ((a ++ b).map fun x => [x])).map (·.1) = [.ignored, .delivered ⟨0x19, 0x56, 0x45, 0x30, 0x05, []⟩, .connLost] ∧
    (readChunks [2, 0, 1] [a.take 3, a.drop 3 ++ b.take 2, [], b.drop 2]).map (·.1) =
      [.ignored, .delivered ⟨0x19, 0x56, 0x45, 0x30, 0x05, []⟩, .connLost] ∧
    callTrace .scanning [] [a.take 1, a.drop 1 |>.take 3, a.drop 4] =
      [(.scanning, 0), (.header, 0), (.header, 3)] := by decide

end PlumVerif.C04

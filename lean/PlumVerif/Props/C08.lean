import PlumVerif.Spec.C08
import PlumVerif.Proofs.SetM
import PlumVerif.Proofs.SetMSpec
/-
C08 — set / confirm / retry: requested value only, bounded attempts, truthful result.
Property theorems only; helper lemmas live in Proofs/SetM.lean.

Every theorem is about `trace s0 v r T es`: the outputs of one `set(v, retries = r, timeout = T)`
issued in an ARBITRARY idle state `s0` (any locally held triple, any clock, versions tracked or
not, executor synchronous or held) followed by an ARBITRARY history `es` of reports, clock
advances, timer expiries, executor answers (and further calls, which are ignored).
`all_histories` shows that every event list that contains a call has this form.
-/
namespace PlumVerif.C08
open PlumVerif.SetM

/-- the defaults read from the source are those of the property text's API (`retries=5`, `timeout=5.0`) -/
theorem defaults : defaultRetries = 5 ∧ defaultTimeoutMs = 5000 := by decide

/-- every event list with a call is "a call-free prefix, which leaves the parameter idle and produces
nothing, then a `trace`" -/
theorem all_histories (s0 : St) (h0 : s0.phase = .idle) (pre : List Ev)
    (hpre : ∀ e ∈ pre, e.isCall = false) (v r T : Nat) (es : List Ev) :
    (run s0 pre).1.phase = .idle ∧
    (run s0 (pre ++ .call v r T :: es)).2 = trace (run s0 pre).1 v r T es := by
  obtain ⟨h1, h2, _⟩ := idle_run s0 pre h0 hpre
  refine ⟨h1, ?_⟩
  rw [run_append]
  simp [h2, trace]

/-- **tx_value**: every set request carries the requested raw value — whatever was reported,
and whenever, in between. -/
theorem tx_value (s0 : St) (h0 : s0.phase = .idle) (v r T : Nat) (es : List Ev) :
    ∀ x ∈ txVals (trace s0 v r T es), x = v := by
  intro x hx
  simp only [trace, txVals_append, List.mem_append] at hx
  rcases after_call s0 h0 v r T with ⟨hd, ht, _⟩ | ⟨_, hc⟩
  · rw [ht, (done_silent _ es hd).2] at hx; simp at hx
  · obtain ⟨ha, hw, hr, _⟩ := arm_facts s0 v r T
    rw [hc] at hx
    rcases hx with hx | hx
    · exact loopTop_txVals _ x hx
    · rw [← hr]; exact run_txVals _ es ha hw x hx

example : txVals (trace (init ⟨10, 0, 100⟩ false false 0) 42 3 5000
    [.wait 2000, .report ⟨10, 0, 100⟩, .timer, .report ⟨10, 0, 100⟩, .timer, .timer]) = [42, 42, 42] := by decide

/-- **tx_count**: at most `retries` set requests. -/
theorem tx_count (s0 : St) (h0 : s0.phase = .idle) (v r T : Nat) (es : List Ev) :
    (txVals (trace s0 v r T es)).length ≤ r := by
  simp only [trace, txVals_append, List.length_append]
  rcases after_call s0 h0 v r T with ⟨hd, ht, _⟩ | ⟨_, hc⟩
  · rw [ht, (done_silent _ es hd).2]; simp
  · obtain ⟨ha, hw, _⟩ := arm_facts s0 v r T
    rw [hc]
    have h1 := (loopTop_budget (arm s0 v r T)).1
    have h2 := run_budget _ es ha hw
    have : (arm s0 v r T).retries = r := rfl
    omega

/-- **tx_spacing** (one per timeout interval): no set request before the call, consecutive set
requests at least `timeout` apart — also when request construction is slow. -/
theorem tx_spacing (s0 : St) (h0 : s0.phase = .idle) (v r T : Nat) (es : List Ev) :
    let ts := txTimes (trace s0 v r T es)
    (∀ i (h : i < ts.length), s0.now + i * T ≤ ts[i]) ∧
    (∀ i (h : i + 1 < ts.length), ts[i] + T ≤ ts[i + 1]) := by
  have key : spaced T s0.now (txTimes (trace s0 v r T es)) := by
    simp only [trace, txTimes_append]
    rcases call_cases s0 h0 v r T with ⟨_, h2⟩ | ⟨_, _, h2⟩ | ⟨_, _, _, h2⟩
    · rw [h2, (done_silent _ es rfl).2]; simp [txTimes, spaced]
    · rw [h2, (done_silent _ es rfl).2]; simp [txTimes, spaced]
    · obtain ⟨ha, _, _, _, hT, _⟩ := arm_facts s0 v r T
      rw [h2]
      have g := loopTop_spaced (arm s0 v r T)
      by_cases hd : (loopTop (arm s0 v r T)).1.phase = .done
      · rw [(done_silent _ es hd).2, g.1 hd]; simp [spaced]
      · have := run_spaced _ es ha
        rw [hT] at this
        exact g.2 hd _ this
  exact spaced_get T _ _ key

/-- **tx_spacing, exact form**: when request construction does not suspend, the `k`-th set request
(counting from 0) is queued exactly at `t₀ + k·timeout`, `t₀` the time of the call. -/
theorem tx_spacing_exact (s0 : St) (h0 : s0.phase = .idle) (hh : s0.hold = false) (v r T : Nat)
    (es : List Ev) :
    let ts := txTimes (trace s0 v r T es)
    ∀ k (h : k < ts.length), ts[k] = s0.now + k * T := by
  have key : exact T s0.now (txTimes (trace s0 v r T es)) := by
    simp only [trace, txTimes_append]
    rcases call_cases s0 h0 v r T with ⟨_, h2⟩ | ⟨_, _, h2⟩ | ⟨_, _, _, h2⟩
    · rw [h2, (done_silent _ es rfl).2]; simp [txTimes, exact]
    · rw [h2, (done_silent _ es rfl).2]; simp [txTimes, exact]
    · obtain ⟨ha, _, _, _, hT, _⟩ := arm_facts s0 v r T
      rw [h2]
      have g := loopTop_exact (arm s0 v r T) hh
      have g' := loopTop_spaced (arm s0 v r T)
      by_cases hd : (loopTop (arm s0 v r T)).1.phase = .done
      · rw [(done_silent _ es hd).2, g'.1 hd]; simp [exact]
      · have hs : (loopTop (arm s0 v r T)).1.phase = .sleeping := by
          rcases g.1.2 with h | h
          · exact h
          · exact absurd h hd
        have := run_exact _ es ha g.1 hs
        rw [hT] at this
        exact g.2 hd _ this
  exact exact_get T _ _ key

example : txTimes (trace (init ⟨10, 0, 100⟩ true false 250) 42 3 5000
    [.wait 2000, .report ⟨10, 0, 100⟩, .timer, .wait 125, .report ⟨7, 0, 100⟩, .timer, .timer])
    = [250, 5250] := by decide

/-- **refresh_per_attempt**: `is_tracking_changes` is looked at once per attempt, right after the
set request was queued, and may change during the call (`setTracking` events).  Over the outputs
tagged with the flag's value at that moment: a set request made while the flag is OFF is followed
by exactly one re-read request before anything else is transmitted, a set request made while it
is ON by none (`pairedT`); and once `set` has returned no re-read is outstanding. -/
theorem refresh_per_attempt (s0 : St) (h0 : s0.phase = .idle) (v r T : Nat) (es : List Ev) :
    pairedT false false (tagged s0 (.call v r T :: es)) = true ∧
    ((run s0 (.call v r T :: es)).1.phase = .done →
      pairedT true false (tagged s0 (.call v r T :: es)) = true) := by
  have key : ∀ c, (c = true → (run (step s0 (.call v r T)).1 es).1.phase = .done) →
      pairedT c false (tagged s0 (.call v r T :: es)) = true := by
    intro c hcd
    rw [tagged_cons]
    rcases after_call s0 h0 v r T with ⟨hd, _, hk, _⟩ | ⟨_, hc⟩
    · have hs : tagged (step s0 (.call v r T)).1 es = [] := by
        have := tagged_fst (step s0 (.call v r T)).1 es
        rw [(done_silent _ es hd).2] at this
        simpa using this
      rw [hs, List.append_nil]
      rcases call_cases s0 h0 v r T with ⟨_, h2⟩ | ⟨_, _, h2⟩ | ⟨h1, _, _, h2⟩
      · rw [h2]; cases c <;> simp [tag, pairedT]
      · rw [h2]; cases c <;> simp [tag, pairedT]
      · rw [h2] at hd ⊢
        have := loopTop_pairedT (arm s0 v r T) c []
        simp only [List.append_nil] at this
        rw [this]
        simp [pairedT, awaiting, hd]
    · obtain ⟨ha, _⟩ := arm_facts s0 v r T
      rw [hc] at hcd ⊢
      rw [loopTop_pairedT]
      cases c with
      | false => exact run_pairedT _ es ha
      | true => exact run_pairedT_complete _ es ha (hcd rfl)
  exact ⟨key false (by simp), fun hd => key true (fun _ => by simpa using hd)⟩

/-- the outputs of a history without announcements all carry the initial flag -/
theorem tags_constant (s0 : St) (v r T : Nat) (es : List Ev) (hn : ∀ e ∈ es, e.isTrack = false) :
    ∀ x ∈ tagged s0 (.call v r T :: es), x.2 = s0.tracking :=
  tagged_const s0 _ (by
    intro e he
    rcases List.mem_cons.mp he with rfl | he
    · rfl
    · exact hn e he)

/-- **refresh_iff, tracked** (the flag stays on): no re-read request is sent. -/
theorem refresh_iff_tracked (s0 : St) (h0 : s0.phase = .idle) (ht : s0.tracking = true)
    (v r T : Nat) (es : List Ev) (hn : ∀ e ∈ es, e.isTrack = false) :
    ∀ k ∈ txKinds (trace s0 v r T es), k = true := by
  have h := (refresh_per_attempt s0 h0 v r T es).1
  have hc := tags_constant s0 v r T es hn
  have := pairedT_tracked false _ (fun x hx => by rw [hc x hx, ht]) h
  rw [tagged_fst] at this
  simpa [trace] using this

/-- **refresh_iff, not tracked** (the flag stays off): the transmissions are `set, re-read, set,
re-read, …` — every set request is followed by exactly one re-read request before the next set
request; only a history that stops while the re-read request is still under construction ends
with a lone set request, and once `set` has returned every set request has had its re-read. -/
theorem refresh_iff_untracked (s0 : St) (h0 : s0.phase = .idle) (ht : s0.tracking = false)
    (v r T : Nat) (es : List Ev) (hn : ∀ e ∈ es, e.isTrack = false) :
    (∃ n, txKinds (trace s0 v r T es) = pairs n ∨ txKinds (trace s0 v r T es) = pairs n ++ [true]) ∧
    ((run (step s0 (.call v r T)).1 es).1.phase = .done → ∃ n, txKinds (trace s0 v r T es) = pairs n) := by
  have hc := tags_constant s0 v r T es hn
  have conv : ∀ c, pairedT c false (tagged s0 (.call v r T :: es)) =
      paired c false (txKinds (trace s0 v r T es)) := by
    intro c
    rw [pairedT_untracked c false _ (fun x hx => by rw [hc x hx, ht]), tagged_fst]
    simp [trace]
  obtain ⟨h1, h2⟩ := refresh_per_attempt s0 h0 v r T es
  constructor
  · rw [conv] at h1
    obtain ⟨n, hn'⟩ := paired_shape false _ h1
    exact ⟨n, hn'.imp id (·.2)⟩
  · intro hd
    have := h2 (by simpa using hd)
    rw [conv] at this
    obtain ⟨n, hn'⟩ := paired_shape true _ this
    rcases hn' with hn' | ⟨hf, _⟩
    · exact ⟨n, hn'⟩
    · cases hf

/-- the flag is switched on between two attempts: the first set request is followed by a re-read,
the second is not -/
example : tagged (init ⟨10, 0, 100⟩ false false 0) [.call 42 3 5000, .wait 1000, .setTracking true, .timer, .timer] =
    [(.txSet 42 0, false), (.txRefresh 0, false), (.txSet 42 5000, true), (.txSet 42 10000, true)] := by decide

example : trace (init ⟨10, 0, 100⟩ false true 0) 42 2 5000 [.built, .report ⟨10, 0, 100⟩, .built, .timer, .built]
    = [.txSet 42 0, .txRefresh 0, .txSet 42 5000] := by decide

/-- **true_sound**: if the call was not trivial (`v` differs from the locally held value) and
returns `True`, then some report received while it was still running carried a value different
from the one held before the call. -/
theorem true_sound (s0 : St) (h0 : s0.phase = .idle) (v r T : Nat) (es : List Ev)
    (hv : v ≠ s0.loc.value) (hret : (trace s0 v r T es).any isRetTrue = true) :
    ∃ es1 trip es2, es = es1 ++ .report trip :: es2 ∧ trip.value ≠ s0.loc.value ∧
      (trace s0 v r T es1).any Out.isFinal = false := by
  simp only [trace, List.any_append, Bool.or_eq_true] at hret
  rcases after_call s0 h0 v r T with ⟨hd, _, _, _, hq⟩ | ⟨_, hc⟩
  · rw [(done_silent _ es hd).2] at hret
    simp only [List.any_nil, Bool.false_eq_true, or_false] at hret
    exact absurd (hq hret) hv
  · obtain ⟨ha, _, _, hp, _, _, _, hpend⟩ := arm_facts s0 v r T
    rw [hc] at hret
    have l := loopTop_ret (arm s0 v r T)
    have h1 : (loopTop (arm s0 v r T)).2.any isRetTrue = false := by
      cases hq : (loopTop (arm s0 v r T)).2.any isRetTrue with
      | false => rfl
      | true => have := (l.2.1 hq).1; simp [arm] at this
    simp only [h1, Bool.false_eq_true, false_or] at hret
    obtain ⟨es1, trip, es2, he, hne, hn⟩ := run_retTrue_split _ es ha hpend hret
    refine ⟨es1, trip, es2, he, by rw [← hp]; exact hne, ?_⟩
    simp only [trace, hc, List.any_append, Bool.or_eq_false_iff]
    refine ⟨?_, hn⟩
    cases hq : (loopTop (arm s0 v r T)).2.any Out.isFinal with
    | false => rfl
    | true =>
      have hd := l.2.2.1 hq
      rw [(done_silent _ es hd).2] at hret
      simp at hret

/-- **false_sound**: `False` is returned only after exactly `retries` set requests, and every
report received while the call was running carried the value held before the call (no
transmission was confirmed). -/
theorem false_sound (s0 : St) (h0 : s0.phase = .idle) (v r T : Nat) (es : List Ev)
    (hret : (trace s0 v r T es).any isRetFalse = true) :
    (txVals (trace s0 v r T es)).length = r ∧
    ∀ es1 trip es2, es = es1 ++ .report trip :: es2 →
      (trace s0 v r T es1).any Out.isFinal = false → trip.value = s0.loc.value := by
  simp only [trace, List.any_append, Bool.or_eq_true] at hret
  rcases after_call s0 h0 v r T with ⟨hd, _, _, hq, _⟩ | ⟨_, hc⟩
  · rw [(done_silent _ es hd).2, hq] at hret
    simp at hret
  · obtain ⟨ha, hw, _, hp, _, _, _, hpend⟩ := arm_facts s0 v r T
    have l := loopTop_ret (arm s0 v r T)
    have lb := loopTop_budget (arm s0 v r T)
    have hr : (arm s0 v r T).retries = r := rfl
    rw [hc] at hret
    constructor
    · simp only [trace, hc, txVals_append, List.length_append]
      rcases hret with hret | hret
      · obtain ⟨_, hz, hd, ht⟩ := l.1 hret
        rw [(done_silent _ es hd).2, ht]
        simp only [txVals_nil, List.length_nil]
        omega
      · have hnd : (loopTop (arm s0 v r T)).1.phase ≠ .done := by
          intro hd
          rw [(done_silent _ es hd).2] at hret
          simp at hret
        have := lb.2 hnd
        have := run_retFalse_count _ es ha hw hret
        omega
    · intro es1 trip es2 he hn
      simp only [trace, hc, List.any_append, Bool.or_eq_false_iff] at hn
      rcases hret with hret | hret
      · have := any_mono _ isRetFalse_final hret
        simp [hn.1] at this
      · rw [← hp]
        rw [he] at hret
        exact run_retFalse_stale _ es1 trip es2 ha hret hn.2

/-- the call ends at most once: after the first final output (`True`, `False`, `ValueError`)
nothing is produced any more -/
theorem nothing_after_return (s0 : St) (h0 : s0.phase = .idle) (v r T : Nat) (es1 es2 : List Ev)
    (hf : (trace s0 v r T es1).any Out.isFinal = true) :
    trace s0 v r T (es1 ++ es2) = trace s0 v r T es1 := by
  have hdone : (run (step s0 (.call v r T)).1 es1).1.phase = .done := by
    simp only [trace, List.any_append, Bool.or_eq_true] at hf
    have hact : Active (step s0 (.call v r T)).1 := by
      rcases after_call s0 h0 v r T with ⟨hd, _⟩ | ⟨_, hc⟩
      · simp [Active, hd]
      · rw [hc]; exact (arm_facts s0 v r T).1
    have hcd : (step s0 (.call v r T)).2.any Out.isFinal = true → (step s0 (.call v r T)).1.phase = .done := by
      rcases after_call s0 h0 v r T with ⟨hd, _⟩ | ⟨_, hc⟩
      · exact fun _ => hd
      · rw [hc]; exact (loopTop_ret _).2.2.1
    rcases hf with hf | hf
    · exact (done_silent _ es1 (hcd hf)).1
    · -- some later step produced the final output
      generalize (step s0 (.call v r T)).1 = s at hact hf
      clear hcd
      induction es1 generalizing s with
      | nil => simp at hf
      | cons e es ih =>
        simp only [run_cons, List.any_append, Bool.or_eq_true] at hf ⊢
        by_cases hsd : s.phase = .done
        · exact (done_silent _ es (done_step s e hsd).1).1
        · rcases hf with hf | hf
          · exact (done_silent _ es ((step_final s e hact hsd).1 hf)).1
          · exact ih _ (step_frame s e hact).2.2.2.2.2 hf
  simp only [trace, run_append, (done_silent _ es2 hdone).2, List.append_nil]

/-- **holds**: the executable rendering of the statement, `C08.spec` — the judge the harness applies
to what the IMPLEMENTATION did — accepts everything the machine does: for every idle state (any
held triple, tracking on or off, executor synchronous or held) and every event history. -/
theorem holds (s0 : St) (h0 : s0.phase = .idle) (es : List Ev) :
    spec s0.tracking s0.loc (observe s0 es) = true :=
  check_observe s0 (Mon.init s0.tracking s0.loc) es (by simp [Rel, h0])

/-- `spec` is not vacuous: it rejects an attempt that carries the old value (the D7 defect) … -/
example : spec false ⟨10, 0, 100⟩
    [⟨.call 42 3 5000, [.txSet 42 0, .txRefresh 0]⟩, ⟨.report ⟨10, 0, 100⟩, []⟩,
     ⟨.timer, [.txSet 10 5000, .txRefresh 5000]⟩] = false := by decide
/-- … a `True` that no report justifies, a fourth attempt, a missing re-read, an early retry -/
example : spec true ⟨10, 0, 100⟩ [⟨.call 42 3 5000, [.txSet 42 0]⟩, ⟨.timer, [.ret true 5000]⟩] = false := by decide
example : spec true ⟨10, 0, 100⟩ [⟨.call 42 1 5000, [.txSet 42 0]⟩, ⟨.timer, [.txSet 42 5000]⟩] = false := by decide
example : spec false ⟨10, 0, 100⟩ [⟨.call 42 2 5000, [.txSet 42 0]⟩, ⟨.timer, [.txSet 42 5000, .txRefresh 5000]⟩] = false := by
  decide
example : spec true ⟨10, 0, 100⟩ [⟨.call 42 2 5000, [.txSet 42 0]⟩, ⟨.timer, [.txSet 42 4000]⟩] = false := by decide

/-! ### non-vacuity: complete runs for retries 0 … 3 (synchronous executor, versions not tracked) -/

/-- retries = 0: nothing is transmitted, `False` at once -/
example : trace (init ⟨10, 0, 100⟩ false false 0) 42 0 5000 [.timer] = [.ret false 0] := by decide

/-- retries = 1: one attempt, lost -/
example : trace (init ⟨10, 0, 100⟩ false false 0) 42 1 5000 [.wait 1000, .timer] =
    [.txSet 42 0, .txRefresh 0, .ret false 5000] := by decide

/-- retries = 2: a stale report between the attempts, then a confirming one -/
example : trace (init ⟨10, 0, 100⟩ false false 0) 42 2 5000
    [.wait 2000, .report ⟨10, 0, 100⟩, .timer, .wait 125, .report ⟨42, 0, 100⟩, .timer] =
    [.txSet 42 0, .txRefresh 0, .txSet 42 5000, .txRefresh 5000, .ret true 10000] := by decide

/-- retries = 3: only stale reports — three attempts with the requested value, then `False` -/
example : trace (init ⟨10, 0, 100⟩ false false 0) 42 3 5000
    [.wait 2000, .report ⟨10, 0, 100⟩, .timer, .report ⟨10, 0, 100⟩, .timer, .timer] =
    [.txSet 42 0, .txRefresh 0, .txSet 42 5000, .txRefresh 5000, .txSet 42 10000, .txRefresh 10000,
     .ret false 15000] := by decide

/-- a third value confirms as well (the rule is "different from the previous value") -/
example : trace (init ⟨10, 0, 100⟩ true false 0) 42 3 5000 [.wait 125, .report ⟨77, 0, 100⟩, .timer] =
    [.txSet 42 0, .ret true 5000] := by decide

/-- the hypotheses of `true_sound` / `false_sound` are met by these runs -/
example : (trace (init ⟨10, 0, 100⟩ false false 0) 42 2 5000
    [.wait 2000, .report ⟨10, 0, 100⟩, .timer, .wait 125, .report ⟨42, 0, 100⟩, .timer]).any isRetTrue = true := by
  decide
example : (trace (init ⟨10, 0, 100⟩ false false 0) 42 3 5000
    [.wait 2000, .report ⟨10, 0, 100⟩, .timer, .report ⟨10, 0, 100⟩, .timer, .timer]).any isRetFalse = true := by
  decide

/-- **exhausted_budget**: `retries ≤ 0` — zero or negative — is an exhausted budget: an accepted call transmits nothing and
returns `False` in its own step (`if retries <= 0: return False` at the first loop head), whatever the timeout. -/
theorem exhausted_budget (s0 : St) (h0 : s0.phase = .idle) (v : Nat) (r : Int) (hr : r ≤ 0) (T : Nat)
    (hne : v ≠ s0.loc.value) (hlo : s0.loc.min ≤ v) (hhi : v ≤ s0.loc.max) (es : List Ev) :
    trace s0 v (budgetOf r) T es = [.ret false s0.now] := by
  have hb : budgetOf r = 0 := by unfold budgetOf; omega
  have hstep : step s0 (.call v 0 T) =
      ({ s0 with prev := s0.loc.value, loc := { s0.loc with value := v }, pending := true, req := v, retries := 0,
                 timeout := T, phase := .done }, [.ret false s0.now]) := by
    simp only [step]
    rw [if_neg (by simp [h0]), if_neg hne, if_neg (by omega)]
    simp [loopTop]
  unfold trace
  rw [hb, hstep]
  have hdone : ∀ (es : List Ev) (s : St), s.phase = .done → (run s es).2 = [] := by
    intro es
    induction es with
    | nil => intro s _; rfl
    | cons e es ih =>
      intro s hs
      have h1 : step s e = (if (match e with | .wait _ => true | .report _ => true | .setTracking _ => true | _ => false) then (step s e) else (s, [])) := by
        cases e <;> simp [step, hs]
      have hout : (step s e).2 = [] ∧ (step s e).1.phase = .done := by
        cases e <;> simp [step, hs, update] <;> (try split) <;> simp [hs]
      simp only [run]
      rw [hout.1, ih _ hout.2]; rfl
  rw [hdone es _ rfl]
  rfl

/-- retries 4 and more, a timeout that is no multiple of any clock step (0.1 s): attempts at exactly t0 + k·100 ms -/
example : txTimes (trace (init ⟨10, 0, 100⟩ true false 250) 42 6 100 [.timer, .timer, .wait 33, .timer, .timer, .timer, .timer]) =
    [250, 350, 450, 550, 650, 750] := by decide
example : trace (init ⟨10, 0, 100⟩ true false 0) 42 (budgetOf (-3)) 1200 [.timer] = [.ret false 0] := by decide

end PlumVerif.C08

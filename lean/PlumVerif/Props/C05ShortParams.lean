import PlumVerif.Proofs.DecodeShortMisc
import PlumVerif.Proofs.DecodeShortUid
import PlumVerif.Props.C05Params
/-
C05 — the malformed side and the converse direction.

* `decode_total_*`: for EVERY byte string, exactly when the decoder model raises (and which
  exception class) and when it returns a value.
* `short_*`: what the strict prefixes of a well-formed encoding decode to.  Python slicing is
  lenient (`data[a:b]` on short input, `int.from_bytes(b"") == 0`), so some truncated payloads
  do not raise but silently decode to a DIFFERENT value — these are characterised exactly.
* `canonical_*` (decode-then-encode): a payload that decodes and whose count fields fit its length
  is the encoding of a well-formed abstract message — re-encoding reproduces the consumed bytes.
Property theorems only; helper lemmas in Proofs/DecodeShort.lean.
-/
namespace PlumVerif.C05
open PlumVerif PlumVerif.P2

/-! ### parameter blocks: totality -/

/-- ecoMAX parameters: IndexError iff the 3-byte header is incomplete; otherwise ALWAYS a value
(the count is never checked against the length), consuming `3·count` bytes or whatever is left -/
theorem decode_total_params_ecomax (msg : List Byte) :
    (msg.length < 3 ∧ decodeEcomax msg = .error .index) ∨
    (3 ≤ msg.length ∧ ∃ v, decodeEcomax msg = .ok (v, msg.drop (3 + 3 * (msg.getD 2 0).toNat))) := by
  match msg with
  | [] | [_] | [_, _] => left; exact ⟨by simp, rfl⟩
  | b0 :: s :: c :: r =>
    right
    obtain ⟨v, hv⟩ := decodeRun_one_ok c.toNat s.toNat r
    refine ⟨by simp, v, ?_⟩
    rw [show 3 + 3 * ((b0 :: s :: c :: r).getD 2 0).toNat = 3 * c.toNat + 1 + 1 + 1 by simp; omega]
    exact hv

/-- mixer parameters: IndexError iff the 4-byte header is incomplete; otherwise always a value -/
theorem decode_total_params_mixer (msg : List Byte) :
    (msg.length < 4 ∧ decodeMixer msg = .error .index) ∨
    (4 ≤ msg.length ∧ ∃ v, decodeMixer msg =
      .ok (v, msg.drop (4 + 3 * (msg.getD 2 0).toNat * (msg.getD 3 0).toNat))) := by
  match msg with
  | [] | [_] | [_, _] | [_, _, _] => left; exact ⟨by simp, rfl⟩
  | b0 :: s :: c :: k :: r =>
    right
    obtain ⟨v, hv⟩ := decodeBlocks_one_ok s.toNat c.toNat k.toNat 0 r
    refine ⟨by simp, v, ?_⟩
    rw [show 4 + 3 * ((b0 :: s :: c :: k :: r).getD 2 0).toNat * ((b0 :: s :: c :: k :: r).getD 3 0).toNat
      = 3 * c.toNat * k.toNat + 1 + 1 + 1 + 1 by simp; omega]
    exact hv

/-- thermostat parameters with `T ≥ 1` thermostats: IndexError iff the header is incomplete or the
per-thermostat index range `start … (start+count)/T − 1` is non-empty and leaves the description
table; otherwise always a value -/
theorem decode_total_params_thermostat (T : Nat) (hT : 0 < T) (b0 s c : Byte) (r : List Byte) :
    (∀ msg : List Byte, msg.length < 3 → decodeThermo (some T) msg = .error .index) ∧
    (let per := thermoPer s.toNat c.toNat T
     if per = 0 ∨ s.toNat + per ≤ Gen.thermostat.length
     then ∃ v r', decodeThermo (some T) (b0 :: s :: c :: r) = .ok (v, r')
     else decodeThermo (some T) (b0 :: s :: c :: r) = .error .index) := by
  obtain ⟨T', rfl⟩ : ∃ T', T = T' + 1 := ⟨T - 1, by omega⟩
  constructor
  · intro msg h
    match msg with
    | [] | [_] | [_, _] => rfl
    | _ :: _ :: _ :: _ => simp at h; omega
  · simp only [decodeThermo]
    split
    · rename_i hok
      have hdef : ∀ i, s.toNat ≤ i → i < s.toNat + thermoPer s.toNat c.toNat (T' + 1) → thermoSize i ≠ none := by
        intro i h1 h2; rw [thermoSize_defined]; omega
      obtain ⟨v, r', h⟩ := decodeBlocks_ok thermoSize s.toNat _ (T' + 1) 0 (r.drop 3) hdef
      rw [h]; exact ⟨_, _, rfl⟩
    · rename_i hbad
      have hi : thermoSize (s.toNat + thermoPer s.toNat c.toNat (T' + 1) - 1) = none := by
        cases hx : thermoSize (s.toNat + thermoPer s.toNat c.toNat (T' + 1) - 1) with
        | none => rfl
        | some v =>
          have := (thermoSize_defined (s.toNat + thermoPer s.toNat c.toNat (T' + 1) - 1)).mp (by simp [hx])
          omega
      rw [decodeBlocks_err thermoSize s.toNat _ T' 0 (r.drop 3) _ (by omega) (by omega) hi]

/-! ### parameter blocks: strict prefixes of a well-formed encoding -/

/-- ecoMAX block cut after `j < 3` bytes of slot `|pre|`: NOT an error.  The slots before the cut
come back as written, the cut slot is read from its first `j` bytes (`cutParams`: missing bytes
count as absent — shorter integers, a hole when nothing or only 0xFF is left), later slots vanish -/
theorem short_ecomax (m : EcomaxMsg) (pre : List Slot) (s : Slot) (post : List Slot) (j : Nat)
    (h : wfEcomax m = true) (hm : m.slots = pre ++ s :: post) (hj : j < 3) :
    decodeEcomax ((encodeEcomax m).take (3 + (3 * pre.length + j)))
      = .ok (valRun m.start.toNat pre ++ cutParams (m.start.toNat + pre.length) 1 j s, []) := by
  simp only [wfEcomax, Bool.and_eq_true, decide_eq_true_eq] at h
  obtain ⟨hl, hw⟩ := h
  have hlen : m.slots.length.toUInt8.toNat = (pre ++ s :: post).length := by
    rw [toUInt8_toNat _ hl, hm]
  rw [hm] at hw
  simp only [encodeEcomax, hm, encRun_append, encRun, one, Option.getD_some, List.cons_append,
    List.nil_append]
  rw [show (3 + (3 * pre.length + j)) = (3 * pre.length + j) + 1 + 1 + 1 by omega]
  simp only [List.take_succ_cons, decodeEcomax]
  rw [take_app _ _ _ _ (length_encRun_one _ pre),
    List.take_append_of_le_length (by rw [length_encSlot]; omega), ← hm, hlen]
  exact decodeRun_prefix one pre s post m.start.toNat 1 j hw rfl (by omega)

/-- shorter than the header: IndexError -/
theorem short_ecomax_header (m : EcomaxMsg) (L : Nat) (hL : L < 3) :
    decodeEcomax ((encodeEcomax m).take L) = .error .index := by
  simp only [encodeEcomax, List.cons_append, List.nil_append]
  match L with
  | 0 | 1 | 2 => rfl
  | _ + 3 => omega

/-- the three ways a 1-byte-wide triple can be cut -/
theorem cut_triple (idx v mn mx : Nat) (hv : v < 256) (hmn : mn < 256) :
    cutParams idx 1 0 (some (v, mn, mx)) = [] ∧
    cutParams idx 1 1 (some (v, mn, mx)) = (if v = 255 then [] else [(idx, (v, 0, 0))]) ∧
    cutParams idx 1 2 (some (v, mn, mx)) = (if v = 255 ∧ mn = 255 then [] else [(idx, (v, mn, 0))]) := by
  have hv' : (v % 256).toUInt8.toNat = v := by rw [toUInt8_toNat _ (by omega)]; omega
  have hmn' : (mn % 256).toUInt8.toNat = mn := by rw [toUInt8_toNat _ (by omega)]; omega
  have e255 (n : Nat) (h : n < 256) : ((n % 256).toUInt8 == undef) = decide (n = 255) := by
    have : undef = (255 : Nat).toUInt8 := by decide
    rw [this]
    by_cases hn : n = 255
    · subst hn; decide
    · simp only [hn, decide_false, beq_eq_false_iff_ne, ne_eq]
      intro hc
      have := congrArg UInt8.toNat hc
      rw [toUInt8_toNat _ (by omega), toUInt8_toNat _ (by omega)] at this
      omega
  refine ⟨by simp [cutParams, unpackParam], ?_, ?_⟩
  · simp only [cutParams, unpackParam, encSlot, encodeLE, List.cons_append, List.nil_append,
      List.take_succ_cons, List.take_zero, List.all_cons, List.all_nil, Bool.and_true, e255 v hv,
      List.drop_succ_cons, List.drop_nil, List.take_nil, decodeLE, hv']
    by_cases h : v = 255 <;> simp [h]
  · simp only [cutParams, unpackParam, encSlot, encodeLE, List.cons_append, List.nil_append,
      List.take_succ_cons, List.take_zero, List.all_cons, List.all_nil, Bool.and_true, e255 v hv,
      e255 mn hmn, List.drop_succ_cons, List.drop_zero, List.drop_nil, List.take_nil, decodeLE, hv', hmn']
    by_cases h : v = 255 <;> by_cases h2 : mn = 255 <;> simp [h, h2]

/-- the triple (1, 2, 3) cut after two bytes silently decodes as (1, 2, 0) -/
example : decodeEcomax ((encodeEcomax ⟨0, 5, [some (7, 7, 7), some (1, 2, 3), some (9, 9, 9)]⟩).take 8)
    = .ok ([(5, (7, 7, 7)), (6, (1, 2, 0))], []) := by rfl

/-- mixer blocks cut inside mixer `|preB|`, slot `|spre|`, after `j < 3` bytes of it: not an error;
earlier mixers as written, the cut mixer keeps what was read, later mixers are not listed -/
theorem short_mixer (m : MixerMsg) (preB postB : List (List Slot)) (spre spost : List Slot) (s : Slot)
    (j : Nat) (h : wfMixer m = true) (hm : m.blocks = preB ++ (spre ++ s :: spost) :: postB) (hj : j < 3) :
    decodeMixer ((encodeMixer m).take (4 + (3 * m.count.toNat * preB.length + (3 * spre.length + j))))
      = .ok (valBlocks m.start.toNat 0 preB ++
          (if (valRun m.start.toNat spre ++ cutParams (m.start.toNat + spre.length) 1 j s).isEmpty then []
           else [(preB.length, valRun m.start.toNat spre ++ cutParams (m.start.toNat + spre.length) 1 j s)]),
          []) := by
  simp only [wfMixer, Bool.and_eq_true, decide_eq_true_eq, List.all_eq_true] at h
  obtain ⟨hl, hb⟩ := h
  rw [hm] at hb
  have hlenB : (preB.flatMap (encRun one m.start.toNat)).length = 3 * m.count.toNat * preB.length := by
    have : ∀ l : List (List Slot), (∀ b ∈ l, b.length = m.count.toNat) →
        (l.flatMap (encRun one m.start.toNat)).length = 3 * m.count.toNat * l.length := by
      intro l hl
      induction l with
      | nil => rfl
      | cons b bs ih =>
        simp only [List.flatMap_cons, List.length_append, length_encRun_one, List.length_cons,
          hl b (by simp), ih (fun b' hb' => hl b' (by simp [hb']))]
        rw [Nat.mul_succ]; omega
    exact this preB (fun b hb' => (hb b (by simp [hb'])).1)
  have hk : m.blocks.length.toUInt8.toNat = preB.length + (postB.length + 1) := by
    rw [toUInt8_toNat _ hl, hm]; simp
  simp only [encodeMixer, hm, List.flatMap_append, List.flatMap_cons, encRun_append, encRun, one,
    Option.getD_some, List.cons_append, List.nil_append]
  rw [show (4 + (3 * m.count.toNat * preB.length + (3 * spre.length + j)))
      = (3 * m.count.toNat * preB.length + (3 * spre.length + j)) + 1 + 1 + 1 + 1 by omega]
  simp only [List.take_succ_cons, decodeMixer]
  rw [take_app _ _ _ _ hlenB, List.append_assoc, take_app _ _ _ _ (length_encRun_one _ spre),
    List.append_assoc, List.take_append_of_le_length (by rw [length_encSlot]; omega), ← hm, hk]
  have := decodeBlocks_prefix one m.start.toNat m.count.toNat preB postB spre s spost 1 j 0
    (fun x hx => hb x hx) rfl (by omega)
  simpa using this

/-- thermostat blocks (T = number of blocks ≥ 1) cut inside a block: not an error either -/
theorem short_thermostat (m : ThermoMsg) (preB postB : List (List Slot)) (spre spost : List Slot)
    (s : Slot) (sz j : Nat) (h : wfThermo m = true)
    (hm : m.blocks = preB ++ (spre ++ s :: spost) :: postB)
    (hsz : thermoSize (m.start.toNat + spre.length) = some sz) (hj : j < 3 * sz) :
    decodeThermo (some m.blocks.length)
        ([m.b0, m.start, m.count] ++ encSlot 1 m.profile ++
          (preB.flatMap (encRun thermoSize m.start.toNat) ++
            (encRun thermoSize m.start.toNat spre ++ (encSlot sz s).take j)))
      = .ok (.val m.profile (valBlocks m.start.toNat 0 preB ++
          (if (valRun m.start.toNat spre ++ cutParams (m.start.toNat + spre.length) sz j s).isEmpty then []
           else [(preB.length, valRun m.start.toNat spre ++ cutParams (m.start.toNat + spre.length) sz j s)])),
          []) := by
  simp only [wfThermo, Bool.and_eq_true, decide_eq_true_eq, List.all_eq_true] at h
  obtain ⟨⟨hT, hp⟩, hb⟩ := h
  have hk : m.blocks.length = preB.length + (postB.length + 1) := by rw [hm]; simp
  unfold decodeThermo
  split
  · rename_i heq; simp only [Option.some.injEq] at heq; omega
  · simp only [List.cons_append, List.nil_append]
    rw [drop3_encSlot, unpackParam_encSlot 1 m.profile _ hp]
    have := decodeBlocks_prefix thermoSize m.start.toNat
      (thermoPer m.start.toNat m.count.toNat m.blocks.length) preB postB spre s spost sz j 0
      (fun x hx => hb x (by rw [hm]; exact hx)) hsz hj
    rw [hk] at this ⊢
    simp only [Nat.zero_add] at this
    rw [this]

/-- cut inside the profile triple: the profile is read from what is left, no thermostat is listed -/
theorem short_thermostat_profile (m : ThermoMsg) (j : Nat) (h : wfThermo m = true) (hj : j < 3) :
    decodeThermo (some m.blocks.length) ([m.b0, m.start, m.count] ++ (encSlot 1 m.profile).take j)
      = .ok (.val (unpackParam 1 ((encSlot 1 m.profile).take j)) [], []) := by
  simp only [wfThermo, Bool.and_eq_true, decide_eq_true_eq, List.all_eq_true] at h
  obtain ⟨⟨hT, hp⟩, hb⟩ := h
  unfold decodeThermo
  split
  · rename_i heq; simp only [Option.some.injEq] at heq; omega
  · simp only [List.cons_append, List.nil_append]
    have hd : ((encSlot 1 m.profile).take j).drop 3 = [] := by
      apply List.drop_eq_nil_of_le; simp; omega
    rw [hd]
    obtain ⟨b, hbm⟩ : ∃ b, b ∈ m.blocks := by
      cases hmb : m.blocks with
      | nil => simp [hmb] at hT
      | cons b _ => exact ⟨b, by simp⟩
    have hdef := wfRun_defined thermoSize b m.start.toNat (hb b hbm).2
    rw [(hb b hbm).1] at hdef
    rw [decodeBlocks_nil thermoSize m.start.toNat _ m.blocks.length 0 hdef]

/-! ### parameter blocks: decode, then encode -/

/-- every ecoMAX payload whose count fits its length (`3·count` bytes follow the header) is the
encoding of a well-formed message: re-encoding what was decoded reproduces the consumed bytes -/
theorem canonical_ecomax (b0 s c : Byte) (r : List Byte) (hfit : 3 * c.toNat ≤ r.length) :
    ∃ m, wfEcomax m = true ∧ b0 :: s :: c :: r = encodeEcomax m ++ r.drop (3 * c.toNat) ∧
      decodeEcomax (b0 :: s :: c :: r) = .ok (valEcomax m, r.drop (3 * c.toNat)) := by
  have hb := runBytes_one c.toNat s.toNat
  obtain ⟨hw, he⟩ := parseRun_spec one c.toNat s.toNat r (fun _ _ _ => by simp [one]) (by omega)
  have hl := length_parseRun one c.toNat s.toNat r
  let m : EcomaxMsg := ⟨b0, s, parseRun one c.toNat s.toNat r⟩
  have hwf : wfEcomax m = true := by
    simp only [wfEcomax, m, Bool.and_eq_true, decide_eq_true_eq, hl]
    exact ⟨c.toNat_lt, hw⟩
  have henc : b0 :: s :: c :: r = encodeEcomax m ++ r.drop (3 * c.toNat) := by
    simp only [encodeEcomax, m, hl, ofNat_toNat, he, hb, List.cons_append, List.nil_append,
      List.take_append_drop]
  refine ⟨m, hwf, henc, ?_⟩
  conv => lhs; rw [henc]
  exact rt_params_ecomax m _ hwf

/-- where it fails: a payload that is too short for its count decodes (leniently) to values whose
encoding is longer than what was consumed — the triple cut to `01 02` reads as (1, 2, 0) -/
example : decodeEcomax [0, 5, 1, 1, 2] = .ok ([(5, (1, 2, 0))], []) ∧
    encodeEcomax ⟨0, 5, [some (1, 2, 0)]⟩ = [0, 5, 1, 1, 2, 0] := ⟨rfl, rfl⟩

/-- mixer payloads whose `mixers × count` triples are all present are canonical -/
theorem canonical_mixer (b0 s c k : Byte) (r : List Byte) (hfit : k.toNat * (3 * c.toNat) ≤ r.length) :
    ∃ m, wfMixer m = true ∧ b0 :: s :: c :: k :: r = encodeMixer m ++ r.drop (k.toNat * (3 * c.toNat)) ∧
      decodeMixer (b0 :: s :: c :: k :: r) = .ok (valMixer m, r.drop (k.toNat * (3 * c.toNat))) := by
  have hb := runBytes_one c.toNat s.toNat
  obtain ⟨hl, hw, he⟩ := parseBlocks_spec one s.toNat c.toNat k.toNat r (fun _ _ _ => by simp [one])
    (by rw [hb]; exact hfit)
  let m : MixerMsg := ⟨b0, s, c, parseBlocks one s.toNat c.toNat k.toNat r⟩
  have hwf : wfMixer m = true := by
    simp only [wfMixer, m, Bool.and_eq_true, decide_eq_true_eq, hl, List.all_eq_true]
    exact ⟨k.toNat_lt, hw⟩
  have henc : b0 :: s :: c :: k :: r = encodeMixer m ++ r.drop (k.toNat * (3 * c.toNat)) := by
    simp only [encodeMixer, m, hl, ofNat_toNat, he, hb, List.cons_append, List.nil_append,
      List.take_append_drop]
  refine ⟨m, hwf, henc, ?_⟩
  conv => lhs; rw [henc]
  exact rt_params_mixer m _ hwf

/-- thermostat payloads (`T ≥ 1`) whose index range stays inside the description table and whose
`T` runs are all present are canonical -/
theorem canonical_thermostat (T : Nat) (hT : 0 < T) (b0 s c : Byte) (r : List Byte)
    (htab : s.toNat + thermoPer s.toNat c.toNat T ≤ Gen.thermostat.length)
    (hfit : 3 + T * runBytes thermoSize (thermoPer s.toNat c.toNat T) s.toNat ≤ r.length) :
    ∃ m, wfThermo m = true ∧ m.blocks.length = T ∧
      b0 :: s :: c :: r = encodeThermo m ++ r.drop (3 + T * runBytes thermoSize (thermoPer s.toNat c.toNat T) s.toNat) ∧
      decodeThermo (some T) (b0 :: s :: c :: r)
        = .ok (valThermo m, r.drop (3 + T * runBytes thermoSize (thermoPer s.toNat c.toNat T) s.toNat)) := by
  have hdef : ∀ i, s.toNat ≤ i → i < s.toNat + thermoPer s.toNat c.toNat T → thermoSize i ≠ none := by
    intro i h1 h2; rw [thermoSize_defined]; omega
  obtain ⟨hl, hw, he⟩ := parseBlocks_spec thermoSize s.toNat (thermoPer s.toNat c.toNat T) T (r.drop 3) hdef
    (by simp; omega)
  let m : ThermoMsg := ⟨b0, s, c, unpackParam 1 r, parseBlocks thermoSize s.toNat (thermoPer s.toNat c.toNat T) T (r.drop 3)⟩
  have hwf : wfThermo m = true := by
    simp only [wfThermo, m, Bool.and_eq_true, decide_eq_true_eq, hl, List.all_eq_true]
    exact ⟨⟨hT, wfSlot_unpackParam 1 r (by omega)⟩, hw⟩
  have henc : b0 :: s :: c :: r = encodeThermo m ++ r.drop (3 + T * runBytes thermoSize (thermoPer s.toNat c.toNat T) s.toNat) := by
    simp only [encodeThermo, m, he, encSlot_unpackParam 1 r (by omega), List.cons_append, List.nil_append,
      List.append_assoc]
    rw [← List.drop_drop, List.take_append_drop, List.take_append_drop]
  refine ⟨m, hwf, hl, henc, ?_⟩
  have := rt_params_thermostat m (r.drop (3 + T * runBytes thermoSize (thermoPer s.toNat c.toNat T) s.toNat)) hwf
  rw [← henc] at this
  rw [show m.blocks.length = T from hl] at this
  exact this

/-! ### schedules -/

/-- schedules: fewer than 3 bytes give `{schedules: []}` (a VALUE, nothing consumed); otherwise
IndexError iff the `count` entries of 47 bytes do not all fit; otherwise a value consuming them -/
theorem decode_total_schedules (msg : List Byte) :
    (msg.length < 3 ∧ decodeSched msg = .ok (.short, msg)) ∨
    (3 ≤ msg.length ∧ msg.length - 3 < 47 * (msg.getD 2 0).toNat ∧ decodeSched msg = .error .index) ∨
    (3 ≤ msg.length ∧ 47 * (msg.getD 2 0).toNat ≤ msg.length - 3 ∧
      ∃ v, decodeSched msg = .ok (v, msg.drop (3 + 47 * (msg.getD 2 0).toNat))) := by
  match msg with
  | [] | [_] | [_, _] => left; exact ⟨by simp, rfl⟩
  | b0 :: s :: c :: r =>
    right
    by_cases hfit : r.length < 47 * c.toNat
    · left
      refine ⟨by simp, by simpa using hfit, ?_⟩
      simp only [decodeSched, decodeSchedLoop_short c.toNat r hfit]
    · right
      refine ⟨by simp, by simp; omega, ?_⟩
      obtain ⟨hl, hw, he⟩ := parseSched_spec c.toNat r (by omega)
      have hdec := decodeSchedLoop_enc (parseSched c.toNat r) (r.drop (47 * c.toNat)) hw
      rw [he, List.take_append_drop, hl] at hdec
      simp only [decodeSched, hdec]
      refine ⟨.val ((parseSched c.toNat r).map fun e => (e.index.toNat, e.days))
        ((parseSched c.toNat r).flatMap schedParams), ?_⟩
      rw [show 3 + 47 * ((b0 :: s :: c :: r).getD 2 0).toNat = 47 * c.toNat + 1 + 1 + 1 by simp; omega]
      rfl

/-- every schedules payload that fits is canonical (bitmap bytes ↔ 7×48 slots both ways) -/
theorem canonical_schedules (b0 s c : Byte) (r : List Byte) (hfit : 47 * c.toNat ≤ r.length) :
    ∃ m, wfSched m = true ∧ b0 :: s :: c :: r = encodeSched m ++ r.drop (47 * c.toNat) ∧
      decodeSched (b0 :: s :: c :: r) = .ok (valSched m, r.drop (47 * c.toNat)) := by
  obtain ⟨hl, hw, he⟩ := parseSched_spec c.toNat r hfit
  let m : SchedMsg := ⟨b0, s, parseSched c.toNat r⟩
  have hwf : wfSched m = true := by
    simp only [wfSched, m, Bool.and_eq_true, decide_eq_true_eq, hl, List.all_eq_true]
    exact ⟨c.toNat_lt, hw⟩
  have henc : b0 :: s :: c :: r = encodeSched m ++ r.drop (47 * c.toNat) := by
    simp only [encodeSched, m, hl, ofNat_toNat, he, List.cons_append, List.nil_append, List.take_append_drop]
  refine ⟨m, hwf, henc, ?_⟩
  conv => lhs; rw [henc]
  exact rt_schedules m _ hwf

/-- strict prefixes of a well-formed schedules payload: shorter than the header silently gives
the VALUE `{schedules: []}`; everything else raises IndexError -/
theorem short_schedules (m : SchedMsg) (L : Nat) (h : wfSched m = true) (hL : L < (encodeSched m).length) :
    decodeSched ((encodeSched m).take L) =
      if L < 3 then .ok (.short, (encodeSched m).take L) else .error .index := by
  simp only [wfSched, Bool.and_eq_true, decide_eq_true_eq, List.all_eq_true] at h
  obtain ⟨hl, he⟩ := h
  have hlen := length_encodeSchedEntries m.entries he
  simp only [encodeSched, List.cons_append, List.nil_append, List.length_cons, hlen] at hL ⊢
  match L with
  | 0 | 1 | 2 => rfl
  | L + 3 =>
    simp only [List.take_succ_cons, decodeSched, show ¬ (L + 3 < 3) by omega, ↓reduceIte]
    rw [decodeSchedLoop_short _ _ (by rw [toUInt8_toNat _ hl, List.length_take, hlen]; omega)]

/-! ### alerts -/

/-- alerts: a payload decodes to a value iff it is the encoding of a well-formed message followed
by the remainder — there is no silently short case (every missing byte raises) -/
theorem decode_total_alerts (msg : List Byte) (v : AlertsVal) (rest : List Byte) :
    decodeAlerts msg = .ok (v, rest) ↔
      ∃ m, wfAlerts m = true ∧ msg = encodeAlerts m ++ rest ∧ v = valAlerts m := by
  constructor
  · intro h
    match msg with
    | [] | [_] | [_, _] => simp [decodeAlerts] at h
    | total :: s :: c :: r =>
      simp only [decodeAlerts] at h
      by_cases hc : c = 0
      · simp only [hc, ↓reduceIte, Except.ok.injEq, Prod.mk.injEq] at h
        obtain ⟨rfl, rfl⟩ := h
        exact ⟨⟨total, s, []⟩, rfl, by simp [encodeAlerts, hc], by simp [valAlerts]⟩
      · rw [if_neg hc] at h
        cases hd : decodeAlertList c.toNat r with
        | error e => simp [hd] at h
        | ok p =>
          obtain ⟨as, r'⟩ := p
          simp only [hd, Except.ok.injEq, Prod.mk.injEq] at h
          obtain ⟨rfl, rfl⟩ := h
          obtain ⟨hl, hw, hr⟩ := decodeAlertList_canonical c.toNat r as r' hd
          refine ⟨⟨total, s, as⟩, ?_, ?_, ?_⟩
          · simp only [wfAlerts, Bool.and_eq_true, decide_eq_true_eq, List.all_eq_true, hl]
            exact ⟨c.toNat_lt, hw⟩
          · simp only [encodeAlerts, hl, ofNat_toNat, List.cons_append, List.nil_append, hr]
          · have : as ≠ [] := by
              intro e; subst e
              simp only [List.length_nil] at hl
              exact hc (by rw [← ofNat_toNat c, ← hl]; rfl)
            cases as with
            | nil => exact absurd rfl this
            | cons a as => simp [valAlerts]
  · rintro ⟨m, hw, rfl, rfl⟩
    exact rt_alerts m rest hw

/-- strict prefixes of a well-formed alerts payload ALWAYS raise: IndexError inside the header or
exactly at a record boundary, struct.error when a record is cut -/
theorem short_alerts (m : AlertsMsg) (pre post : List AlertRec) (a : AlertRec) (j : Nat)
    (h : wfAlerts m = true) (hm : m.alerts = pre ++ a :: post) (hj : j < 9) :
    (∀ L, L < 3 → decodeAlerts ((encodeAlerts m).take L) = .error .index) ∧
    decodeAlerts ([m.total, m.start, m.alerts.length.toUInt8] ++ pre.flatMap encodeAlert ++ (encodeAlert a).take j)
      = .error (if j = 0 then .index else .struct) := by
  simp only [wfAlerts, Bool.and_eq_true, decide_eq_true_eq, List.all_eq_true] at h
  obtain ⟨hl, hw⟩ := h
  constructor
  · intro L hL
    simp only [encodeAlerts, List.cons_append, List.nil_append]
    match L with
    | 0 | 1 | 2 => rfl
    | _ + 3 => omega
  · have hlen : m.alerts.length = pre.length + (post.length + 1) := by rw [hm]; simp
    have hne : ¬ m.alerts.length.toUInt8 = 0 := by
      intro h0
      have := congrArg UInt8.toNat h0
      rw [toUInt8_toNat _ hl] at this
      simp only [UInt8.toNat_zero] at this
      omega
    simp only [List.cons_append, List.nil_append, decodeAlerts]
    rw [if_neg hne, toUInt8_toNat _ hl, hlen,
      decodeAlertList_cut pre a post.length j hj (fun x hx => hw x (by rw [hm]; simp [hx]))]

/-! ### product info / UID -/

/-- a product-info payload cut anywhere before the model-name field always raises -/
theorem short_uid_error (m : ProductMsg) (L : Nat) (h : wfProduct m = true) (hL : L < 9 + m.uid.length) :
    ∃ e, decodeProduct ((encodeProduct m).take L) = .error e := by
  simp only [wfProduct, Bool.and_eq_true, decide_eq_true_eq] at h
  cases hd : decodeProduct ((encodeProduct m).take L) with
  | error e => exact ⟨e, rfl⟩
  | ok p =>
    exfalso
    obtain ⟨v, rest⟩ := p
    have hlen := decodeProduct_ok_len _ v rest hd
    have hle : ((encodeProduct m).take L).length ≤ L := by simp; omega
    match L with
    | 0 | 1 | 2 | 3 => omega
    | L + 4 =>
      simp only [encodeProduct, encodeLE, List.cons_append, List.nil_append, List.take_succ_cons,
        List.getD_cons_succ, List.getD_cons_zero] at hlen hle
      rw [toUInt8_toNat _ h.1.1.1.2] at hlen
      simp only [List.length_cons] at hlen hle
      omega

/-- … but cut inside the model name it does NOT raise: it silently decodes to a product with a
shorter model name (`data[1:size]` is a lenient slice), everything else unchanged -/
theorem short_uid_name (m : ProductMsg) (j : Nat) (h : wfProduct m = true) :
    decodeProduct (m.ptype :: (encodeLE m.pid 2 ++ (m.uid.length.toUInt8 :: m.uid) ++ encodeLE m.logo 2 ++
        encodeLE m.image 2 ++ (m.name.length.toUInt8 :: m.name.take j)))
      = .ok (⟨m.ptype.toNat, m.pid, uidString m.uid, m.logo, m.image, (m.name.take j).take m.name.length,
              formatModelName ((m.name.take j).take m.name.length)⟩, []) := by
  simp only [wfProduct, Bool.and_eq_true, decide_eq_true_eq] at h
  obtain ⟨⟨⟨⟨⟨hk, hpid⟩, hu⟩, hlogo⟩, himg⟩, hn⟩ := h
  simp only [encodeLE, List.cons_append, List.nil_append, List.append_assoc, decodeProduct]
  rw [toUInt8_toNat _ hu, take_left _ _ _ rfl, drop_left _ _ _ rfl]
  simp only [List.length_cons, List.take_succ_cons,
    List.take_zero, List.drop_succ_cons, List.drop_zero]
  rw [if_neg (by omega), if_neg (by omega)]
  rw [toUInt8_toNat _ hn]
  simp only [hk, Bool.not_true, Bool.false_eq_true, ↓reduceIte]
  have e2 (n : Nat) (h : n < 65536) : decodeLE [(n % 256).toUInt8, (n / 256 % 256).toUInt8] = n := by
    have := decodeLE_encodeLE n 2 (by omega)
    simpa [encodeLE] using this
  rw [e2 _ hpid, e2 _ hlogo, e2 _ himg]
  have : (m.name.take j).drop m.name.length = [] := by
    apply List.drop_eq_nil_of_le; simp; omega
  rw [this]

/-- decode-then-encode for product info: a payload that decodes and whose two length-prefixed
fields are complete (`productFieldLens`: declared UID and model-name lengths, `9 + u + k ≤ length`)
is the encoding of a well-formed message.  It fails exactly in the `short_uid_name` case, where the
declared name length exceeds what is there. -/
theorem canonical_uid (msg : List Byte) (v : ProductVal) (rest : List Byte) (u k : Nat)
    (h : decodeProduct msg = .ok (v, rest)) (hlens : productFieldLens msg = some (u, k))
    (hfull : 9 + u + k ≤ msg.length) :
    ∃ m, wfProduct m = true ∧ msg = encodeProduct m ++ rest ∧ v = valProduct m :=
  decodeProduct_canonical msg v rest u k h hlens hfull

/-! ### password -/

/-- prefixes of a password payload: up to the first byte there is no password (a VALUE); later cuts
give the shorter password when they fall between characters and UnicodeDecodeError inside one -/
theorem short_password (m : PasswordMsg) (L : Nat) :
    decodePassword ((encodePassword m).take (L + 1)) =
      if (m.pw.take L).isEmpty then .ok none
      else if validUTF8 (m.pw.take L) then .ok (some (m.pw.take L)) else .error .value := by
  simp [encodePassword, decodePassword]

example : decodePassword (encodePassword ⟨4, [0xC5, 0xBC, 0x41]⟩) = .ok (some [0xC5, 0xBC, 0x41]) ∧
    decodePassword ((encodePassword ⟨4, [0xC5, 0xBC, 0x41]⟩).take 2) = .error .value ∧
    decodePassword ((encodePassword ⟨4, [0xC5, 0xBC, 0x41]⟩).take 3) = .ok (some [0xC5, 0xBC]) := ⟨rfl, rfl, rfl⟩

end PlumVerif.C05

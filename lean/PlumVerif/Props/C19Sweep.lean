import PlumVerif.Props.C19
/-
C19 — the converse direction of `int_lawful`, for ALL buffers: every buffer with at least `size`
bytes IS the packed form of exactly one representable value followed by arbitrary bytes.
`int_lawful` (Props/C19.lean) says unpack ∘ pack = id on every representable value (so the complete
sweep over all 256 / 65536 VALUES of the 8- and 16-bit types is a theorem already, as is the bit
field for all 8 indexes x 256 bytes, `bit_value`).  What the harness sweeps in addition — all 256 /
65536 byte PATTERNS: `from_bytes` returns a representable value whose packed form is the pattern — is
proved here for all eight integer types, the float / double patterns and the addresses, so that
pack and unpack are mutually inverse bijections between representable values and `size`-byte
strings.
-/
namespace PlumVerif.C19
open PlumVerif PlumVerif.Types

/-- the value read from a wire number below the modulus is representable, and its wire number is
the one it was read from -/
theorem of_wire_to_wire (t : IntTy) (n : Nat) (h : n < t.modulus) :
    t.inRange (t.ofWire n) = true ∧ t.toWire (t.ofWire n) = n := by
  have he := modulus_even t
  cases hs : t.signed with
  | true =>
    rw [inRange_iff]
    simp only [IntTy.ofWire, IntTy.toWire, hs, if_true]
    refine ⟨?_, toTwos_ofTwos _ _ h⟩
    unfold ofTwos
    split <;> omega
  | false =>
    rw [inRange_iff]
    simp only [IntTy.ofWire, IntTy.toWire, hs, Bool.false_eq_true, if_false]
    exact ⟨⟨by omega, by omega⟩, by omega⟩

/-- **every buffer is a packed form** (all eight integer types): unpacking ANY buffer of at least
`size` bytes returns a representable value and `size`, and packing that value gives back exactly
the first `size` bytes of the buffer -/
theorem int_buffer_is_packed (t : IntTy) (d : List Byte) (h : t.size ≤ d.length) :
    ∃ v, (intCodec t).unpack d = some (v, t.size) ∧ t.inRange v = true ∧
      (intCodec t).pack v = some (d.take t.size) := by
  have hl : (d.take t.size).length = t.size := by simp [List.length_take]; omega
  have hlt : decodeLE (d.take t.size) < t.modulus := by
    have := decodeLE_lt (d.take t.size)
    rwa [hl] at this
  have hw := of_wire_to_wire t _ hlt
  refine ⟨t.ofWire (decodeLE (d.take t.size)), ?_, hw.1, ?_⟩
  · simp only [intCodec]
    rw [if_neg (by omega)]
  · simp only [intCodec]
    rw [if_pos hw.1, hw.2]
    have := encodeLE_decodeLE (d.take t.size)
    rw [hl] at this
    rw [this]

/-- a buffer shorter than the type is refused (struct.error), nothing else is -/
theorem int_unpack_none_iff (t : IntTy) (d : List Byte) :
    (intCodec t).unpack d = none ↔ d.length < t.size := by
  simp only [intCodec]
  split <;> simp_all

/-- **bijection**: distinct representable values have distinct packed forms (with
`int_buffer_is_packed`: pack is a bijection from the representable values onto the `size`-byte
strings — 256 for the 8-bit, 65536 for the 16-bit types — and unpack is its inverse) -/
theorem int_pack_injective (t : IntTy) (v w : Int) (hv : t.inRange v = true) (hw : t.inRange w = true)
    (h : (intCodec t).pack v = (intCodec t).pack w) : v = w := by
  obtain ⟨bs, hp, _, hu⟩ := int_lawful t v hv
  obtain ⟨bs', hp', _, hu'⟩ := int_lawful t w hw
  rw [hp, hp'] at h
  cases h
  have := (hu []).symm.trans (hu' [])
  simp only [Option.some.injEq, Prod.mk.injEq] at this
  exact this.1

/-- the same for the float / double bit patterns -/
theorem bits_buffer_is_packed (k : Nat) (d : List Byte) (h : k ≤ d.length) :
    ∃ n, (bitsCodec k).unpack d = some (n, k) ∧ n < 256 ^ k ∧ (bitsCodec k).pack n = some (d.take k) := by
  have hl : (d.take k).length = k := by simp [List.length_take]; omega
  have hlt : decodeLE (d.take k) < 256 ^ k := by
    have := decodeLE_lt (d.take k)
    rwa [hl] at this
  refine ⟨decodeLE (d.take k), ?_, hlt, ?_⟩
  · simp only [bitsCodec]
    rw [if_neg (by omega)]
  · simp only [bitsCodec]
    rw [if_pos hlt]
    have := encodeLE_decodeLE (d.take k)
    rw [hl] at this
    rw [this]

/-- … and for the IPv4 / IPv6 byte tuples -/
theorem addr_buffer_is_packed (k : Nat) (d : List Byte) (h : k ≤ d.length) :
    ∃ a, (addrCodec k).unpack d = some (a, k) ∧ a.length = k ∧ (addrCodec k).pack a = some (d.take k) := by
  have hl : (d.take k).length = k := by simp [List.length_take]; omega
  refine ⟨d.take k, ?_, hl, ?_⟩
  · simp only [addrCodec]
    rw [if_neg (by omega)]
  · simp only [addrCodec]
    rw [if_pos hl]

/- the bit field, converse direction: `bit_value_injective` (Props/C19.lean) — the eight values read at the
eight positions determine the byte; with `bit_value` that is all 8 indexes x 256 bytes, any trailing bytes. -/

/-! ### non-vacuity: concrete buffers, the boundaries of the signed types among them -/

example : (intCodec .i8).unpack [0x80, 0x7f] = some (-128, 1) ∧ (intCodec .i8).pack (-128) = some [0x80] := by decide
example : (intCodec .i8).unpack [0xff] = some (-1, 1) ∧ (intCodec .u8).unpack [0xff] = some (255, 1) := by decide
example : (intCodec .i16).unpack [0x00, 0x80, 0x01] = some (-32768, 2) ∧
    (intCodec .i16).pack (-32768) = some [0x00, 0x80] := by decide
example : (intCodec .i16).unpack [0xff, 0x7f] = some (32767, 2) ∧ (intCodec .u16).unpack [0xff, 0xff] = some (65535, 2) := by
  decide
example : (intCodec .u16).unpack [0x01] = none := by decide
example : (bitsCodec 4).unpack [0, 0, 0x80, 0x3f, 9] = some (0x3f800000, 4) := by decide
example : (addrCodec 4).unpack [192, 168, 1, 2, 7] = some ([192, 168, 1, 2], 4) := by decide

end PlumVerif.C19

import PlumVerif.Proofs.VersionsOverlap
import PlumVerif.Props.C15
/-
C15, beyond the statement's quantifier: announcements that overlap.

`update_frame_versions` awaits `Request.create` between checking an entry and recording it,
so announcement callbacks in flight at the same time interleave (machine:
Model/VersionsOverlap.lean; a schedule is any list of `announce` / `errors` / `move a`).
* `sequential_exact`: when every announcement is run to its end before the next one arrives,
  the machine does exactly what the sequential model of Props/C15.lean does — today's
  `exact_refreshes` is the overlap-free special case.
* `requests_le_tasks`, `overlap_at_most_doubles`: with overlap a kind can be requested once per
  announcement in flight — never more —, the record is updated once and ends at the announced
  version; `doubled_request_reachable`: two is reached.
This is an observation about the code (reproduced on the implementation with a held executor,
see the evidence), not a violation of the statement.
-/
namespace PlumVerif.C15.Overlap
open PlumVerif.C15

/-! ### no overlap: the sequential model -/

/-- an announcement that is run to its end before anything else happens does what
`C15.announce` says: same requests, same record, same outcome of the callback -/
theorem alone_is_sequential (s : OSt) (w : List Entry) (n : Nat) (hn : (dictOf w).length + 1 ≤ n) :
    let s' := moves (step s (.announce w)) s.nt n
    s'.queue = s.queue ++ (C15.announce s.core w).queued ∧ s'.core = (C15.announce s.core w).st ∧
    (s'.t s.nt).ph = (if (C15.announce s.core w).raised then Phase.raised else Phase.done) ∧
    s'.nt = s.nt + 1 := by
  intro s'
  cases n with
  | zero => simp at hn
  | succ n =>
    have hm : move (step s (.announce w)) s.nt =
        { step s (.announce w) with
          t := upd (step s (.announce w)).t s.nt { (step s (.announce w)).t s.nt with ph := scan s.core (dictOf w) } } := by
      simp [move, step]
    have := solo s.nt (dictOf w) (move (step s (.announce w)) s.nt) n (by rw [hm]; simp [step]) (by omega)
    obtain ⟨i1, i2, i3, _, i5⟩ := this
    have hq : (move (step s (.announce w)) s.nt).queue = s.queue := by rw [hm]; rfl
    have hcore : (move (step s (.announce w)) s.nt).core = s.core := by rw [hm]; rfl
    have hnt : (move (step s (.announce w)) s.nt).nt = s.nt + 1 := by rw [hm]; rfl
    show (moves (move (step s (.announce w)) s.nt) s.nt n).queue = _ ∧ _ ∧ _ ∧
      (moves (move (step s (.announce w)) s.nt) s.nt n).nt = _
    rw [hq, hcore] at i1; rw [hcore] at i2 i3
    exact ⟨i1, i2, i3, by rw [i5, hnt]⟩

/-- the overlap-free schedule of a history: every announcement is followed at once by enough
moves of its own task to finish it -/
def seqSchedule : Nat → List C15.Ev → List Ev
  | _, [] => []
  | i, .errors ks :: r => .errors ks :: seqSchedule i r
  | i, .announce w :: r => .announce w :: (List.replicate ((dictOf w).length + 1) (.move i) ++ seqSchedule (i + 1) r)

theorem run_append (s : OSt) (a b : List Ev) : run s (a ++ b) = run (run s a) b := by
  induction a generalizing s with
  | nil => rfl
  | cons e a ih => simp [run, ih]

theorem run_replicate_move (s : OSt) (a n : Nat) : run s (List.replicate n (.move a)) = moves s a n := by
  induction n generalizing s with
  | zero => rfl
  | succ n ih => simp only [List.replicate_succ, run, step, moves]; exact ih _

/-- **sequential_exact**: without overlap the machine queues exactly the requests of the
sequential model, in the same order, and ends with the same record — for every history -/
theorem sequential_exact (evs : List C15.Ev) (s : OSt) :
    (run s (seqSchedule s.nt evs)).queue = s.queue ++ (C15.run s.core evs).flatMap (·.queued) ∧
    (run s (seqSchedule s.nt evs)).core = C15.final s.core evs := by
  induction evs generalizing s with
  | nil => simp [seqSchedule, run, C15.run, C15.final]
  | cons e evs ih =>
    cases e with
    | errors ks =>
      have := ih (step s (.errors ks))
      simp only [seqSchedule, run, C15.run, C15.final, C15.step, List.flatMap_cons, List.nil_append]
      exact this
    | announce w =>
      obtain ⟨a1, a2, _, a4⟩ := alone_is_sequential s w ((dictOf w).length + 1) (Nat.le_refl _)
      have := ih (moves (step s (.announce w)) s.nt ((dictOf w).length + 1))
      rw [a4, a1, a2] at this
      simp only [seqSchedule, run, run_append, run_replicate_move, C15.run, C15.final, C15.step,
        List.flatMap_cons]
      rw [← List.append_assoc]
      exact this

/-! ### with overlap -/

def isAnnounce : Ev → Bool
  | .announce _ => true
  | _ => false

/-- one callback task per announcement -/
theorem tasks_are_announcements (evs : List Ev) (s : OSt) :
    (run s evs).nt = s.nt + (evs.filter isAnnounce).length := by
  induction evs generalizing s with
  | nil => rfl
  | cons e evs ih =>
    simp only [run]
    rw [ih]
    cases e with
    | announce w =>
      have : (List.filter isAnnounce (Ev.announce w :: evs)).length = (List.filter isAnnounce evs).length + 1 := by
        simp [List.filter_cons, isAnnounce]
      rw [this]; show s.nt + 1 + _ = _; omega
    | errors ks =>
      have : (List.filter isAnnounce (Ev.errors ks :: evs)).length = (List.filter isAnnounce evs).length := by
        simp [List.filter_cons, isAnnounce]
      rw [this]; rfl
    | move a =>
      have : (move s a).nt = s.nt := by
        unfold move; split
        · rfl
        · split <;> rfl
        · rfl
      have h2 : (List.filter isAnnounce (Ev.move a :: evs)).length = (List.filter isAnnounce evs).length := by
        simp [List.filter_cons, isAnnounce]
      rw [h2]; show (move s a).nt + _ = _; rw [this]

/-- **requests_le_tasks**, every schedule: each queued request belongs to one announcement task
that announced that kind, no task queues a kind twice — so a kind is requested at most once
per announcement, however the callbacks interleave -/
theorem requests_le_tasks (evs : List Ev) (k : Nat) :
    let s := run init evs
    s.queue = s.owners.map (·.2) ∧ s.owners.Nodup ∧
    (∀ p ∈ s.owners, p.1 < s.nt ∧ p.2 ∈ keys (s.t p.1).entries) ∧
    s.queue.count k ≤ (evs.filter isAnnounce).length := by
  intro s
  have h := invO_run evs init invO_init
  refine ⟨h.queueOwners, h.ownersNodup, h.ownerTask, ?_⟩
  have hnt : s.nt = (evs.filter isAnnounce).length := by
    have := tasks_are_announcements evs init
    have h0 : init.nt = 0 := rfl
    rw [h0, Nat.zero_add] at this; exact this
  rw [← hnt, h.queueOwners]
  -- the tasks owning a request of kind k are distinct and below nt
  have hcount : (s.owners.map (·.2)).count k = ((s.owners.filter (·.2 == k)).map (·.1)).length := by
    rw [List.length_map, List.count_eq_countP, List.countP_map, List.countP_eq_length_filter]
    congr 1
  rw [hcount]
  apply nodup_lt_length
  · have hnd : (s.owners.filter (·.2 == k)).Nodup := (List.filter_sublist).nodup h.ownersNodup
    exact nodup_map_fst _ k hnd (fun x hx => by simpa using (List.mem_filter.1 hx).2)
  · intro x hx
    simp only [List.mem_map, List.mem_filter] at hx
    obtain ⟨p, ⟨hp, _⟩, rfl⟩ := hx
    exact (h.ownerTask p hp).1

end PlumVerif.C15.Overlap
namespace PlumVerif.C15.Overlap
/-- the uniform scenario: every announcement is `[(c, v)]` -/
structure Uniform (c v : Nat) (s : OSt) : Prop where
  supported : s.core.unsupported = []
  tasks : ∀ a, (s.t a).ph = .absent ∨
    ((s.t a).entries = [(c, v)] ∧ ((s.t a).ph = .created ∨ (s.t a).ph = .awaiting (c, v) [] ∨ (s.t a).ph = .done))
  record : (s.core.versions = [] ∧ s.updates = [] ∧ s.queue = [] ∧ ∀ a, (s.t a).ph ≠ .done) ∨
    (recorded s.core c = some v ∧ s.updates = [(c, v)])
  queue : ∀ x ∈ s.queue, x = c

theorem uniform_step (c v : Nat) (hc : creatable c = true) (s : OSt) (h : Uniform c v s) (e : Ev)
    (he : e = .announce [(c, v)] ∨ ∃ a, e = .move a) : Uniform c v (step s e) := by
  rcases he with rfl | ⟨a, rfl⟩
  · -- a new announcement task
    refine ⟨h.supported, ?_, ?_, h.queue⟩
    · intro j
      by_cases e : j = s.nt
      · subst e; right; simp [step, dictOf, dictInsert, dictSet]
      · simp only [step, upd_other _ _ _ _ e]; exact h.tasks j
    · rcases h.record with ⟨h1, h2, h3, h4⟩ | h2
      · left; refine ⟨h1, h2, h3, ?_⟩
        intro j
        by_cases e : j = s.nt
        · subst e; simp [step]
        · simp only [step, upd_other _ _ _ _ e]; exact h4 j
      · right; exact h2
  · -- task a moves
    show Uniform c v (move s a)
    have hkn : known c = true := creatable_known c hc
    rcases h.tasks a with hab | ⟨hent, hph | hph | hph⟩
    · have : move s a = s := by simp [move, hab]
      rw [this]; exact h
    · -- first run: check the entry
      rcases h.record with ⟨h1, h2, h3, h4⟩ | ⟨h1, h2⟩
      · have hneeds : needs s.core (c, v) = true := by
          simp [needs, hkn, h.supported, recorded, h1]
        have hm : move s a = { s with t := upd s.t a { s.t a with ph := .awaiting (c, v) [] } } := by
          simp [move, hph, hent, scan, hneeds]
        rw [hm]
        refine ⟨h.supported, ?_, Or.inl ⟨h1, h2, h3, ?_⟩, h.queue⟩
        · intro j
          by_cases e : j = a
          · subst e; right; simp [hent]
          · simp only [upd_other _ _ _ _ e]; exact h.tasks j
        · intro j
          by_cases e : j = a
          · subst e; simp
          · simp only [upd_other _ _ _ _ e]; exact h4 j
      · have hneeds : needs s.core (c, v) = false := by simp [needs, h1]
        have hm : move s a = { s with t := upd s.t a { s.t a with ph := .done } } := by
          simp [move, hph, hent, scan, hneeds]
        rw [hm]
        refine ⟨h.supported, ?_, Or.inr ⟨h1, h2⟩, h.queue⟩
        intro j
        by_cases e : j = a
        · subst e; right; simp [hent]
        · simp only [upd_other _ _ _ _ e]; exact h.tasks j
    · -- resumed from Request.create: queue and record
      have hm : move s a = resumeOk s a (c, v) [] := by simp [move, hph, hc]
      rw [hm]
      have hrec : recorded (record s.core c v) c = some v := by simp [recorded_record]
      refine ⟨h.supported, ?_, Or.inr ⟨hrec, ?_⟩, ?_⟩
      · intro j
        by_cases e : j = a
        · subst e; right; simp [resumeOk, hent, scan]
        · simp only [resumeOk, upd_other _ _ _ _ e]; exact h.tasks j
      · rcases h.record with ⟨h1, h2, _, _⟩ | ⟨h1, h2⟩
        · simp [resumeOk, recorded, h1, h2]
        · simp [resumeOk, h1, h2]
      · intro x hx
        simp only [resumeOk, List.mem_append, List.mem_singleton] at hx
        rcases hx with hx | hx
        · exact h.queue x hx
        · exact hx
    · have : move s a = s := by simp [move, hph]
      rw [this]; exact h

/-- **overlap_at_most_doubles**: `k` announcements of the same new version `v` of a request kind
`c`, overlapping in any way (any interleaving of their callbacks): only kind `c` is requested, at
most `k` times (once per announcement in flight), the record changes exactly once — to `v` — as
soon as anything was queued, and every finished callback leaves the record at `v` -/
theorem overlap_at_most_doubles (c v : Nat) (hc : creatable c = true) (evs : List Ev)
    (h : ∀ e ∈ evs, e = .announce [(c, v)] ∨ ∃ a, e = .move a) :
    let s := run init evs
    (∀ x ∈ s.queue, x = c) ∧
    s.queue.length ≤ (evs.filter isAnnounce).length ∧
    (s.updates = [] ∨ s.updates = [(c, v)]) ∧
    (s.queue ≠ [] → recorded s.core c = some v ∧ s.updates = [(c, v)]) ∧
    (∀ a, (s.t a).ph = .done → recorded s.core c = some v) := by
  intro s
  have hU : Uniform c v s := by
    have gen : ∀ (evs : List Ev) (s0 : OSt), Uniform c v s0 →
        (∀ e ∈ evs, e = .announce [(c, v)] ∨ ∃ a, e = .move a) → Uniform c v (run s0 evs) := by
      intro evs
      induction evs with
      | nil => intro s0 h0 _; exact h0
      | cons e es ih =>
        intro s0 h0 hall
        exact ih _ (uniform_step c v hc s0 h0 e (hall e (by simp))) (fun x hx => hall x (by simp [hx]))
    exact gen evs init ⟨rfl, fun a => Or.inl rfl, Or.inl ⟨rfl, rfl, rfl, fun a => by simp [init]⟩,
      by simp [init]⟩ h
  refine ⟨hU.queue, ?_, ?_, ?_, ?_⟩
  · have := (requests_le_tasks evs c).2.2.2
    have hcnt : s.queue.count c = s.queue.length := by
      rw [List.count_eq_length]; intro x hx; exact (hU.queue x hx).symm
    rw [← hcnt]; exact this
  · rcases hU.record with ⟨_, h2, _, _⟩ | ⟨_, h2⟩
    · exact Or.inl h2
    · exact Or.inr h2
  · intro hq
    rcases hU.record with ⟨_, _, h3, _⟩ | h2
    · exact absurd h3 hq
    · exact h2
  · intro a ha
    rcases hU.record with ⟨_, _, _, h4⟩ | h2
    · exact absurd ha (h4 a)
    · exact h2.1

/-- **doubled_request_reachable**: two announcements of the same new version, the second handled
before the first callback resumed — two refresh requests of the same kind, one record update -/
theorem doubled_request_reachable :
    (run init [.announce [(49, 1)], .move 0, .announce [(49, 1)], .move 1, .move 0, .move 1]).queue = [49, 49] ∧
    (run init [.announce [(49, 1)], .move 0, .announce [(49, 1)], .move 1, .move 0, .move 1]).updates = [(49, 1)] := by
  decide

/-- without the overlap: one request -/
example : (run init (seqSchedule 0 [.announce [(49, 1)], .announce [(49, 1)]])).queue = [49] := by decide

/-- different versions in flight: the later resume wins the record, whatever was announced last -/
example : recorded (run init [.announce [(54, 1)], .move 0, .announce [(54, 2)], .move 1, .move 1, .move 0]).core 54
    = some 1 := by decide

end PlumVerif.C15.Overlap
